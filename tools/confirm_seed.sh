#!/bin/bash
# usage: confirm_seed.sh <seed-id> <src-dir>   e.g. confirm_seed.sh C05-a /tmp/seedout/C05-a
# Confirms a seeded change in a scratch worktree: builds, suite green with the change, demo fails with it and passes without.
set -u
id="$1"; src="$2"
export GOFLAGS=-mod=mod GOPROXY=off GOSUMDB=off GOTOOLCHAIN=local
wt=/tmp/confirm/$id
rm -rf "$wt"; git -C /repo worktree prune
git -C /repo worktree add --detach "$wt" HEAD >/dev/null 2>&1 || { echo "$id worktree failed"; exit 2; }
cd "$wt"
res() { echo "$id $*"; }
meta="$src/meta.json"
demo_file=$(python3 -c "import json;print(json.load(open('$meta'))['demo_file'])")
demo_run=$(python3 -c "import json;print(json.load(open('$meta'))['demo_run'])")
git apply "$src/patch.diff" || { res "PATCH-DOES-NOT-APPLY"; git -C /repo worktree remove --force "$wt"; exit 1; }
go build ./... >/tmp/confirm/$id.build 2>&1 || { res "BUILD-FAILS"; git -C /repo worktree remove --force "$wt"; exit 1; }
go test -vet=off -count=1 ./pkg/... >/tmp/confirm/$id.suite 2>&1
suite_rc=$?
if [ $suite_rc -ne 0 ]; then
  # retry once: two timing tests are flaky
  go test -vet=off -count=1 ./pkg/... >/tmp/confirm/$id.suite 2>&1; suite_rc=$?
fi
cp "$src/$(basename $demo_file)" "$demo_file"
bash -c "$demo_run" >/tmp/confirm/$id.demo_with 2>&1; with_rc=$?
git apply -R "$src/patch.diff"
bash -c "$demo_run" >/tmp/confirm/$id.demo_without 2>&1; without_rc=$?
res "suite_rc=$suite_rc demo_with_change_rc=$with_rc demo_without_change_rc=$without_rc"
cd /; git -C /repo worktree remove --force "$wt"; git -C /repo worktree prune
[ $suite_rc -eq 0 ] && [ $with_rc -ne 0 ] && [ $without_rc -eq 0 ]
