#!/usr/bin/env python3
"""Development aid (not registered in MANIFEST): filters the survivors of `hapverif mutsurvey`
by the repository's own test-suite. A mutant that the existing tests kill is not a realistic
"passes the suite" change, so rule-writing effort goes to the ones that survive both.
Runs in scratch worktrees under /tmp/mutwt (removed at the end), never touches /repo's tree.
usage: mut_vs_tests.py <survey.jsonl> <out.jsonl> [workers]"""
import json, os, subprocess, sys, threading, queue, shutil
src, out = sys.argv[1], sys.argv[2]
workers = int(sys.argv[3]) if len(sys.argv) > 3 else 6
env = dict(os.environ, GOFLAGS="-mod=mod", GOPROXY="off", GOSUMDB="off", GOTOOLCHAIN="local")
rows = [json.loads(l) for l in open(src)]
surv = [r for r in rows if r["outcome"] == "survived" and not r["op"].startswith("del-call")]
done = set()
if os.path.exists(out):
    for l in open(out):
        try:
            r = json.loads(l); done.add((r["file"], r["start"], r["end"], r["new"]))
        except Exception: pass
todo = [r for r in surv if (r["file"], r["start"], r["end"], r["new"]) not in done]
print(len(surv), "survivors,", len(todo), "to run", file=sys.stderr)
q = queue.Queue()
for r in todo: q.put(r)
lock = threading.Lock()
outf = open(out, "a")
EXTRA = {"pkg/haproxy/types": ["./pkg/haproxy/"], "pkg/converters/utils": ["./pkg/converters/ingress/"], "pkg/converters/tracker": ["./pkg/converters/ingress/"],
         "pkg/converters/ingress/annotations": [], "pkg/utils/workqueue": ["./pkg/utils/"]}
def worker(i):
    wt = "/tmp/mutwt/%d" % i
    subprocess.run(["git", "-C", "/repo", "worktree", "remove", "--force", wt], capture_output=True)
    subprocess.run(["git", "-C", "/repo", "worktree", "prune"], capture_output=True)
    subprocess.run(["git", "-C", "/repo", "worktree", "add", "--detach", wt, "HEAD"], capture_output=True)
    while True:
        try: r = q.get_nowait()
        except queue.Empty: break
        path = os.path.join(wt, r["file"])
        orig = open(path, "rb").read()
        if orig[r["start"]:r["end"]].decode() != r["old"]:
            res = "stale"
        else:
            open(path, "wb").write(orig[:r["start"]] + r["new"].encode() + orig[r["end"]:])
            d = os.path.dirname(r["file"])
            pk = ["./" + d + "/"] + EXTRA.get(d, [])
            try:
                p = subprocess.run(["go", "test", "-vet=off", "-count=1", "-timeout", "120s"] + pk, cwd=wt, env=env, capture_output=True, text=True, timeout=400)
                if p.returncode == 0: res = "tests-pass"
                elif "[build failed]" in p.stdout or "[build failed]" in p.stderr: res = "build-fails"
                else: res = "tests-fail"
            except subprocess.TimeoutExpired:
                res = "tests-timeout"
            open(path, "wb").write(orig)
        r2 = dict(r); r2["tests"] = res
        with lock:
            outf.write(json.dumps(r2) + "\n"); outf.flush()
    subprocess.run(["git", "-C", "/repo", "worktree", "remove", "--force", wt], capture_output=True)
ts = [threading.Thread(target=worker, args=(i,)) for i in range(workers)]
for t in ts: t.start()
for t in ts: t.join()
subprocess.run(["git", "-C", "/repo", "worktree", "prune"], capture_output=True)
