#!/usr/bin/env python3
"""Fills the generated blocks of DESIGN.md (summary table, rule list, seed tables)."""
import json, os, re, subprocess, glob
ROOT = os.path.dirname(os.path.dirname(os.path.abspath(__file__)))
d = open(ROOT + "/DESIGN.md").read()
def fill(name, text):
    global d
    a = "<!-- BEGIN GENERATED %s -->" % name
    b = "<!-- END GENERATED %s -->" % name
    i, j = d.index(a) + len(a), d.index(b)
    d = d[:i] + "\n" + text.rstrip("\n") + "\n" + d[j:]
rules_md = subprocess.run([ROOT + "/bin/hapverif", "rules"], capture_output=True, text=True).stdout
fill("rules", rules_md)
# summary
rows = []
SHORT = {
 "C01": "every read / acquire / conflict-skip in the converters is linked in the tracker; every tracked derived kind is consumed by syncPartial; pre-tracking, pipeline and merge order; full-sync fallback table",
 "C02": "all model sections compared; frozen mask sets; every socket answer validated and every verdict used and monotone; commands counted; write-iff and reload-on-miss; shard flags",
 "C03": "drain guard and weight 0; ready/not-ready split tables; duplicate path rejected before linking; creation-order comparators; HTTPS map only for TLS hosts; template fallback chain",
 "C04": "decision tables of overlaps() and of the four comparators; key construction and case consistency; file priority; upper-bound bookkeeping; exhaustive pair loops",
 "C05": "dirty-bit pairing for every model container; shard writes flag the shard; Clear carries old shards onto the new object; Shrink re-flags; skip guards; shard loop complete",
 "C06": "every range over a Go map classified (insensitive / sorted / listed / sensitive); list sorters total; first writer wins in the mapper",
 "C07": "reference closure of literal backend names Go <-> template with guards; live userlist; path-id and auth-port allocators; passthrough counter; default backend cleared on removal",
 "C08": "256-row table of IsValidIngress (both controllers) = documented rules; getters filter per element; watcher reclassification tables; IngressClass forces full sync",
 "C09": "resolver table; permission-bit wiring; reads keyed by the resolver's result; reader's own namespace at every call site; value-derived namespaces only past the check; bits current before parsing",
 "C10": "tables of the three admission functions and three getters; per-parentRef namespace; class recomputed on every call; creation only past admission; rejected listener skipped, not the rest",
 "C11": "pipeline order; Shrink match tables and restore of the committed object; endpoint identity; alignSlots visits all backends and flags what it pads (typestate); slot reuse",
 "C12": "Commit on error exits (6 known findings, keyed); marker after success; reload on every failed dynamic update; error propagation and requeue; verdict monotone; buffer reset before render",
 "C13": "every deadline handed out is recorded; pending deadline returned unchanged; `last` under mutex; every enqueue through the limiter; Get/Done; limiter wiring",
 "C14": "guarded-by over the VTA call graph for every access of the accumulator; copy then re-init in one critical section, nothing shared; carry table; handlers complete",
 "C15": "first assignment wins; addTLS fallback; malformed secret rejected; permission bit and reader namespace; reader linked before read; crt-list tables; rotation condition; pem always written",
 "C16": "arithmetic NOT decided; clamp 0..256; zeroing and draining skip; rebalance called with the right base and read back; lcm/gcd accumulator discipline; zero stays zero; label presence",
 "C17": "verify table (sign iff unreadable/expiring/not covering); match is an all-quantifier; store only with crt and key; leader gating; shrink before building add/del; declaration table",
 "C18": "typestate of AuthExternal at every exit (deny | allow+backend | excused); name from the acquire that succeeded; only two writers; declaration implies configuration and is never dropped; template pair",
 "C19": "stored snippet is the scanned one; store only after the keyword loop is exhausted; `*` and first-token hits return; one writer; blank table covers ASCII blanks",
}
listing = subprocess.run([ROOT + "/bin/hapverif", "list"], capture_output=True, text=True).stdout
cur = None; counts = {}
for line in listing.splitlines():
    if not line.startswith(" "):
        cur = line.split(" ", 1)[0]; counts[cur] = 0
    else:
        counts[cur] += 1
short = {}
for m in re.finditer(r"### (C\d\d) — (.*)\n\nDecided: (.*)\n", rules_md):
    short[m.group(1)] = (m.group(2), m.group(3))
for pid in sorted(counts):
    ev = json.load(open(ROOT + "/evidence/%s.json" % pid))
    title, dec = short[pid]
    first = SHORT.get(pid, dec[:170])
    rows.append("| %s | %d | %d (%d known findings) | %s |" % (pid, counts[pid], ev["coverage"]["obligations"], ev["coverage"].get("known_findings", 0), first))
fill("summary", "\n".join(rows))
# seeds
out = []
for rnd, pat, head in [(1, "C??-[ab]", "Round 1 (not independent of the rules, see above)"), (2, "C??-[cd]", "Round 2 (requested after all checks existed)"), (3, "C??-[ef]", "Round 3 (requested after the round-2 strengthening; `before` = checker frozen before the agents started)"), (4, "C??-[gh]", "Round 4 (requested after the round-3 strengthening and the mutation-survey rules; `before` = checker frozen at 5d70da5)"), (5, "C??-[ij]", "Round 5 (requested after the round-4 strengthening; `before` = checker frozen at 7a4f052)"), (6, "C??-[kl]", "Round 6 (requested after the round-5 strengthening: layer sharing and generated tables; `before` = checker frozen at 81f416d)"), (7, "C??-[mn]", "Round 7 (tables scoped to anchored functions; `before` = checker frozen at def8b66)"), (8, "C??-[op]", "Round 8 (`before` = checker frozen at 666c15e)"), (9, "C??-[qr]", "Round 9 (`before` = checker frozen at 2812b0e)"), (10, "C??-[st]", "Round 10 (`before` = checker frozen at 10f3e0c)"), (11, "C??-[uv]", "Round 11 (`before` = checker frozen at 6775069)"), (12, "C??-[wx]", "Round 12 (the agents were asked to prefer wiring, templates, scripts, helper packages and the legacy runtime; `before` = checker frozen at 746f252)"), (13, "C??-[yz]", "Round 13 (the agents were asked for changes that read as modernising refactors; `before` = checker frozen at caedceb)"), (14, "C??-[12]", "Round 14 (the agents were asked for changes in error paths, fault handling and concurrency; `before` = checker frozen at a0e7e8a)")]:
    out.append("**%s**\n" % head)
    if rnd == 1:
        out.append("| id | change (summary by its author) | needs | caught by |")
        out.append("|----|-------------------------------|-------|-----------|")
    else:
        out.append("| id | change (summary by its author) | needs | caught before strengthening | caught now by |")
        out.append("|----|-------------------------------|-------|------------------------------|---------------|")
    for mf in sorted(glob.glob(ROOT + "/seeded/%s/meta.json" % pat)):
        m = json.load(open(mf))
        def cell(s, n):
            s = (s or "").replace("\n", " ").replace("|", "/")
            return s[:n] + ("…" if len(s) > n else "")
        now = ", ".join(m["detected_by"]["rules"]) or "**missed**"
        if rnd == 1:
            out.append("| %s | %s | %s | %s |" % (m["id"], cell(m["summary"], 230), cell(m["needs_to_manifest"], 170), now))
        else:
            b = m["detected_before_strengthening"]
            before = ", ".join(b["rules"]) if b["caught"] else "no"
            out.append("| %s | %s | %s | %s | %s |" % (m["id"], cell(m["summary"], 230), cell(m["needs_to_manifest"], 170), before, now))
    out.append("")
fill("seeds", "\n".join(out))
open(ROOT + "/DESIGN.md", "w").write(d)
print("DESIGN.md regenerated:", len(d.splitlines()), "lines")
