#!/bin/bash
# runs every claimed check (quick) and validates evidence files against the schema
cd /verif
rc=0
for p in $(python3 -c "import json;print(' '.join(c['property_id'] for c in json.load(open('MANIFEST.json'))['checks']))"); do
  out=$(bin/hapverif check --property $p --tier ${1:-quick} 2>&1); r=$?
  echo "$p rc=$r $(echo "$out" | head -1 | sed 's/.*\[/[/')  viol=$(echo "$out" | grep -c '^VIOLATION') known=$(echo "$out" | grep -c '^KNOWN-FINDING')"
  [ $r -ne 0 ] && rc=1
done
python3-vt - <<'P'
import json, jsonschema, glob
s=json.load(open('/root/.vp/EVIDENCE.schema.json'))
m=json.load(open('/verif/MANIFEST.json'))
jsonschema.validate(m,json.load(open('/root/.vp/MANIFEST.schema.json')))
for c in m['checks']:
    e=json.load(open(c['evidence_file']))
    jsonschema.validate(e,s)
print("manifest + %d evidence files valid"%len(m['checks']))
P
exit $rc
