#!/bin/bash
# usage: seedrun.sh <patch.diff> <property> [tier]
# Applies a seeded change to /repo, runs the property's check, and undoes the change.
set -u
patch="$1"; prop="$2"; tier="${3:-quick}"
cd /repo || exit 2
if ! git diff --quiet; then echo "repo dirty, refusing"; exit 2; fi
cp /verif/known_findings.json /tmp/seedrun-verif/ 2>/dev/null
git apply "$patch" || { echo "patch does not apply"; exit 2; }
/verif/bin/hapverif check --property "$prop" --tier "$tier" --verif /tmp/seedrun-verif 2>&1 | grep -v "^  C[0-9][0-9]\." | head -${SEEDRUN_LINES:-12}
rc=${PIPESTATUS[0]}
git checkout -- . 
git status --short | grep -v '^??' 
exit $rc
