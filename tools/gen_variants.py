#!/usr/bin/env python3
"""Writes /verif/variants/<prop>/<name>.json — single-edit variants for the sensitivity sweep of the
thorough tier. Each `old` must occur exactly once in the file on the tree the variant was written for;
a variant that no longer applies is reported not-applicable at run time (not a failure)."""
import json, os, sys
ROOT = os.path.dirname(os.path.dirname(os.path.abspath(__file__)))
ING = "pkg/converters/ingress/ingress.go"
ANNB = "pkg/converters/ingress/annotations/backend.go"
ANNH = "pkg/converters/ingress/annotations/host.go"
ANNG = "pkg/converters/ingress/annotations/global.go"
MAPPER = "pkg/converters/ingress/annotations/mapper.go"
CONV = "pkg/converters/converters.go"
GW = "pkg/converters/gateway/gateway.go"
CACHE = "pkg/controller/services/cache.go"
LEGACY = "pkg/controller/legacy/cache.go"
WATCH = "pkg/controller/reconciler/watchers.go"
RECON = "pkg/controller/reconciler/reconciler.go"
SVC = "pkg/controller/services/services.go"
DYN = "pkg/haproxy/dynupdate.go"
INST = "pkg/haproxy/instance.go"
CFG = "pkg/haproxy/config.go"
BACKENDS = "pkg/haproxy/types/backends.go"
BACKEND = "pkg/haproxy/types/backend.go"
HOST = "pkg/haproxy/types/host.go"
MAPS = "pkg/haproxy/types/maps.go"
FRONT = "pkg/haproxy/types/frontend.go"
GLOBALT = "pkg/haproxy/types/global.go"
RL = "pkg/utils/workqueue/ratelimiters.go"
WQ = "pkg/utils/workqueue/workqueue.go"
SVCU = "pkg/converters/utils/services.go"
TRK = "pkg/converters/tracker/tracker.go"
SIGNER = "pkg/acme/signer.go"
TMPL = "rootfs/etc/templates/haproxy/haproxy.tmpl"

V = []
def v(prop, name, file, old, new, rule, key="", note=""):
    V.append(dict(property=prop, name=name, note=note, edits=[dict(file=file, old=old, new=new)], expect=[dict(rule=rule, key=key)]))

TRACK_SVC = """	c.tracker.TrackRefName([]convtypes.TrackingRef{
		{Context: convtypes.ResourceService, UniqueName: fullSvcName},
		{Context: convtypes.ResourceEndpoints, UniqueName: fullSvcName},
	}, ctx, hostname)
	if err != nil {
		return nil, err
	}
"""
v("C01", "track-service-after-error-return", ING, TRACK_SVC, """	if err != nil {
		return nil, err
	}
	c.tracker.TrackRefName([]convtypes.TrackingRef{
		{Context: convtypes.ResourceService, UniqueName: fullSvcName},
		{Context: convtypes.ResourceEndpoints, UniqueName: fullSvcName},
	}, ctx, hostname)
""", "C01.read-tracked", "addBackendWithClass", "a service that does not exist yet is never linked: its later creation does not re-sync the ingress")
v("C01", "drop-userlists-removeall", ING, "	c.haproxy.Userlists().RemoveAll(dirtyUsers)\n", "	_ = dirtyUsers\n", "C01.kinds-consumed")
v("C01", "drop-gateway-from-full-fallback", CONV, "		gatewayConverter.NeedFullSync() ||\n", "", "C01.full-fallback")
v("C01", "addhost-untracked", ING, "	c.tracker.TrackNames(source.Type, source.FullName(), convtypes.ResourceHAHostname, hostname)\n	mapper, found := c.hostAnnotations[host]\n", "	mapper, found := c.hostAnnotations[host]\n", "C01.acquire-tracked")
v("C01", "pretrack-after-query", ING, "	c.trackAddedIngress()\n	trackedLinks := c.tracker.QueryLinks(c.changed.Links, true)\n", "	trackedLinks := c.tracker.QueryLinks(c.changed.Links, true)\n	c.trackAddedIngress()\n", "C01.partial-order")
v("C01", "tcp-conflict-untracked", ING, "	c.tracker.TrackNames(source.Type, source.FullName(), convtypes.ResourceHATCPService, hostname)\n	if !tcpHost.Backend.IsEmpty() {", "	if !tcpHost.Backend.IsEmpty() {", "C01.conflict-tracked")
v("C01", "gateway-sync-on-partial", GW, "	if !full {\n		return\n	}\n\n	c.syncHTTPRoutes(gwtyp)", "	c.syncHTTPRoutes(gwtyp)", "C01.gateway-full")
v("C01", "passwd-getter-tracks-after-read", CACHE, """	c.tracker.TrackRefName(track, convtypes.ResourceSecret, namespace+"/"+name)
	secret := api.Secret{}
	err = c.client.Get(c.ctx, types.NamespacedName{Namespace: namespace, Name: name}, &secret)
	if err != nil {
		return nil, err
	}
	keyName := "auth\"""", """	secret := api.Secret{}
	err = c.client.Get(c.ctx, types.NamespacedName{Namespace: namespace, Name: name}, &secret)
	if err != nil {
		return nil, err
	}
	c.tracker.TrackRefName(track, convtypes.ResourceSecret, namespace+"/"+name)
	keyName := "auth\"""", "C01.cache-honours")

v("C02", "discard-disable-result", DYN, """			if !d.execDisableEndpoint(curBack.ID, pair.old) || pair.old.Label != "" {""", """			_ = d.execDisableEndpoint(curBack.ID, pair.old)
			if pair.old.Label != "" {""", "C02.responses")
v("C02", "write-iff-more-than-one-command", INST, "	if !updated || updater.cmdCnt > 0 {", "	if !updated || updater.cmdCnt > 1 {", "C02.write-iff")
v("C02", "mask-server-config", DYN, "	oldBackCopy.Endpoints = curBack.Endpoints\n", "	oldBackCopy.Endpoints = curBack.Endpoints\n	oldBackCopy.Server = curBack.Server\n", "C02.masks")
v("C02", "userlists-not-compared", DYN, """	if d.config.userlists.Changed() {
		diff = append(diff, "userlists")
	}
""", "", "C02.sections-diffed")
v("C02", "accept-unknown-response", DYN, """strings.HasPrefix(response, "no need to change ")""", """strings.HasPrefix(response, "no need to change ") || strings.HasPrefix(response, "No such")""", "C02.responses")
v("C02", "socket-error-ignored", DYN, """	msg, err := d.execCommand(d.metrics.HAProxySetServerResponseTime, cmd)
	if err != nil {
		d.logger.Error("error disabling endpoint %s/%s: %v", backname, ep.Name, err)
		return false
	}""", """	msg, err := d.execCommand(d.metrics.HAProxySetServerResponseTime, cmd)
	if err != nil {
		d.logger.Error("error disabling endpoint %s/%s: %v", backname, ep.Name, err)
	}""", "C02.responses")
v("C02", "commands-not-counted", DYN, "	d.cmdCnt = d.cmdCnt + len(cmd)\n", "", "C02.counted")
v("C02", "reload-without-lock", SVC, """	s.log.Info("acquiring haproxy reload lock")
	s.modelMutex.Lock()
	defer s.modelMutex.Unlock()
""", """	s.log.Info("acquiring haproxy reload lock")
""", "C02.model-lock")

v("C03", "notready-keeps-weight", ING, """			ep := backend.AcquireEndpoint(addr.IP, addr.Port, addr.TargetRef)
			ep.Weight = 0
		}
		pods, err""", """			_ = backend.AcquireEndpoint(addr.IP, addr.Port, addr.TargetRef)
		}
		pods, err""", "C03.drain")
v("C03", "matchport-and", SVCU, """	return svcPort.Name == "" || svcPort.Name == epPort.Name""", """	return svcPort.Name == "" && svcPort.Name == epPort.Name""", "C03.ready-split")
v("C03", "https-map-without-tls", CFG, "				} else if host.HasTLS() {\n", "				} else {\n", "C03.https-tls")
v("C03", "duplicate-path-on-passthrough", ING, "			} else if host.FindPathWithLink(pathLink) != nil {", "			} else if host.FindPathWithLink(pathLink) != nil && !sslpassthrough {", "C03.dup-path")
v("C03", "drain-guard-dropped", ING, """	if c.globalConfig.Get(ingtypes.GlobalDrainSupport).Bool() {
		for _, addr := range notReady {""", """	if c.globalConfig.Get(ingtypes.GlobalDrainSupport).Bool() || len(notReady) > 0 {
		for _, addr := range notReady {""", "C03.drain")
v("C03", "error404-always-defined", TMPL, "{{- if not $backends.DefaultBackend }}\n", "{{- if $backends.DefaultBackend }}\n", "C03.fallback-chain")

v("C04", "default-sort-path-ascending", MAPS, """				return v1.path > v2.path
			}
			return v1.Key < v2.Key""", """				return v1.path < v2.path
			}
			return v1.Key < v2.Key""", "C04.file-order")
v("C04", "overlaps-ignores-equal-paths", MAPS, "		e1.path != e2.path &&\n", "", "C04.overlaps")
v("C04", "key-without-separator", MAPS, """		return hostname + "#" + path""", """		return hostname + "/" + path""", "C04.key")
v("C04", "exact-files-last", MAPS, "					order.PushFront(matchFile)", "					order.PushBack(matchFile)", "C04.priority")
v("C04", "regex-shorter-first", MAPS, "				return len(k1) > len(k2)", "				return len(k1) < len(k2)", "C04.file-order")

v("C05", "removeall-does-not-flag-shard", BACKENDS, "			b.BackendChanged(item)\n			b.itemsDel[id] = item", "			b.itemsDel[id] = item", "C05.shard-flag")
v("C05", "host-removal-not-recorded", HOST, "			h.itemsDel[hostname] = item\n", "", "C05.dirty-bit")
v("C05", "backend-maps-skip-needs-frontend-maps", CFG, "	if !c.backends.Changed() {\n		// backends are clean, maps are updated", "	if !c.backends.Changed() && c.frontend.Maps != nil {\n		// backends are clean, maps are updated", "C05.skip-guards")
v("C05", "shard-content-of-loop-counter", INST, "					Backends: i.config.Backends().BuildSortedShard(j),", "					Backends: i.config.Backends().BuildSortedShard(n),", "C05.shard-loop")
v("C05", "userlists-never-committed", CFG, "	c.userlists.Commit()\n", "", "C05.commit-clears")
v("C05", "clear-drops-old-items", BACKENDS, "	nb.itemsDel = b.items\n", "", "C05.clear-carries")
v("C05", "acquire-not-in-itemsadd", BACKENDS, "	b.itemsAdd[backend.ID] = backend\n", "", "C05.dirty-bit")

v("C06", "querylinks-unsorted", TRK, "		sort.Strings(idlist)\n", "		_ = sort.Strings\n", "C06.map-ranges")
v("C06", "notready-unsorted", SVCU, """	sort.Slice(notReady, func(i, j int) bool {
		return notReady[i].Target < notReady[j].Target
	})
""", "", "C06.lists-sorted")
v("C06", "mapper-last-writer-wins", MAPPER, """	if cv, found := config.keys[key]; found {
		// there is a conflict only if values differ
		return cv.Value != value
	}""", """	if cv, found := config.keys[key]; found {
		// there is a conflict only if values differ
		conflict := cv.Value != value
		config.keys[key] = &ConfigValue{Source: source, Value: value}
		return conflict
	}""", "C06.first-writer")
v("C06", "hostnames-unsorted", BACKEND, """	sort.Slice(hosts, func(i, j int) bool {
		return hosts[i] < hosts[j]
	})
	return hosts""", "	return hosts", "C06.map-ranges")
v("C06", "find-first-tls-host", HOST, """func (h *Hosts) HasTLSAuth() bool {
	for _, host := range h.items {
		if host.TLS.CAFilename != "" {
			return true
		}
	}
	return false
}""", """func (h *Hosts) HasTLSAuth() bool {
	return h.firstTLSAuth() != ""
}

func (h *Hosts) firstTLSAuth() string {
	for _, host := range h.items {
		if host.TLS.CAFilename != "" {
			return host.Hostname
		}
	}
	return ""
}""", "C06.map-ranges", "firstTLSAuth", "a new first-match-in-map-order helper")

v("C07", "error404-defined-under-other-guard", TMPL, "{{- if not $backends.DefaultBackend }}\n", "{{- if $global.DefaultBackendRedir }}\n", "C07.names-closed")
v("C07", "path-id-from-len", BACKEND, """		ID:   fmt.Sprintf("path%02d", len(b.Paths)+1),""", """		ID:   fmt.Sprintf("path%02d", len(b.Paths)),""", "C07.path-ids")
v("C07", "port-exhaustion-not-reported", FRONT, """	if freePort > proxy.RangeEnd {
		return "", fmt.Errorf("auth proxy list is full")
	}
""", "", "C07.auth-ports")
v("C07", "sanitize-returns-on-collision", BACKEND, "			return b.sanitizeName(name, idx+1)", "			break", "C07.server-names")
v("C07", "redirect-https-for-every-host", CFG, """						if backendID == "" {
							backendID = "_redirect_https"
						}
					}
				} else if host.HasTLS() {""", """					}
				} else if host.HasTLS() {""", "C07.names-closed", "", "the constant disappears: producer not found")

v("C08", "legacy-annotation-or", LEGACY, "		fromAnn = hasAnn && ann == c.cfg.IngressClass", "		fromAnn = hasAnn || ann == c.cfg.IngressClass", "C08.decision", "legacy")
v("C08", "list-unfiltered", CACHE, "		if c.IsValidIngress(ing) {\n			items[i] = ing", "		if true {\n			items[i] = ing", "C08.filter")
v("C08", "delete-list-gets-new-object", WATCH, "					w.ch.IngressesDel = append(w.ch.IngressesDel, oldIng)", "					w.ch.IngressesDel = append(w.ch.IngressesDel, newIng)", "C08.watch-table")
v("C08", "ingressclass-partial", WATCH, "			// so only a full sync finds it when its class starts to be valid\n			full: true,\n", "			// so only a full sync finds it when its class starts to be valid\n", "C08.validity-deps")
v("C08", "precedence-ignored", CACHE, "			if c.config.IngressClassPrecedence {\n", "			if c.config.IngressClassPrecedence && fromClass {\n", "C08.decision", "services")
v("C08", "create-predicate-always", WATCH, """					CreateFunc: func(ce event.CreateEvent) bool {
						return w.val.IsValidIngress(ce.Object.(*networking.Ingress))
					},""", """					CreateFunc: func(ce event.CreateEvent) bool {
						return w.val.IsValidIngress(ce.Object.(*networking.Ingress)) || ce.Object.GetNamespace() == w.cfg.PodNamespace
					},""", "C08.watch-table")

v("C09", "resolver-any-namespace", CACHE, "	if allowCrossNamespace || ns == defaultNamespace {", """	if allowCrossNamespace || ns != "" {""", "C09.resolver", "services")
v("C09", "addtls-without-reader-namespace", ING, "			source.Namespace,\n			secretName,", "			\"\",\n			secretName,", "C09.reader-ns")
v("C09", "authurl-wrong-bit", ANNB, "namespace != url.Source.Namespace && !c.options.DynamicConfig.CrossNamespaceServices {", "namespace != url.Source.Namespace && !c.options.DynamicConfig.CrossNamespaceSecretCA {", "C09.model-lookup")
v("C09", "services-opened-by-command-line", ANNG, "	c.options.DynamicConfig.CrossNamespaceServices =\n		c.validateAllowDeny(d, ingtypes.GlobalCrossNamespaceServices)", "	c.options.DynamicConfig.CrossNamespaceServices =\n		staticSecrets || c.validateAllowDeny(d, ingtypes.GlobalCrossNamespaceServices)", "C09.allow-table")
v("C09", "read-before-resolve-error", CACHE, """	namespace, name, err := buildResourceName(defaultNamespace, "service", serviceName, c.dynconfig.CrossNamespaceServices)
	if err != nil {
		return nil, err
	}
	service := api.Service{}""", """	namespace, name, err := buildResourceName(defaultNamespace, "service", serviceName, c.dynconfig.CrossNamespaceServices)
	if err != nil {
		namespace, name, _ = cache.SplitMetaNamespaceKey(serviceName)
	}
	service := api.Service{}""", "C09.fetch-checked")
v("C09", "protocol-parses-own-namespace", MAPPER, "		return s.Namespace, cv.Value, nil", "		if len(value) == 2 {\n			return value[0], value[1], nil\n		}\n		return s.Namespace, cv.Value, nil", "C09.reader-ns")
v("C09", "authsecret-check-dropped", ANNB, """		} else if !strings.HasPrefix(secretName, authSecret.Source.Namespace+"/") && !c.options.DynamicConfig.CrossNamespaceSecretPasswd {""", """		} else if !strings.HasPrefix(secretName, authSecret.Source.Namespace+"/") && !c.options.DynamicConfig.CrossNamespaceSecretPasswd && authSecret.Source.Type != "ingress" {""", "C09.model-lookup")

v("C10", "kind-mismatch-allowed", GW, """	return fmt.Errorf("listener does not allow route of Kind '%s'", routeSource.kind)""", "	return nil", "C10.allowed")
v("C10", "foreign-class-returned-b1", CACHE, "	if err == nil && !c.IsValidGatewayB1(&gw) {\n		return nil, nil", "	if err == nil && !c.IsValidGatewayB1(&gw) {\n		return &gw, nil", "C10.class")
v("C10", "tcp-section-name-inverted", GW, """		if sectionName != nil && *sectionName != listener.Name {
			continue
		}
		if err := c.checkListenerAllowed(gatewaySource, &tcpRouteSource.source, &listener); err != nil {""", """		if sectionName != nil && *sectionName == listener.Name {
			continue
		}
		if err := c.checkListenerAllowed(gatewaySource, &tcpRouteSource.source, &listener); err != nil {""", "C10.listener")
v("C10", "same-namespace-inverted", GW, "routeSource.namespace == gatewaySource.namespace {", "routeSource.namespace != gatewaySource.namespace {", "C10.allowed")
v("C10", "nil-gateway-attached", GW, "		if gatewaySource == nil {\n			continue\n		}\n", "", "C10.parent")
v("C10", "http-backend-before-admission", GW, """		if err := c.checkListenerAllowed(gatewaySource, &httpRouteSource.source, &listener); err != nil {
			c.logger.Warn("skipping attachment of %s to %s listener '%s': %s",
				httpRouteSource, gatewaySource, listener.Name, err)
			continue
		}""", """		if err := c.checkListenerAllowed(gatewaySource, &httpRouteSource.source, &listener); err != nil {
			c.logger.Warn("skipping attachment of %s to %s listener '%s': %s",
				httpRouteSource, gatewaySource, listener.Name, err)
		}""", "C10.listener")

v("C11", "padding-not-flagged", DYN, """		for i := 0; i < newFreeSlots; i++ {
			back.AddEmptyEndpoint()
			changed = true
		}""", """		for i := 0; i < newFreeSlots; i++ {
			back.AddEmptyEndpoint()
		}""", "C11.align")
v("C11", "shrink-before-syncconfig", INST, "	i.config.SyncConfig()\n	i.config.Shrink()\n", "	i.config.Shrink()\n	i.config.SyncConfig()\n", "C11.order")
v("C11", "hosts-shrink-keeps-new-object", HOST, "				h.items[name] = del\n", "				h.items[name] = add\n", "C11.shrink-restore")
v("C11", "backends-shrink-ignores-capacity", BACKENDS, "			if len(add.Endpoints) <= len(del.Endpoints) && backendsMatch(add, del) {", "			if backendsMatch(add, del) {", "C11.match-cond")
v("C11", "free-slots-not-carried", DYN, "		curBack.AddEmptyEndpoint().Name = empty[i].Name", "		_ = empty[i].Name", "C11.reuse")

v("C12", "requeue-dropped", RECON, "		return ctrl.Result{RequeueAfter: r.Config.ReloadRetry}, nil", "		return ctrl.Result{}, nil", "C12.propagate")
v("C12", "failed-reload-not-readded", SVC, "		s.reloadQueue.AddAfter(nil, s.Config.ReloadRetry)\n", "", "C12.reload-retry")
v("C12", "reload-failure-not-recorded", INST, "		i.updateSuccessful(false)\n		if i.options.TrackInstances {\n			i.conns.ReleaseLastInstance()", "		if i.options.TrackInstances {\n			i.conns.ReleaseLastInstance()", "C12.reload-retry")
v("C12", "reconcile-error-swallowed", SVC, "	return err\n}\n\nfunc (s *Services) acmeCheck", "	return nil\n}\n\nfunc (s *Services) acmeCheck", "C12.propagate")
v("C12", "new-error-exit-after-commit", INST, """	timer.Tick("write_maps")
	if !i.options.fake {""", """	timer.Tick("write_maps")
	if err := i.modsecTmpl.Write(i.config); err != nil {
		return err
	}
	if !i.options.fake {""", "C12.commit-after-success", "HAProxyUpdate error exit after Write", "a seventh error exit on which the deferred Commit runs: not covered by the six listed findings")

v("C13", "reconcile-deadline-not-recorded", RL, "	r.last = next\n	return next.Sub(now)\n}\n\nfunc (r *ingressReconciler[T]) NumRequeues", "	return next.Sub(now)\n}\n\nfunc (r *ingressReconciler[T]) NumRequeues", "C13.deadline-recorded")
v("C13", "reload-limiter-unlocks-early", RL, "	r.mu.Lock()\n	defer r.mu.Unlock()\n\n	now := time.Now()\n\n	// a reload is already scheduled", "	r.mu.Lock()\n	r.mu.Unlock()\n\n	now := time.Now()\n\n	// a reload is already scheduled", "C13.guarded")
v("C13", "notify-plain-add", WATCH, "	q.AddRateLimited(rparam{fullsync: h.full})", "	q.Add(rparam{fullsync: h.full})", "C13.through-limiter")
v("C13", "done-not-deferred", WQ, "	defer w.queue.Done(item)\n\n", "", "C13.get-done")
v("C13", "reload-limiter-wrong-option", SVC, "workqueue.ReloadHAProxyRateLimiter(cfg.ReloadInterval)", "workqueue.ReloadHAProxyRateLimiter(cfg.ReloadRetry)", "C13.wiring")

v("C14", "generic-without-lock", WATCH, "	h.w.mu.Lock()\n	defer h.w.mu.Unlock()\n	h.w.ch.NeedFullSync = true", "	h.w.ch.NeedFullSync = true", "C14.guarded")
v("C14", "predicate-reads-accumulator", WATCH, """					DeleteFunc: func(de event.DeleteEvent) bool {
						return w.val.IsValidIngress(de.Object.(*networking.Ingress))
					},""", """					DeleteFunc: func(de event.DeleteEvent) bool {
						return w.val.IsValidIngress(de.Object.(*networking.Ingress)) && w.ch != nil
					},""", "C14.guarded")
v("C14", "swap-after-reinit", WATCH, "	ch := *w.ch\n	w.initCh()\n", "	w.initCh()\n	ch := *w.ch\n", "C14.swap")
v("C14", "carry-cur-instead-of-new", WATCH, "			newch.GlobalConfigMapDataCur = w.ch.GlobalConfigMapDataNew", "			newch.GlobalConfigMapDataCur = w.ch.GlobalConfigMapDataCur", "C14.carry")
v("C14", "delete-skips-compose-without-callback", WATCH, """	if h.del != nil {
		h.del(e.Object)
	}
	h.compose("del", e.Object)""", """	if h.del != nil {
		h.del(e.Object)
		h.compose("del", e.Object)
	}""", "C14.handlers")
v("C14", "links-map-shared", WATCH, "	w.ch = newch\n	w.ch.Links = types.TrackingLinks{}", "	if w.ch != nil && len(w.ch.Links) == 0 {\n		newch.Links = w.ch.Links\n	} else {\n		newch.Links = types.TrackingLinks{}\n	}\n	w.ch = newch", "C14.swap")

v("C15", "later-ingress-replaces-certificate", ING, """			if host.TLS.TLSHash == "" {
				host.TLS.TLSFilename = tlsPath.Filename""", """			if host.TLS.TLSHash == "" || tls.SecretName != "" {
				host.TLS.TLSFilename = tlsPath.Filename""", "C15.first-wins")
v("C15", "unparsed-certificate-accepted", CACHE, """	if sslCert.PemFileName == "" || sslCert.Certificate == nil {""", """	if sslCert.PemFileName == "" {""", "C15.malformed")
v("C15", "default-entry-without-filter", CFG, """Key: c.frontend.DefaultCrtFile + " !*"})""", """Key: c.frontend.DefaultCrtFile})""", "C15.crt-list")
v("C15", "rotate-across-files", DYN, "		oldHost.TLS.TLSFilename == curHost.TLS.TLSFilename &&\n", "", "C15.rotate")
v("C15", "addtls-returns-failed-read", ING, """		if err == nil {
			return tlsFile
		}
		c.logger.Warn("using default certificate due to an error reading secret""", """		if err == nil || tlsFile.Filename != "" {
			return tlsFile
		}
		c.logger.Warn("using default certificate due to an error reading secret""", "C15.fallback")
v("C15", "crt-line-only-for-custom-file", CFG, """		if crtFile != c.frontend.DefaultCrtFile ||
			tls.ALPN != "" ||""", """		if crtFile != c.frontend.DefaultCrtFile &&
			tls.ALPN != "" ||""", "C15.crt-list")

v("C16", "weight-above-256-kept", ANNB, """			c.logger.Warn("invalid weight '%d' on %v, using '256' instead", w, balance.Source)
			w = 256
""", """			c.logger.Warn("invalid weight '%d' on %v, using '256' instead", w, balance.Source)
""", "C16.clamp")
v("C16", "unmatched-endpoint-keeps-weight", ANNB, """			// without remove from the balancer
			ep.Weight = 0
""", """			// without remove from the balancer
""", "C16.zeroing")
v("C16", "gateway-base-256", GW, "	convutils.RebalanceWeight(cl, 128)", "	convutils.RebalanceWeight(cl, 256)", "C16.rebalance-call")
v("C16", "gcd-overwritten", "pkg/converters/utils/lbweight.go", "		if gcdClusterWeight > 0 {\n			gcdClusterWeight = gcd(gcdClusterWeight, clusterWeight)", "		if gcdClusterWeight > clusterWeight {\n			gcdClusterWeight = gcd(gcdClusterWeight, clusterWeight)", "C16.accumulators")

v("C17", "store-with-crt-or-key", SIGNER, "		if crt != nil && key != nil {", "		if crt != nil || key != nil {", "C17.store")
v("C17", "acme-update-on-followers", SVC, "	if s.svcleader.isLeader() {\n		s.instance.AcmeUpdate()\n	}", "	s.instance.AcmeUpdate()", "C17.leader")
v("C17", "coverage-not-checked", SIGNER, "	if errSecret != nil || tls.Crt.NotAfter.Before(duedate) || !match(domains, tls.Crt) {", "	if errSecret != nil || tls.Crt.NotAfter.Before(duedate) {", "C17.verify")
v("C17", "storage-without-secret-name", ING, """			if tls.SecretName != "" {
				secretName := ing.Namespace + "/" + tls.SecretName""", """			if tls.SecretName != "" || len(tls.Hosts) > 0 {
				secretName := ing.Namespace + "/" + tls.SecretName""", "C17.decl")
v("C17", "shrink-drops-unequal-pairs", GLOBALT, "		if add, found := c.itemsAdd[item]; found && reflect.DeepEqual(add, del) {", "		if _, found := c.itemsAdd[item]; found {\n			_ = reflect.DeepEqual(nil, del)", "C17.delta")
v("C17", "facade-enqueues-on-followers", "pkg/controller/services/svcacme.go", "func (s *svcAcmeClient) Add(item interface{}) {\n	if s.leader.isLeader() {\n		s.queue.Add(item)\n	}\n}", "func (s *svcAcmeClient) Add(item interface{}) {\n	s.queue.Add(item)\n}", "C17.leader")

v("C18", "deny-after-lua-check", ANNB, """	auth.AlwaysDeny = true

	external := c.haproxy.Global().External
	if external.IsExternal && !external.HasLua {
		c.logger.Warn("external authentication on %s needs Lua json module, install lua-json4 and enable 'external-has-lua' global config", url.Source.String())
		return
	}
""", """	external := c.haproxy.Global().External
	if external.IsExternal && !external.HasLua {
		c.logger.Warn("external authentication on %s needs Lua json module, install lua-json4 and enable 'external-has-lua' global config", url.Source.String())
		return
	}
	auth.AlwaysDeny = true
""", "C18.typestate")
v("C18", "deny-rule-without-condition", TMPL, "    http-request deny\n        {{- if $condition }} if {{ $condition }}{{ end }}\n{{- else }}", "    http-request deny\n{{- else }}", "C18.template")
v("C18", "declared-or-placement", ANNB, """		if isBackend && url.Value != "" {""", """		if isBackend || url.Value != "" {""", "C18.declared-configured")
v("C18", "oauth-opens-without-backend", ANNB, "		path.AuthExternal.AuthBackendName = backend.ID\n", "", "C18.typestate")
v("C18", "allow-before-method-validation", ANNB, """	m := config.Get(ingtypes.BackAuthMethod)
	method := m.Value""", """	auth.AlwaysDeny = false
	m := config.Get(ingtypes.BackAuthMethod)
	method := m.Value
	if method == "CONNECT" {
		return
	}""", "C18.typestate")
v("C18", "oauth-before-authurl", "pkg/converters/ingress/annotations/updater.go", "	c.buildBackendAuthExternal(data)\n	c.buildBackendAuthHTTP(data)", "	c.buildBackendOAuth(data)\n	c.buildBackendAuthExternal(data)\n	c.buildBackendAuthHTTP(data)", "C18.declared-configured")

v("C19", "store-unscanned-lines", ANNB, "	d.backend.CustomConfig = lines\n}", "	d.backend.CustomConfig = utils.LineToSlice(config.Value)\n}", "C19.same-value")
v("C19", "token-stops-on-other-marker", ANNB, "		if asciiSpace[s[end]] == 1 {", "		if asciiSpace[s[end]] == 2 {", "C19.token")
v("C19", "empty-keyword-ends-scan", ANNB, """		if keyword == "" {
			continue
		}""", """		if keyword == "" {
			break
		}""", "C19.scan-complete")
v("C19", "tab-not-blank", ANNB, """var asciiSpace = [256]uint8{'\\t': 1, '\\n': 1,""", """var asciiSpace = [256]uint8{'\\n': 1,""", "C19.token")
v("C19", "second-annotation-writer", ANNB, "	d.backend.Resolver = resolverName\n", "	d.backend.Resolver = resolverName\n	d.backend.CustomConfig = append(d.backend.CustomConfig, \"# resolver \"+resolverName)\n", "C19.one-writer")

bad = 0
# ---- round-3 generalisation rules
v("C14", "gwclass-a2-del-new-object", WATCH, "w.ch.GatewayClassesA2Del = append(w.ch.GatewayClassesA2Del, oldgwcls)", "w.ch.GatewayClassesA2Del = append(w.ch.GatewayClassesA2Del, newgwcls)", "C14.reclass")
v("C14", "gw-a2-add-needs-old-valid", WATCH, "				} else if !oldValid && newValid {\n					w.ch.GatewaysA2Add", "				} else if oldValid && newValid {\n					w.ch.GatewaysA2Add", "C14.reclass")
v("C14", "gw-a2-no-del", WATCH, "				} else if oldValid && !newValid {\n					w.ch.GatewaysA2Del = append(w.ch.GatewaysA2Del, oldgw)\n				}", "				}", "C14.reclass")
v("C03", "terminating-ignores-namespace", CACHE, "	if svc.GetNamespace() != pod.GetNamespace() {\n		return false\n	}\n	for selectorLabel", "	for selectorLabel", "C03.endpoints-key")
v("C03", "terminating-nodelost", CACHE, 'pod.DeletionTimestamp != nil && pod.Status.Reason != "NodeLost" && pod.Status.PodIP != ""', 'pod.DeletionTimestamp != nil && pod.Status.PodIP != ""', "C03.endpoints-key")
v("C03", "terminating-selector-any", CACHE, "!present || selectorValue != labelValue", "present && selectorValue != labelValue", "C03.endpoints-key")
v("C01", "scope-changed-endpoints-all", ING, "func (c *converter) syncChangedEndpoints() {\n	for _, backend := range c.haproxy.Backends().ItemsAdd() {", "func (c *converter) syncChangedEndpoints() {\n	for _, backend := range c.haproxy.Backends().Items() {", "C01.collection-scope")
v("C05", "scope-backend-maps-all", CFG, "	for _, backend := range c.backends.ItemsAdd() {", "	for _, backend := range c.backends.Items() {", "C05.collection-scope")
v("C05", "scope-alignslots-changed-only", DYN, "	for _, back := range backends.Items() {", "	for _, back := range backends.ItemsAdd() {", "C05.collection-scope")

# ---- round-4 rules
SSL = "pkg/controller/services/ssl.go"
TPL = "pkg/haproxy/template/template.go"
v("C16", "gateway-weight-hoisted", GW, "	var svclist []*api.Service\n	for _, back := range backendRefs {", "	var svclist []*api.Service\n	weight := 1\n	for _, back := range backendRefs {", "C16.per-element-values", note="with the next edit: a local hoisted out of the loop")
V[-1]["edits"].append(dict(file=GW, old="		weight := 1\n		if back.Weight != nil {", new="		if back.Weight != nil {"))
v("C06", "gateway-weight-hoisted", GW, "	var svclist []*api.Service\n	for _, back := range backendRefs {", "	var svclist []*api.Service\n	weight := 1\n	for _, back := range backendRefs {", "C06.per-element-values")
V[-1]["edits"].append(dict(file=GW, old="		weight := 1\n		if back.Weight != nil {", new="		if back.Weight != nil {"))
v("C17", "acme-link-bare-secret-name", ING, "c.tracker.TrackNames(convtypes.ResourceIngress, ingName, convtypes.ResourceAcmeData, secretName)", "c.tracker.TrackNames(convtypes.ResourceIngress, ingName, convtypes.ResourceAcmeData, tls.SecretName)", "C17.tracked-name-is-model-key")
v("C01", "gateway-link-raw-hostname", GW, "{Context: convtypes.ResourceHAHostname, UniqueName: h.Hostname},", "{Context: convtypes.ResourceHAHostname, UniqueName: string(hostname)},", "C01.tracked-name-is-model-key")
v("C17", "periodic-check-uses-delta", INST, "	for _, storage := range i.config.AcmeData().Storages().BuildAcmeStorages() {", "	for _, storage := range i.config.AcmeData().Storages().BuildAcmeStoragesAdd() {", "C17.queue-sources")
v("C12", "reload-send-error-swallowed", INST, '		return fmt.Errorf("error sending reload to master socket: %w", err)\n', '		i.logger.Warn("error sending reload to master socket: %v", err)\n', "C12.error-exits")
v("C12", "wait-worker-ignores-failed-counter", INST, "	if len(out.Workers) == 0 || out.Master.Failed > 0 {", "	if len(out.Workers) == 0 {", "C12.reload-verdict")
v("C15", "key-pair-not-verified", SSL, "	if _, err := tls.X509KeyPair(crt, key); err != nil {\n		return nil, err\n	}\n", "	_ = tls.X509KeyPair\n", "C15.reader-exits")
v("C08", "ingress-annotation-predicate-dropped", WATCH, "				predicate.Or(\n					predicate.AnnotationChangedPredicate{},\n					predicate.GenerationChangedPredicate{},\n				),\n				predicate.Funcs{\n					CreateFunc", "				predicate.Or(\n					predicate.GenerationChangedPredicate{},\n				),\n				predicate.Funcs{\n					CreateFunc", "C08.predicate-table")
v("C04", "search-starts-after-upper", MAPS, "	starting := e1._upper\n	if starting == nil {", "	var starting *list.Element\n	if e1._upper != nil {\n		starting = e1._upper.Next()\n	}\n	if starting == nil {", "C04.search-start")
v("C05", "write-skipped-when-empty", TPL, "	if err := os.WriteFile(output, t.rawConfig.Bytes(), 0644); err != nil {", "	if t.rawConfig.Len() == 0 {\n		return nil\n	}\n	if err := os.WriteFile(output, t.rawConfig.Bytes(), 0644); err != nil {", "C05.write-unconditional")
v("C10", "headers-applied-after-lookup", GW, "			pathlink.WithHeadersMatch(haheaders)\n			if h.FindPathWithLink(pathlink) != nil {", "			if h.FindPathWithLink(pathlink) != nil {", "C10.link-complete-before-lookup")
V[-1]["edits"].append(dict(file=GW, old="			h.AddLink(backend, pathlink)\n			c.handlePassthrough", new="			h.AddLink(backend, pathlink.WithHeadersMatch(haheaders))\n			c.handlePassthrough"))
v("C18", "preflight-exempt-from-auth", TMPL, """{{- template "authExternal" map $auth (iif (eq $pathIDs "") "" (printf "{ var(txn.pathID) -m str %s }" $pathIDs)) }}""", """{{- template "authExternal" map $auth (iif (eq $pathIDs "") "!METH_OPTIONS" (printf "!METH_OPTIONS { var(txn.pathID) -m str %s }" $pathIDs)) }}""", "C18.template")
v("C19", "short-lines-skipped", ANNB, "		for _, line := range lines {\n			if firstToken(line) == keyword {", "		for _, line := range lines {\n			if len(line) <= len(keyword) {\n				continue\n			}\n			if firstToken(line) == keyword {", "C19.scan-complete")
v("C03", "pretrack-adds-only", ING, "	for _, ing := range append(c.changed.IngressesAdd, c.changed.IngressesUpd...) {", "	for _, ing := range c.changed.IngressesAdd {", "C03.pretrack-covers")
v("C11", "response-table-narrowed", DYN, 'return response == "" || strings.HasPrefix(response, "IP changed from ") || strings.HasPrefix(response, "no need to change ")', 'return response == "" || strings.HasPrefix(response, "IP changed from ")', "C11.responses")

# ---- generated tables, template and script rules (rounds 5-6)
LUA = "rootfs/etc/lua/auth-request.lua"
RSH = "rootfs/haproxy-reload.sh"
v("C16", "template-weight-only-when-nonzero", TMPL, """        {{- "" }} weight {{ $ep.Weight }}""", """        {{- if $ep.Weight }} weight {{ $ep.Weight }}{{ end }}""", "C16.template-backends")
v("C03", "template-weight-only-when-nonzero", TMPL, """        {{- "" }} weight {{ $ep.Weight }}""", """        {{- if $ep.Weight }} weight {{ $ep.Weight }}{{ end }}""", "C03.server-line")
v("C18", "lua-redirects-count-as-success", LUA, "local response_ok = 200 <= response.status_code and response.status_code < 300", "local response_ok = 200 <= response.status_code and response.status_code < 400", "C18.lua-verdict")
v("C12", "reload-script-masks-failure", RSH, """    haproxy -f "$PARAM_CFG" -p "$HAPROXY_PID" -D -sf $OLD_PID\nfi""", """    haproxy -f "$PARAM_CFG" -p "$HAPROXY_PID" -D -sf $OLD_PID || true\nfi""", "C12.reload-script")
v("C10", "skip-backendref-without-ready-endpoints", GW, "		weight := 1\n		if back.Weight != nil {", "		if len(epready) == 0 {\n			continue\n		}\n		weight := 1\n		if back.Weight != nil {", "C10.skips-gateway")
v("C09", "service-read-with-its-own-namespace", ING, "	svc, err := c.cache.GetService(source.Namespace, fullSvcName)\n	hostname := pathLink.Hostname()", "	svc, err := c.cache.GetService(strings.Split(fullSvcName, \"/\")[0], fullSvcName)\n	hostname := pathLink.Hostname()", "C09.wiring")
v("C11", "annotations-backends-before-hosts", ING, """	c.fullSyncTCP()
	for _, host := range c.haproxy.Hosts().ItemsAdd() {
		if ann, found := c.hostAnnotations[host]; found {
			c.updater.UpdateHostConfig(host, ann)
		}
	}
	for _, backend := range c.haproxy.Backends().ItemsAdd() {
		if ann, found := c.backendAnnotations[backend]; found {
			c.updater.UpdateBackendConfig(backend, ann)
		}
	}
""", """	c.fullSyncTCP()
	for _, backend := range c.haproxy.Backends().ItemsAdd() {
		if ann, found := c.backendAnnotations[backend]; found {
			c.updater.UpdateBackendConfig(backend, ann)
		}
	}
	for _, host := range c.haproxy.Hosts().ItemsAdd() {
		if ann, found := c.hostAnnotations[host]; found {
			c.updater.UpdateHostConfig(host, ann)
		}
	}
""", "C11.skips-converter")
v("C17", "first-certificate-of-bundle-lost", "pkg/controller/services/ssl.go", "		if x509crt == nil {\n			x509crt = crt\n		}\n", "		x509crt = crt\n", "C17.skips-cache")
v("C13", "queue-item-with-reason", "pkg/controller/reconciler/reconciler.go", "	fullsync bool\n}", "	fullsync bool\n	leader   bool\n}", "C13.item-identity")
v("C14", "configmap-handler-captures-accumulator", WATCH, "func (w *watchers) handlersCore() []*hdlr {\n	cmChange := func(o client.Object) {", "func (w *watchers) handlersCore() []*hdlr {\n	ch := w.ch\n	cmChange := func(o client.Object) {", "C14.accumulator-fresh")
V[-1]["edits"].append(dict(file=WATCH, old="			w.ch.GlobalConfigMapDataNew = cm.Data", new="			ch.GlobalConfigMapDataNew = cm.Data"))
V[-1]["edits"].append(dict(file=WATCH, old="			w.ch.TCPConfigMapDataNew = cm.Data", new="			ch.TCPConfigMapDataNew = cm.Data"))

for x in V:
    d = os.path.join(ROOT, "variants", x["property"])
    os.makedirs(d, exist_ok=True)
    for e in x["edits"]:
        src = open(os.path.join("/repo", e["file"])).read()
        n = src.count(e["old"])
        if n != 1:
            print("!! %s/%s: old text occurs %d times in %s" % (x["property"], x["name"], n, e["file"]))
            bad += 1
    json.dump(x, open(os.path.join(d, x["name"] + ".json"), "w"), indent=1)
print("%d variants written, %d do not apply on this tree" % (len(V), bad))
