#!/bin/bash
# Behaviour-preserving edit tests (development aid). For each transformation a scratch copy of /repo is
# rewritten and every quick check runs against the copy; all checks must stay silent.
#   rename  every local variable, parameter, receiver and named result of pkg/... gets a new name
#   log     a call without effect on the model (the shape of an added log line) starts every function body
#   logall  the same at the start of every block (if/else/for/case bodies)
#   negif   `if c {A} else {B}` becomes `if !(c) {B} else {A}`
#   hoist   `f(a, g(x))` as a statement becomes `t := g(x); f(a, t)`
#   msg     every log line and fmt.Errorf message gets another wording
#   elsewrap `if c { …; return }; rest` becomes `if c { …; return } else { rest }`
#   guard   a trailing `if c {A}` of a loop body becomes `if !(c) { continue }; {A}`
# Evidence is written to a scratch directory, not to /verif/evidence.
# usage: rename_check.sh [rename|log|logall]...   (default: all three)
set -u
export GOFLAGS=-mod=mod GOPROXY=off GOSUMDB=off GOTOOLCHAIN=local
cd /verif/checker && go build -o ../bin/renamer ./cmd/renamer || exit 2
modes="${*:-rename log logall negif guard hoist msg elsewrap}"
rc=0
for mode in $modes; do
rm -rf /tmp/rename-repo /tmp/rename-verif && mkdir -p /tmp/rename-repo /tmp/rename-verif
rsync -a --exclude .git /repo/ /tmp/rename-repo/
cp /verif/known_findings.json /tmp/rename-verif/
if [ "$mode" = rename ]; then /verif/bin/renamer /repo /tmp/rename-repo; else /verif/bin/renamer /repo /tmp/rename-repo $mode; fi || { echo "$mode: transformation failed"; exit 2; }
(cd /tmp/rename-repo && go build ./pkg/... ) || { echo "$mode: copy does not build"; exit 2; }
for p in $(python3 -c "import json;print(' '.join(c['property_id'] for c in json.load(open('/verif/MANIFEST.json'))['checks']))"); do
  out=$(/verif/bin/hapverif check --property $p --repo /tmp/rename-repo --verif /tmp/rename-verif 2>&1 | grep -E "^  (VIOLATED|UNDECIDED|ANALYSIS-FAILURE|ANCHOR-MISSING)")
  if [ -n "$out" ]; then echo "$mode $p:"; echo "$out" | cut -c1-200; rc=1; fi
done
rm -rf /tmp/rename-repo /tmp/rename-verif
done
[ $rc -eq 0 ] && echo "all checks silent on: $modes"
exit $rc
