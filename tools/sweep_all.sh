#!/bin/bash
# runs the thorough tier of every property and prints the variants that were not caught
cd /verif
for p in $(python3 -c "import json;print(' '.join(c['property_id'] for c in json.load(open('MANIFEST.json'))['checks']))"); do
  if [ -n "${1:-}" ] && [ "$1" != "$p" ]; then continue; fi
  bin/hapverif check --property $p --tier thorough > /tmp/sweep-$p.out 2>&1; rc=$?
  python3 - "$p" "$rc" <<'P'
import json,sys
p,rc=sys.argv[1],sys.argv[2]
e=json.load(open('/verif/evidence/%s.json'%p))
s=e['coverage'].get('sensitivity_sweep',{})
print(p,'rc=%s'%rc,'variants=%s caught=%s missed=%s n/a=%s wall=%.0fs'%(s.get('total'),s.get('caught'),s.get('missed'),s.get('not_applicable_on_this_tree'),e['wall_s']))
for v in s.get('variants',[]):
    if v['outcome']!='caught':
        print('   ',v['name'],v['outcome'],(v.get('detail') or '')[:300],'| flipped:',(v.get('flipped') or [])[:3])
P
done
