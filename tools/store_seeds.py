#!/usr/bin/env python3
"""Stores a round of confirmed seeded changes under /verif/seeded/<id>/.

usage: store_seeds.py <round> <glob of source dirs> <baseline results> <current results> <baseline commit> <confirm results...>

The result files are the output of the evaluation loop (one line `<id> <label>: rule rule …` or `… MISSED`);
the confirm files are the output of tools/confirm_seed.sh. Only confirmed changes are stored.
"""
import glob, json, os, re, shutil, sys

rnd, pattern, basef, nowf, commit = int(sys.argv[1]), sys.argv[2], sys.argv[3], sys.argv[4], sys.argv[5]
confirms = sys.argv[6:]

def results(path):
    out = {}
    for l in open(path):
        m = re.match(r"(C\d\d-\w+) \S+: (.*)", l.strip())
        if m:
            rules = m.group(2).split()
            out[m.group(1)] = [] if rules == ["MISSED"] else rules
    return out

base, now = results(basef), results(nowf)
ok = {}
for f in confirms:
    for l in open(f):
        m = re.match(r"(C\d\d-\w+) suite_rc=(\d+) demo_with_change_rc=(\d+) demo_without_change_rc=(\d+)", l.strip())
        if m:
            ok[m.group(1)] = m.group(2) == "0" and m.group(3) != "0" and m.group(4) == "0"
words = {2: "two", 4: "four", 6: "six", 8: "eight", 10: "ten", 12: "twelve", 14: "fourteen", 16: "sixteen", 18: "eighteen", 20: "twenty", 22: "twenty-two"}
stored = 0
for d in sorted(glob.glob(pattern)):
    sid = os.path.basename(d)
    if not ok.get(sid):
        print("NOT CONFIRMED, skipped:", sid); continue
    if sid not in base or sid not in now:
        print("no evaluation, skipped:", sid); continue
    if not now[sid]:
        print("STILL MISSED, skipped:", sid); continue
    src = json.load(open(os.path.join(d, "meta.json")))
    prop = sid.split("-")[0]
    demo = os.path.basename(src["demo_file"])
    dst = os.path.join("/verif/seeded", sid)
    os.makedirs(dst, exist_ok=True)
    shutil.copy(os.path.join(d, "patch.diff"), os.path.join(dst, "patch.diff"))
    shutil.copy(os.path.join(d, demo), os.path.join(dst, demo + ".txt"))
    meta = {
        "id": sid, "round": rnd, "property": prop,
        "summary": src["summary"], "needs_to_manifest": src["needs_to_manifest"],
        "files_changed": src.get("files_changed", []),
        "demo_package": src.get("demo_package", ""), "demo_file": src["demo_file"], "demo_copy": demo + ".txt", "demo_run": src["demo_run"],
        "origin": "written by an independent sub-agent that saw only the property text, the summaries of the %s earlier changes of this property (to avoid repeating them) and a scratch worktree of /repo" % words.get(2 * (rnd - 1), str(2 * (rnd - 1))),
        "confirmed": {"how": "tools/confirm_seed.sh in a scratch worktree of /repo HEAD (removed afterwards): build ok; suite green with the change; demo fails with it; demo passes with it reverted", "result": "confirmed"},
        "detected_before_strengthening": {"checker_commit": commit, "rules": base[sid], "caught": bool(base[sid])},
        "detected_by": {"property_check": prop, "rules": now[sid], "command": "tools/seedrun.sh seeded/%s/patch.diff %s" % (sid, prop)},
    }
    json.dump(meta, open(os.path.join(dst, "meta.json"), "w"), indent=1)
    stored += 1
print("stored", stored)
