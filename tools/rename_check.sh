#!/bin/bash
# Behaviour-preserving edit test (development aid): renames every local variable, parameter, receiver and
# named result of pkg/... in a scratch copy of /repo and runs every quick check against the copy.
# All checks must stay silent. Evidence is written to a scratch directory, not to /verif/evidence.
set -u
export GOFLAGS=-mod=mod GOPROXY=off GOSUMDB=off GOTOOLCHAIN=local
cd /verif/checker && go build -o ../bin/renamer ./cmd/renamer || exit 2
rm -rf /tmp/rename-repo /tmp/rename-verif && mkdir -p /tmp/rename-repo /tmp/rename-verif
rsync -a --exclude .git /repo/ /tmp/rename-repo/
cp /verif/known_findings.json /tmp/rename-verif/
/verif/bin/renamer /repo /tmp/rename-repo
(cd /tmp/rename-repo && go build ./pkg/... ) || { echo "renamed copy does not build"; exit 2; }
rc=0
for p in $(python3 -c "import json;print(' '.join(c['property_id'] for c in json.load(open('/verif/MANIFEST.json'))['checks']))"); do
  out=$(/verif/bin/hapverif check --property $p --repo /tmp/rename-repo --verif /tmp/rename-verif 2>&1 | grep -E "^  (VIOLATED|UNDECIDED|ANALYSIS-FAILURE|ANCHOR-MISSING)")
  if [ -n "$out" ]; then echo "$p:"; echo "$out" | cut -c1-200; rc=1; fi
done
rm -rf /tmp/rename-repo /tmp/rename-verif
[ $rc -eq 0 ] && echo "all checks silent on the renamed copy"
exit $rc
