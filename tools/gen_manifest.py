#!/usr/bin/env python3
"""Regenerates /verif/MANIFEST.json from the table below and `bin/hapverif list`."""
import json, subprocess, os
ROOT = os.path.dirname(os.path.dirname(os.path.abspath(__file__)))
ENV = "GOFLAGS=-mod=mod GOPROXY=off GOSUMDB=off GOTOOLCHAIN=local GOWORK=off"
claimed = {}
try:
    out = subprocess.run([ROOT + "/bin/hapverif", "list"], capture_output=True, text=True).stdout
    for line in out.splitlines():
        if line and not line.startswith(" "):
            pid, title = line.split(" ", 1)
            claimed[pid] = title
except Exception as e:
    raise SystemExit(e)

TEXT = json.load(open(ROOT + "/tools/manifest_text.json"))
props = [json.loads(l) for l in open(ROOT + "/properties.jsonl")]
checks, na = [], []
for p in props:
    pid = p["id"]
    t = TEXT.get(pid, {})
    if pid in claimed and t.get("claim", True):
        checks.append({
            "property_id": pid,
            "quick_cmd": f"bin/hapverif check --property {pid} --tier quick",
            "thorough_cmd": f"bin/hapverif check --property {pid} --tier thorough",
            "evidence_file": f"/verif/evidence/{pid}.json",
            "replay_cmd_template": "bin/hapverif explain {path}",
            "engine": "hapverif",
            "level_claimed": {"category": "other", "text": t["level_text"], "design_ref": f"DESIGN.md §4 {pid}"},
            "level_note": t["level_note"],
            "technique": t["technique"],
        })
    else:
        na.append({"property_id": pid, "reason": t.get("na_reason", "no static rule set built for this property yet; nothing is claimed")})
m = {
    "version": 1,
    "setup_cmd": f"cd /verif/checker && {ENV} go build -o ../bin/hapverif ./cmd/hapverif && ../bin/hapverif warm",
    "hooks": {
        "guard": "verif",
        "enable": "no hooks: the analysis loads /repo's source as is (go/packages, default build tags); no instrumentation exists",
        "baseline_off_cmd": "cd /repo && GOFLAGS=-mod=mod go test -json -vet=off -count=1 -timeout 25m ./...",
        "source_commits": [],
        "add_only": True,
    },
    "engines": [{
        "name": "hapverif", "path": "/verif/checker",
        "serves_properties": sorted(c["property_id"] for c in checks),
        "kind_free_text": "repository-specific static analyser (go/packages + go/types + go/ssa + VTA call graph + text/template/parse): decision-table extraction by Boolean dataflow, dominance/path rules, value-flow slices, field-write index, guarded-by lock analysis, map-range order classifier, template reference closure, name-independent SSA structure tables (control skeleton, boundary wiring, template parse trees) compared with tables generated from the reviewed tree and scoped by call-graph reachability from the constructs each property anchors; per-field wiring of the command-line options into Config / InstanceOptions / ConverterOptions (each property compares the fields it depends on), quoting of the image entrypoint, identity of the vendored Lua HTTP library. Never executes repository code.",
    }],
    "checks": checks,
    "not_applicable": na,
    "notes": "All claims are at level `other`: structural necessary conditions of each property decided statically and exhaustively over the source; the behavioural clauses that are not decided are listed per property in DESIGN.md §4 and in each evidence file (coverage.not_decided). Known findings: /verif/known_findings.json. Seeded changes used to test the checks: /verif/seeded/.",
}
json.dump(m, open(ROOT + "/MANIFEST.json", "w"), indent=1)
print("checks:", [c["property_id"] for c in checks], "na:", [n["property_id"] for n in na])
