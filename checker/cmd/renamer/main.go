// renamer is a development aid (DESIGN §6): it writes a copy of the repository in which every
// local variable, parameter, receiver and named result of pkg/... is renamed (suffix "_r"),
// a behaviour-preserving edit the checks must stay silent on.
// usage: renamer <repo> <copy-dir>   (copy-dir must already hold a copy of the repo)
package main

import (
	"fmt"
	"go/ast"
	"go/token"
	"go/types"
	"os"
	"path/filepath"
	"sort"
	"strings"

	"golang.org/x/tools/go/packages"
)

func main() {
	repo, dst := os.Args[1], os.Args[2]
	if len(os.Args) > 3 && (os.Args[3] == "log" || os.Args[3] == "logall") {
		everyBlock = os.Args[3] == "logall"
		insertLogs(repo, dst)
		return
	}
	fset := token.NewFileSet()
	cfg := &packages.Config{Mode: packages.NeedName | packages.NeedFiles | packages.NeedSyntax | packages.NeedTypes | packages.NeedTypesInfo | packages.NeedImports, Dir: repo, Fset: fset,
		Env: append(os.Environ(), "GOFLAGS=-mod=mod", "GOPROXY=off", "GOSUMDB=off", "GOTOOLCHAIN=local", "GOWORK=off")}
	pkgs, err := packages.Load(cfg, "./pkg/...")
	if err != nil {
		panic(err)
	}
	type edit struct {
		off int
		old string
	}
	edits := map[string][]edit{}
	n := 0
	for _, p := range pkgs {
		isLocal := func(o types.Object) bool {
			v, ok := o.(*types.Var)
			if !ok || v.IsField() || o.Name() == "_" || o.Pkg() == nil {
				return false
			}
			// package-level vars have the package scope as parent
			return o.Parent() != nil && o.Parent() != o.Pkg().Scope() && o.Parent() != types.Universe
		}
		add := func(id *ast.Ident, o types.Object) {
			if o == nil || !isLocal(o) {
				return
			}
			pos := fset.Position(id.Pos())
			if strings.HasSuffix(pos.Filename, "_test.go") {
				return
			}
			edits[pos.Filename] = append(edits[pos.Filename], edit{pos.Offset, id.Name})
			n++
		}
		for id, o := range p.TypesInfo.Defs {
			add(id, o)
		}
		for id, o := range p.TypesInfo.Uses {
			add(id, o)
		}
		// `switch x := y.(type)`: the symbol has no object of its own (one implicit object per clause)
		for _, f := range p.Syntax {
			ast.Inspect(f, func(nd ast.Node) bool {
				ts, ok := nd.(*ast.TypeSwitchStmt)
				if !ok {
					return true
				}
				if as, ok := ts.Assign.(*ast.AssignStmt); ok && len(as.Lhs) == 1 {
					if id, ok := as.Lhs[0].(*ast.Ident); ok && id.Name != "_" {
						pos := fset.Position(id.Pos())
						if !strings.HasSuffix(pos.Filename, "_test.go") {
							edits[pos.Filename] = append(edits[pos.Filename], edit{pos.Offset, id.Name})
						}
					}
				}
				return true
			})
		}
	}
	for file, es := range edits {
		rel, _ := filepath.Rel(repo, file)
		src, err := os.ReadFile(file)
		if err != nil {
			panic(err)
		}
		sort.Slice(es, func(i, j int) bool { return es[i].off > es[j].off })
		last := -1
		for _, e := range es {
			if e.off == last {
				continue
			}
			last = e.off
			if string(src[e.off:e.off+len(e.old)]) != e.old {
				continue
			}
			src = append(src[:e.off+len(e.old)], append([]byte("_r"), src[e.off+len(e.old):]...)...)
		}
		if err := os.WriteFile(filepath.Join(dst, rel), src, 0o644); err != nil {
			panic(err)
		}
	}
	fmt.Println("renamed", n, "identifier occurrences in", len(edits), "files")
}

var everyBlock bool

// insertLogs writes a copy in which every function body of pkg/... starts with a
// call that has no effect on the model (`println()`), the shape of an added log line.
func insertLogs(repo, dst string) {
	fset := token.NewFileSet()
	cfg := &packages.Config{Mode: packages.NeedName | packages.NeedFiles | packages.NeedSyntax, Dir: repo, Fset: fset,
		Env: append(os.Environ(), "GOFLAGS=-mod=mod", "GOPROXY=off", "GOSUMDB=off", "GOTOOLCHAIN=local", "GOWORK=off")}
	pkgs, err := packages.Load(cfg, "./pkg/...")
	if err != nil {
		panic(err)
	}
	n := 0
	for _, p := range pkgs {
		for _, f := range p.Syntax {
			name := fset.Position(f.Pos()).Filename
			if strings.HasSuffix(name, "_test.go") {
				continue
			}
			var offs []int
			skip := map[*ast.BlockStmt]bool{}
			ast.Inspect(f, func(nd ast.Node) bool {
				switch x := nd.(type) {
				case *ast.SwitchStmt:
					skip[x.Body] = true
				case *ast.TypeSwitchStmt:
					skip[x.Body] = true
				case *ast.SelectStmt:
					skip[x.Body] = true
				}
				return true
			})
			ast.Inspect(f, func(nd ast.Node) bool {
				switch x := nd.(type) {
				case *ast.FuncDecl:
					if x.Body != nil {
						offs = append(offs, fset.Position(x.Body.Lbrace).Offset+1)
					}
				case *ast.FuncLit:
					offs = append(offs, fset.Position(x.Body.Lbrace).Offset+1)
				case *ast.BlockStmt:
					if everyBlock && !skip[x] {
						offs = append(offs, fset.Position(x.Lbrace).Offset+1)
					}
				case *ast.CaseClause:
					if everyBlock {
						offs = append(offs, fset.Position(x.Colon).Offset+1)
					}
				}
				return true
			})
			if len(offs) == 0 {
				continue
			}
			src, _ := os.ReadFile(name)
			sort.Sort(sort.Reverse(sort.IntSlice(offs)))
			last := -1
			for _, o := range offs {
				if o == last {
					continue
				}
				last = o
				src = append(src[:o], append([]byte(" println(); "), src[o:]...)...)
				n++
			}
			rel, _ := filepath.Rel(repo, name)
			os.WriteFile(filepath.Join(dst, rel), src, 0o644)
		}
	}
	fmt.Println("inserted", n, "calls")
}
