// renamer is a development aid (DESIGN §6): it writes the behaviour-preserving transformations of
// internal/sweep/benign.go into a copy of the repository (used by tools/benign_check.sh).
// usage: renamer <repo> <copy-dir> [log|logall|negif|guard]   (copy-dir must already hold a copy of the repo)
package main

import (
	"fmt"
	"os"
	"path/filepath"

	"hapverif/internal/sweep"
)

func main() {
	repo, dst := os.Args[1], os.Args[2]
	var ov map[string][]byte
	var n int
	var err error
	what := "renamed identifier occurrences"
	if len(os.Args) > 3 && (os.Args[3] == "log" || os.Args[3] == "logall") {
		ov, n, err = sweep.LogOverlay(repo, os.Args[3] == "logall")
		what = "inserted calls"
	} else if len(os.Args) > 3 && (os.Args[3] == "negif" || os.Args[3] == "guard") {
		ov, n, err = sweep.RestructureOverlay(repo, os.Args[3])
		what = "restructured statements"
	} else if len(os.Args) > 3 && os.Args[3] == "elsewrap" {
		ov, n, err = sweep.ElseWrapOverlay(repo)
		what = "statements wrapped into an else"
	} else if len(os.Args) > 3 && os.Args[3] == "msg" {
		ov, n, err = sweep.MessageOverlay(repo)
		what = "reworded messages"
	} else if len(os.Args) > 3 && os.Args[3] == "hoist" {
		ov, n, err = sweep.HoistOverlay(repo)
		what = "hoisted call arguments"
	} else {
		ov, n, err = sweep.RenameOverlay(repo)
	}
	if err != nil {
		panic(err)
	}
	for file, src := range ov {
		rel, _ := filepath.Rel(repo, file)
		if err := os.WriteFile(filepath.Join(dst, rel), src, 0o644); err != nil {
			panic(err)
		}
	}
	fmt.Println(n, what, "in", len(ov), "files")
}
