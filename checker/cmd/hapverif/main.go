// hapverif decides the static rules of properties C01..C19 on /repo's current
// working tree. See /verif/DESIGN.md.
package main

import (
	"encoding/json"
	"flag"
	"fmt"
	"os"
	"path/filepath"
	"sort"
	"strconv"
	"strings"
	"time"

	"hapverif/internal/core"
	"hapverif/internal/rules"
	"hapverif/internal/sweep"
)

func usage() {
	fmt.Fprintln(os.Stderr, `usage:
  hapverif check --property Cxx [--tier quick|thorough] [--repo /repo] [--verif /verif]
  hapverif warm   [--repo /repo]
  hapverif explain <replay.json>
  hapverif list
  hapverif dump --func <short pkg>:<name> [--repo /repo]         (debug: atoms and table of a function)
  hapverif variant --property Cxx --variant <file.json> [...]     (internal: one sensitivity variant)`)
	os.Exit(2)
}

func main() {
	if len(os.Args) < 2 {
		usage()
	}
	switch os.Args[1] {
	case "check":
		os.Exit(cmdCheck(os.Args[2:]))
	case "warm":
		os.Exit(cmdWarm(os.Args[2:]))
	case "explain":
		os.Exit(cmdExplain(os.Args[2:]))
	case "list":
		for _, id := range rules.IDs() {
			p := rules.Get(id)
			fmt.Printf("%s %s\n", id, p.Title)
			for _, r := range p.Rules {
				fmt.Printf("    %s (floor %d)\n", r.ID, r.Floor)
			}
		}
	case "rules":
		// markdown listing of what is implemented (DESIGN.md Appendix A is generated from this)
		for _, id := range rules.IDs() {
			p := rules.Get(id)
			fmt.Printf("### %s — %s\n\n", id, p.Title)
			fmt.Printf("Decided: %s\n\n", p.Explanation)
			if len(p.NotDecided) > 0 {
				fmt.Printf("Not decided: %s.\n\n", strings.Join(p.NotDecided, "; "))
			}
			if len(p.Assumptions) > 0 {
				fmt.Printf("Assumes: %s.\n\n", strings.Join(p.Assumptions, "; "))
			}
			for _, r := range p.Rules {
				fmt.Printf("* **%s** (floor %d). %s\n", r.ID, r.Floor, r.Doc)
			}
			fmt.Println()
		}
	case "dump":
		os.Exit(cmdDump(os.Args[2:]))
	case "variant":
		os.Exit(cmdVariant(os.Args[2:]))
	case "muteval":
		os.Exit(cmdMutEval(os.Args[2:]))
	case "mutsurvey":
		os.Exit(cmdMutSurvey(os.Args[2:]))
	default:
		usage()
	}
}

func cmdWarm(args []string) int {
	fs := flag.NewFlagSet("warm", flag.ExitOnError)
	repo := fs.String("repo", "/repo", "")
	fs.Parse(args)
	t0 := time.Now()
	env, err := core.Load(*repo, nil)
	if err != nil {
		fmt.Fprintln(os.Stderr, "load failed:", err)
		return 1
	}
	fmt.Printf("loaded %d packages, %d source functions in %.1fs\n", len(env.Pkgs), len(env.SrcFuncs()), time.Since(t0).Seconds())
	return 0
}

func cmdExplain(args []string) int {
	if len(args) != 1 {
		usage()
	}
	b, err := os.ReadFile(args[0])
	if err != nil {
		fmt.Fprintln(os.Stderr, err)
		return 1
	}
	var m map[string]interface{}
	if err := json.Unmarshal(b, &m); err != nil {
		fmt.Fprintln(os.Stderr, err)
		return 1
	}
	for _, k := range []string{"property", "kind", "rule", "key", "verdict", "site", "detail", "rationale"} {
		fmt.Printf("%-10s %v\n", k+":", m[k])
	}
	fmt.Println("To re-evaluate on the current tree: bin/hapverif check --property", m["property"])
	return 0
}

func cmdCheck(args []string) int {
	fs := flag.NewFlagSet("check", flag.ExitOnError)
	prop := fs.String("property", "", "property id")
	tier := fs.String("tier", "", "quick|thorough")
	repo := fs.String("repo", "/repo", "")
	verif := fs.String("verif", "", "verif directory (default: parent of the binary's directory, else /verif)")
	verbose := fs.Bool("v", false, "print every obligation")
	fs.Parse(args)
	if *tier == "" {
		*tier = os.Getenv("VERIF_TIER")
	}
	if *tier == "" {
		*tier = "quick"
	}
	if *tier != "quick" && *tier != "thorough" {
		fmt.Fprintln(os.Stderr, "bad tier")
		return 2
	}
	vdir := verifDir(*verif)
	seed, _ := strconv.ParseInt(os.Getenv("VERIF_SEED"), 10, 64)
	p := rules.Get(*prop)
	if p == nil {
		fmt.Fprintln(os.Stderr, "unknown property", *prop)
		return 2
	}
	evdir := filepath.Join(vdir, "evidence")
	t0 := time.Now()
	fail := func(what string, err error) int {
		// analysis failure: never mistaken for "held"
		os.MkdirAll(filepath.Join(evdir, "violations"), 0o755)
		path := filepath.Join(evdir, "violations", p.ID+"-001.json")
		b, _ := json.MarshalIndent(map[string]interface{}{"property": p.ID, "kind": "analysis-failure", "rule": what, "key": what, "verdict": "analysis-failure", "detail": err.Error()}, "", " ")
		os.WriteFile(path, b, 0o644)
		rep := &core.Report{Property: p, Tier: *tier, RuleN: map[string]int{}}
		rep.Obls = append(rep.Obls, core.Obligation{Rule: what, Key: what, Verdict: core.Failure, Detail: err.Error()})
		rep.WriteEvidence(evdir, seed, time.Since(t0), nil)
		fmt.Printf("analysis failure (%s): %v\n", what, err)
		fmt.Printf("VIOLATION property=%s replay=%s\n", p.ID, path)
		return 1
	}
	env, err := core.Load(*repo, nil)
	if err != nil {
		return fail("load", err)
	}
	findings, err := core.LoadFindings(filepath.Join(vdir, "known_findings.json"))
	if err != nil {
		return fail("known_findings", err)
	}
	rep := core.RunProperty(env, p, *tier)
	known := rep.ApplyFindings(findings)
	extra := core.Extra{"packages": len(env.Pkgs), "source_functions_in_program": len(env.SrcFuncs())}
	if *tier == "thorough" {
		res := sweep.Run(sweep.Config{Property: p.ID, Repo: *repo, Verif: vdir, Self: os.Args[0]})
		extra["sensitivity_sweep"] = res
		for _, v := range res.Variants {
			if v.Outcome == "missed" || v.Outcome == "error" {
				rep.Obls = append(rep.Obls, core.Obligation{Rule: "sweep", Key: v.Name, Verdict: core.Failure,
					Detail: "sensitivity variant applies to the current tree but the expected obligation did not flip: " + v.Detail})
			}
		}
	}
	replays, err := rep.WriteEvidence(evdir, seed, time.Since(t0), extra)
	if err != nil {
		fmt.Fprintln(os.Stderr, "cannot write evidence:", err)
		return 1
	}
	fmt.Printf("%s %s [%s] packages=%d obligations=%d wall=%.1fs\n", p.ID, p.Title, *tier, len(env.Pkgs), len(rep.Obls), time.Since(t0).Seconds())
	fmt.Print(rep.Summary())
	if *verbose {
		for _, o := range rep.Obls {
			fmt.Printf("    [%s] %s :: %s @ %s -- %s\n", o.Verdict, o.Rule, o.Key, o.Site, o.Detail)
		}
	}
	for _, k := range known {
		what := k.Detail
		if i := strings.Index(what, " || "); i >= 0 {
			what = what[:i]
		}
		fmt.Printf("KNOWN-FINDING: property=%s %s :: %s: %s\n", p.ID, k.Rule, k.Key, what)
	}
	bad := rep.Bad()
	for i, o := range bad {
		fmt.Printf("  %s %s :: %s @ %s\n      %s\n", strings.ToUpper(string(o.Verdict)), o.Rule, o.Key, o.Site, o.Detail)
		fmt.Printf("VIOLATION property=%s replay=%s\n", p.ID, replays[i])
	}
	if len(bad) > 0 {
		return 1
	}
	return 0
}

func verifDir(flagv string) string {
	if flagv != "" {
		return flagv
	}
	if exe, err := os.Executable(); err == nil {
		d := filepath.Dir(filepath.Dir(exe))
		if _, err := os.Stat(filepath.Join(d, "properties.jsonl")); err == nil {
			return d
		}
	}
	if wd, err := os.Getwd(); err == nil {
		if _, err := os.Stat(filepath.Join(wd, "properties.jsonl")); err == nil {
			return wd
		}
	}
	return "/verif"
}

// cmdVariant evaluates one sensitivity variant: loads the repository with an
// in-memory overlay and reports the verdict of the expected obligation.
func cmdVariant(args []string) int {
	fs := flag.NewFlagSet("variant", flag.ExitOnError)
	prop := fs.String("property", "", "")
	vfile := fs.String("variant", "", "")
	repo := fs.String("repo", "/repo", "")
	verif := fs.String("verif", "", "")
	fs.Parse(args)
	out := sweep.EvalVariant(*prop, *vfile, *repo, verifDir(*verif))
	b, _ := json.Marshal(out)
	fmt.Println(string(b))
	return 0
}

func cmdDump(args []string) int {
	fs := flag.NewFlagSet("dump", flag.ExitOnError)
	fn := fs.String("func", "", "<short pkg>:<name>")
	repo := fs.String("repo", "/repo", "")
	fs.Parse(args)
	env, err := core.Load(*repo, nil)
	if err != nil {
		fmt.Fprintln(os.Stderr, err)
		return 1
	}
	parts := strings.SplitN(*fn, ":", 2)
	if len(parts) != 2 {
		usage()
	}
	f := env.Func(parts[0], parts[1])
	if f == nil {
		fmt.Fprintln(os.Stderr, "function not found")
		var names []string
		for _, sf := range env.SrcFuncs() {
			if strings.HasPrefix(core.FuncName(sf), parts[0]+".") {
				names = append(names, core.FuncName(sf))
			}
		}
		sort.Strings(names)
		fmt.Fprintln(os.Stderr, strings.Join(names, "\n"))
		return 1
	}
	f.WriteTo(os.Stdout)
	rules.Debug(env, parts[0], parts[1])
	t := core.ExtractTable(f)
	fmt.Println("atoms:")
	for i, a := range t.Atoms {
		fmt.Printf("  %2d %s\n", i, a)
	}
	if t.Err != "" {
		fmt.Println("err:", t.Err)
		return 0
	}
	res, rets := t.BoolResult(0)
	fmt.Println("returns always:", rets.IsTrue())
	fmt.Println("result[0] true rows:", t.Render(res, 64))
	return 0
}

func cmdMutEval(args []string) int {
	fs := flag.NewFlagSet("muteval", flag.ExitOnError)
	repo := fs.String("repo", "/repo", "")
	verif := fs.String("verif", "", "")
	fs.Parse(args)
	var m sweep.Mutant
	if err := json.NewDecoder(os.Stdin).Decode(&m); err != nil {
		fmt.Fprintln(os.Stderr, err)
		return 1
	}
	b, _ := json.Marshal(sweep.EvalMutant(m, *repo, verifDir(*verif)))
	fmt.Println(string(b))
	return 0
}

// mutsurvey is a development aid (DESIGN §6): it is not registered in MANIFEST.json.
func cmdMutSurvey(args []string) int {
	fs := flag.NewFlagSet("mutsurvey", flag.ExitOnError)
	props := fs.String("property", "", "comma separated")
	only := fs.String("only", "", "substring of the function name")
	repo := fs.String("repo", "/repo", "")
	verif := fs.String("verif", "", "")
	par := fs.Int("par", 10, "")
	out := fs.String("out", "", "jsonl output (appended; finished mutants are skipped)")
	retest := fs.String("retest", "", "re-evaluate only the survivors listed in this jsonl (output of mutsurvey or tools/mut_vs_tests.py)")
	fs.Parse(args)
	self, _ := os.Executable()
	if err := sweep.Survey(self, *repo, verifDir(*verif), strings.Split(*props, ","), *only, *par, *out, *retest); err != nil {
		fmt.Fprintln(os.Stderr, err)
		return 1
	}
	return 0
}
