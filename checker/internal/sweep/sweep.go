// Package sweep implements the sensitivity sweep of the thorough tier
// (DESIGN §3): single-edit variants of the current source are type-checked and
// analysed from an in-memory overlay (nothing is written to the repository,
// nothing is executed) and must flip the obligation they target.
package sweep

import (
	"encoding/json"
	"fmt"
	"os"
	"os/exec"
	"path/filepath"
	"runtime"
	"sort"
	"strings"
	"sync"

	"hapverif/internal/core"
	"hapverif/internal/rules"
)

// Edit is one textual replacement; Old must occur exactly once in the file.
type Edit struct {
	File string `json:"file"`
	Old  string `json:"old"`
	New  string `json:"new"`
}

// Expect names the obligation(s) that must stop being held.
type Expect struct {
	Rule string `json:"rule"`
	Key  string `json:"key,omitempty"` // substring of the construct key; empty = any
}

// Variant is a single-edit mutant of the repository.
type Variant struct {
	Name     string   `json:"name"`
	Property string   `json:"property"`
	Note     string   `json:"note"`
	Edits    []Edit   `json:"edits"`
	Expect   []Expect `json:"expect"`
}

// Outcome of one variant.
type Outcome struct {
	Name    string   `json:"name"`
	Outcome string   `json:"outcome"` // caught | missed | not-applicable | does-not-compile | error
	Detail  string   `json:"detail,omitempty"`
	Flipped []string `json:"flipped,omitempty"`
}

// Result of a sweep.
type Result struct {
	Total         int       `json:"total"`
	Caught        int       `json:"caught"`
	NotApplicable int       `json:"not_applicable_on_this_tree"`
	Missed        int       `json:"missed"`
	Variants      []Outcome `json:"variants"`
}

// Config of a sweep.
type Config struct {
	Property, Repo, Verif, Self string
}

// Run evaluates every variant of the property, each in its own process.
func Run(cfg Config) Result {
	files, _ := filepath.Glob(filepath.Join(cfg.Verif, "variants", cfg.Property, "*.json"))
	sort.Strings(files)
	res := Result{Total: len(files), Variants: make([]Outcome, len(files))}
	par := runtime.NumCPU() / 3
	if par < 1 {
		par = 1
	}
	if par > 6 {
		par = 6
	}
	sem := make(chan struct{}, par)
	var wg sync.WaitGroup
	for i, f := range files {
		wg.Add(1)
		go func(i int, f string) {
			defer wg.Done()
			sem <- struct{}{}
			defer func() { <-sem }()
			cmd := exec.Command(cfg.Self, "variant", "--property", cfg.Property, "--variant", f, "--repo", cfg.Repo, "--verif", cfg.Verif)
			out, err := cmd.Output()
			var o Outcome
			if err != nil {
				o = Outcome{Name: filepath.Base(f), Outcome: "error", Detail: err.Error()}
			} else if jerr := json.Unmarshal(lastLine(out), &o); jerr != nil {
				o = Outcome{Name: filepath.Base(f), Outcome: "error", Detail: "bad output: " + jerr.Error()}
			}
			res.Variants[i] = o
		}(i, f)
	}
	wg.Wait()
	for _, o := range res.Variants {
		switch o.Outcome {
		case "caught":
			res.Caught++
		case "not-applicable", "does-not-compile":
			res.NotApplicable++
		default:
			res.Missed++
		}
	}
	return res
}

func lastLine(b []byte) []byte {
	s := strings.TrimSpace(string(b))
	if i := strings.LastIndex(s, "\n"); i >= 0 {
		s = s[i+1:]
	}
	return []byte(s)
}

// EvalVariant loads the repository with the variant's edits as an overlay and
// evaluates the property's quick rules.
func EvalVariant(prop, vfile, repo, verif string) Outcome {
	b, err := os.ReadFile(vfile)
	if err != nil {
		return Outcome{Name: filepath.Base(vfile), Outcome: "error", Detail: err.Error()}
	}
	var v Variant
	if err := json.Unmarshal(b, &v); err != nil {
		return Outcome{Name: filepath.Base(vfile), Outcome: "error", Detail: err.Error()}
	}
	if v.Name == "" {
		v.Name = strings.TrimSuffix(filepath.Base(vfile), ".json")
	}
	overlay := map[string][]byte{}
	for _, e := range v.Edits {
		path := filepath.Join(repo, e.File)
		cur, ok := overlay[path]
		if !ok {
			cur, err = os.ReadFile(path)
			if err != nil {
				return Outcome{Name: v.Name, Outcome: "not-applicable", Detail: "file missing: " + e.File}
			}
		}
		if n := strings.Count(string(cur), e.Old); n != 1 {
			return Outcome{Name: v.Name, Outcome: "not-applicable", Detail: fmt.Sprintf("edit text occurs %d times in %s (needs exactly 1): the tree changed since the variant was written", n, e.File)}
		}
		overlay[path] = []byte(strings.Replace(string(cur), e.Old, e.New, 1))
	}
	env, err := core.Load(repo, overlay)
	if err != nil {
		return Outcome{Name: v.Name, Outcome: "does-not-compile", Detail: err.Error()}
	}
	p := rules.Get(prop)
	if p == nil {
		return Outcome{Name: v.Name, Outcome: "error", Detail: "unknown property"}
	}
	rep := core.RunProperty(env, p, "quick")
	findings, _ := core.LoadFindings(filepath.Join(verif, "known_findings.json"))
	rep.ApplyFindings(findings)
	var flipped []string
	caught := false
	for _, o := range rep.Bad() {
		flipped = append(flipped, o.Rule+" :: "+o.Key+" ["+string(o.Verdict)+"]")
		for _, ex := range v.Expect {
			if o.Rule == ex.Rule && (ex.Key == "" || strings.Contains(o.Key, ex.Key)) {
				caught = true
			}
		}
	}
	if len(flipped) > 12 {
		flipped = append(flipped[:12], fmt.Sprintf("… %d more", len(flipped)-12))
	}
	if caught {
		return Outcome{Name: v.Name, Outcome: "caught", Flipped: flipped}
	}
	return Outcome{Name: v.Name, Outcome: "missed", Flipped: flipped, Detail: fmt.Sprintf("expected %v", v.Expect)}
}

// RunBenign evaluates the property on the three behaviour-preserving transformations
// (each in its own process, from an in-memory overlay).
func RunBenign(cfg Config) []Outcome {
	modes := []string{"rename", "log", "logall", "negif", "guard", "hoist", "msg", "elsewrap"}
	out := make([]Outcome, len(modes))
	var wg sync.WaitGroup
	for i, m := range modes {
		wg.Add(1)
		go func(i int, m string) {
			defer wg.Done()
			cmd := exec.Command(cfg.Self, "benign", "--property", cfg.Property, "--mode", m, "--repo", cfg.Repo, "--verif", cfg.Verif)
			b, err := cmd.Output()
			var o Outcome
			if err != nil {
				o = Outcome{Name: m, Outcome: "error", Detail: err.Error()}
			} else if jerr := json.Unmarshal(lastLine(b), &o); jerr != nil {
				o = Outcome{Name: m, Outcome: "error", Detail: "bad output: " + jerr.Error()}
			}
			out[i] = o
		}(i, m)
	}
	wg.Wait()
	return out
}

// EvalBenign applies one transformation as an overlay and evaluates the quick rules of the property.
func EvalBenign(prop, mode, repo, verif string) Outcome {
	var ov map[string][]byte
	var n int
	var err error
	switch mode {
	case "rename":
		ov, n, err = RenameOverlay(repo)
	case "log":
		ov, n, err = LogOverlay(repo, false)
	case "logall":
		ov, n, err = LogOverlay(repo, true)
	case "negif", "guard":
		ov, n, err = RestructureOverlay(repo, mode)
	case "hoist":
		ov, n, err = HoistOverlay(repo)
	case "msg":
		ov, n, err = MessageOverlay(repo)
	case "elsewrap":
		ov, n, err = ElseWrapOverlay(repo)
	default:
		return Outcome{Name: mode, Outcome: "error", Detail: "unknown mode"}
	}
	if err != nil {
		return Outcome{Name: mode, Outcome: "error", Detail: err.Error()}
	}
	env, err := core.Load(repo, ov)
	if err != nil {
		return Outcome{Name: mode, Outcome: "error", Detail: "transformed tree does not type-check: " + err.Error()}
	}
	p := rules.Get(prop)
	if p == nil {
		return Outcome{Name: mode, Outcome: "error", Detail: "unknown property"}
	}
	rep := core.RunProperty(env, p, "quick")
	findings, _ := core.LoadFindings(filepath.Join(verif, "known_findings.json"))
	rep.ApplyFindings(findings)
	var flipped []string
	for _, o := range rep.Bad() {
		flipped = append(flipped, o.Rule+" :: "+o.Key+" ["+string(o.Verdict)+"]")
	}
	if len(flipped) > 8 {
		flipped = append(flipped[:8], fmt.Sprintf("… %d more", len(flipped)-8))
	}
	if len(flipped) > 0 {
		return Outcome{Name: mode, Outcome: "flipped", Flipped: flipped}
	}
	return Outcome{Name: mode, Outcome: "silent", Detail: fmt.Sprintf("%d edits in %d files, %d obligations held", n, len(ov), len(rep.Obls))}
}
