package sweep

import (
	"bufio"
	"encoding/json"
	"fmt"
	"go/ast"
	"go/token"
	"go/types"
	"os"
	"os/exec"
	"path/filepath"
	"sort"
	"strings"
	"sync"

	"golang.org/x/tools/go/ssa"

	"hapverif/internal/core"
	"hapverif/internal/rules"
)

// Mutation survey (development aid, DESIGN §6): generic single-point mutants of
// the functions a property's rules analyse are evaluated from an overlay; the
// survivors are the places where the rules do not constrain the code and are
// triaged by hand (a survivor is not a defect of the checker by itself: many
// mutants do not break the property).

// Mutant is one generic single-point edit, addressed by byte offsets.
type Mutant struct {
	ID    string   `json:"id"`
	File  string   `json:"file"`
	Start int      `json:"start"`
	End   int      `json:"end"`
	New   string   `json:"new"`
	Old   string   `json:"old"`
	Func  string   `json:"func"`
	Line  int      `json:"line"`
	Op    string   `json:"op"`
	Props []string `json:"props"`
}

// MutOutcome is the result of one mutant.
type MutOutcome struct {
	Mutant
	Outcome string   `json:"outcome"` // killed | survived | does-not-compile
	By      []string `json:"by,omitempty"`
}

// GenMutants enumerates the mutants of the functions touched by the given properties.
func GenMutants(env *core.Env, props []string, only string) []Mutant {
	touched := map[*ssa.Function][]string{}
	for _, id := range props {
		p := rules.Get(id)
		if p == nil {
			continue
		}
		rep := core.RunProperty(env, p, "quick")
		names := rep.Funcs()
		for _, fn := range env.SrcFuncs() {
			if names[core.FuncName(fn)] {
				touched[fn] = append(touched[fn], id)
			}
		}
	}
	var out []Mutant
	seen := map[string]bool{}
	var fns []*ssa.Function
	for fn := range touched {
		fns = append(fns, fn)
	}
	sort.Slice(fns, func(i, j int) bool { return core.FuncName(fns[i]) < core.FuncName(fns[j]) })
	for _, fn := range fns {
		if only != "" && !strings.Contains(core.FuncName(fn), only) {
			continue
		}
		syn := fn.Syntax()
		if syn == nil {
			continue
		}
		var body *ast.BlockStmt
		switch x := syn.(type) {
		case *ast.FuncDecl:
			body = x.Body
		case *ast.FuncLit:
			body = x.Body
		}
		if body == nil {
			continue
		}
		tf := env.Fset.File(body.Pos())
		if tf == nil {
			continue
		}
		fname := tf.Name()
		if strings.HasSuffix(fname, "_test.go") {
			continue
		}
		src, err := os.ReadFile(fname)
		if err != nil {
			continue
		}
		rel, _ := filepath.Rel(env.RepoDir, fname)
		add := func(op string, from, to token.Pos, repl string) {
			s, e := tf.Offset(from), tf.Offset(to)
			k := fmt.Sprintf("%s:%d:%d:%s", rel, s, e, repl)
			if seen[k] {
				return
			}
			seen[k] = true
			out = append(out, Mutant{File: rel, Start: s, End: e, New: repl, Old: string(src[s:e]), Func: core.FuncName(fn), Line: tf.Line(from), Op: op, Props: touched[fn]})
		}
		text := func(n ast.Node) string { return string(src[tf.Offset(n.Pos()):tf.Offset(n.End())]) }
		// wrong-variable mutants: a call argument that is a plain identifier or a field selector is
		// replaced by another variable of the identical type that is in scope at the call
		info := env.TypesInfo(fn)
		type cand struct {
			name string
			pos  token.Pos
			typ  types.Type
		}
		var cands []cand
		var ftype *ast.FuncType
		if info != nil {
			switch x := syn.(type) {
			case *ast.FuncDecl:
				ftype = x.Type
			case *ast.FuncLit:
				ftype = x.Type
			}
			if ftype != nil && ftype.Params != nil {
				for _, f := range ftype.Params.List {
					for _, nm := range f.Names {
						if o := info.Defs[nm]; o != nil && nm.Name != "_" {
							cands = append(cands, cand{nm.Name, nm.Pos(), o.Type()})
						}
					}
				}
			}
			ast.Inspect(body, func(n ast.Node) bool {
				if _, ok := n.(*ast.FuncLit); ok {
					return false
				}
				if id, ok := n.(*ast.Ident); ok && id.Name != "_" {
					if o := info.Defs[id]; o != nil {
						if _, isVar := o.(*types.Var); isVar {
							cands = append(cands, cand{id.Name, id.Pos(), o.Type()})
						}
					}
				}
				return true
			})
		}
		swapArg := func(call *ast.CallExpr) {
			if info == nil {
				return
			}
			for _, a := range call.Args {
				var root *ast.Ident
				switch x := a.(type) {
				case *ast.Ident:
					root = x
				case *ast.SelectorExpr:
					if id, ok := x.X.(*ast.Ident); ok {
						root = id
					}
				}
				if root == nil {
					continue
				}
				tv, ok := info.Types[a]
				if !ok || tv.Type == nil || tv.IsType() || tv.Value != nil {
					continue
				}
				if b, isBasic := tv.Type.Underlying().(*types.Basic); !isBasic || b.Info()&(types.IsString|types.IsInteger|types.IsBoolean) == 0 {
					if _, isPtr := tv.Type.Underlying().(*types.Pointer); !isPtr {
						continue
					}
				}
				n := 0
				for i := len(cands) - 1; i >= 0 && n < 2; i-- {
					cd := cands[i]
					if cd.pos >= call.Pos() || cd.name == text(a) || !types.Identical(cd.typ, tv.Type) {
						continue
					}
					// the candidate must still be in scope: same or enclosing block (approximated by
					// asking the type checker's scopes)
					if sc := info.Scopes[ftype]; ftype != nil && sc != nil {
						if inner := sc.Innermost(call.Pos()); inner != nil {
							if _, o := inner.LookupParent(cd.name, call.Pos()); o == nil || o.Pos() != cd.pos {
								continue
							}
						}
					}
					add("swap-arg", a.Pos(), a.End(), cd.name)
					n++
				}
			}
		}
		ast.Inspect(body, func(n ast.Node) bool {
			switch x := n.(type) {
			case *ast.FuncLit:
				return false // closures are separate ssa functions, mutated when touched
			case *ast.CallExpr:
				swapArg(x)
			case *ast.ExprStmt:
				if _, isCall := x.X.(*ast.CallExpr); isCall {
					add("del-call", x.Pos(), x.End(), "")
				}
			case *ast.IncDecStmt:
				add("del-incdec", x.Pos(), x.End(), "")
			case *ast.AssignStmt:
				if x.Tok != token.DEFINE {
					// keep the right-hand side evaluated so that variables stay used
					var blanks []string
					for range x.Lhs {
						blanks = append(blanks, "_")
					}
					if x.Tok == token.ASSIGN && len(x.Lhs) == len(x.Rhs) || len(x.Rhs) == 1 {
						var rhs []string
						for _, r := range x.Rhs {
							rhs = append(rhs, text(r))
						}
						if x.Tok == token.ASSIGN {
							add("del-assign", x.Pos(), x.End(), strings.Join(blanks, ", ")+" = "+strings.Join(rhs, ", "))
						} else {
							add("del-opassign", x.Pos(), x.End(), "_ = "+rhs[0])
						}
					}
				}
			case *ast.BranchStmt:
				if x.Label == nil && (x.Tok == token.CONTINUE || x.Tok == token.BREAK) {
					add("del-"+x.Tok.String(), x.Pos(), x.End(), "")
				}
			case *ast.ReturnStmt:
				if len(x.Results) == 0 {
					add("del-return", x.Pos(), x.End(), "")
				}
			case *ast.DeferStmt:
				add("del-defer", x.Pos(), x.End(), "")
			case *ast.IfStmt:
				add("neg-if", x.Cond.Pos(), x.Cond.End(), "!("+text(x.Cond)+")")
			case *ast.ForStmt:
				if x.Cond != nil {
					add("neg-for", x.Cond.Pos(), x.Cond.End(), "!("+text(x.Cond)+")")
				}
			case *ast.BinaryExpr:
				swap := map[token.Token]string{token.LAND: "||", token.LOR: "&&", token.EQL: "!=", token.NEQ: "==", token.LSS: "<=", token.LEQ: "<", token.GTR: ">=", token.GEQ: ">"}
				if r, ok := swap[x.Op]; ok {
					add("binop", x.OpPos, x.OpPos+token.Pos(len(x.Op.String())), r)
				}
			case *ast.UnaryExpr:
				if x.Op == token.NOT {
					add("del-not", x.OpPos, x.OpPos+1, "")
				}
			case *ast.Ident:
				if x.Name == "true" && x.Obj == nil {
					add("bool", x.Pos(), x.End(), "false")
				} else if x.Name == "false" && x.Obj == nil {
					add("bool", x.Pos(), x.End(), "true")
				}
			}
			return true
		})
	}
	for i := range out {
		out[i].ID = fmt.Sprintf("m%05d", i)
	}
	return out
}

// EvalMutant evaluates one mutant against the properties that analyse its function.
func EvalMutant(m Mutant, repo, verif string) MutOutcome {
	path := filepath.Join(repo, m.File)
	src, err := os.ReadFile(path)
	if err != nil || m.End > len(src) || string(src[m.Start:m.End]) != m.Old {
		return MutOutcome{Mutant: m, Outcome: "stale"}
	}
	mod := string(src[:m.Start]) + m.New + string(src[m.End:])
	env, err := core.Load(repo, map[string][]byte{path: []byte(mod)})
	if err != nil {
		return MutOutcome{Mutant: m, Outcome: "does-not-compile", By: []string{firstLine(err.Error())}}
	}
	findings, _ := core.LoadFindings(filepath.Join(verif, "known_findings.json"))
	o := MutOutcome{Mutant: m, Outcome: "survived"}
	for _, id := range m.Props {
		p := rules.Get(id)
		rep := core.RunProperty(env, p, "quick")
		rep.ApplyFindings(findings)
		for _, b := range rep.Bad() {
			o.Outcome = "killed"
			if len(o.By) < 4 {
				o.By = append(o.By, b.Rule+" :: "+b.Key+" ["+string(b.Verdict)+"]")
			}
		}
	}
	return o
}

func firstLine(s string) string {
	if i := strings.Index(s, "\n"); i >= 0 {
		s = s[:i]
	}
	if len(s) > 300 {
		s = s[:300]
	}
	return s
}

// Survey generates and evaluates, par subprocesses at a time, appending to outFile.
func Survey(self, repo, verif string, props []string, only string, par int, outFile string, retest string) error {
	var ms []Mutant
	if retest != "" {
		// re-evaluate the mutants of an earlier survey that survived (and, when filtered by the test-suite, passed the tests)
		f, err := os.Open(retest)
		if err != nil {
			return err
		}
		sc := bufio.NewScanner(f)
		sc.Buffer(make([]byte, 1<<20), 1<<24)
		for sc.Scan() {
			var raw map[string]interface{}
			var o MutOutcome
			if json.Unmarshal(sc.Bytes(), &o) != nil || json.Unmarshal(sc.Bytes(), &raw) != nil {
				continue
			}
			if o.Outcome != "survived" {
				continue
			}
			if t, ok := raw["tests"]; ok && t != "tests-pass" {
				continue
			}
			o.Mutant.Props = rules.IDs() // rules were added since: evaluate every property
			ms = append(ms, o.Mutant)
		}
		f.Close()
	} else {
		env, err := core.Load(repo, nil)
		if err != nil {
			return err
		}
		ms = GenMutants(env, props, only)
		if ops := os.Getenv("MUT_OPS"); ops != "" {
			var keep []Mutant
			for _, m := range ms {
				for _, o := range strings.Split(ops, ",") {
					if m.Op == o {
						keep = append(keep, m)
					}
				}
			}
			ms = keep
		}
	}
	done := map[string]bool{}
	if f, err := os.Open(outFile); err == nil {
		sc := bufio.NewScanner(f)
		sc.Buffer(make([]byte, 1<<20), 1<<24)
		for sc.Scan() {
			var o MutOutcome
			if json.Unmarshal(sc.Bytes(), &o) == nil && o.Outcome != "stale" && o.Outcome != "error" {
				done[fmt.Sprintf("%s:%d:%d:%s", o.File, o.Start, o.End, o.New)] = true
			}
		}
		f.Close()
	}
	out, err := os.OpenFile(outFile, os.O_APPEND|os.O_CREATE|os.O_WRONLY, 0o644)
	if err != nil {
		return err
	}
	defer out.Close()
	fmt.Fprintf(os.Stderr, "%d mutants, %d already evaluated\n", len(ms), len(done))
	var mu sync.Mutex
	var wg sync.WaitGroup
	sem := make(chan struct{}, par)
	for _, m := range ms {
		if done[fmt.Sprintf("%s:%d:%d:%s", m.File, m.Start, m.End, m.New)] {
			continue
		}
		wg.Add(1)
		sem <- struct{}{}
		go func(m Mutant) {
			defer wg.Done()
			defer func() { <-sem }()
			b, _ := json.Marshal(m)
			cmd := exec.Command(self, "muteval", "--repo", repo, "--verif", verif)
			cmd.Stdin = strings.NewReader(string(b))
			res, err := cmd.Output()
			line := lastLine(res)
			if err != nil || len(line) == 0 {
				o := MutOutcome{Mutant: m, Outcome: "error"}
				line, _ = json.Marshal(o)
			}
			mu.Lock()
			out.Write(append(line, '\n'))
			mu.Unlock()
		}(m)
	}
	wg.Wait()
	return nil
}
