// Behaviour-preserving transformations of the repository, produced as in-memory overlays
// (nothing is written): used by the thorough tier to show that the rules stay silent on
// edits that do not change behaviour, and by cmd/renamer / tools/benign_check.sh.
package sweep

import (
	"fmt"
	"go/ast"
	"go/token"
	"go/types"
	"os"
	"sort"
	"strings"

	"golang.org/x/tools/go/packages"
)

func loadForRewrite(repo string, typed bool) (*token.FileSet, []*packages.Package, error) {
	fset := token.NewFileSet()
	mode := packages.NeedName | packages.NeedFiles | packages.NeedSyntax
	if typed {
		mode |= packages.NeedTypes | packages.NeedTypesInfo | packages.NeedImports
	}
	cfg := &packages.Config{Mode: mode, Dir: repo, Fset: fset,
		Env: append(os.Environ(), "GOFLAGS=-mod=mod", "GOPROXY=off", "GOSUMDB=off", "GOTOOLCHAIN=local", "GOWORK=off")}
	pkgs, err := packages.Load(cfg, "./pkg/...")
	return fset, pkgs, err
}

// RenameOverlay renames every local variable, parameter, receiver and named result of pkg/... (suffix "_r").
func RenameOverlay(repo string) (map[string][]byte, int, error) {
	fset, pkgs, err := loadForRewrite(repo, true)
	if err != nil {
		return nil, 0, err
	}
	type edit struct {
		off int
		old string
	}
	edits := map[string][]edit{}
	n := 0
	for _, p := range pkgs {
		isLocal := func(o types.Object) bool {
			v, ok := o.(*types.Var)
			if !ok || v.IsField() || o.Name() == "_" || o.Pkg() == nil {
				return false
			}
			return o.Parent() != nil && o.Parent() != o.Pkg().Scope() && o.Parent() != types.Universe
		}
		add := func(id *ast.Ident, o types.Object) {
			if o == nil || !isLocal(o) {
				return
			}
			pos := fset.Position(id.Pos())
			if strings.HasSuffix(pos.Filename, "_test.go") {
				return
			}
			edits[pos.Filename] = append(edits[pos.Filename], edit{pos.Offset, id.Name})
			n++
		}
		if p.TypesInfo == nil {
			continue
		}
		for id, o := range p.TypesInfo.Defs {
			add(id, o)
		}
		for id, o := range p.TypesInfo.Uses {
			add(id, o)
		}
		for _, f := range p.Syntax {
			ast.Inspect(f, func(nd ast.Node) bool {
				ts, ok := nd.(*ast.TypeSwitchStmt)
				if !ok {
					return true
				}
				if as, ok := ts.Assign.(*ast.AssignStmt); ok && len(as.Lhs) == 1 {
					if id, ok := as.Lhs[0].(*ast.Ident); ok && id.Name != "_" {
						pos := fset.Position(id.Pos())
						if !strings.HasSuffix(pos.Filename, "_test.go") {
							edits[pos.Filename] = append(edits[pos.Filename], edit{pos.Offset, id.Name})
						}
					}
				}
				return true
			})
		}
	}
	out := map[string][]byte{}
	for file, es := range edits {
		src, err := os.ReadFile(file)
		if err != nil {
			return nil, 0, err
		}
		sort.Slice(es, func(i, j int) bool { return es[i].off > es[j].off })
		last := -1
		for _, e := range es {
			if e.off == last {
				continue
			}
			last = e.off
			if string(src[e.off:e.off+len(e.old)]) != e.old {
				continue
			}
			src = append(src[:e.off+len(e.old)], append([]byte("_r"), src[e.off+len(e.old):]...)...)
		}
		out[file] = src
	}
	return out, n, nil
}

// LogOverlay puts a call without effect on the model (`println()`) at the start of every function body,
// or of every block when everyBlock is set.
func LogOverlay(repo string, everyBlock bool) (map[string][]byte, int, error) {
	fset, pkgs, err := loadForRewrite(repo, false)
	if err != nil {
		return nil, 0, err
	}
	out := map[string][]byte{}
	n := 0
	for _, p := range pkgs {
		for _, f := range p.Syntax {
			name := fset.Position(f.Pos()).Filename
			if strings.HasSuffix(name, "_test.go") {
				continue
			}
			var offs []int
			skip := map[*ast.BlockStmt]bool{}
			ast.Inspect(f, func(nd ast.Node) bool {
				switch x := nd.(type) {
				case *ast.SwitchStmt:
					skip[x.Body] = true
				case *ast.TypeSwitchStmt:
					skip[x.Body] = true
				case *ast.SelectStmt:
					skip[x.Body] = true
				}
				return true
			})
			ast.Inspect(f, func(nd ast.Node) bool {
				switch x := nd.(type) {
				case *ast.FuncDecl:
					if x.Body != nil {
						offs = append(offs, fset.Position(x.Body.Lbrace).Offset+1)
					}
				case *ast.FuncLit:
					offs = append(offs, fset.Position(x.Body.Lbrace).Offset+1)
				case *ast.BlockStmt:
					if everyBlock && !skip[x] {
						offs = append(offs, fset.Position(x.Lbrace).Offset+1)
					}
				case *ast.CaseClause:
					if everyBlock {
						offs = append(offs, fset.Position(x.Colon).Offset+1)
					}
				}
				return true
			})
			if len(offs) == 0 {
				continue
			}
			src, err := os.ReadFile(name)
			if err != nil {
				return nil, 0, err
			}
			sort.Sort(sort.Reverse(sort.IntSlice(offs)))
			last := -1
			for _, o := range offs {
				if o == last {
					continue
				}
				last = o
				src = append(src[:o], append([]byte(" println(); "), src[o:]...)...)
				n++
			}
			out[name] = src
		}
	}
	return out, n, nil
}

// RestructureOverlay rewrites control structure without changing behaviour:
//   - mode "negif": `if c { A } else { B }`  =>  `if !(c) { B } else { A }`
//   - mode "guard": a trailing `if c { A }` of a for body  =>  `if !(c) { continue }; { A }`
//
// Only statements that contain no other candidate are rewritten (edits never overlap).
func RestructureOverlay(repo, mode string) (map[string][]byte, int, error) {
	fset, pkgs, err := loadForRewrite(repo, false)
	if err != nil {
		return nil, 0, err
	}
	out := map[string][]byte{}
	n := 0
	for _, p := range pkgs {
		for _, f := range p.Syntax {
			name := fset.Position(f.Pos()).Filename
			if strings.HasSuffix(name, "_test.go") {
				continue
			}
			src, err := os.ReadFile(name)
			if err != nil {
				return nil, 0, err
			}
			off := func(pos token.Pos) int { return fset.Position(pos).Offset }
			type edit struct {
				from, to int
				text     string
			}
			var cands []*ast.IfStmt
			lastOfFor := map[*ast.IfStmt]bool{}
			ast.Inspect(f, func(nd ast.Node) bool {
				switch x := nd.(type) {
				case *ast.ForStmt:
					if l := x.Body.List; len(l) > 0 {
						if is, ok := l[len(l)-1].(*ast.IfStmt); ok {
							lastOfFor[is] = true
						}
					}
				case *ast.RangeStmt:
					if l := x.Body.List; len(l) > 0 {
						if is, ok := l[len(l)-1].(*ast.IfStmt); ok {
							lastOfFor[is] = true
						}
					}
				}
				return true
			})
			ast.Inspect(f, func(nd ast.Node) bool {
				is, ok := nd.(*ast.IfStmt)
				if !ok || is.Init != nil {
					return true
				}
				switch mode {
				case "negif":
					if _, isBlock := is.Else.(*ast.BlockStmt); isBlock {
						cands = append(cands, is)
					}
				case "guard":
					if is.Else == nil && lastOfFor[is] {
						cands = append(cands, is)
					}
				}
				return true
			})
			contains := func(outer, inner *ast.IfStmt) bool {
				return outer != inner && outer.Pos() <= inner.Pos() && inner.End() <= outer.End()
			}
			var edits []edit
			for _, c := range cands {
				leaf := true
				for _, d := range cands {
					if contains(c, d) {
						leaf = false
					}
				}
				if !leaf {
					continue
				}
				cond := string(src[off(c.Cond.Pos()):off(c.Cond.End())])
				body := string(src[off(c.Body.Pos()):off(c.Body.End())])
				switch mode {
				case "negif":
					els := c.Else.(*ast.BlockStmt)
					elsT := string(src[off(els.Pos()):off(els.End())])
					edits = append(edits, edit{off(c.Pos()), off(c.End()), "if !(" + cond + ") " + elsT + " else " + body})
				case "guard":
					edits = append(edits, edit{off(c.Pos()), off(c.End()), "if !(" + cond + ") { continue }\n" + body})
				}
			}
			if len(edits) == 0 {
				continue
			}
			sort.Slice(edits, func(i, j int) bool { return edits[i].from > edits[j].from })
			for _, e := range edits {
				src = append(src[:e.from], append([]byte(e.text), src[e.to:]...)...)
				n++
			}
			out[name] = src
		}
	}
	return out, n, nil
}

// HoistOverlay extracts the first call-valued argument of statement-level calls into a fresh local
// (`f(a, g(x))` => `hoistN := g(x); f(a, hoistN)`), when no earlier operand of the call contains a
// call (evaluation order is kept). SSA sees the same values.
func HoistOverlay(repo string) (map[string][]byte, int, error) {
	fset, pkgs, err := loadForRewrite(repo, true)
	if err != nil {
		return nil, 0, err
	}
	out := map[string][]byte{}
	n := 0
	for _, p := range pkgs {
		for _, f := range p.Syntax {
			name := fset.Position(f.Pos()).Filename
			if strings.HasSuffix(name, "_test.go") {
				continue
			}
			src, err := os.ReadFile(name)
			if err != nil {
				return nil, 0, err
			}
			off := func(pos token.Pos) int { return fset.Position(pos).Offset }
			hasCall := func(e ast.Expr) bool {
				found := false
				ast.Inspect(e, func(nd ast.Node) bool {
					switch nd.(type) {
					case *ast.CallExpr, *ast.FuncLit, *ast.UnaryExpr:
						found = true
					}
					return !found
				})
				return found
			}
			type edit struct {
				from, to int
				text     string
			}
			var edits []edit
			ast.Inspect(f, func(nd ast.Node) bool {
				blk, ok := nd.(*ast.BlockStmt)
				if !ok {
					return true
				}
				for _, st := range blk.List {
					es, ok := st.(*ast.ExprStmt)
					if !ok {
						continue
					}
					call, ok := es.X.(*ast.CallExpr)
					if !ok || call.Ellipsis.IsValid() {
						continue
					}
					// the callee expression must not contain calls (method value on a call result would reorder)
					if hasCall(call.Fun) {
						continue
					}
					// nothing that is evaluated before the hoisted call may read memory the call could change:
					// the callee is `f`, `pkg.f` or `x.f` and the earlier arguments are identifiers or literals
					simple := func(e ast.Expr) bool {
						switch x := e.(type) {
						case *ast.Ident, *ast.BasicLit:
							return true
						case *ast.SelectorExpr:
							_, ok := x.X.(*ast.Ident)
							return ok && x == call.Fun
						}
						return false
					}
					if !simple(call.Fun) {
						continue
					}
					for _, a := range call.Args {
						inner, isCall := a.(*ast.CallExpr)
						if !isCall {
							if hasCall(a) || !simple(a) {
								break
							}
							continue
						}
						tv, ok := p.TypesInfo.Types[inner]
						if !ok || tv.Type == nil || tv.IsType() {
							break
						}
						if _, isTuple := tv.Type.(*types.Tuple); isTuple {
							break
						}
						if b, isBasic := tv.Type.(*types.Basic); isBasic && b.Info()&types.IsUntyped != 0 {
							break
						}
						if id, isIdent := inner.Fun.(*ast.Ident); isIdent {
							if _, isBuiltin := p.TypesInfo.Uses[id].(*types.Builtin); isBuiltin {
								break
							}
							if _, isTypeName := p.TypesInfo.Uses[id].(*types.TypeName); isTypeName {
								break
							}
						}
						if ftv, ok := p.TypesInfo.Types[inner.Fun]; ok && ftv.IsType() {
							break // conversion
						}
						v := fmt.Sprintf("hoist%d", n)
						argText := string(src[off(inner.Pos()):off(inner.End())])
						stmt := string(src[off(es.Pos()):off(inner.Pos())]) + v + string(src[off(inner.End()):off(es.End())])
						edits = append(edits, edit{off(es.Pos()), off(es.End()), v + " := " + argText + "; " + stmt})
						n++
						break
					}
				}
				return true
			})
			if len(edits) == 0 {
				continue
			}
			// drop overlapping edits (nested blocks inside closures passed as arguments)
			sort.Slice(edits, func(i, j int) bool { return edits[i].from > edits[j].from })
			lastFrom := int(^uint(0) >> 1)
			for _, e := range edits {
				if e.to > lastFrom {
					continue
				}
				src = append(src[:e.from], append([]byte(e.text), src[e.to:]...)...)
				lastFrom = e.from
			}
			out[name] = src
		}
	}
	return out, n, nil
}

// MessageOverlay changes the text of every log line and every fmt.Errorf message (appends " ~" to the
// format literal). Messages are for people; no rule may depend on their wording.
func MessageOverlay(repo string) (map[string][]byte, int, error) {
	fset, pkgs, err := loadForRewrite(repo, false)
	if err != nil {
		return nil, 0, err
	}
	out := map[string][]byte{}
	n := 0
	logNames := map[string]bool{"Info": true, "InfoV": true, "Warn": true, "Error": true, "Fatal": true, "Errorf": true, "Infof": true, "Warningf": true, "Warning": true, "Alert": true}
	for _, p := range pkgs {
		for _, f := range p.Syntax {
			name := fset.Position(f.Pos()).Filename
			if strings.HasSuffix(name, "_test.go") {
				continue
			}
			var offs []int
			ast.Inspect(f, func(nd ast.Node) bool {
				call, ok := nd.(*ast.CallExpr)
				if !ok {
					return true
				}
				sel, ok := call.Fun.(*ast.SelectorExpr)
				if !ok || !logNames[sel.Sel.Name] {
					return true
				}
				if x, isIdent := sel.X.(*ast.Ident); sel.Sel.Name == "Errorf" && (!isIdent || x.Name != "fmt") {
					return true
				}
				for _, a := range call.Args {
					if lit, ok := a.(*ast.BasicLit); ok && lit.Kind == token.STRING && strings.HasPrefix(lit.Value, "\"") {
						offs = append(offs, fset.Position(lit.End()).Offset-1)
						break
					}
				}
				return true
			})
			if len(offs) == 0 {
				continue
			}
			src, err := os.ReadFile(name)
			if err != nil {
				return nil, 0, err
			}
			sort.Sort(sort.Reverse(sort.IntSlice(offs)))
			for _, o := range offs {
				src = append(src[:o], append([]byte(" ~"), src[o:]...)...)
				n++
			}
			out[name] = src
		}
	}
	return out, n, nil
}

// ElseWrapOverlay: `if c { …; return }; rest…` becomes `if c { …; return } else { rest… }` (only the
// innermost candidates; edits never overlap). The control flow graph is the same.
func ElseWrapOverlay(repo string) (map[string][]byte, int, error) {
	fset, pkgs, err := loadForRewrite(repo, false)
	if err != nil {
		return nil, 0, err
	}
	out := map[string][]byte{}
	n := 0
	terminates := func(b *ast.BlockStmt) bool {
		if len(b.List) == 0 {
			return false
		}
		switch x := b.List[len(b.List)-1].(type) {
		case *ast.ReturnStmt:
			return true
		case *ast.BranchStmt:
			return x.Label == nil && (x.Tok == token.CONTINUE || x.Tok == token.BREAK)
		}
		return false
	}
	for _, p := range pkgs {
		for _, f := range p.Syntax {
			name := fset.Position(f.Pos()).Filename
			if strings.HasSuffix(name, "_test.go") {
				continue
			}
			src, err := os.ReadFile(name)
			if err != nil {
				return nil, 0, err
			}
			off := func(pos token.Pos) int { return fset.Position(pos).Offset }
			type edit struct{ ifEnd, restStart, restEnd int }
			var edits []edit
			ast.Inspect(f, func(nd ast.Node) bool {
				blk, ok := nd.(*ast.BlockStmt)
				if !ok {
					return true
				}
				for i, st := range blk.List {
					is, ok := st.(*ast.IfStmt)
					if !ok || is.Else != nil || is.Init != nil || i == len(blk.List)-1 || !terminates(is.Body) {
						continue
					}
					// the rest must not contain labels or a break/continue that would change meaning: it does not,
					// nesting depth of loops is unchanged; declarations stay visible inside the new block
					hasLabel := false
					for _, r := range blk.List[i+1:] {
						if _, isL := r.(*ast.LabeledStmt); isL {
							hasLabel = true
						}
					}
					if hasLabel {
						continue
					}
					edits = append(edits, edit{off(is.End()), off(blk.List[i+1].Pos()), off(blk.List[len(blk.List)-1].End())})
					break // one per block
				}
				return true
			})
			if len(edits) == 0 {
				continue
			}
			// keep only edits that contain no other edit
			var leaf []edit
			for _, e := range edits {
				inner := false
				for _, o := range edits {
					if o != e && o.ifEnd >= e.restStart && o.restEnd <= e.restEnd {
						inner = true
					}
				}
				if !inner {
					leaf = append(leaf, e)
				}
			}
			sort.Slice(leaf, func(i, j int) bool { return leaf[i].ifEnd > leaf[j].ifEnd })
			lastStart := int(^uint(0) >> 1)
			for _, e := range leaf {
				if e.restEnd > lastStart {
					continue
				}
				rest := string(src[e.restStart:e.restEnd])
				repl := " else {\n" + rest + "\n}"
				src = append(src[:e.ifEnd], append([]byte(repl), src[e.restEnd:]...)...)
				lastStart = e.ifEnd
				n++
			}
			out[name] = src
		}
	}
	return out, n, nil
}
