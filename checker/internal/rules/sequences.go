package rules

import (
	"fmt"
	"strings"

	"golang.org/x/tools/go/ssa"

	"hapverif/internal/core"
)

// Reviewed call sequences of the pipeline drivers: each listed step exists, no
// later step can run before an earlier one, and steps outside loops run on every
// path that does not leave through a reviewed early exit.

type seqStep struct {
	callee string // suffix of the rendered callee, or method name for interface calls
	loop   bool   // the step is inside a loop (may run zero times)
}

func findStep(fn *ssa.Function, st seqStep) []ssa.Instruction {
	var out []ssa.Instruction
	for _, s := range core.Calls(fn, false) {
		cc := s.Common()
		n := core.CalleeName(cc)
		if cc.IsInvoke() {
			n = "iface." + cc.Method.Name()
		}
		if strings.HasSuffix(n, st.callee) {
			out = append(out, s.Instr)
		}
	}
	return out
}

// orderedCalls checks the sequence. exits are guard substrings of reviewed early returns.
func orderedCalls(c *core.Ctx, key string, fn *ssa.Function, steps []seqStep, exits []string) {
	var sites [][]ssa.Instruction
	for _, st := range steps {
		ins := findStep(fn, st)
		if len(ins) == 0 {
			c.Violated(key+": step "+st.callee, c.Pos(fn.Pos()), "the step is not called any more")
			return
		}
		sites = append(sites, ins)
	}
	for i := range steps {
		// order: no instance of step j>i can be followed by an instance of step i (unless both are in the same loop)
		for j := i + 1; j < len(steps); j++ {
			for _, later := range sites[j] {
				for _, earlier := range sites[i] {
					w := core.Reaches(fn, later, func(in ssa.Instruction) bool { return in == earlier })
					if w != nil {
						li, lj := core.InnermostLoop(fn, earlier.Block()), core.InnermostLoop(fn, later.Block())
						if li != nil && lj != nil && li.Header == lj.Header {
							continue
						}
						c.Violated(key+": "+steps[i].callee+" before "+steps[j].callee, at(c, later), steps[j].callee+" can run before "+steps[i].callee+": "+w.Describe(c.Env))
						return
					}
				}
			}
		}
		if steps[i].loop {
			ok := false
			for _, in := range sites[i] {
				if core.InnermostLoop(fn, in.Block()) != nil {
					ok = true
				}
			}
			c.Check(ok, key+": "+steps[i].callee+" runs for every element", at(c, sites[i][0]), "", "the step is not inside a loop any more")
			continue
		}
		// unconditional modulo reviewed exits: a path entry -> return avoiding the step must cross a reviewed early return
		w := core.PathQuery{Fn: fn,
			Target: func(in ssa.Instruction) bool {
				r, ok := in.(*ssa.Return)
				if !ok || core.IsRecoverBlock(r.Block()) {
					return false
				}
				for _, g := range guardsOf(r) {
					for _, e := range exits {
						if strings.Contains(g.Key, e) {
							return false
						}
					}
				}
				return true
			},
			Barrier: func(in ssa.Instruction) bool {
				for _, x := range sites[i] {
					if x == in {
						return true
					}
				}
				return false
			}}.Find()
		if w != nil {
			c.Violated(key+": "+steps[i].callee+" always runs", at(c, sites[i][0]), "a return is reachable without this step: "+w.Describe(c.Env))
		} else {
			c.Held(key+": "+steps[i].callee+" always runs", at(c, sites[i][0]), fmt.Sprintf("step %d of %d", i+1, len(steps)))
		}
	}
}

func init() {
	doc := "Reviewed step sequences of the converters: syncFull (list, sort, global config, default backend, every ingress, annotations of all, endpoints of all), syncPartial (pre-track, query+unlink, remove dirty objects of all six kinds, merge, sort, every dirty ingress, annotations of changed, endpoints of changed) and converters.Sync (decide, clear links and model iff full, gateway, ingress, tcp configmap, acme flags): every step exists, none can run before an earlier one, steps outside loops run on every path except the reviewed early exits."
	addRule("C01", &core.Rule{ID: "C01.sequences", Floor: 20, Run: c01Sequences, Doc: doc})
	addRule("C03", &core.Rule{ID: "C03.sequences", Floor: 20, Run: c01Sequences, Doc: doc})
}

func c01Sequences(c *core.Ctx) {
	if fn := c.Fn("converters/ingress", "converter.syncFull"); fn != nil {
		orderedCalls(c, "syncFull", fn, []seqStep{
			{"iface.GetIngressList", false},
			{"converters/ingress.sortIngress", false},
			{"iface.UpdateGlobalConfig", false},
			{"converter).syncDefaultBackend", false},
			{"converter).syncIngress", true},
			{"converter).fullSyncAnnotations", false},
			{"converter).syncEndpoints", false},
		}, []string{"GetIngressList("})
	}
	if fn := c.Fn("converters/ingress", "converter.syncPartial"); fn != nil {
		orderedCalls(c, "syncPartial", fn, []seqStep{
			{"converter).trackAddedIngress", false},
			{"iface.QueryLinks", false},
			{"TCPServices).RemoveAll", false},
			{"Hosts).RemoveAll", false},
			{"Frontend).RemoveAuthBackendByTarget", false},
			{"Backends).RemoveAll", false},
			{"Userlists).RemoveAll", false},
			{"AcmeStorages).RemoveAll", false},
			{"converters/ingress.sortIngress", false},
			{"converter).syncIngress", true},
			{"converter).partialSyncAnnotations", false},
			{"converter).syncChangedEndpoints", false},
		}, nil)
	}
	if fn := c.Fn("converters/ingress", "converter.Sync"); fn != nil {
		orderedCalls(c, "ingress Sync", fn, []seqStep{{"converter).syncDefaultCrt", false}}, nil)
		full, part := findStep(fn, seqStep{"converter).syncFull", false}), findStep(fn, seqStep{"converter).syncPartial", false})
		if len(full) == 1 && len(part) == 1 {
			c.Check(guardedBy(full[0], func(k string) bool { return k == "full" }, true) && guardedBy(part[0], func(k string) bool { return k == "full" }, false), "ingress Sync dispatches on `full`", at(c, full[0]), "", "syncFull/syncPartial are not the true/false branches of the full flag")
		} else {
			c.Violated("ingress Sync dispatches on `full`", c.Pos(fn.Pos()), "syncFull or syncPartial call missing")
		}
	}
	if fn := c.Fn("converters", "converters.Sync"); fn != nil {
		orderedCalls(c, "converters.Sync", fn, []seqStep{
			{"ingress.NewIngressConverter", false},
			{"gateway.NewGatewayConverter", false},
			{"iface.Sync", false},
		}, nil)
		// clear iff needFullSync
		for _, nm := range []string{"iface.ClearLinks", "iface.Clear"} {
			ins := findStep(fn, seqStep{nm, false})
			if len(ins) != 1 {
				c.Violated("converters.Sync clears iff a full sync is needed: "+nm, c.Pos(fn.Pos()), fmt.Sprintf("%d calls", len(ins)))
				continue
			}
			gs := guardsOf(ins[0])
			ok := len(gs) == 1 && gs[0].Branch
			if ok {
				if !strings.Contains(gs[0].Key, "NeedFullSync") {
					ok = false
				}
			}
			c.Check(ok, "converters.Sync clears iff a full sync is needed: "+nm, at(c, ins[0]), "", "the clearing is not exactly on the true branch of needFullSync")
			// and it precedes every converter Sync
			for _, sy := range findStep(fn, seqStep{"iface.Sync", false}) {
				if w := core.Reaches(fn, sy, func(in ssa.Instruction) bool { return in == ins[0] }); w != nil {
					c.Violated("converters.Sync clears before converting: "+nm, at(c, ins[0]), "a converter runs before the model is cleared")
				}
			}
		}
		// the converters receive needFullSync
		n := 0
		for _, sy := range findStep(fn, seqStep{"iface.Sync", false}) {
			call := sy.(*ssa.Call)
			if len(call.Call.Args) == 0 {
				continue
			}
			n++
			ph, isPhi := call.Call.Args[0].(*ssa.Phi)
			_ = ph
			c.Check(isPhi && strings.Contains(core.Key(call.Call.Args[0]), "NeedFullSync") || strings.Contains(core.Key(call.Call.Args[0]), "NeedFullSync"), "the converter is told the decided mode: "+recvType(call), at(c, sy), "", "Sync receives `"+core.Key(call.Call.Args[0])+"`, not the needFullSync decision: model cleared but converter runs partially (or the reverse)")
		}
		c.Check(n >= 4, "converters receive the mode", c.Pos(fn.Pos()), "", fmt.Sprintf("%d Sync(mode) calls (3 gateway versions + ingress)", n))
		// each Gateway API version is converted exactly when that version is served; the ingress converter always
		for _, sy := range findStep(fn, seqStep{"iface.Sync", false}) {
			call := sy.(*ssa.Call)
			who := recvType(call)
			switch {
			case strings.Contains(who, "v1.Gateway"):
				c.Check(guardedBy(sy, has("options.HasGatewayV1"), true), "Gateway v1 is converted iff served", at(c, sy), "", "not on the HasGatewayV1 branch")
			case strings.Contains(who, "v1beta1.Gateway"):
				c.Check(guardedBy(sy, has("options.HasGatewayB1"), true), "Gateway v1beta1 is converted iff served", at(c, sy), "", "not on the HasGatewayB1 branch")
			case strings.Contains(who, "v1alpha2.Gateway"):
				c.Check(guardedBy(sy, has("options.HasGatewayA2"), true), "Gateway v1alpha2 is converted iff served", at(c, sy), "", "not on the HasGatewayA2 branch")
			case strings.HasPrefix(who, "ingress.Config"):
				c.Check(len(guardsOf(sy)) == 0, "the ingress converter always runs", at(c, sy), "", "the ingress conversion is conditional")
			}
		}
		// tcp services from the ConfigMap: whenever one is configured (Cur or New set)
		for _, s := range core.Calls(fn, false) {
			if strings.HasSuffix(core.CalleeName(s.Common()), "configmap.NewTCPServicesConverter") {
				t := core.ExtractTable(fn)
				condTable(c, "the TCP ConfigMap converter runs whenever a TCP ConfigMap is configured", t, s.Instr, matchers{
					"cur": has("TCPConfigMapDataCur != nil"),
					"new": has("TCPConfigMapDataNew != nil"),
				}, func(v map[string]bool) bool { return v["cur"] || v["new"] })
			}
		}
	}
}

func recvType(call *ssa.Call) string {
	t := call.Call.Value.Type().String()
	if i := strings.LastIndex(t, "/"); i >= 0 {
		t = t[i+1:]
	}
	extra := ""
	if len(call.Call.Args) > 1 {
		a := call.Call.Args[1]
		if mi, ok := a.(*ssa.MakeInterface); ok {
			a = mi.X
		}
		extra = " " + a.Type().String()
		if i := strings.LastIndex(extra, "/"); i >= 0 {
			extra = " " + extra[i+1:]
		}
	}
	return t + extra
}
