package rules

import (
	"crypto/sha256"
	"fmt"
	"go/constant"
	"regexp"
	"strings"
	"text/template/parse"

	"golang.org/x/tools/go/ssa"

	"hapverif/internal/core"
)

// ---------------------------------------------------------------------------------------------
// Template tables: what the configuration templates print, and under which conditions.
//
// Every property stated over "the configuration written" is observed after the template: a directive
// the template stops printing, prints under another condition, or prints with another value changes
// what HAProxy does even though the model is right (a `weight` printed only when non-zero makes a
// drained server serve; a method exemption ANDed into the authentication condition lets a request
// through). The templates are data: the table is the parse tree of each template, flattened to rows
// (`define` name, chain of enclosing if/range/with conditions, printed text or pipeline), white space
// collapsed so that re-indenting or re-flowing changes nothing.
// ---------------------------------------------------------------------------------------------

var tmplFiles = []string{
	"rootfs/etc/templates/haproxy/haproxy.tmpl",
	"rootfs/etc/templates/map/map.tmpl",
}

func squash(s string) string { return strings.Join(strings.Fields(s), " ") }

// TmplRows flattens one template file.
func TmplRows(env *core.Env, rel string) ([]string, error) {
	t, err := env.LoadTemplate(rel)
	if err != nil {
		return nil, err
	}
	var out []string
	for _, name := range t.TreeNames() {
		t.Walk(name, func(n core.TNode) {
			var txt string
			switch x := n.Node.(type) {
			case *parse.TextNode:
				txt = squash(string(x.Text))
				if txt == "" {
					return
				}
				txt = "text " + txt
			case *parse.ActionNode:
				txt = "print " + squash(x.String())
			case *parse.TemplateNode:
				txt = "call " + squash(x.String())
			default:
				return
			}
			var gs []string
			for _, g := range n.Guards {
				gs = append(gs, squash(g.String()))
			}
			out = append(out, name+" | "+strings.Join(gs, " / ")+" | "+txt)
		})
	}
	return out, nil
}

var _ = fmt.Sprintf

// TmplFiles lists the templates in the table.
func TmplFiles() []string { return tmplFiles }

type tmplGroup struct {
	suffix string
	props  []string
	trees  map[string]bool // nil: all
	what   string
}

var tmplGroups = []tmplGroup{
	{"template-all", []string{"C07"}, nil, "every template (main file, maps, crt-lists)"},
	{"template-backends", []string{"C03", "C16", "C02", "C11", "C18", "C19", "C09", "C10", "C01", "C05"}, set("backends", "backend", "tcpbackends", "defaultbackend", "userlists", "dnresolvers", "backend-support", "authExternal"), "the backend sections (servers, weights, per-path policies, authentication, snippets)"},
	{"template-frontends", []string{"C03", "C04", "C15", "C18", "C08", "C01", "C05"}, set("frontends", "frontend-support", "httpFilters", "redirectFrom", "redirectTo", "sourceIP", "authExternal", "authExternalFrontend", "map.tmpl", "crtlist.tmpl"), "the frontends, the map files and the crt-lists (routing, TLS, fallbacks)"},
	{"template-global", []string{"C19", "C02", "C12"}, set("global", "haproxy.tmpl", "customsections"), "the global section (sockets, global snippets)"},
}

func init() {
	tmplFiles = append(tmplFiles, "rootfs/etc/templates/crtlist/crtlist.tmpl")
	for _, g := range tmplGroups {
		g := g
		for _, p := range g.props {
			addRule(p, &core.Rule{ID: p + "." + g.suffix, Floor: 3, Run: func(c *core.Ctx) { tmplTableRule(c, g) },
				Doc: "Template table of " + g.what + ": the parse tree of the templates, flattened to rows (define name | chain of enclosing if/range/with pipelines | printed text, pipeline or template call; white space collapsed), equals the table generated from the reviewed tree (rules/tmpl_gen.go). The templates are the last step before HAProxy: a directive that is no longer printed, is printed under another condition or with another value changes the behaviour of a correct model. Comments and re-indentation change no row. Within a definition the rows are a multiset, except those that print request/response rules and backend selections (http-request, http-response, tcp-request, tcp-response, use_backend, use-server, redirect), which HAProxy evaluates in the order written: their sequence equals the reviewed one."})
		}
	}
}

var orderedDirective = regexp.MustCompile(`\b(http-request|http-response|http-after-response|tcp-request|tcp-response|use_backend|use-server|redirect) `)

func tmplTableRule(c *core.Ctx, g tmplGroup) {
	n := 0
	for _, f := range tmplFiles {
		got, err := TmplRows(c.Env, f)
		if err != nil {
			c.MissingAnchor(f + ": " + err.Error())
			continue
		}
		want := tmplGenTable[f]
		pick := func(rows []string) map[string]map[string]int {
			out := map[string]map[string]int{}
			for _, r := range rows {
				tree := r
				if i := strings.Index(r, " | "); i >= 0 {
					tree = r[:i]
				}
				if g.trees != nil && !g.trees[tree] {
					continue
				}
				if out[tree] == nil {
					out[tree] = map[string]int{}
				}
				out[tree][r]++
			}
			return out
		}
		w, h := pick(want), pick(got)
		trees := map[string]bool{}
		for k := range w {
			trees[k] = true
		}
		for k := range h {
			trees[k] = true
		}
		for _, tree := range sortedKeys(trees) {
			n++
			var missing, extra []string
			keys := map[string]bool{}
			for k := range w[tree] {
				keys[k] = true
			}
			for k := range h[tree] {
				keys[k] = true
			}
			for _, k := range sortedKeys(keys) {
				d := w[tree][k] - h[tree][k]
				for i := 0; i < d; i++ {
					missing = append(missing, k)
				}
				for i := 0; i < -d; i++ {
					extra = append(extra, k)
				}
			}
			c.Check(len(missing) == 0 && len(extra) == 0, "template "+f[strings.LastIndex(f, "/")+1:]+" define "+tree+" prints the reviewed rows", f, fmt.Sprintf("%d rows", len(w[tree])),
				"rows that disappeared: ["+clip(strings.Join(missing, " ;; "), 700)+"]; new rows: ["+clip(strings.Join(extra, " ;; "), 700)+"]")
			// HAProxy evaluates request/response rules and backend selections in the order they are written:
			// the rows that print such directives keep their order (the other rows are settings: a set)
			if len(missing) == 0 && len(extra) == 0 {
				seq := func(rows []string) []string {
					var out []string
					for _, r := range rows {
						t := r
						if i := strings.Index(r, " | "); i >= 0 {
							t = r[:i]
						}
						if t == tree && orderedDirective.MatchString(r) {
							out = append(out, r)
						}
					}
					return out
				}
				ws, hs := seq(want), seq(got)
				same := len(ws) == len(hs)
				first := ""
				for i := 0; same && i < len(ws); i++ {
					if ws[i] != hs[i] {
						same = false
						first = fmt.Sprintf("position %d is now [%s], reviewed [%s]", i, clip(hs[i], 200), clip(ws[i], 200))
					}
				}
				if len(ws) > 0 {
					c.Check(same, "template "+f[strings.LastIndex(f, "/")+1:]+" define "+tree+" prints its rules in the reviewed order", f, fmt.Sprintf("%d ordered rows", len(ws)),
						"the order of request/response rules or backend selections changed: "+first)
				}
			}
		}
	}
	c.Check(n >= 1, "template definitions compared ("+g.suffix+")", "", fmt.Sprintf("%d", n), "no template definition compared")
}

// ---------------------------------------------------------------------------------------------
// C18: the Lua action behind `lua.auth-intercept` answers `successful` only for a 2xx response.
// ---------------------------------------------------------------------------------------------

func init() {
	addRule("C18", &core.Rule{ID: "C18.lua-verdict", Floor: 5, Run: c18LuaVerdict,
		Doc: "rootfs/etc/lua/auth-request.lua (the action the template calls as lua.auth-intercept): auth_request starts by setting txn.auth_response_successful to false; the only place that sets it to true is the branch `if response_ok then`; response_ok is assigned once, as `200 <= response.status_code and response.status_code < 300`; the action names the template uses are registered by the script. Decided on the token stream of the script with comments and white space removed (Lua is not parsed: a restructured script raises an alarm that has to be reviewed)."})
}

// The HTTP client library the authentication script makes its sub-request with is a vendored copy
// (github.com/haproxytech/haproxy-lua-http): what it returns as status_code is what auth-request.lua
// compares. It is not parsed; its content with comments and white space removed is the reviewed one.
const luaHTTPLibrarySum = "34b8a335edab8a488a213b6cfa8c03dd3c54191fa5343395e04e78b18b119fb7"

func init() {
	addRule("C18", &core.Rule{ID: "C18.lua-http-library", Floor: 1, Run: func(c *core.Ctx) {
		const rel = "rootfs/etc/lua/haproxy-lua-http.lua"
		b, err := c.ReadRepoFile(rel)
		if err != nil {
			c.MissingAnchor(rel + ": " + err.Error())
			return
		}
		sum := fmt.Sprintf("%x", sha256.Sum256([]byte(strings.Join(luaLines(string(b)), "\n"))))
		c.Check(sum == luaHTTPLibrarySum, "vendored HTTP client library of the authentication script is the reviewed copy", rel, "sha256 of the statements "+sum[:12]+"…",
			"the statements of the library changed (sha256 "+sum[:12]+"…, reviewed "+luaHTTPLibrarySum[:12]+"…): the status code and headers of the authentication response are read through it")
	}, Doc: "rootfs/etc/lua/haproxy-lua-http.lua, the vendored HTTP client the authentication script (auth-request.lua) sends its sub-request with and reads status_code and headers from, has the reviewed content (sha256 over its lines with comments and white space removed). A vendored third-party file is identified by its content; it is not parsed. Stated plainly: this is a frozen file, chosen because the alternative is to trust 800 lines the property depends on without looking at them."})
}

func luaLines(src string) []string {
	var out []string
	for _, l := range strings.Split(src, "\n") {
		if i := strings.Index(l, "--"); i >= 0 {
			l = l[:i]
		}
		l = squash(l)
		if l != "" {
			out = append(out, l)
		}
	}
	return out
}

func c18LuaVerdict(c *core.Ctx) {
	const rel = "rootfs/etc/lua/auth-request.lua"
	b, err := c.ReadRepoFile(rel)
	if err != nil {
		c.MissingAnchor(rel + ": " + err.Error())
		return
	}
	lines := luaLines(string(b))
	start := -1
	for i, l := range lines {
		if strings.HasPrefix(l, "function auth_request(") {
			start = i
		}
	}
	if start < 0 {
		c.MissingAnchor("function auth_request in " + rel)
		return
	}
	c.Check(start+1 < len(lines) && lines[start+1] == `set_var(txn, "txn.auth_response_successful", false)`, "auth_request starts as not successful", rel, "", "the first statement of auth_request is `"+lines[start+1]+"`")
	var trueAt []int
	nOK := 0
	okDef := ""
	for i := start; i < len(lines); i++ {
		l := lines[i]
		if strings.Contains(l, `"txn.auth_response_successful"`) && strings.Contains(l, "true") {
			trueAt = append(trueAt, i)
		}
		if strings.HasPrefix(l, "local response_ok =") || strings.HasPrefix(l, "response_ok =") {
			nOK++
			okDef = l
		}
	}
	c.Check(len(trueAt) == 1, "successful is set to true at one place", rel, "", fmt.Sprintf("%d places set txn.auth_response_successful to true", len(trueAt)))
	if len(trueAt) == 1 {
		i := trueAt[0]
		c.Check(i > 0 && lines[i-1] == "if response_ok then", "successful is set only under `if response_ok then`", rel, "", "the statement before it is `"+lines[i-1]+"`")
	}
	c.Check(nOK == 1 && okDef == "local response_ok = 200 <= response.status_code and response.status_code < 300", "response_ok means a 2xx status", rel, okDef, fmt.Sprintf("response_ok is assigned %d time(s), last as `%s`", nOK, okDef))
	// set_var is the only way a txn variable is written, and no other spelling of the variable exists
	n := 0
	for _, l := range lines {
		if strings.Contains(l, "auth_response_successful") {
			n++
		}
	}
	c.Check(n == 2, "the verdict variable is written at two places (false, true)", rel, "", fmt.Sprintf("%d lines mention txn.auth_response_successful", n))
	reg := false
	for _, l := range lines {
		if strings.HasPrefix(l, `core.register_action("auth-intercept"`) {
			reg = true
		}
	}
	c.Check(reg, "the script registers the action the template calls", rel, "", "no core.register_action(\"auth-intercept\" …)")
}

// ---------------------------------------------------------------------------------------------
// C12: the reload script of the embedded (non master-worker) mode reports a failed start.
// ---------------------------------------------------------------------------------------------

func init() {
	addRule("C12", &core.Rule{ID: "C12.reload-script", Floor: 4, Run: c12ReloadScript,
		Doc: "rootfs/haproxy-reload.sh (run by reloadEmbeddedDaemon, whose exit status is the verdict of the reload): `set -e` is the first command, every haproxy invocation loads the configuration directory it was given (-f \"$PARAM_CFG\") and hands over from the old process (-sf $OLD_PID), and none of them has its exit status masked (`||`, `;`, `&`, a pipe). Decided on the script's lines with comments removed (shell is not parsed)."})
}

func c12ReloadScript(c *core.Ctx) {
	const rel = "rootfs/haproxy-reload.sh"
	b, err := c.ReadRepoFile(rel)
	if err != nil {
		c.MissingAnchor(rel + ": " + err.Error())
		return
	}
	var lines []string
	for _, l := range strings.Split(string(b), "\n") {
		t := strings.TrimSpace(l)
		if t == "" || strings.HasPrefix(t, "#") {
			continue
		}
		lines = append(lines, squash(t))
	}
	c.Check(len(lines) > 0 && lines[0] == "set -e", "the script stops at the first failing command", rel, "", "the first command is not `set -e`")
	n := 0
	for _, l := range lines {
		if !strings.HasPrefix(l, "haproxy ") {
			continue
		}
		n++
		ok := strings.Contains(l, `-f "$PARAM_CFG"`) && strings.Contains(l, "-sf $OLD_PID") && !strings.ContainsAny(l, "|;&")
		c.Check(ok, fmt.Sprintf("haproxy invocation #%d loads the given configuration and reports its status", n), rel, l, "the invocation is `"+l+"`")
	}
	c.Check(n == 2, "the script starts haproxy in both strategies", rel, "", fmt.Sprintf("%d haproxy invocations", n))
	for _, l := range lines {
		if strings.HasPrefix(l, "set +e") || strings.Contains(l, "exit 0") || strings.HasPrefix(l, "trap ") {
			c.Violated("the script does not mask failures", rel, "`"+l+"`")
		}
	}
	// Under `set -e` every command of the script is a possible reason for the reload to be reported as
	// failed (and retried for ever) or, when masked, as done: the command lines are compared with the
	// reviewed list. This is a frozen fragment of a 15-command script, stated as such in DESIGN.md.
	want := reloadScriptLines
	cnt := map[string]int{}
	for _, l := range want {
		cnt[l]++
	}
	for _, l := range lines {
		cnt[l]--
	}
	var missing, extra []string
	for _, k := range sortedKeys(cnt) {
		for i := 0; i < cnt[k]; i++ {
			missing = append(missing, k)
		}
		for i := 0; i < -cnt[k]; i++ {
			extra = append(extra, k)
		}
	}
	c.Check(len(missing) == 0 && len(extra) == 0, "the commands of the reload script are the reviewed ones", rel, fmt.Sprintf("%d commands", len(want)),
		"commands that disappeared: ["+strings.Join(missing, " ;; ")+"]; new commands: ["+strings.Join(extra, " ;; ")+"]")
}

var reloadScriptLines = []string{
	"set -e",
	"PARAM_STRATEGY=\"$1\"",
	"PARAM_CFG=\"$2\"",
	"PARAM_LOCAL_FS_PREFIX=\"$3\"",
	"PARAM_STATE=\"${4:-0}\"",
	"HAPROXY_SOCKET=\"${PARAM_LOCAL_FS_PREFIX}/var/run/haproxy/admin.sock\"",
	"HAPROXY_STATE=\"${PARAM_LOCAL_FS_PREFIX}/var/lib/haproxy/state-global\"",
	"HAPROXY_PID=\"${PARAM_LOCAL_FS_PREFIX}/var/run/haproxy/haproxy.pid\"",
	"OLD_PID=$(cat \"$HAPROXY_PID\" 2>/dev/null || :)",
	"if [ \"$PARAM_STATE\" != \"0\" ]; then",
	"if [ -S \"$HAPROXY_SOCKET\" ]; then",
	"echo \"show servers state\" | socat \"$HAPROXY_SOCKET\" - > /tmp/state && mv /tmp/state \"$HAPROXY_STATE\"",
	"fi",
	"if [ ! -s \"$HAPROXY_STATE\" ]; then",
	"echo \"#\" > \"$HAPROXY_STATE\"",
	"fi",
	"fi",
	"if [ \"$PARAM_STRATEGY\" != \"native\" ] && [ -S \"$HAPROXY_SOCKET\" ]; then",
	"haproxy -f \"$PARAM_CFG\" -p \"$HAPROXY_PID\" -D -sf $OLD_PID -x \"$HAPROXY_SOCKET\"",
	"else",
	"haproxy -f \"$PARAM_CFG\" -p \"$HAPROXY_PID\" -D -sf $OLD_PID",
	"fi",
}

// ---------------------------------------------------------------------------------------------
// Methods of the model that only the templates call (through reflection: invisible to the call graph).
// ---------------------------------------------------------------------------------------------

func init() {
	props := map[string]bool{}
	for _, g := range tmplGroups {
		for _, p := range g.props {
			props[p] = true
		}
	}
	for _, p := range sortedKeys(props) {
		addRule(p, &core.Rule{ID: p + ".template-methods", Floor: 1, Run: templateMethods,
			Doc: "The templates call methods of the model by name (`$authCfg.PathIDs $i`, `$backend.PathConfig \"AuthExternal\"`, `$host.HasTLS` …); text/template resolves them by reflection, so no call graph contains these calls. Every exported method of pkg/haproxy/types (and of the data structures handed to the templates) whose name occurs as a field or method identifier in a template is anchored here, which puts it and its callees into the scope of the generated tables: what such a method answers is printed into the configuration."})
	}
}

func templateMethods(c *core.Ctx) {
	names := map[string]bool{}
	funcs := map[string]bool{} // function identifiers of the templates (resolved through the FuncMap)
	for _, f := range tmplFiles {
		t, err := c.LoadTemplate(f)
		if err != nil {
			c.MissingAnchor(f + ": " + err.Error())
			continue
		}
		var walk func(n parse.Node)
		walk = func(n parse.Node) {
			switch x := n.(type) {
			case *parse.FieldNode:
				for _, id := range x.Ident {
					names[id] = true
				}
			case *parse.VariableNode:
				for _, id := range x.Ident[1:] {
					names[id] = true
				}
			case *parse.ChainNode:
				for _, id := range x.Field {
					names[id] = true
				}
				walk(x.Node)
			case *parse.IdentifierNode:
				funcs[x.Ident] = true
			case *parse.PipeNode:
				for _, cmd := range x.Cmds {
					walk(cmd)
				}
			case *parse.CommandNode:
				for _, a := range x.Args {
					walk(a)
				}
			}
		}
		for _, name := range t.TreeNames() {
			t.Walk(name, func(n core.TNode) {
				switch x := n.Node.(type) {
				case *parse.ActionNode:
					walk(x.Pipe)
				case *parse.TemplateNode:
					if x.Pipe != nil {
						walk(x.Pipe)
					}
				case *parse.IfNode:
					walk(x.Pipe)
				case *parse.RangeNode:
					walk(x.Pipe)
				case *parse.WithNode:
					walk(x.Pipe)
				}
			})
		}
	}
	n := 0
	for _, fn := range c.SrcFuncs() {
		pk := core.PkgOf(fn)
		if pk != "haproxy/types" && pk != "haproxy" {
			continue
		}
		if fn.Signature.Recv() == nil || fn.Parent() != nil {
			continue
		}
		if names[fn.Name()] && fn.Object() != nil && fn.Object().Exported() {
			c.Touch(fn)
			n++
		}
	}
	c.Check(n >= 40, "model methods called by the templates", "", fmt.Sprintf("%d methods anchored", n), fmt.Sprintf("only %d methods of the model match identifiers of the templates", n))
	// the helper functions the templates call by name: the entries of the FuncMap built by createFuncMap
	if fm := c.Fn("haproxy/template", "createFuncMap"); fm != nil {
		used := 0
		for _, b := range fm.Blocks {
			for _, in := range b.Instrs {
				mu, ok := in.(*ssa.MapUpdate)
				if !ok {
					continue
				}
				k, ok := mu.Key.(*ssa.Const)
				if !ok || k.Value == nil || k.Value.Kind() != constant.String {
					continue
				}
				if funcs[constant.StringVal(k.Value)] {
					used++
					v := mu.Value
					if mi, ok := v.(*ssa.MakeInterface); ok {
						v = mi.X
					}
					switch f := v.(type) {
					case *ssa.MakeClosure:
						if cf, ok := f.Fn.(*ssa.Function); ok {
							c.Touch(cf)
						}
					case *ssa.Function:
						c.Touch(f)
					}
				}
			}
		}
		c.Touch(fm)
		c.Check(used >= 2, "helper functions called by the templates", c.Pos(fm.Pos()), fmt.Sprintf("%d entries of the FuncMap are called by the templates and anchored", used), fmt.Sprintf("only %d entries of the FuncMap match function identifiers of the templates", used))
	}
	// which template files are loaded, with which function map
	if fn := c.Fn("haproxy", "instance.ParseTemplates"); fn != nil {
		c.Touch(fn)
	}
}
