package rules

import (
	"fmt"
	"go/ast"
	"go/types"
	"hash/fnv"
	"sort"
	"strings"
	"text/template/parse"
	"unicode/utf8"

	"golang.org/x/tools/go/ssa"

	"hapverif/internal/core"
)

// ---------------------------------------------------------------------------------------------
// Per-element values do not leak between iterations.
//
// A value that a converter loop writes into the model for element N must be computed from element N.
// When the local that holds it is declared outside the loop and only conditionally assigned inside,
// SSA shows it as a phi at the loop header whose back-edge operand is the value of the previous
// iteration: element N silently inherits what element N-1 set. The result then depends on the order
// of the elements (C06) and, for weights, gives a backendRef without a weight the weight of its
// predecessor instead of the default 1 (C16).
//
// Rule: inside a loop, the value stored into a struct field (or appended / put into a map) does not
// reach, through phi nodes and conversions only, a header phi of an enclosing loop that carries a
// value from the previous iteration. Accumulators that are loaded, added to, compared or passed to a
// call are not phi-only chains and are not matched.
// ---------------------------------------------------------------------------------------------

var carriedExempt = map[string]string{}

func init() {
	doc := "Inside the loops of the converters, a value written into the model (struct field store) is computed from the current element: it does not reach, through phi nodes and conversions only, a loop-header phi that carries the previous iteration's value (a local hoisted out of the loop and only conditionally assigned gives element N the value of element N-1)."
	addRule("C16", &core.Rule{ID: "C16.per-element-values", Floor: 25, Run: perElementValues, Doc: doc + " For C16: a backendRef without `weight` gets 1, not its predecessor's weight."})
	addRule("C06", &core.Rule{ID: "C06.per-element-values", Floor: 25, Run: perElementValues, Doc: "Shared with C16: " + doc + " A leaked value makes the result depend on the order of the elements."})
	addRule("C10", &core.Rule{ID: "C10.per-element-values", Floor: 25, Run: perElementValues, Doc: "Shared with C16: " + doc})
}

// carriedSource walks v through phi nodes and conversions; it returns the loop-header phi (of a loop
// containing blk) that receives, along a back edge, a value other than itself.
func carriedSource(v ssa.Value, loops []*core.Loop, blk *ssa.BasicBlock) *ssa.Phi {
	seen := map[ssa.Value]bool{}
	var walk func(v ssa.Value) *ssa.Phi
	walk = func(v ssa.Value) *ssa.Phi {
		if v == nil || seen[v] {
			return nil
		}
		seen[v] = true
		switch x := v.(type) {
		case *ssa.Convert:
			return walk(x.X)
		case *ssa.ChangeType:
			return walk(x.X)
		case *ssa.Phi:
			for _, l := range loops {
				if l.Header != x.Block() || !l.Blocks[blk] {
					continue
				}
				for i, p := range l.Header.Preds {
					if l.Blocks[p] && x.Edges[i] != ssa.Value(x) {
						// a back edge: does it bring something that is not a fresh per-iteration value?
						// any value arriving on a back edge is the state at the end of the previous iteration
						return x
					}
				}
			}
			for _, e := range x.Edges {
				if r := walk(e); r != nil {
					return r
				}
			}
		}
		return nil
	}
	return walk(v)
}

func perElementValues(c *core.Ctx) {
	n := 0
	for _, fn := range c.SrcFuncs() {
		pk := core.PkgOf(fn)
		if !strings.HasPrefix(pk, "converters/") || strings.Contains(pk, "helper_test") || strings.HasSuffix(pk, "/tracker") {
			continue
		}
		loops := core.Loops(fn)
		if len(loops) == 0 {
			continue
		}
		inLoop := func(b *ssa.BasicBlock) bool {
			for _, l := range loops {
				if l.Blocks[b] {
					return true
				}
			}
			return false
		}
		fnStores, fnBad := 0, 0
		for _, b := range fn.Blocks {
			if !inLoop(b) {
				continue
			}
			for _, in := range b.Instrs {
				st, ok := in.(*ssa.Store)
				if !ok {
					continue
				}
				fa, isField := st.Addr.(*ssa.FieldAddr)
				if !isField {
					continue
				}
				_, f := core.FieldOf(fa)
				n++
				fnStores++
				c.Touch(fn)
				ph := carriedSource(st.Val, loops, b)
				key := core.FuncName(fn) + ": ." + f + " stored in a loop is a value of the current element"
				if ph == nil {
					continue
				}
				if why, listed := carriedExempt[core.FuncName(fn)+"."+f]; listed {
					c.Held(key, at(c, st), "reviewed exception: "+why)
					continue
				}
				fnBad++
				c.Violated(key, at(c, st), "the stored value is, on some path, the loop-carried value `"+ph.Comment+"` of the previous iteration (a local declared outside the loop and not assigned on every path of the body): an element that does not set it inherits its predecessor's value")
			}
		}
		if fnStores > 0 && fnBad == 0 {
			c.Held(core.FuncName(fn)+": values stored in loops are values of the current element", c.Pos(fn.Pos()), fmt.Sprintf("%d field stores inside loops, none is a phi-only chain to a loop-carried value", fnStores))
		}
	}
	c.Check(n >= 20, "field stores inside converter loops examined", "", fmt.Sprintf("%d stores", n), fmt.Sprintf("only %d field stores inside loops of the converters were found", n))
}

var _ = sort.Strings

// ---------------------------------------------------------------------------------------------
// Error-exit rows added in round 4: the reload chain, the certificate validators of both runtimes,
// the template writer.
// ---------------------------------------------------------------------------------------------

func init() {
	const lost = "a failed step that is not reported is never retried: the files on disk and the running process stay behind the model"
	const cert = "a certificate, key, CA or CRL that does not parse — or a key that does not belong to the certificate — must be an error: the caller then falls back to the default certificate instead of handing HAProxy a file it refuses (or serving a certificate without its key)"
	type row = struct {
		prop, pkg, fn string
		idx           int
		want          []string
		why           string
	}
	errorExitTable = append(errorExitTable, []row{
		{"C12", "haproxy", "instance.reloadWorker", 0, []string{`Errorf when Send != nil`}, lost},
		{"C12", "haproxy", "instance.reloadHAProxy", 0, []string{`reloadEmbeddedDaemon when !i.options.IsMasterWorker`, `reloadEmbeddedMasterWorker when i.options.IsMasterWorker`, `reloadExternal when i.options.IsExternal`}, lost},
		{"C12", "haproxy", "instance.reloadEmbeddedDaemon", 0, []string{`CombinedOutput always`}, lost},
		{"C12", "haproxy", "instance.reloadEmbeddedMasterWorker", 0, []string{`reloadWorker when reloadWorker != nil`, `waitMaster when waitMaster != nil`, `waitWorker always`}, lost},
		{"C12", "haproxy", "instance.reloadExternal", 0, []string{`reloadWorker when reloadWorker != nil`, `waitMaster when waitMaster != nil`, `waitWorker when reloadWorker == nil`}, lost},
		{"C12", "haproxy", "instance.check", 0, []string{`Errorf when CombinedOutput != nil`}, lost},
		{"C12", "haproxy/template", "Config.WriteOutput", 0, []string{`Execute when Execute != nil`, `writeToDisk when writeToDisk != nil`}, lost},
		{"C12", "haproxy/template", "template.writeToDisk", 0, []string{`Errorf when !IsNotExist`, `Errorf when !IsNotExist`, `Errorf when Rename != nil`, `Errorf when WriteFile != nil`, `Errorf when after the loop`}, lost},
		{"C15", "controller/services", "SSL.buildCertFromCrtAndKey", 1, []string{`Errorf when Verify != nil`, `WriteFile when WriteFile != nil`, `X509KeyPair when X509KeyPair != nil`, `checkValidCertPEM when checkValidCertPEM != nil`, `checkValidCertPEM when checkValidCertPEM != nil`, `checkValidPEM when checkValidPEM != nil`}, cert},
		{"C15", "controller/services", "SSL.checkValidPEM", 1, []string{`Errorf when Decode == nil`, `Errorf when after the loop`}, cert},
		{"C15", "controller/services", "SSL.checkValidCertPEM", 1, []string{`Errorf when Decode == nil`, `Errorf when Decode#0.Type != "CERTIFICATE"`, `ParseCertificate when ParseCertificate != nil`}, cert},
		{"C15", "controller/services", "SSL.buildCertFromCAAndCRL", 1, []string{`WriteFile when WriteFile != nil`, `WriteFile when WriteFile != nil`, `checkValidCertPEM when checkValidCertPEM != nil`, `checkValidPEM when checkValidPEM != nil`}, cert},
		{"C15", "controller/services", "SSL.getCertificate", 1, []string{`Errorf when len(lookup "ca.crt") <= 0`, `buildCertFromCAAndCRL when len(lookup "ca.crt") > 0`, `buildCertFromCrtAndKey when len(lookup "tls.key") > 0`}, cert},
		{"C15", "controller/services", "SSL.getDHParam", 1, []string{`Errorf when len(lookup "dhparam.pem") == 0`, `WriteFile when WriteFile != nil`, `checkValidPEM when checkValidPEM != nil`}, cert},
		{"C15", "controller/services", "c.getCertificate", 1, []string{`Get when Get != nil`, `getCertificate when Get == nil`}, cert},
		{"C15", "common/net/ssl", "AddOrUpdateCertAndKey", 1, []string{`Errorf when Close != nil`, `Errorf when Decode == nil`, `Errorf when Decode#0.Type != "CERTIFICATE"`, `Errorf when OpenFile != nil`, `Errorf when Rename != nil`, `Errorf when TempFile != nil`, `Errorf when Write != nil`, `Errorf when Write != nil`, `Errorf when Write != nil`, `Errorf when Write != nil`, `New when Verify != nil`, `ParseCertificate when ParseCertificate != nil`, `ReadFile when ReadFile != nil`, `X509KeyPair when X509KeyPair != nil`}, cert},
		{"C15", "common/net/ssl", "AddCertAuth", 1, []string{`Errorf when Decode == nil`, `Errorf when Decode == nil`, `Errorf when Decode#0.Type != "CERTIFICATE"`, `Errorf when WriteFile != nil`, `Errorf when WriteFile != nil`, `ParseCRL when ParseCRL != nil`, `ParseCertificate when ParseCertificate != nil`}, cert},
		{"C15", "common/net/ssl", "AddOrUpdateDHParam", 1, []string{`Errorf when Close != nil`, `Errorf when Decode == nil`, `Errorf when Decode#0.Type != "DH PARAMETERS"`, `Errorf when Rename != nil`, `Errorf when TempFile != nil`, `Errorf when Write != nil`, `ReadFile when ReadFile != nil`}, cert},
	}...)
	addRule("C12", &core.Rule{ID: "C12.reload-verdict", Floor: 1, Run: c12ReloadVerdict,
		Doc: "waitWorker reports a failed reload exactly when the master's process table cannot be read, lists no worker (HAProxy 2.2–2.4) or counts a failed reload (2.5+): its decision table over the three tests is `error iff any of them`. A reload whose failure is not reported is committed and never retried."})
	addRule("C13", &core.Rule{ID: "C13.reload-verdict", Floor: 1, Run: c12ReloadVerdict, Doc: "Shared with C12: the reload queue re-schedules a reload only when the reload reports its failure."})
}

// errorIff compares `result #idx of fn is a non-nil error` with spec over the function's decision table.
func errorIff(c *core.Ctx, key string, fn *ssa.Function, idx int, m matchers, spec func(v map[string]bool) bool) {
	t := core.ExtractTable(fn)
	site := c.Pos(fn.Pos())
	if t.Err != "" {
		c.Undecided(key, site, "decision table not extracted: "+t.Err)
		return
	}
	b, err := t.Bind(m)
	if err != nil {
		c.Undecided(key, site, "cannot bind the specification variables to the conditions of the code (a condition was changed, added or removed): "+err.Error())
		return
	}
	cls := t.ReturnClasses(func(r *ssa.Return) string {
		res := core.Results(r)
		if idx < len(res) && core.IsNilConst(res[idx]) {
			return "ok"
		}
		return "error"
	})
	ok, diff, rows := t.CompareClasses(cls, b, func(v map[string]bool) string {
		if spec(v) {
			return "error"
		}
		return "ok"
	})
	if !ok {
		c.Violated(key, site, "the function fails under other conditions than the reviewed ones: "+diff)
		return
	}
	c.Held(key, site, fmt.Sprintf("error iff the specification, on all %d rows over atoms [%s]", rows, strings.Join(t.Atoms, " ; ")))
}

func c12ReloadVerdict(c *core.Ctx) {
	fn := c.Fn("haproxy", "instance.waitWorker")
	if fn == nil {
		return
	}
	errorIff(c, "waitWorker fails iff procs unreadable, no worker, or a failed reload is counted", fn, 0, matchers{
		"unreadable": has("HAProxyProcs(", "#1 != nil"),
		"noWorkers":  has("builtin:len(", ".Workers", "== 0"),
		"failed":     has(".Master.Failed", "> 0"),
	}, func(v map[string]bool) bool { return v["unreadable"] || v["noWorkers"] || v["failed"] })
}

// ---------------------------------------------------------------------------------------------
// C17: which collection feeds the acme queue.
// ---------------------------------------------------------------------------------------------

func init() {
	addRule("C17", &core.Rule{ID: "C17.queue-sources", Floor: 4, Run: c17QueueSources,
		Doc: "The periodic check (AcmeCheck) enqueues every storage of the model (BuildAcmeStorages), the per-update hook (AcmeUpdate) enqueues the storages added or changed by this update (BuildAcmeStoragesAdd) and removes the ones that disappeared (BuildAcmeStoragesDel). The element handed to acmeAddStorage/acmeRemoveStorage is an element of exactly that list."})
}

// elementSourceCallee: v is an element of the slice returned by a call; returns that callee's name.
func elementSourceCallee(v ssa.Value) string {
	for {
		switch x := v.(type) {
		case *ssa.UnOp:
			v = x.X
			continue
		case *ssa.IndexAddr:
			if call, ok := x.X.(*ssa.Call); ok {
				return core.CalleeName(&call.Call)
			}
			return ""
		case *ssa.Extract:
			// range over map/string: next(iter)
			return ""
		}
		return ""
	}
}

func c17QueueSources(c *core.Ctx) {
	if fn := c.Fn("haproxy", "instance.AcmeCheck"); fn != nil {
		got := strings.Join(errorExits(fn, 1), " | ")
		want := "Errorf when !IsLeader | Errorf when !acmeEnsureConfig | Errorf when !i.up | Errorf when i.options.AcmeQueue == nil"
		c.Check(got == want, "AcmeCheck refuses iff not up, no queue, no account or not leader", c.Pos(fn.Pos()), got, "error exits are ["+got+"], reviewed ["+want+"]")
	}
	for _, x := range []struct{ fn, sink, src, why string }{
		{"instance.AcmeCheck", "acmeAddStorage", "BuildAcmeStorages", "the periodic check verifies every certificate; fed with the delta list it checks nothing once the update was committed, and expiring certificates are never renewed"},
		{"instance.AcmeUpdate", "acmeAddStorage", "BuildAcmeStoragesAdd", "an update enqueues what appeared or changed; fed with the full list every update re-enqueues unchanged certificates"},
		{"instance.AcmeUpdate", "acmeRemoveStorage", "BuildAcmeStoragesDel", "an update removes from the queue what disappeared"},
	} {
		fn := c.Fn("haproxy", x.fn)
		if fn == nil {
			continue
		}
		n := 0
		for _, s := range core.Calls(fn, false) {
			cn := core.CalleeName(s.Common())
			if !strings.HasSuffix(cn, "."+x.sink) {
				continue
			}
			n++
			args := core.CallArgs(s.Common())
			src := ""
			if len(args) > 0 {
				src = elementSourceCallee(args[len(args)-1])
			}
			c.Check(strings.HasSuffix(src, "."+x.src), x.fn+" feeds "+x.sink+" from "+x.src, at(c, s.Instr), "", "the element comes from `"+src+"`, reviewed `"+x.src+"`: "+x.why)
		}
		c.Check(n == 1, x.fn+" calls "+x.sink+" once", c.Pos(fn.Pos()), "", fmt.Sprintf("%d calls", n))
	}
}

// ---------------------------------------------------------------------------------------------
// The name a converter links in the tracker is the key of the model object it touched.
// ---------------------------------------------------------------------------------------------

func init() {
	doc := "Every tracker link of a model kind (HAHostname, HABackend, HATCPService, AcmeData) made by the converters names the object by its model key: the Hostname/ID field of the acquired object, the very value handed to the Acquire*/Find* call of that container in the same function, a constant, or the result of the reviewed key builders (normalizeHostname). A link under another spelling (the raw hostname before `*`/empty is mapped to the default host, the bare secret name without its namespace) is never found when the tracker is asked which Ingresses or Gateways depend on the object."
	for _, p := range []string{"C01", "C17", "C14", "C15"} {
		addRule(p, &core.Rule{ID: p + ".tracked-name-is-model-key", Floor: 12, Run: trackedNameIsModelKey, Doc: doc})
	}
}

var modelKinds = map[string]bool{"HAHostname": true, "HABackend": true, "HATCPService": true, "AcmeData": true}

type trackPair struct {
	kind string // constant kind, or "" when dynamic
	name ssa.Value
}

// trackPairs lists the (kind, name) pairs a Track* call links.
func trackPairs(fn *ssa.Function, call *ssa.Call) []trackPair {
	args := core.CallArgs(&call.Call)
	name := ""
	if call.Call.IsInvoke() {
		name = call.Call.Method.Name()
	} else {
		cn := core.CalleeName(&call.Call)
		name = cn[strings.LastIndex(cn, ".")+1:]
	}
	var kindOf func(v ssa.Value) string
	kindOf = func(v ssa.Value) string {
		if ph, ok := v.(*ssa.Phi); ok {
			set := map[string]bool{}
			for _, e := range ph.Edges {
				k := kindOf(e)
				if k == "" {
					return ""
				}
				set[k] = true
			}
			return strings.Join(sortedKeys(set), "|")
		}
		for {
			switch x := v.(type) {
			case *ssa.ChangeType:
				v = x.X
				continue
			case *ssa.Convert:
				v = x.X
				continue
			case *ssa.Const:
				if x.Value != nil {
					return strings.Trim(x.Value.ExactString(), `"`)
				}
			}
			return ""
		}
	}
	var out []trackPair
	switch name {
	case "TrackNames":
		if len(args) == 4 {
			out = append(out, trackPair{kindOf(args[0]), args[1]}, trackPair{kindOf(args[2]), args[3]})
		}
	case "TrackRefName":
		if len(args) == 3 {
			out = append(out, trackPair{kindOf(args[1]), args[2]})
			// the slice literal: stores into &arr[i].Context / .UniqueName
			var arr ssa.Value
			if sl, ok := args[0].(*ssa.Slice); ok {
				arr = sl.X
			}
			if arr != nil {
				ctx := map[string]string{}
				nm := map[string]ssa.Value{}
				for _, b := range fn.Blocks {
					for _, in := range b.Instrs {
						st, ok := in.(*ssa.Store)
						if !ok {
							continue
						}
						fa, ok := st.Addr.(*ssa.FieldAddr)
						if !ok {
							continue
						}
						ia, ok := fa.X.(*ssa.IndexAddr)
						if !ok || ia.X != arr {
							continue
						}
						_, f := core.FieldOf(fa)
						idx := core.Key(ia.Index)
						switch f {
						case "Context":
							ctx[idx] = kindOf(st.Val)
						case "UniqueName":
							nm[idx] = st.Val
						}
					}
				}
				for _, idx := range sortedKeys(nm) {
					out = append(out, trackPair{ctx[idx], nm[idx]})
				}
			}
		}
	}
	return out
}

func trackedNameIsModelKey(c *core.Ctx) {
	n := 0
	for _, fn := range c.SrcFuncs() {
		pk := core.PkgOf(fn)
		if !strings.HasPrefix(pk, "converters/") || strings.Contains(pk, "helper_test") || strings.HasSuffix(pk, "/tracker") {
			continue
		}
		// values handed as a key to a container of the model in this function
		keyArgs := map[ssa.Value]string{}
		for _, s := range core.Calls(fn, false) {
			cn := core.CalleeName(s.Common())
			if !strings.Contains(cn, "haproxy/types.") {
				continue
			}
			m := cn[strings.LastIndex(cn, ".")+1:]
			if !(strings.HasPrefix(m, "Acquire") || strings.HasPrefix(m, "Find")) {
				continue
			}
			for _, a := range core.CallArgs(s.Common()) {
				keyArgs[a] = cn
			}
		}
		for _, b := range fn.Blocks {
			for _, in := range b.Instrs {
				if !isTrackCall(in) {
					continue
				}
				call := in.(*ssa.Call)
				for _, p := range trackPairs(fn, call) {
					isModel := p.kind != ""
					for _, k := range strings.Split(p.kind, "|") {
						if !modelKinds[k] {
							isModel = false
						}
					}
					if !isModel {
						continue
					}
					n++
					c.Touch(fn)
					how := ""
					v := p.name
					switch x := v.(type) {
					case *ssa.Const:
						how = "constant"
					case *ssa.UnOp:
						if owner, f := core.FieldOf(x.X); (f == "Hostname" && strings.HasSuffix(owner, "haproxy/types.Host")) || (f == "ID" && strings.HasSuffix(owner, "haproxy/types.Backend")) {
							how = "key field " + f + " of the model object"
						}
					case *ssa.Call:
						if cn := core.CalleeName(&x.Call); strings.HasSuffix(cn, ".normalizeHostname") {
							how = "reviewed key builder " + cn
						} else if strings.HasSuffix(cn, "haproxy/types.PathLink).Hostname") {
							how = "hostname of the model's path link"
						}
					}
					if how == "" {
						if cn, ok := keyArgs[v]; ok {
							how = "the value handed to " + cn
						}
					}
					key := fmt.Sprintf("%s: %s link #%d names the model key", core.FuncName(fn), p.kind, ordinalOf(fn, call, p.kind))
					c.Check(how != "", key, at(c, call), how,
						"the name linked under kind "+p.kind+" is `"+clip(core.Key(v), 100)+"`: neither the Hostname/ID of a model object, nor the value handed to an Acquire*/Find* call of this function, nor a constant: the link is stored under a spelling the model does not use, so a later change of the object (or of the linked resource) does not find its dependants")
				}
			}
		}
	}
	c.Check(n >= 13, "tracker links of model kinds examined", "", fmt.Sprintf("%d links", n), fmt.Sprintf("only %d links of model kinds found in the converters", n))
	_ = sort.Strings
}

// ordinalOf numbers the Track* calls of a function that mention kind, in block order.
func ordinalOf(fn *ssa.Function, call *ssa.Call, kind string) int {
	k := 0
	for _, b := range fn.Blocks {
		for _, in := range b.Instrs {
			if !isTrackCall(in) {
				continue
			}
			for _, p := range trackPairs(fn, in.(*ssa.Call)) {
				if p.kind == kind {
					k++
					break
				}
			}
			if in == ssa.Instruction(call) {
				return k
			}
		}
	}
	return k
}

// clip shortens a rendered expression for the tables; what is cut off stays part of the row as a
// checksum, so a change beyond the cut is still a change of the row.
func clip(s string, n int) string {
	if len(s) > n {
		h := fnv.New32a()
		h.Write([]byte(s))
		cut := n
		for cut > 0 && !utf8.RuneStart(s[cut]) {
			cut--
		}
		return fmt.Sprintf("%s…#%06x", s[:cut], h.Sum32()&0xffffff)
	}
	return s
}

// ---------------------------------------------------------------------------------------------
// Watch predicates: which events of each watched kind are let through to the handlers.
// ---------------------------------------------------------------------------------------------

// predicateTable freezes, per hdlr literal of controller/reconciler (enclosing function / resource),
// the composition of its `pr` predicate list. An event a predicate drops never reaches a batch.
var predicateTable = map[string]string{}

func init() {
	for k, v := range map[string]string{
		"handlersCore/ResourceConfigMap":       "NewPredicateFuncs",
		"handlersCore/ResourceService":         "Or(AnnotationChangedPredicate,GenerationChangedPredicate,NewPredicateFuncs)",
		"handlersCore/ResourceEndpoints#1":     "NewPredicateFuncs,Funcs{UpdateFunc}",
		"handlersCore/ResourceEndpoints#2":     "NewPredicateFuncs,Funcs{UpdateFunc}",
		"handlersCore/ResourceSecret":          "",
		"handlersCore/ResourcePod":             "Funcs{CreateFunc,UpdateFunc}",
		"handlersIngress/ResourceIngress":      "Or(AnnotationChangedPredicate,GenerationChangedPredicate),Funcs{CreateFunc,DeleteFunc,UpdateFunc}",
		"handlersIngress/ResourceIngressClass": "GenerationChangedPredicate,Funcs{CreateFunc,DeleteFunc,UpdateFunc}",
	} {
		predicateTable[k] = v
	}
	doc := "The event predicates of every watcher of controller/reconciler are the reviewed ones: an Ingress update passes when its annotations OR its generation changed (the class annotation and every configuration key live in annotations: a narrower filter silently drops a change of class or of configuration), Services likewise, and the remaining kinds pass by generation / the reviewed function predicates. The composition of each `pr` list (predicate types, Or/And nesting, which event functions a Funcs literal overrides) is compared with the frozen table."
	addRule("C08", &core.Rule{ID: "C08.predicate-table", Floor: 8, Run: predicateTableRule, Doc: doc})
	addRule("C14", &core.Rule{ID: "C14.predicate-table", Floor: 8, Run: predicateTableRule, Doc: "Shared with C08: " + doc})
	addRule("C01", &core.Rule{ID: "C01.predicate-table", Floor: 8, Run: predicateTableRule, Doc: "Shared with C08: " + doc})
}

func predExpr(info *types.Info, e ast.Expr) string {
	switch x := e.(type) {
	case *ast.CallExpr:
		name := ""
		switch f := x.Fun.(type) {
		case *ast.SelectorExpr:
			name = f.Sel.Name
		case *ast.Ident:
			name = f.Name
		case *ast.IndexExpr:
			if se, ok := f.X.(*ast.SelectorExpr); ok {
				name = se.Sel.Name
			}
		}
		if name == "Or" || name == "And" || name == "Not" {
			var parts []string
			for _, a := range x.Args {
				parts = append(parts, predExpr(info, a))
			}
			return name + "(" + strings.Join(parts, ",") + ")"
		}
		return name
	case *ast.CompositeLit:
		tn := ""
		if tv, ok := info.Types[x]; ok {
			tn = tv.Type.String()
			if i := strings.LastIndex(tn, "."); i >= 0 {
				tn = tn[i+1:]
			}
			if i := strings.Index(tn, "["); i >= 0 {
				tn = tn[:i]
			}
		}
		tn = strings.TrimPrefix(tn, "Typed")
		var keys []string
		for _, el := range x.Elts {
			if kv, ok := el.(*ast.KeyValueExpr); ok {
				if id, ok := kv.Key.(*ast.Ident); ok {
					keys = append(keys, id.Name)
				}
			}
		}
		sort.Strings(keys)
		if len(keys) > 0 {
			return tn + "{" + strings.Join(keys, ",") + "}"
		}
		return tn
	case *ast.UnaryExpr:
		return predExpr(info, x.X)
	}
	return "?" + types.ExprString(e)
}

// handlerPredicates maps "<enclosing func>/<resource>[#n]" to the normalised `pr` list.
func handlerPredicates(c *core.Ctx) map[string]string {
	p := c.Pkg("controller/reconciler")
	if p == nil {
		c.MissingAnchor("package controller/reconciler")
		return nil
	}
	out := map[string]string{}
	count := map[string]int{}
	type item struct{ key, val string }
	var items []item
	for _, f := range p.Syntax {
		for _, d := range f.Decls {
			fd, ok := d.(*ast.FuncDecl)
			if !ok || fd.Body == nil {
				continue
			}
			ast.Inspect(fd.Body, func(nd ast.Node) bool {
				cl, ok := nd.(*ast.CompositeLit)
				if !ok {
					return true
				}
				tv, ok := p.TypesInfo.Types[cl]
				if !ok {
					return true
				}
				t := tv.Type
				if pt, ok := t.(*types.Pointer); ok {
					t = pt.Elem()
				}
				nt, ok := t.(*types.Named)
				if !ok || nt.Obj().Name() != "hdlr" {
					return true
				}
				res, pr := "", ""
				for _, el := range cl.Elts {
					kv, ok := el.(*ast.KeyValueExpr)
					if !ok {
						continue
					}
					k, _ := kv.Key.(*ast.Ident)
					if k == nil {
						continue
					}
					switch k.Name {
					case "res":
						if se, ok := kv.Value.(*ast.SelectorExpr); ok {
							res = se.Sel.Name
						}
					case "pr":
						if lit, ok := kv.Value.(*ast.CompositeLit); ok {
							var parts []string
							for _, e := range lit.Elts {
								parts = append(parts, predExpr(p.TypesInfo, e))
							}
							pr = strings.Join(parts, ",")
						} else {
							pr = "?" + types.ExprString(kv.Value)
						}
					}
				}
				if res != "" {
					k := fd.Name.Name + "/" + res
					count[k]++
					items = append(items, item{k, pr})
				}
				return true
			})
		}
	}
	seen := map[string]int{}
	for _, it := range items {
		k := it.key
		if count[k] > 1 {
			seen[k]++
			k = fmt.Sprintf("%s#%d", k, seen[k])
		}
		out[k] = it.val
	}
	return out
}

func predicateTableRule(c *core.Ctx) {
	got := handlerPredicates(c)
	if got == nil {
		return
	}
	for _, k := range sortedKeys(got) {
		want, listed := predicateTable[k]
		if !listed {
			if strings.HasPrefix(k, "handlersGateway") || strings.HasPrefix(k, "handlersTCPRoute") {
				// Gateway API kinds: spec-only resources, generation changes on every spec edit
				c.Check(strings.HasPrefix(got[k], "GenerationChangedPredicate"), "predicates of "+k, "pkg/controller/reconciler/watchers.go", got[k], "the Gateway API watcher `"+k+"` filters with `"+got[k]+"`, reviewed: GenerationChangedPredicate first")
				continue
			}
			c.Violated("predicates of "+k, "pkg/controller/reconciler/watchers.go", "a watcher that is not in the reviewed table filters its events with `"+got[k]+"`")
			continue
		}
		c.Check(got[k] == want, "predicates of "+k, "pkg/controller/reconciler/watchers.go", got[k], "the watcher filters its events with `"+got[k]+"`, reviewed `"+want+"`: an event a predicate drops never reaches a reconciliation batch")
	}
	for _, k := range sortedKeys(predicateTable) {
		if _, ok := got[k]; !ok {
			c.Violated("predicates of "+k, "pkg/controller/reconciler/watchers.go", "the reviewed watcher literal was not found")
		}
	}
}

var _ = parse.NodeText

// ---------------------------------------------------------------------------------------------
// C04: the search for a match file of a bound entry starts at the file it is bound below, inclusive.
// ---------------------------------------------------------------------------------------------

func init() {
	addRule("C04", &core.Rule{ID: "C04.search-start", Floor: 4, Run: c04SearchStart,
		Doc: "findMatchFile scans the file order from the entry's `_upper` element itself when it has one, else from the front, advancing with Next(), and answers the first file whose match type equals the entry's AND whose header filter equals the entry's. Starting one element later (or earlier) puts a shorter path into a different file than the one its longer sibling precedes, which changes which of two overlapping rules HAProxy evaluates first."})
}

func c04SearchStart(c *core.Ctx) {
	fn := c.Fn("haproxy/types", "findMatchFile")
	if fn == nil {
		return
	}
	loops := core.Loops(fn)
	if len(loops) != 1 {
		c.Violated("findMatchFile has one scan loop", c.Pos(fn.Pos()), fmt.Sprintf("%d loops", len(loops)))
		return
	}
	l := loops[0]
	var cur *ssa.Phi
	for _, in := range l.Header.Instrs {
		if ph, ok := in.(*ssa.Phi); ok && strings.HasSuffix(ph.Type().String(), "container/list.Element") {
			cur = ph
		}
	}
	if cur == nil {
		c.Violated("findMatchFile scan variable", c.Pos(fn.Pos()), "no *list.Element loop variable")
		return
	}
	var initial, step ssa.Value
	for i, p := range l.Header.Preds {
		if l.Blocks[p] {
			step = cur.Edges[i]
		} else {
			initial = cur.Edges[i]
		}
	}
	// step: cur.Next()
	okStep := false
	if call, ok := step.(*ssa.Call); ok && strings.HasSuffix(core.CalleeName(&call.Call), "container/list.Element).Next") && len(call.Call.Args) == 1 && call.Call.Args[0] == ssa.Value(cur) {
		okStep = true
	}
	c.Check(okStep, "the scan advances with Next()", c.Pos(fn.Pos()), "", "the loop variable is advanced with `"+clip(core.Key(step), 80)+"`")
	// initial: phi{ e1._upper (when != nil), order.Front() }
	var upper, front bool
	var other []string
	var leaves func(v ssa.Value, depth int)
	leaves = func(v ssa.Value, depth int) {
		if depth > 4 {
			return
		}
		switch x := v.(type) {
		case *ssa.Phi:
			for _, e := range x.Edges {
				leaves(e, depth+1)
			}
		case *ssa.UnOp:
			if _, f := core.FieldOf(x.X); f == "_upper" {
				upper = true
				return
			}
			other = append(other, core.Key(v))
		case *ssa.Call:
			if strings.HasSuffix(core.CalleeName(&x.Call), "container/list.List).Front") {
				front = true
				return
			}
			other = append(other, core.Key(v))
		default:
			other = append(other, core.Key(v))
		}
	}
	leaves(initial, 0)
	c.Check(upper && front && len(other) == 0, "the scan starts at the entry's _upper element itself, else at the front", c.Pos(fn.Pos()), "",
		"the first element examined is one of ["+strings.Join(other, ", ")+fmt.Sprintf("] (uses _upper: %v, uses Front(): %v): the scan must start at `e1._upper` (inclusive) when set and at `order.Front()` otherwise", upper, front))
	// Front() only when _upper is nil
	for _, s := range core.Calls(fn, false) {
		if strings.HasSuffix(core.CalleeName(s.Common()), "container/list.List).Front") {
			c.Check(guardedBy(s.Instr, has("._upper == nil"), true) || guardedBy(s.Instr, has("._upper != nil"), false), "Front() is taken only without an _upper", at(c, s.Instr), "", "order.Front() is used although the entry is bound below a file")
		}
	}
	// the answer: first file with the same match type and the same headers
	t := core.ExtractTable(fn)
	if t.Err != "" {
		c.Undecided("findMatchFile answer", c.Pos(fn.Pos()), t.Err)
		return
	}
	found := 0
	for _, r := range core.Returns(fn) {
		res := core.Results(r)
		if len(res) != 2 || core.IsNilConst(res[1]) {
			continue
		}
		found++
		c.Check(res[1] == ssa.Value(cur), "the element answered is the one examined", at(c, r), "", "returns `"+clip(core.Key(res[1]), 80)+"`")
		condTable(c, "a file is answered iff match type and headers are equal", t, r, matchers{
			"more":    has(" != nil"),
			"match":   has(".match == ", ".match"),
			"headers": has(".equals("),
		}, func(v map[string]bool) bool { return v["more"] && v["match"] && v["headers"] })
	}
	c.Check(found == 1, "findMatchFile has one positive answer", c.Pos(fn.Pos()), "", fmt.Sprintf("%d non-nil returns", found))
}

// ---------------------------------------------------------------------------------------------
// C05: the template writer writes the rendered buffer on every successful call.
// ---------------------------------------------------------------------------------------------

func init() {
	doc := "template.writeToDisk returns nil only after os.WriteFile(output, <the rendered buffer>) ran on that path, the bytes written are t.rawConfig.Bytes() and the name is the caller's output (or the template's default): no successful return skips the write. A skipped write (e.g. an `unchanged since last time` shortcut) leaves on disk whatever another writer or an operator left there, while the caller commits the model as written."
	addRule("C05", &core.Rule{ID: "C05.write-unconditional", Floor: 3, Run: c05WriteUnconditional, Doc: doc})
	addRule("C12", &core.Rule{ID: "C12.write-unconditional", Floor: 3, Run: c05WriteUnconditional, Doc: "Shared with C05: " + doc})
	addRule("C07", &core.Rule{ID: "C07.write-unconditional", Floor: 3, Run: c05WriteUnconditional, Doc: "Shared with C05: " + doc})
}

func c05WriteUnconditional(c *core.Ctx) {
	fn := c.Fn("haproxy/template", "template.writeToDisk")
	if fn == nil {
		return
	}
	var writes []core.Site
	for _, s := range core.Calls(fn, false) {
		if core.CalleeName(s.Common()) == "os.WriteFile" {
			writes = append(writes, s)
		}
	}
	c.Check(len(writes) == 1, "writeToDisk has one os.WriteFile", c.Pos(fn.Pos()), "", fmt.Sprintf("%d os.WriteFile calls", len(writes)))
	if len(writes) != 1 {
		return
	}
	w := writes[0]
	for _, r := range core.Returns(fn) {
		res := core.Results(r)
		if len(res) != 1 || !core.IsNilConst(res[0]) {
			continue
		}
		wit := core.PathQuery{Fn: fn, Target: func(in ssa.Instruction) bool { return in == ssa.Instruction(r) }, Barrier: func(in ssa.Instruction) bool { return in == w.Instr }}.Find()
		c.Check(wit == nil, "a successful return of writeToDisk has written the file", at(c, r), "", "nil is returned on a path that never calls os.WriteFile: "+wit.Describe(c.Env))
	}
	args := w.Common().Args
	data := core.Key(args[1])
	c.Check(strings.Contains(data, "bytes.Buffer).Bytes(") && strings.Contains(data, ".rawConfig"), "the bytes written are the rendered buffer", at(c, w.Instr), "", "os.WriteFile receives `"+clip(data, 80)+"`")
	l := sliceLeaves(c.Env, args[0], 0)
	c.Check(leavesContain(l, "param:") && leavesContain(l, ".output") && !leavesContain(l, "call:") && !leavesContain(l, "const:"), "the file written is the requested output", at(c, w.Instr), "", "file name derives from "+leavesList(l))
}

// ---------------------------------------------------------------------------------------------
// C10: the duplicate test of a route match uses the complete path link.
// ---------------------------------------------------------------------------------------------

func init() {
	doc := "A path link is complete (hostname, path, match type, header matches) before it is looked up with FindPathWithLink: no mutator of the link (WithHostname, WithHeadersMatch, AddHeadersMatch) is reachable after the lookup. A match that differs from an earlier one only by its headers is otherwise taken for a redeclaration and skipped."
	addRule("C10", &core.Rule{ID: "C10.link-complete-before-lookup", Floor: 2, Run: c10LinkComplete, Doc: doc})
	addRule("C03", &core.Rule{ID: "C03.link-complete-before-lookup", Floor: 2, Run: c10LinkComplete, Doc: "Shared with C10: " + doc})
}

func c10LinkComplete(c *core.Ctx) {
	n := 0
	isMutator := func(cn string) bool {
		return strings.HasSuffix(cn, "haproxy/types.PathLink).WithHostname") || strings.HasSuffix(cn, "haproxy/types.PathLink).WithHeadersMatch") || strings.HasSuffix(cn, "haproxy/types.PathLink).AddHeadersMatch")
	}
	for _, fn := range c.SrcFuncs() {
		pk := core.PkgOf(fn)
		if !strings.HasPrefix(pk, "converters/") || strings.Contains(pk, "helper_test") {
			continue
		}
		for _, s := range core.Calls(fn, false) {
			if !strings.HasSuffix(core.CalleeName(s.Common()), "haproxy/types.Host).FindPathWithLink") {
				continue
			}
			n++
			c.Touch(fn)
			args := core.CallArgs(s.Common())
			link := args[len(args)-1]
			def, _ := link.(ssa.Instruction)
			bad := core.PathQuery{Fn: fn, Start: s.Instr, Target: func(in ssa.Instruction) bool {
				call, ok := in.(*ssa.Call)
				if !ok || !isMutator(core.CalleeName(&call.Call)) {
					return false
				}
				return len(call.Call.Args) > 0 && call.Call.Args[0] == link
			}, Barrier: func(in ssa.Instruction) bool { return def != nil && in == def }}.Find()
			c.Check(bad == nil, core.FuncName(fn)+": the link is complete when it is looked up", at(c, s.Instr), "", "a mutator of the path link runs after FindPathWithLink: the duplicate test compared an incomplete link: "+bad.Describe(c.Env))
			// when the function builds header matches for the link, they are applied before the lookup
			for _, m := range core.Calls(fn, false) {
				if isMutator(core.CalleeName(m.Common())) && len(m.Common().Args) > 0 && m.Common().Args[0] == link {
					c.Check(m.Instr.Block().Dominates(s.Instr.Block()), core.FuncName(fn)+": "+core.CalleeName(m.Common())[strings.LastIndex(core.CalleeName(m.Common()), ".")+1:]+" precedes the lookup", at(c, m.Instr), "", "the mutator does not dominate the lookup")
				}
			}
		}
	}
	c.Check(n >= 2, "FindPathWithLink call sites in the converters", "", fmt.Sprintf("%d sites", n), fmt.Sprintf("%d sites", n))
}

// ---------------------------------------------------------------------------------------------
// More error-exit rows (socket, acme client, converter add* helpers, gateway admission, endpoints).
// ---------------------------------------------------------------------------------------------

func init() {
	type row = struct {
		prop, pkg, fn string
		idx           int
		want          []string
		why           string
	}
	const sock = "a socket failure that is not reported makes the dynamic update count as applied: the running process and the files diverge and nothing is retried"
	const acme = "the signer stores a certificate only when every step of the order succeeded; a swallowed failure stores an empty or partial secret, a new failure makes a valid order fail"
	const conv = "a declaration that cannot be honoured (service or port missing, endpoints unreadable, duplicated root path) is reported and skipped; anything else either drops a good rule or configures a backend without its servers"
	const adm = "a route is refused by a listener exactly for the reviewed reasons (kind not listed, namespace not admitted, namespace unreadable, bad selector)"
	errorExitTable = append(errorExitTable, []row{
		{"C12", "haproxy/socket", "sock.Send", 1, []string{`send when send != nil`, `send when send != nil`}, sock},
		{"C12", "haproxy/socket", "sock.send", 1, []string{`Errorf when Read#1 != EOF`, `Errorf when acquireConn != nil`, `Errorf when after the loop`}, sock},
		{"C12", "haproxy/socket", "sock.acquireConn", 1, []string{`Dial when Dial != nil`, `Errorf when !s.listening`, `SetDeadline always`, `send when send != nil`}, sock},
		{"C17", "acme", "signer.Notify", 0, []string{`Errorf when !HasAccount`, `verify when HasAccount`}, acme},
		{"C17", "acme", "client.ensureAccount", 0, []string{`CreateAccount when CreateAccount != nil`, `GetAccount when GetAccount != nil`}, acme},
		{"C17", "acme", "client.authorize", 0, []string{`AcceptChallenge when AcceptChallenge != nil`, `Errorf when Client.WaitAuthorization#1`, `GetAuthorization when GetAuthorization != nil`, `HTTP01ChallengeResponse when HTTP01ChallengeResponse != nil`, `SetToken when SetToken != nil`, `WaitAuthorization when !Client.WaitAuthorization#1`}, acme},
		{"C17", "acme", "client.Sign", 2, []string{`CreateOrder when CreateOrder != nil`, `Errorf when len(dnsnames) == 0`, `authorize when authorize != nil`, `signRequest when authorize == nil`}, acme},
		{"C17", "acme", "client.signRequest", 2, []string{`CreateCertificateRequest when CreateCertificateRequest != nil`, `FinalizeOrder when FinalizeOrder == nil`, `FinalizeOrder when after the loop`, `GenerateKey when GenerateKey != nil`}, acme},
		{"C03", "converters/ingress", "converter.addDefaultHostBackend", 0, []string{`Errorf when FindPath != nil`, `addBackend when addBackend != nil`}, conv},
		{"C03", "converters/ingress", "converter.addEndpoints", 0, []string{`CreateEndpoints when CreateEndpoints != nil`, `Errorf when GetTerminatingPods != nil`}, conv},
		{"C03", "converters/ingress", "converter.addTCPService", 1, []string{`Errorf when !IsEmpty`}, conv},
		{"C03", "converters/ingress", "converter.addBackendWithClass", 1, []string{`Errorf when Atoi#0 == 0`, `Errorf when FindServicePort == nil`, `GetService when GetService != nil`}, conv},
		{"C03", "converters/ingress", "readServiceNamePort", 2, []string{`Errorf when backend.Service == nil`}, conv},
		{"C03", "converters/utils", "CreateEndpoints", 2, []string{`GetEndpointSlices when GetEndpointSlices != nil`, `GetEndpoints when GetEndpoints != nil`, `createEndpointSlices/createEndpoints/createEndpointsExternalName always`}, conv},
		{"C03", "converters/utils", "CreateSvcEndpoint", 1, []string{`Errorf when svcPort.Port <= 0`}, conv},
		{"C03", "converters/utils", "createEndpointsExternalName", 1, []string{`Errorf when svcPort.Port <= 0`, `ExternalNameLookup when ExternalNameLookup != nil`}, conv},
		{"C10", "converters/gateway", "converter.getHTTPRoutesSourceA2", 1, []string{`Errorf when GetHTTPRouteA2List != nil`}, adm},
		{"C10", "converters/gateway", "converter.getHTTPRoutesSourceB1", 1, []string{`Errorf when GetHTTPRouteB1List != nil`}, adm},
		{"C10", "converters/gateway", "converter.getHTTPRoutesSource", 1, []string{`Errorf when GetHTTPRouteList != nil`}, adm},
		{"C10", "converters/gateway", "converter.checkListenerAllowed", 0, []string{`checkListenerAllowedKind when checkListenerAllowedKind != nil`, `checkListenerAllowedNamespace when checkListenerAllowedNamespace != nil`, `errRouteNotAllowed always`}, adm},
		{"C10", "converters/gateway", "checkListenerAllowedKind", 0, []string{`Errorf when after the loop`}, adm},
		{"C10", "converters/gateway", "converter.checkListenerAllowedNamespace", 0, []string{`GetNamespace when GetNamespace != nil`, `LabelSelectorAsSelector when LabelSelectorAsSelector != nil`, `errRouteNotAllowed always`, `errRouteNotAllowed when namespaces.From != "All"`, `errRouteNotAllowed when namespaces.Selector == nil`}, adm},
		{"C15", "controller/services", "c.get", 0, []string{`Get when SplitMetaNamespaceKey == nil`, `SplitMetaNamespaceKey when SplitMetaNamespaceKey != nil`}, "a lookup fails iff the key is malformed or the object is not found"},
		{"C15", "controller/services", "buildResourceName", 2, []string{`Errorf when SplitMetaNamespaceKey#0 != defaultNamespace`, `SplitMetaNamespaceKey when SplitMetaNamespaceKey != nil`}, "a name is refused iff it is malformed or names another namespace without permission"},
		{"C15", "controller/services", "c.GetIngress", 1, []string{`Errorf when !IsValidIngress`, `get always`}, "an Ingress of another class is reported as not found"},
	}...)
	addRule("C03", &core.Rule{ID: "C03.error-exits", Floor: 8, Run: func(c *core.Ctx) { errorExitRule(c, "C03") },
		Doc: "The converter helpers that resolve a rule to a backend and its endpoints (addDefaultHostBackend, addTCPService, addBackendWithClass, addEndpoints, readServiceNamePort, CreateEndpoints, CreateSvcEndpoint, createEndpointsExternalName) fail exactly for the reviewed reasons."})
	addRule("C10", &core.Rule{ID: "C10.error-exits", Floor: 6, Run: func(c *core.Ctx) { errorExitRule(c, "C10") },
		Doc: "Route listing and listener admission (getHTTPRoutesSource*, checkListenerAllowed, checkListenerAllowedKind, checkListenerAllowedNamespace) refuse exactly for the reviewed reasons; every refusal of admission is errRouteNotAllowed or the error of a failed lookup."})
}
