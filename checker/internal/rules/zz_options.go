package rules

import (
	"fmt"
	"go/types"
	"sort"
	"strings"

	"golang.org/x/tools/go/ssa"

	"hapverif/internal/core"
)

// ---------------------------------------------------------------------------------------------
// Option wiring: the command-line configuration reaches the converters and the HAProxy instance
// through three structures filled in one place per runtime (Services.setup for the controller-runtime
// based controller, HAProxyController.configController for the legacy one). A field filled from the
// wrong configuration value, from a constant, or not at all type-checks and keeps the unit tests
// green, because every test builds its own options: `DisableKeywords: nil` switches the keyword
// filter off for every snippet, `StaticCrossNamespaceSecrets: !cfg.AllowCrossNamespace` inverts the
// permission, a second `tracker.NewTracker()` for the cache makes every link invisible to the
// converters.
//
// The functions that do this wiring construct every service of the process, so they are not compared
// as a whole under every property (an unrelated edit would raise an alarm everywhere): each property
// compares exactly the option fields it depends on (optionDeps), rendered as name-independent
// expressions, with the table generated from the reviewed tree (options_gen.go), and checks that the
// objects that must be shared between the cache and the converters are one object (optionShared).
// ---------------------------------------------------------------------------------------------

var optionHubs = [][2]string{
	{"controller/services", "Services.setup"},
	{"controller/legacy", "HAProxyController.configController"},
	{"controller/config", "CreateWithConfig"}, // command-line options -> Config, the source of the two above
}

var optionTypes = map[string]bool{"haproxy.InstanceOptions": true, "types.ConverterOptions": true, "types.DynamicConfig": true, "config.Config": true}

// optionDeps: option field -> the properties whose behaviour it selects (reviewed; one reason each).
var optionDeps = map[string]struct {
	props []string
	why   string
}{
	"haproxy.InstanceOptions.AcmeQueue":               {[]string{"C17"}, "the queue AcmeUpdate/AcmeCheck enqueue into"},
	"haproxy.InstanceOptions.AcmeSigner":              {[]string{"C17"}, "the signer whose account AcmeUpdate configures"},
	"haproxy.InstanceOptions.LeaderElector":           {[]string{"C17"}, "leader test of acmeUpdate"},
	"haproxy.InstanceOptions.AdminSocket":             {[]string{"C02", "C11", "C12"}, "socket of the dynamic updates"},
	"haproxy.InstanceOptions.MasterSocket":            {[]string{"C02", "C12"}, "socket of the reload commands"},
	"haproxy.InstanceOptions.BackendShards":           {[]string{"C05"}, "number of backend shard files"},
	"haproxy.InstanceOptions.HAProxyCfgDir":           {[]string{"C05", "C12"}, "where the configuration files are written"},
	"haproxy.InstanceOptions.HAProxyMapsDir":          {[]string{"C04", "C05", "C12"}, "where the map files are written"},
	"haproxy.InstanceOptions.IsExternal":              {[]string{"C02", "C12"}, "selects the reload method"},
	"haproxy.InstanceOptions.IsMasterWorker":          {[]string{"C02", "C12"}, "selects the reload method"},
	"haproxy.InstanceOptions.ReloadQueue":             {[]string{"C12", "C13"}, "rate limited reloads"},
	"haproxy.InstanceOptions.ReloadStrategy":          {[]string{"C02", "C12"}, "argument of the reload script"},
	"haproxy.InstanceOptions.SortEndpointsBy":         {[]string{"C06", "C11"}, "order of the server slots"},
	"haproxy.InstanceOptions.ValidateConfig":          {[]string{"C12"}, "validation before a dynamic update is acknowledged"},
	"types.ConverterOptions.Cache":                    {[]string{"C01", "C08", "C09", "C15"}, "every read of the cluster goes through it"},
	"types.ConverterOptions.Tracker":                  {[]string{"C01", "C08"}, "the links the partial sync queries"},
	"types.ConverterOptions.DynamicConfig":            {[]string{"C09", "C15"}, "the permission bits the cache reads"},
	"types.ConverterOptions.AnnotationPrefix":         {[]string{"C09", "C16", "C18", "C19"}, "which annotations are read at all"},
	"types.ConverterOptions.DefaultBackend":           {[]string{"C07"}, "the default backend every frontend falls back to"},
	"types.ConverterOptions.DefaultCrtSecret":         {[]string{"C15"}, "the default certificate"},
	"types.ConverterOptions.FakeCrtFile":              {[]string{"C07", "C15"}, "fallback of the default certificate"},
	"types.ConverterOptions.FakeCAFile":               {[]string{"C15"}, "fallback CA"},
	"types.ConverterOptions.DisableKeywords":          {[]string{"C19"}, "the keyword filter"},
	"types.ConverterOptions.AcmeTrackTLSAnn":          {[]string{"C17"}, "which Ingress are tracked by acme"},
	"types.ConverterOptions.AcmeSocket":               {[]string{"C17"}, "socket of the challenge responder"},
	"types.ConverterOptions.HasGatewayA2":             {[]string{"C10"}, "enables the Gateway converter"},
	"types.ConverterOptions.HasGatewayB1":             {[]string{"C10"}, "enables the Gateway converter"},
	"types.ConverterOptions.HasGatewayV1":             {[]string{"C10"}, "enables the Gateway converter"},
	"types.ConverterOptions.HasTCPRouteA2":            {[]string{"C10"}, "enables the TCPRoute converter"},
	"types.ConverterOptions.EnableEPSlices":           {[]string{"C03", "C11"}, "source of the endpoints"},
	"types.DynamicConfig.StaticCrossNamespaceSecrets": {[]string{"C09", "C15"}, "the command-line permission"},
	// Config, as filled from the command line by CreateWithConfig
	"config.Config.AcmeServer":               {[]string{"C17"}, "enables the acme client, server and queue"},
	"config.Config.AcmeTrackTLSAnn":          {[]string{"C17"}, "which Ingress are tracked by acme"},
	"config.Config.AcmeCheckPeriod":          {[]string{"C17"}, "period of the expiration check"},
	"config.Config.AcmeFailInitialDuration":  {[]string{"C17"}, "retry of a failed signing"},
	"config.Config.AcmeFailMaxDuration":      {[]string{"C17"}, "retry of a failed signing"},
	"config.Config.AllowCrossNamespace":      {[]string{"C09", "C15"}, "the command-line permission"},
	"config.Config.AnnPrefix":                {[]string{"C06", "C09", "C16", "C18", "C19"}, "which annotations are read at all, and their precedence"},
	"config.Config.BackendShards":            {[]string{"C05"}, "number of backend shard files"},
	"config.Config.ConfigMapName":            {[]string{"C01", "C14"}, "which ConfigMap is the global configuration"},
	"config.Config.TCPConfigMapName":         {[]string{"C01", "C14"}, "which ConfigMap holds the tcp services"},
	"config.Config.ControllerName":           {[]string{"C08"}, "IngressClass controller match"},
	"config.Config.IngressClass":             {[]string{"C08"}, "class annotation match"},
	"config.Config.IngressClassPrecedence":   {[]string{"C08"}, "annotation versus spec.ingressClassName"},
	"config.Config.WatchIngressWithoutClass": {[]string{"C08"}, "Ingress without class"},
	"config.Config.DefaultDirMaps":           {[]string{"C04", "C05", "C12"}, "where the map files are written"},
	"config.Config.DefaultDirVarRun":         {[]string{"C02", "C12"}, "directory of the sockets"},
	"config.Config.DefaultDirCerts":          {[]string{"C15"}, "where certificates are written"},
	"config.Config.DefaultDirCACerts":        {[]string{"C15"}, "where CA bundles are written"},
	"config.Config.DefaultDirCrl":            {[]string{"C15"}, "where CRLs are written"},
	"config.Config.DefaultService":           {[]string{"C07"}, "the default backend"},
	"config.Config.DefaultSSLCertificate":    {[]string{"C15"}, "the default certificate"},
	"config.Config.DisableKeywords":          {[]string{"C19"}, "the keyword filter"},
	"config.Config.Election":                 {[]string{"C13", "C17"}, "leader-only services and the leader test"},
	"config.Config.EnableEndpointSliceAPI":   {[]string{"C03", "C11"}, "source of the endpoints"},
	"config.Config.HasGatewayA2":             {[]string{"C10"}, "enables the Gateway watchers and converter"},
	"config.Config.HasGatewayB1":             {[]string{"C10"}, "enables the Gateway watchers and converter"},
	"config.Config.HasGatewayV1":             {[]string{"C10"}, "enables the Gateway watchers and converter"},
	"config.Config.HasTCPRouteA2":            {[]string{"C10"}, "enables the TCPRoute watchers and converter"},
	"config.Config.LocalFSPrefix":            {[]string{"C05", "C12"}, "prefix of every written file"},
	"config.Config.MasterSocket":             {[]string{"C02", "C12"}, "external HAProxy and its reload socket"},
	"config.Config.MasterWorker":             {[]string{"C02", "C12"}, "selects the reload method"},
	"config.Config.RateLimitUpdate":          {[]string{"C13"}, "reconciliation rate"},
	"config.Config.WaitBeforeUpdate":         {[]string{"C13"}, "initial wait of a reconciliation"},
	"config.Config.ReloadInterval":           {[]string{"C12", "C13"}, "reload rate"},
	"config.Config.ReloadRetry":              {[]string{"C12"}, "retry of a failed update"},
	"config.Config.ReloadStrategy":           {[]string{"C02", "C12"}, "argument of the reload script"},
	"config.Config.ValidateConfig":           {[]string{"C12"}, "validation before a dynamic update is acknowledged"},
	"config.Config.SortEndpointsBy":          {[]string{"C06", "C11"}, "order of the server slots"},
	"config.Config.VerifyHostname":           {[]string{"C15"}, "hostname check of certificates"},
}

// optionShared: objects that must be the same object on both sides (hub, option field, callee, argument index).
var optionShared = []struct {
	pkg, fn, field, callee string
	arg                    int
	props                  []string
	why                    string
}{
	{"controller/services", "Services.setup", "types.ConverterOptions.Tracker", "createCacheFacade", 3, []string{"C01", "C08"}, "the cache links what it reads in the tracker the converters query"},
	{"controller/services", "Services.setup", "types.ConverterOptions.DynamicConfig", "createCacheFacade", 5, []string{"C09", "C15"}, "the cache reads the permission bits the converters update"},
	{"controller/services", "Services.setup", "types.ConverterOptions.Cache", "initSvcAcmeClient", 3, []string{"C17"}, "the signer reads and stores secrets through the cache of the converters"},
	{"controller/legacy", "HAProxyController.configController", "types.ConverterOptions.Tracker", "createCache", 2, []string{"C01", "C08"}, "the cache links what it reads in the tracker the converters query"},
	{"controller/legacy", "HAProxyController.configController", "types.ConverterOptions.DynamicConfig", "createCache", 3, []string{"C09", "C15"}, "the cache reads the permission bits the converters update"},
}

// structFieldStores returns field name -> stored values of a struct built in place (x := T{…}; x.f = …).
func structFieldStores(x *ssa.Alloc) map[string][]ssa.Value {
	out := map[string][]ssa.Value{}
	if x.Parent() == nil {
		return out
	}
	for _, b := range x.Parent().Blocks {
		for _, in := range b.Instrs {
			s, ok := in.(*ssa.Store)
			if !ok {
				continue
			}
			fa, ok := s.Addr.(*ssa.FieldAddr)
			if !ok || fa.X != ssa.Value(x) {
				continue
			}
			_, f := core.FieldOf(fa)
			out[f] = append(out[f], s.Val)
		}
	}
	return out
}

// optionValueText renders a value stored into an option field; a read of a field of another structure
// built in place in the same function (`IsExternal: instanceOptions.IsExternal`) is rendered as what
// that field was filled with, so that the row does not depend on the other fields of that structure.
func optionValueText(v ssa.Value) string { return optionValueTextS(v, map[ssa.Value]bool{}) }

func optionValueTextS(v ssa.Value, seen map[ssa.Value]bool) string {
	if u, ok := v.(*ssa.UnOp); ok {
		if fa, ok := u.X.(*ssa.FieldAddr); ok {
			if al, ok := fa.X.(*ssa.Alloc); ok {
				_, f := core.FieldOf(fa)
				if vs := structFieldStores(al)[f]; len(vs) == 1 {
					return optionValueTextS(vs[0], seen)
				}
			}
		}
	}
	if ph, ok := v.(*ssa.Phi); ok {
		if seen[ph] {
			return "↺"
		}
		for _, l := range core.Loops(ph.Parent()) {
			if l.Blocks[ph.Block()] {
				return argText(v) // built by a loop: the set of values, no path conditions
			}
		}
		seen[ph] = true
		defer delete(seen, ph)
		// a value chosen by the surrounding ifs: each input with the conditions of the path it arrives on
		var parts []string
		for i, e := range ph.Edges {
			g := edgeGuard(ph.Block().Preds[i], ph.Block())
			t := optionValueTextS(e, seen)
			if g != "" {
				t += " when " + g
			}
			parts = append(parts, t)
		}
		sort.Strings(parts)
		return "phi{" + strings.Join(parts, " | ") + "}"
	}
	return argText(v)
}

// edgeGuard renders the branch conditions (with polarity) on the way from the immediate dominator of join
// down to the edge pred->join, for structured code (ifs without loops in between).
func edgeGuard(pred, join *ssa.BasicBlock) string {
	stop := join.Idom()
	var conds []string
	child, b := join, pred
	for hops := 0; b != nil && hops < 8; hops++ {
		if ifi, ok := b.Instrs[len(b.Instrs)-1].(*ssa.If); ok && len(b.Succs) == 2 && b.Succs[0] != b.Succs[1] {
			switch {
			case b.Succs[0] == child && (child == join || len(child.Preds) == 1):
				conds = append(conds, CondText(ifi.Cond, true))
			case b.Succs[1] == child && (child == join || len(child.Preds) == 1):
				conds = append(conds, CondText(ifi.Cond, false))
			}
		}
		if b == stop {
			break
		}
		child, b = b, b.Idom()
	}
	sort.Strings(conds)
	return strings.Join(conds, " && ")
}

// OptionRows renders, for every option structure built by the hub functions, `hub|Type.Field` -> value.
func OptionRows(env *core.Env) map[string]string {
	rows, _ := optionRows(env)
	return rows
}

func optionRows(env *core.Env) (map[string]string, map[string]ssa.Value) {
	rows := map[string]string{}
	vals := map[string]ssa.Value{}
	for _, h := range optionHubs {
		fn := env.Func(h[0], h[1])
		if fn == nil {
			continue
		}
		for _, b := range fn.Blocks {
			for _, in := range b.Instrs {
				al, ok := in.(*ssa.Alloc)
				if !ok {
					continue
				}
				pt, ok := al.Type().Underlying().(*types.Pointer)
				if !ok {
					continue
				}
				tn := shortType(pt.Elem())
				if !optionTypes[tn] {
					continue
				}
				for f, vs := range structFieldStores(al) {
					key := core.FuncName(fn) + "|" + tn + "." + f
					var texts []string
					for _, v := range vs {
						texts = append(texts, optionValueText(v))
					}
					sort.Strings(texts)
					if old, dup := rows[key]; dup {
						texts = append(texts, old)
						sort.Strings(texts)
					}
					rows[key] = strings.Join(texts, " ; ")
					if len(vs) == 1 {
						vals[key] = vs[0]
					}
				}
			}
		}
	}
	return rows, vals
}

func init() {
	byProp := map[string][]string{}
	for f, d := range optionDeps {
		for _, p := range d.props {
			byProp[p] = append(byProp[p], f)
		}
	}
	for _, p := range sortedKeys(byProp) {
		p := p
		fields := byProp[p]
		sort.Strings(fields)
		addRule(p, &core.Rule{ID: p + ".entrypoint-args", Floor: 3, Run: entrypointArgs,
			Doc: "rootfs/start.sh, the entrypoint of the image: the line that executes /haproxy-ingress-controller passes the positional parameters as \"$@\" and contains no expansion outside double quotes. The options this property depends on are read from that command line; an unquoted $@ or an appended unquoted variable is split and glob-expanded by the shell first (`--disable-config-keywords *` becomes the file names of the working directory, a value with a blank becomes two arguments). The two Dockerfiles start the script in exec form with /start.sh as the last element (the shell form drops the arguments of the container). Decided on the text of the script (quote state per character of that line) and of the Dockerfiles; nothing is executed."})
		addRule(p, &core.Rule{ID: p + ".options-wiring", Floor: len(fields), Run: func(c *core.Ctx) { optionsWiring(c, p, fields) },
			Doc: "Option wiring: the fields of Config / InstanceOptions / ConverterOptions / DynamicConfig this property depends on (" + strings.Join(shortFields(fields), ", ") + ") are filled, by Services.setup, by the legacy configController and (Config, from the command line) by CreateWithConfig, with the reviewed expressions (rules/options_gen.go: configuration value, rendered name-independently), and the objects that must be shared between the cache and the converters (tracker, permission bits, cache) are one object. Every unit test builds its own options, so a field filled from the wrong configuration value, from a constant or not at all is invisible to the suite. Only the listed fields are compared: the two functions wire every service of the process."})
	}
}

// The command line reaches the controller through the entrypoint of the image (rootfs/start.sh): the
// line that executes the controller passes the positional parameters as "$@" and nothing that the shell
// splits or glob-expands (`--disable-config-keywords *` would become the names of the files in /).
func entrypointArgs(c *core.Ctx) {
	const rel = "rootfs/start.sh"
	b, err := c.ReadRepoFile(rel)
	if err != nil {
		c.MissingAnchor(rel + ": " + err.Error())
		return
	}
	n := 0
	for i, line := range strings.Split(string(b), "\n") {
		l := strings.TrimSpace(line)
		if strings.HasPrefix(l, "#") || !strings.Contains(l, "/haproxy-ingress-controller") {
			continue
		}
		n++
		// every expansion on the line is inside double quotes
		inD, inS, bad := false, false, ""
		for j := 0; j < len(l); j++ {
			switch ch := l[j]; {
			case ch == '\\' && !inS:
				j++
			case ch == '\'' && !inD:
				inS = !inS
			case ch == '"' && !inS:
				inD = !inD
			case (ch == '$' || ch == '`') && !inD && !inS:
				bad = l[j:]
				j = len(l)
			}
		}
		where := fmt.Sprintf("%s:%d", rel, i+1)
		c.Check(bad == "", "the controller is executed with quoted expansions only", where, l, "unquoted expansion `"+clip(bad, 60)+"` on the line that executes the controller: the shell splits and glob-expands it before the controller parses its options")
		c.Check(strings.Contains(l, `"$@"`), "the controller receives the positional parameters as \"$@\"", where, l, "the line that executes the controller does not pass \"$@\"")
	}
	c.Check(n >= 1, "entrypoint executes the controller", rel, fmt.Sprintf("%d line(s)", n), "no line of the entrypoint executes /haproxy-ingress-controller")
	// the images start that script in exec form: the shell form (`ENTRYPOINT /start.sh`) drops the arguments of the container
	for _, df := range []string{"rootfs/Dockerfile", "builder/Dockerfile"} {
		b, err := c.ReadRepoFile(df)
		if err != nil {
			c.MissingAnchor(df + ": " + err.Error())
			continue
		}
		found := false
		for i, line := range strings.Split(string(b), "\n") {
			l := strings.TrimSpace(line)
			if !strings.HasPrefix(l, "ENTRYPOINT") {
				continue
			}
			found = true
			arg := strings.TrimSpace(strings.TrimPrefix(l, "ENTRYPOINT"))
			c.Check(strings.HasPrefix(arg, "[") && strings.HasSuffix(arg, `"/start.sh"]`), "the image starts /start.sh in exec form, as the last element", fmt.Sprintf("%s:%d", df, i+1), arg,
				"ENTRYPOINT is `"+clip(arg, 80)+"`: in shell form, or with anything after /start.sh, the arguments of the container do not reach the script as its positional parameters")
		}
		c.Check(found, "image entrypoint declared", df, "ENTRYPOINT present", "no ENTRYPOINT line")
	}
}

func shortFields(fs []string) []string {
	var out []string
	for _, f := range fs {
		out = append(out, f[strings.Index(f, ".")+1:])
	}
	return out
}

func optionsWiring(c *core.Ctx, prop string, fields []string) {
	rows, vals := optionRows(c.Env)
	for _, h := range optionHubs {
		// not anchored: only the listed fields of these functions belong to the property
		fn := c.Env.Func(h[0], h[1])
		if fn == nil || fn.Blocks == nil {
			c.MissingAnchor(h[0] + "." + h[1])
			continue
		}
		name := core.FuncName(fn)
		for _, f := range fields {
			key := name + "|" + f
			want, reviewed := optionsTable[key]
			got, present := rows[key]
			what := f + " as filled by " + name
			switch {
			case !reviewed && !present:
				// this runtime does not fill the field (legacy controller: no Gateway v1): nothing to compare
				continue
			case !present:
				c.Violated(what, c.Pos(fn.Pos()), "the field is no longer filled (reviewed: "+want+"): "+optionDeps[f].why)
			case !reviewed:
				c.Violated(what, c.Pos(fn.Pos()), "the field is now filled with "+got+", the reviewed tree leaves it at its zero value: "+optionDeps[f].why)
			case got != want:
				c.Violated(what, c.Pos(fn.Pos()), "filled with "+got+", reviewed: "+want+" — "+optionDeps[f].why)
			default:
				c.Held(what, c.Pos(fn.Pos()), got)
			}
		}
	}
	for _, s := range optionShared {
		in := false
		for _, p := range s.props {
			in = in || p == prop
		}
		if !in {
			continue
		}
		fn := c.Env.Func(s.pkg, s.fn)
		if fn == nil || fn.Blocks == nil {
			c.MissingAnchor(s.pkg + "." + s.fn)
			continue
		}
		what := fmt.Sprintf("%s and argument %d of %s are one object in %s", s.field, s.arg, s.callee, core.FuncName(fn))
		opt := vals[core.FuncName(fn)+"|"+s.field]
		var arg ssa.Value
		for _, b := range fn.Blocks {
			for _, in := range b.Instrs {
				call, ok := in.(ssa.CallInstruction)
				if !ok {
					continue
				}
				if cal := call.Common().StaticCallee(); cal != nil && cal.Name() == s.callee && s.arg < len(call.Common().Args) {
					arg = call.Common().Args[s.arg]
				}
			}
		}
		if opt == nil || arg == nil {
			c.MissingAnchor(what + ": option store or call not found")
			continue
		}
		strip := func(v ssa.Value) ssa.Value {
			for {
				switch x := v.(type) {
				case *ssa.MakeInterface:
					v = x.X
				case *ssa.ChangeInterface:
					v = x.X
				case *ssa.ChangeType:
					v = x.X
				default:
					return v
				}
			}
		}
		a, b := strip(opt), strip(arg)
		ta, tb := argText(a), argText(b)
		same := a == b || (ta == tb && !strings.Contains(ta, "(")) // the same value, or two loads of the same field
		c.Check(same, what, c.Pos(fn.Pos()), "both are "+ta+": "+s.why, "the option holds "+ta+", the call receives "+tb+": "+s.why)
	}
}
