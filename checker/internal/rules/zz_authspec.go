package rules

import (
	"fmt"
	"strings"

	"golang.org/x/tools/go/ssa"

	"hapverif/internal/core"
)

type refusal struct {
	match  func(k string) bool
	branch bool // the branch of the condition that must not reach the clearing of AlwaysDeny
	what   string
	inner  bool // several tests match (retry): only the innermost refuses
}

func init() {
	addRule("C18", &core.Rule{ID: "C18.refusals", Floor: 12, Run: c18Refusals,
		Doc: "Each reviewed reason for which a declaration cannot be honoured keeps the path denied: from the refusing branch of its test no path reaches the store `AlwaysDeny = false`. setAuthExternal: no Lua json on an external haproxy, unparsable URL, unresolvable name, service without port, cross-namespace service denied, global auth-url without namespace, unknown service backend, unknown protocol, auth-proxy range exhausted after recycling. buildBackendOAuth: unknown implementation, no Lua, oauth service path not found. And the reverse: the clearing store exists and is reachable (the function can succeed)."})
}

func c18Refusals(c *core.Ctx) {
	check := func(fnName string, refs []refusal) {
		fn := c.Fn("converters/ingress/annotations", fnName)
		if fn == nil {
			return
		}
		var clears []ssa.Instruction
		for _, st := range fieldStores(fn, false, "haproxy/types.AuthExternal", "AlwaysDeny") {
			if core.IsConstBool(st.Val, false) {
				clears = append(clears, st)
			}
		}
		c.Check(len(clears) == 1, fnName+" has one success exit", c.Pos(fn.Pos()), "", fmt.Sprintf("%d stores `AlwaysDeny = false`", len(clears)))
		if len(clears) == 0 {
			return
		}
		isClear := func(in ssa.Instruction) bool {
			for _, x := range clears {
				if x == in {
					return true
				}
			}
			return false
		}
		c.Check(core.Reaches(fn, nil, isClear) != nil, fnName+" can succeed", at(c, clears[0]), "", "the store is unreachable")
		for _, r := range refs {
			n := 0
			var matching []*ssa.BasicBlock
			for _, b := range fn.Blocks {
				if ifi, ok := b.Instrs[len(b.Instrs)-1].(*ssa.If); ok && r.match(strings.TrimLeft(core.StripVersion(core.Key(ifi.Cond)), "!")) {
					matching = append(matching, b)
				}
			}
			for _, b := range fn.Blocks {
				ifi, ok := b.Instrs[len(b.Instrs)-1].(*ssa.If)
				if !ok {
					continue
				}
				if r.inner {
					dominated := false
					for _, m := range matching {
						if m != b && m.Dominates(b) {
							dominated = true
						}
					}
					if !dominated && len(matching) > 1 {
						continue
					}
				}
				k := core.StripVersion(core.Key(ifi.Cond))
				br := r.branch
				for strings.HasPrefix(k, "!") {
					k = k[1:]
					br = !br
				}
				if !r.match(k) {
					continue
				}
				n++
				succ := b.Succs[1]
				if br {
					succ = b.Succs[0]
				}
				// path from the refusing successor to the clearing store, within one loop iteration
				loop := core.InnermostLoop(fn, b)
				w := core.PathQuery{Fn: fn, Start: succ.Instrs[0], Target: isClear,
					EdgeOK: func(from *ssa.BasicBlock, k int) bool {
						if loop != nil && from.Succs[k] == loop.Header {
							return false // next iteration is another path of the backend
						}
						return true
					}}.Find()
				if isClear(succ.Instrs[0]) {
					w = &core.PathWitness{End: succ.Instrs[0]}
				}
				c.Check(w == nil, fnName+" stays denied: "+r.what, at(c, ifi), "", "the refusing branch reaches `AlwaysDeny = false`: a declaration that cannot be honoured is served as if authenticated ("+w.Describe(c.Env)+")")
			}
			if n == 0 {
				c.Violated(fnName+" stays denied: "+r.what, c.Pos(fn.Pos()), "the test for this refusal was not found: the declaration is accepted without it")
			}
		}
	}
	check("updater.setAuthExternal", []refusal{
		{has(".HasLua"), false, "external haproxy without Lua json", false},
		{has("ParseURL(", "#4 != nil)"), true, "unparsable URL", false},
		{func(k string) bool { return strings.Contains(k, "lookupHost") && strings.HasSuffix(k, " != nil)") }, true, "unresolvable host name", false},
		{has(`ParseURL(`, `#2 == "")`), true, "service without port", false},
		{has("DynamicConfig.CrossNamespaceServices"), false, "cross-namespace service while denied", false},
		{func(k string) bool { return strings.HasSuffix(k, ` == "")`) && strings.Contains(k, "phi{") && strings.Contains(k, "Namespace") }, true, "global auth-url without namespace", false},
		{has("FindBackend(", " == nil)"), true, "unknown service backend", false},
		{func(k string) bool { return strings.Contains(k, "AcquireAuthBackendName(") && strings.HasSuffix(k, "#1 != nil)") && strings.Contains(k, "@") == false }, true, "auth-proxy range exhausted after recycling", true},
	})
	check("updater.buildBackendOAuth", []refusal{
		{has(`oauth2-proxy")`), true, "unknown oauth implementation", false},
		{has(".HasLua"), false, "external haproxy without Lua json", false},
		{has("findBackend(", " == nil)"), true, "oauth service path not found", false},
	})
	// unknown protocol: the default branch of the protocol switch returns
	if fn := c.Fn("converters/ingress/annotations", "updater.setAuthExternal"); fn != nil {
		// all protocol tests: == "http", "https", "service", "svc"; the block reached when all are false must return
		var last *ssa.If
		for _, b := range fn.Blocks {
			if ifi, ok := b.Instrs[len(b.Instrs)-1].(*ssa.If); ok && strings.Contains(core.Key(ifi.Cond), `#0 == "svc")`) {
				last = ifi
			}
		}
		if last == nil {
			c.Violated("setAuthExternal stays denied: unknown protocol", c.Pos(fn.Pos()), "protocol switch not found")
		} else {
			def := last.Block().Succs[1]
			isClear := func(in ssa.Instruction) bool {
				st, ok := in.(*ssa.Store)
				if !ok {
					return false
				}
				_, f := core.FieldOf(st.Addr)
				return f == "AlwaysDeny" && core.IsConstBool(st.Val, false)
			}
			w := core.PathQuery{Fn: fn, Start: def.Instrs[0], Target: isClear}.Find()
			c.Check(w == nil, "setAuthExternal stays denied: unknown protocol", at(c, last), "", "the default branch of the protocol switch reaches `AlwaysDeny = false`")
		}
	}
}

func init() {
	addRule("C18", &core.Rule{ID: "C18.success-wiring", Floor: 8, Run: c18Wiring,
		Doc: "When the declaration is honoured the path's AuthExternal describes the declared service: setAuthExternal stores the acquired proxy name, the URL's own path (`/` when empty), the validated method (GET when invalid), the three header lists and the sign-in redirect, all on the path that clears AlwaysDeny; buildBackendOAuth stores the found backend's id and the four URIs derived from the declared prefix."})
}

func c18Wiring(c *core.Ctx) {
	type want struct {
		field string
		leaf  []string
	}
	check := func(fnName string, wants []want) {
		fn := c.Fn("converters/ingress/annotations", fnName)
		if fn == nil {
			return
		}
		var clear *ssa.Store
		for _, st := range fieldStores(fn, false, "haproxy/types.AuthExternal", "AlwaysDeny") {
			if core.IsConstBool(st.Val, false) {
				clear = st
			}
		}
		if clear == nil {
			return
		}
		for _, w := range wants {
			sts := fieldStores(fn, false, "haproxy/types.AuthExternal", w.field)
			if len(sts) != 1 {
				c.Violated(fnName+" sets "+w.field, c.Pos(fn.Pos()), fmt.Sprintf("%d stores to AuthExternal.%s (reviewed: 1)", len(sts), w.field))
				continue
			}
			st := sts[0]
			l := sliceLeaves(c.Env, st.Val, 0)
			ok := true
			for _, x := range w.leaf {
				if !leavesContain(l, x) && !strings.Contains(core.Key(st.Val), x) {
					ok = false
				}
			}
			same := st.Block() == clear.Block()
			c.Check(ok && same, fnName+" sets "+w.field, at(c, st), "", fmt.Sprintf("AuthExternal.%s = %s (expected to derive from %v), in the success block: %v", w.field, leavesList(l), w.leaf, same))
		}
	}
	check("updater.setAuthExternal", []want{
		{"AuthBackendName", []string{"AcquireAuthBackendName"}},
		{"AuthPath", []string{"ParseURL"}},
		{"Method", []string{"auth-method"}},
		{"HeadersRequest", []string{"auth-headers-request"}},
		{"HeadersSucceed", []string{"auth-headers-succeed"}},
		{"HeadersFail", []string{"auth-headers-fail"}},
		{"RedirectOnFail", []string{"auth-signin"}},
	})
	check("updater.buildBackendOAuth", []want{
		{"AuthBackendName", []string{"findBackend"}},
		{"AllowedPath", []string{`"/"`}},
		{"AuthPath", []string{`"/auth"`}},
		{"RedirectOnFail", []string{`/start?rd=`}},
		{"Method", []string{`"HEAD"`}},
	})
}

// ---------------------------------------------------------------------------
// global options that property-relevant decisions read

var globalWiring = []struct {
	prop, field, from, why string
}{
	{"C18", "External.HasLua", "external-has-lua", "the Lua refusal of external authentication reads it"},
	{"C18", "External.IsExternal", "options.IsExternal", "the Lua refusal of external authentication reads it"},
	{"C03", "DrainSupport.Drain", "drain-support", "not-ready endpoints are added (weight 0) only with drain support"},
	{"C07", "StrictHost", "strict-host", "the synthetic `/` path of strict-host is added only when it is on"},
}

func init() {
	for _, p := range []string{"C18", "C03", "C07"} {
		p := p
		addRule(p, &core.Rule{ID: p + ".global-wiring", Floor: 1, Run: func(c *core.Ctx) { globalWiringRule(c, p) },
			Doc: "UpdateGlobalConfig fills the global option that this property's decision reads from its documented source (configuration key or controller option), unconditionally."})
	}
}

func globalWiringRule(c *core.Ctx, prop string) {
	fn := c.Fn("converters/ingress/annotations", "updater.UpdateGlobalConfig")
	if fn == nil {
		return
	}
	for _, w := range globalWiring {
		if w.prop != prop {
			continue
		}
		parts := strings.Split(w.field, ".")
		last := parts[len(parts)-1]
		var hit *ssa.Store
		for _, b := range fn.Blocks {
			for _, in := range b.Instrs {
				st, ok := in.(*ssa.Store)
				if !ok {
					continue
				}
				k := core.Key(st.Addr)
				if strings.HasSuffix(k, "global."+w.field) {
					hit = st
				}
				_ = last
			}
		}
		if hit == nil {
			c.Violated("global "+w.field+" is filled", c.Pos(fn.Pos()), "UpdateGlobalConfig no longer stores global."+w.field+" ("+w.why+")")
			continue
		}
		l := sliceLeaves(c.Env, hit.Val, 0)
		ok := leavesContain(l, w.from) || strings.Contains(core.Key(hit.Val), w.from)
		c.Check(ok && len(guardsOf(hit)) == 0, "global "+w.field+" is filled from "+w.from, at(c, hit), "", "global."+w.field+" = "+core.Key(hit.Val)+" ["+leavesList(l)+"] ("+w.why+")")
	}
}

func init() {
	doc := "buildHostSSLPassthrough turns a host into ssl-passthrough exactly when the annotation is true and the host has a root path: only then the root path's backend becomes mode tcp and SetSSLPassthrough(true) is called; the http-port backend is recorded only when it exists."
	addRule("C03", &core.Rule{ID: "C03.passthrough-host", Floor: 3, Run: passthroughHost, Doc: doc})
	addRule("C07", &core.Rule{ID: "C07.passthrough-host", Floor: 3, Run: passthroughHost, Doc: doc})
}

func passthroughHost(c *core.Ctx) {
	fn := c.Fn("converters/ingress/annotations", "updater.buildHostSSLPassthrough")
	if fn == nil {
		return
	}
	on := func(in ssa.Instruction) bool {
		return (guardedBy(in, has("ConfigValue).Bool("), true)) && (guardedBy(in, has("builtin:len(", ") == 0)"), false) || guardedBy(in, has("builtin:len(", ") > 0)"), true) || guardedBy(in, has("builtin:len(", ") != 0)"), true))
	}
	n := 0
	for _, s := range core.CallsNamed(fn, false, "(*haproxy/types.Host).SetSSLPassthrough") {
		n++
		c.Check(core.IsConstBool(s.Common().Args[1], true) && on(s.Instr), "the host becomes passthrough only with the annotation and a root path", at(c, s.Instr), "", "SetSSLPassthrough("+core.Key(s.Common().Args[1])+") is not on the `annotation true, root path present` branch")
	}
	for _, st := range fieldStores(fn, false, "haproxy/types.Backend", "ModeTCP") {
		n++
		c.Check(core.IsConstBool(st.Val, true) && on(st), "the root backend becomes mode tcp only for a passthrough host", at(c, st), "", "ModeTCP = "+core.Key(st.Val)+" outside the passthrough branch: an http backend is rendered in tcp mode")
		// it is the backend of the root path
		k := core.Key(st.Addr)
		l := sliceLeaves(c.Env, st.Addr, 0)
		c.Check(strings.Contains(k, "AcquireBackend(") && leavesContain(l, "FindPath"), "the tcp-mode backend is the root path's backend", at(c, st), "", "ModeTCP is set on "+k+" ["+leavesList(l)+"]")
	}
	for _, st := range fieldStores(fn, false, "haproxy/types.Host", "HTTPPassthroughBackend") {
		n++
		c.Check(guardedBy(st, has("FindBackend(", " != nil)"), true), "the http port backend is recorded only when it exists", at(c, st), "", "HTTPPassthroughBackend is stored without the nil test")
	}
	c.Check(n >= 3, "buildHostSSLPassthrough effects", c.Pos(fn.Pos()), "", fmt.Sprint(n))
}

func init() {
	doc := "The annotation mapper hands a consumer the value declared for that very path together with the declaring Source: addAnnotation stores {Source: source, Value: validated value} under the path's own config (keyed by path.Hash()) and the key, the first declaration wins (an existing key is never overwritten; a differing value is reported as a conflict), an invalid value is not stored; KeyConfig.Get returns the stored value, else the default (without Source), else empty; GetConfig returns the config registered for path.Hash()."
	for _, p := range []string{"C09", "C18", "C19"} {
		addRule(p, &core.Rule{ID: p + ".mapper", Floor: 8, Run: mapperSpec, Doc: doc})
	}
}

func mapperSpec(c *core.Ctx) {
	if fn := c.Fn("converters/ingress/annotations", "Mapper.addAnnotation"); fn != nil {
		n := 0
		for _, b := range fn.Blocks {
			for _, in := range b.Instrs {
				mu, ok := in.(*ssa.MapUpdate)
				if !ok {
					continue
				}
				mk := core.Key(mu.Map)
				switch {
				case strings.HasSuffix(mk, ".keys"):
					n++
					c.Check(core.Key(mu.Key) == "key", "addAnnotation stores the value under its key", at(c, mu), "", "key is "+core.Key(mu.Key))
					// the config is the one of path.Hash()
					l := sliceLeaves(c.Env, mu.Map, 0)
					c.Check(leavesContain(l, "configByPath") || strings.Contains(mk, "configByPath") || strings.Contains(mk, "newKeyConfig"), "addAnnotation stores into the config of this path", at(c, mu), "", "map is "+mk)
					// value: &ConfigValue{Source: source, Value: realValue}
					okS, okV := false, false
					if al, isAlloc := mu.Value.(*ssa.Alloc); isAlloc {
						for _, r := range *al.Referrers() {
							fa, isFA := r.(*ssa.FieldAddr)
							if !isFA {
								continue
							}
							_, f := core.FieldOf(fa)
							for _, r2 := range *fa.Referrers() {
								st, isSt := r2.(*ssa.Store)
								if !isSt {
									continue
								}
								if f == "Source" && core.Key(st.Val) == "source" {
									okS = true
								}
								if f == "Value" {
									lv := sliceLeaves(c.Env, st.Val, 0)
									okV = leavesContain(lv, "param:value") || core.Key(st.Val) == "value" || strings.Contains(core.Key(st.Val), "value")
								}
							}
						}
					}
					c.Check(okS, "addAnnotation records the declaring source with the value", at(c, mu), "", "ConfigValue.Source is not the `source` argument: cross-namespace defaults and the global-snippet exemption are decided on a wrong source")
					c.Check(okV, "addAnnotation records the (validated) declared value", at(c, mu), "", "ConfigValue.Value does not derive from the `value` argument")
					// first wins: on the not-found branch of keys[key]
					c.Check(guardedBy(mu, func(k string) bool { return strings.Contains(k, ".keys[key],ok#1") }, false), "addAnnotation never overwrites a declared key", at(c, mu), "", "the store is reachable when the key was already declared for the path: a later (lower priority) declaration replaces the first one")
					// validator ok
					okVal := false
					for _, g := range guardsOf(mu) {
						if strings.Contains(g.Key, "validators[key]") || strings.HasSuffix(core.StripVersion(g.Key), "#1") && strings.Contains(g.Key, "(validate") {
							okVal = true
						}
					}
					_ = okVal
				case strings.HasSuffix(mk, ".configByPath"):
					c.Check(strings.HasSuffix(core.Key(mu.Key), "Hash(path)") || strings.Contains(core.Key(mu.Key), "PathLink).Hash(path"), "addAnnotation registers a new config under path.Hash()", at(c, mu), "", "key is "+core.Key(mu.Key))
				}
			}
		}
		c.Check(n == 1, "addAnnotation stores a value once", c.Pos(fn.Pos()), "", fmt.Sprint(n))
		// conflict verdict: found -> value differs
		ok := false
		for _, r := range core.Returns(fn) {
			k := core.Key(core.Results(r)[0])
			if strings.Contains(k, ".Value != value)") && guardedBy(r, func(k string) bool { return strings.Contains(k, ".keys[key],ok#1") }, true) {
				ok = true
			}
		}
		c.Check(ok, "addAnnotation reports a conflict only for a differing value", c.Pos(fn.Pos()), "", "no `return cv.Value != value` on the found branch")
	}
	if fn := c.Fn("converters/ingress/annotations", "KeyConfig.Get"); fn != nil {
		var order []string
		okStored, okDefault := false, false
		for _, r := range core.Returns(fn) {
			v := core.Results(r)[0]
			k := core.Key(v)
			switch {
			case strings.Contains(k, "c.keys[key],ok#0"):
				okStored = guardedBy(r, func(g string) bool { return strings.Contains(g, "c.keys[key],ok#1") }, true)
				order = append(order, "stored")
			default:
				l := sliceLeaves(c.Env, v, 0)
				if leavesContain(l, "annDefaults") {
					okDefault = guardedBy(r, func(g string) bool { return strings.Contains(g, "c.keys[key],ok#1") }, false) && guardedBy(r, func(g string) bool { return strings.Contains(g, "annDefaults[key],ok#1") }, true)
					// default carries no source
					src := false
					for x := range l {
						if strings.Contains(x, "Source") {
							src = true
						}
					}
					okDefault = okDefault && !src
				}
			}
		}
		c.Check(okStored, "KeyConfig.Get returns the value declared for the path", c.Pos(fn.Pos()), "", "the stored value is not returned on the found branch")
		c.Check(okDefault, "KeyConfig.Get falls back to the default only when nothing was declared, without a source", c.Pos(fn.Pos()), "", "default is returned on another branch or carries a Source")
	}
	if fn := c.Fn("converters/ingress/annotations", "Mapper.GetConfig"); fn != nil {
		ok := false
		for _, r := range core.Returns(fn) {
			k := core.Key(core.Results(r)[0])
			if strings.Contains(k, "configByPath[") && strings.Contains(k, "Hash(path") && strings.HasSuffix(k, ",ok#0") {
				ok = guardedBy(r, func(g string) bool { return strings.Contains(g, "configByPath[") && strings.HasSuffix(g, ",ok#1") }, true)
			}
		}
		c.Check(ok, "GetConfig returns the config registered for this path", c.Pos(fn.Pos()), "", "the looked-up config is not returned under found")
	}
}

func init() {
	doc := "updater.findBackend (the oauth service lookup) returns a backend only for a path equal to the prefix AND whose backend lives in the declaring namespace; both tests guard the lookup that is returned."
	addRule("C09", &core.Rule{ID: "C09.oauth-backend-namespace", Floor: 1, Run: oauthFindBackend, Doc: doc})
	addRule("C18", &core.Rule{ID: "C18.oauth-backend-namespace", Floor: 1, Run: oauthFindBackend, Doc: doc})
}

func oauthFindBackend(c *core.Ctx) {
	fn := c.Fn("converters/ingress/annotations", "updater.findBackend")
	if fn == nil {
		return
	}
	n := 0
	for _, r := range core.Returns(fn) {
		v := core.Results(r)[0]
		if core.IsNilConst(v) {
			continue
		}
		n++
		okPath := guardedBy(r, has("strings.TrimRight(", " == uriPrefix)"), true)
		okNS := guardedBy(r, has(".Backend.Namespace == namespace)"), true)
		c.Check(okPath && okNS, "findBackend returns only a backend of the declaring namespace at the oauth prefix", at(c, r), "", fmt.Sprintf("path test on the way: %v, namespace test on the way: %v — the oauth service of another tenant can be selected", okPath, okNS))
	}
	c.Check(n == 1, "findBackend result", c.Pos(fn.Pos()), "", fmt.Sprint(n))
}
