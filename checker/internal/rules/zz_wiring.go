package rules

import (
	"fmt"
	"go/types"
	"sort"
	"strings"

	"golang.org/x/tools/go/ssa"

	"hapverif/internal/core"
)

// ---------------------------------------------------------------------------------------------
// Wiring tables: what the converters hand to the model and to the cache.
//
// The behaviour of the generated configuration is decided at a small API boundary: the converters
// call the model (AcquireHost, AddPath, AcquireBackend, AddEndpoint …), the cache (GetService,
// GetTLSSecretPath …) and the tracker with values computed from the Kubernetes objects. A wrong
// variable at one of these calls (the bare name instead of namespace/name, the service name
// instead of the port, the raw hostname instead of the normalised one) type-checks, keeps the
// tests green when no test has two distinct values there, and changes behaviour only for the input
// that tells the two variables apart.
//
// argText renders an argument as a short, name-independent expression (parameters by their reviewed
// names, fields as paths, calls by callee, phis as the set of their inputs). The table freezes, per
// (function, callee), the multiset of argument tuples seen on the reviewed tree.
// ---------------------------------------------------------------------------------------------

func argText(v ssa.Value) string { return argTextD(v, 0, map[ssa.Value]bool{}) }

func shortCallee(c *ssa.CallCommon) string {
	if c.IsInvoke() {
		return c.Method.Name()
	}
	n := core.CalleeName(c)
	if i := strings.LastIndex(n, "."); i >= 0 {
		n = n[i+1:]
	}
	return n
}

// shortType prints a type with package names (not paths) and without parameter names.
func shortType(t types.Type) string {
	q := func(p *types.Package) string { return p.Name() }
	switch x := t.(type) {
	case *types.Pointer:
		return "*" + shortType(x.Elem())
	case *types.Slice:
		return "[]" + shortType(x.Elem())
	case *types.Array:
		return fmt.Sprintf("[%d]%s", x.Len(), shortType(x.Elem()))
	case *types.Map:
		return "map[" + shortType(x.Key()) + "]" + shortType(x.Elem())
	case *types.Chan:
		return "chan " + shortType(x.Elem())
	case *types.Signature:
		tuple := func(tp *types.Tuple) string {
			var parts []string
			for i := 0; i < tp.Len(); i++ {
				parts = append(parts, shortType(tp.At(i).Type()))
			}
			return strings.Join(parts, ", ")
		}
		s := "func(" + tuple(x.Params()) + ")"
		if x.Results().Len() == 1 {
			s += " " + tuple(x.Results())
		} else if x.Results().Len() > 1 {
			s += " (" + tuple(x.Results()) + ")"
		}
		return s
	}
	return types.TypeString(t, q)
}

// negText renders the negation of a boolean value in a normal form: double negations cancel and a
// negated comparison is the opposite comparison, so that `if c {A} else {B}` and `if !c {B} else {A}`
// render alike.
func negText(v ssa.Value, d int, seen map[ssa.Value]bool) string {
	switch x := v.(type) {
	case *ssa.UnOp:
		if x.Op.String() == "!" {
			return argTextD(x.X, d, seen)
		}
	case *ssa.BinOp:
		flip := map[string]string{"==": "!=", "!=": "==", "<": ">=", ">=": "<", ">": "<=", "<=": ">"}
		if op, ok := flip[x.Op.String()]; ok {
			return "(" + argTextD(x.X, d+1, seen) + " " + op + " " + argTextD(x.Y, d+1, seen) + ")"
		}
	}
	return "!" + argTextD(v, d+1, seen)
}

// CondText renders a branch condition under the polarity of the edge taken.
func CondText(v ssa.Value, branch bool) string {
	if branch {
		return argText(v)
	}
	return negText(v, 0, map[ssa.Value]bool{})
}

// recvText renders the receiver of a method call as a short prefix ("c.cache.", "newConn()#0."), or
// nothing when it is not a simple path.
func recvText(v ssa.Value, d int, seen map[ssa.Value]bool) string {
	if d > 4 {
		return ""
	}
	t := argTextD(v, d+3, seen)
	if len(t) > 60 || strings.HasPrefix(t, "phi{") || strings.HasPrefix(t, "<") || strings.HasPrefix(t, "new(") {
		return ""
	}
	return t + "."
}

// indexText renders a constant or parameter index; loop indices are left out.
func indexText(v ssa.Value) string {
	switch x := v.(type) {
	case *ssa.Const:
		return core.Key(x)
	case *ssa.Parameter:
		return core.ParamName(x)
	}
	return ""
}

// structLiteral renders `&T{f: v, …}` for an Alloc that is only written field by field in its own block
// (a composite literal), else "".
func structLiteral(x *ssa.Alloc, d int, seen map[ssa.Value]bool) string {
	pt, ok := x.Type().Underlying().(*types.Pointer)
	if !ok {
		return ""
	}
	if _, ok := pt.Elem().Underlying().(*types.Struct); !ok || x.Parent() == nil {
		return ""
	}
	vals := map[string]string{}
	for _, b := range x.Parent().Blocks {
		for _, in := range b.Instrs {
			s, ok := in.(*ssa.Store)
			if !ok {
				continue
			}
			fa, ok := s.Addr.(*ssa.FieldAddr)
			if !ok {
				continue
			}
			// direct field, or a field of an embedded/nested struct field (x.Subject.CommonName = …)
			name := ""
			cur := fa
			for depth := 0; depth < 3; depth++ {
				_, f := core.FieldOf(cur)
				if name == "" {
					name = f
				} else {
					name = f + "." + name
				}
				if cur.X == ssa.Value(x) {
					break
				}
				next, isFA := cur.X.(*ssa.FieldAddr)
				if !isFA {
					name = ""
					break
				}
				cur = next
			}
			if name == "" || cur.X != ssa.Value(x) {
				continue
			}
			if _, dup := vals[name]; dup {
				return "" // assigned more than once: a variable, not a literal
			}
			vals[name] = argTextD(s.Val, d+2, seen)
		}
	}
	if len(vals) == 0 {
		return ""
	}
	var parts []string
	for _, k := range sortedKeys(vals) {
		parts = append(parts, k+": "+vals[k])
	}
	return "&" + shortType(pt.Elem()) + "{" + strings.Join(parts, ", ") + "}"
}

// arrayLiteral renders `[a, b, …]` for an Alloc of array type written once per constant index (the
// backing array of a variadic call or of a slice literal), else "".
func arrayLiteral(x *ssa.Alloc, d int, seen map[ssa.Value]bool) string {
	pt, ok := x.Type().Underlying().(*types.Pointer)
	if !ok {
		return ""
	}
	at, ok := pt.Elem().Underlying().(*types.Array)
	if !ok || x.Parent() == nil || at.Len() > 12 {
		return ""
	}
	vals := map[string]string{}
	for _, b := range x.Parent().Blocks {
		for _, in := range b.Instrs {
			s, ok := in.(*ssa.Store)
			if !ok {
				continue
			}
			ia, ok := s.Addr.(*ssa.IndexAddr)
			if !ok || ia.X != ssa.Value(x) {
				continue
			}
			c, ok := ia.Index.(*ssa.Const)
			if !ok {
				return ""
			}
			k := fmt.Sprintf("%02s", core.Key(c))
			if _, dup := vals[k]; dup {
				return ""
			}
			vals[k] = argTextD(s.Val, d+2, seen)
		}
	}
	if len(vals) == 0 {
		return ""
	}
	var parts []string
	for _, k := range sortedKeys(vals) {
		parts = append(parts, vals[k])
	}
	return "[" + strings.Join(parts, ", ") + "]"
}

func argTextD(v ssa.Value, d int, seen map[ssa.Value]bool) string {
	if v == nil {
		return "<nil>"
	}
	if d > 6 {
		return "…"
	}
	switch x := v.(type) {
	case *ssa.Const:
		return core.Key(x)
	case *ssa.Parameter:
		return core.ParamName(x)
	case *ssa.FreeVar:
		return core.FreeVarName(x)
	case *ssa.Global:
		if x.Pkg != nil && x.Pkg.Pkg != nil {
			return x.Pkg.Pkg.Name() + "." + x.Name()
		}
		return x.Name()
	case *ssa.Function:
		return "func:" + core.FuncName(x)
	case *ssa.MakeClosure:
		return "closure"
	case *ssa.UnOp:
		if x.Op.String() == "*" {
			// a local variable kept in memory (named result read by a deferred call, variable captured by
			// a closure): the set of values the function stores into it, like a phi
			if al, ok := x.X.(*ssa.Alloc); ok && al.Parent() != nil && !seen[al] {
				elem := al.Type().Underlying().(*types.Pointer).Elem().Underlying()
				_, isStruct := elem.(*types.Struct)
				_, isArray := elem.(*types.Array)
				if !isStruct && !isArray {
					set := map[string]bool{}
					seen[al] = true
					for _, b := range al.Parent().Blocks {
						for _, in := range b.Instrs {
							if st, ok := in.(*ssa.Store); ok && st.Addr == ssa.Value(al) {
								set[argTextD(st.Val, d+1, seen)] = true
							}
						}
					}
					delete(seen, al)
					if len(set) > 0 {
						return "var{" + strings.Join(sortedKeys(set), " | ") + "}"
					}
				}
			}
			return argTextD(x.X, d, seen)
		}
		if x.Op.String() == "!" {
			return negText(x.X, d, seen)
		}
		return x.Op.String() + argTextD(x.X, d+1, seen)
	case *ssa.FieldAddr:
		_, f := core.FieldOf(x)
		return argTextD(x.X, d, seen) + "." + f
	case *ssa.Field:
		k := core.Key(x)
		if i := strings.LastIndex(k, "."); i >= 0 {
			return argTextD(x.X, d, seen) + k[i:]
		}
		return argTextD(x.X, d, seen) + ".field"
	case *ssa.IndexAddr:
		return argTextD(x.X, d, seen) + "[" + indexText(x.Index) + "]"
	case *ssa.Index:
		return argTextD(x.X, d, seen) + "[" + indexText(x.Index) + "]"
	case *ssa.Lookup:
		return argTextD(x.X, d, seen) + "[" + argTextD(x.Index, d+1, seen) + "]"
	case *ssa.Extract:
		return argTextD(x.Tuple, d, seen) + fmt.Sprintf("#%d", x.Index)
	case *ssa.Call:
		name := shortCallee(&x.Call)
		// the receiver tells two calls of one method apart (the first connection's Write and the second's)
		if x.Call.IsInvoke() {
			name = recvText(x.Call.Value, d, seen) + name
		} else if sig := x.Call.Signature(); sig != nil && sig.Recv() != nil && len(x.Call.Args) > 0 {
			name = recvText(x.Call.Args[0], d, seen) + name
		}
		// two constructor calls of one function (`list.New()` twice) are different values
		if len(core.CallArgs(&x.Call)) == 0 && !x.Call.IsInvoke() {
			if k := callOrdinal(x); k > 0 {
				name = fmt.Sprintf("%s#%d", name, k)
			}
		}
		if d >= 2 {
			return name + "()"
		}
		if cn := core.CalleeName(&x.Call); cn == "fmt.Errorf" || cn == "errors.New" {
			return name + "(…)" // message text is for people
		}
		step := 2
		if cn := core.CalleeName(&x.Call); strings.HasPrefix(cn, "strings.") || strings.HasPrefix(cn, "strconv.") {
			step = 1 // chains of pure string helpers (ReplaceAll(ReplaceAll(…))) are values, not calls into the program
		}
		var as []string
		for _, a := range core.CallArgs(&x.Call) {
			as = append(as, argTextD(a, d+step, seen))
		}
		return name + "(" + strings.Join(as, ", ") + ")"
	case *ssa.Phi:
		if seen[x] {
			return "↺"
		}
		// the set of values that reach x through phis only: how phis nest is decided by how blocks are
		// fused (an early `continue` instead of an if around the rest of a loop body adds a level)
		set := map[string]bool{}
		web := map[*ssa.Phi]bool{}
		var leaves []ssa.Value
		var walk func(p *ssa.Phi)
		walk = func(p *ssa.Phi) {
			web[p] = true
			for _, e := range p.Edges {
				if q, isPhi := e.(*ssa.Phi); isPhi {
					if web[q] {
						continue // the value of the previous iteration: adds nothing to the set
					}
					if seen[q] {
						set["↺"] = true
						continue
					}
					walk(q)
					continue
				}
				leaves = append(leaves, e)
			}
		}
		walk(x)
		// every phi of the web is "this value" while the inputs are rendered, whatever the order of the edges
		for p := range web {
			seen[p] = true
		}
		for _, e := range leaves {
			set[argTextD(e, d+1, seen)] = true
		}
		for p := range web {
			delete(seen, p)
		}
		return "phi{" + strings.Join(sortedKeys(set), " | ") + "}"
	case *ssa.Convert:
		// conversions between numeric kinds change the arithmetic (integer vs floating division)
		if fb, ok := x.X.Type().Underlying().(*types.Basic); ok {
			if tb, ok := x.Type().Underlying().(*types.Basic); ok && fb.Info()&types.IsNumeric != 0 && tb.Info()&types.IsNumeric != 0 &&
				(fb.Info()&types.IsFloat != tb.Info()&types.IsFloat) {
				return tb.Name() + "(" + argTextD(x.X, d, seen) + ")"
			}
		}
		return argTextD(x.X, d, seen)
	case *ssa.ChangeType:
		return argTextD(x.X, d, seen)
	case *ssa.ChangeInterface:
		return argTextD(x.X, d, seen)
	case *ssa.MakeInterface:
		return argTextD(x.X, d, seen)
	case *ssa.BinOp:
		return "(" + argTextD(x.X, d+1, seen) + " " + x.Op.String() + " " + argTextD(x.Y, d+1, seen) + ")"
	case *ssa.Slice:
		return argTextD(x.X, d, seen) + "[:]"
	case *ssa.TypeAssert:
		return argTextD(x.X, d, seen) + ".(" + shortType(x.AssertedType) + ")"
	case *ssa.Alloc:
		if d <= 1 {
			if lit := structLiteral(x, d, seen); lit != "" {
				return lit
			}
		}
		if d <= 2 {
			if lit := arrayLiteral(x, d, seen); lit != "" {
				return lit
			}
		}
		return "new(" + shortType(x.Type().(*types.Pointer).Elem()) + ")"
	case *ssa.MakeMap:
		return "make(" + shortType(x.Type()) + ")"
	case *ssa.MakeSlice:
		return "make(" + shortType(x.Type()) + ")"
	case *ssa.Next:
		return "next"
	case *ssa.Range:
		return "range(" + argTextD(x.X, d+1, seen) + ")"
	}
	return "<" + shortType(v.Type()) + ">"
}

// WiringRows lists "callee(args)" for the calls of fn whose callee name is in want (nil: all calls into
// the repository and through its interfaces, loggers excluded).
func WiringRows(fn *ssa.Function, want func(callee string) bool) []string {
	var out []string
	for _, b := range fn.Blocks {
		for _, in := range b.Instrs {
			var cc *ssa.CallCommon
			switch x := in.(type) {
			case *ssa.Call:
				cc = &x.Call
			case *ssa.Defer:
				cc = &x.Call
			case *ssa.Go:
				cc = &x.Call
			}
			if cc == nil {
				continue
			}
			name := shortCallee(cc)
			full := core.CalleeName(cc)
			if cc.IsInvoke() {
				full = shortType(cc.Value.Type()) + "." + name
			}
			if _, isBuiltin := cc.Value.(*ssa.Builtin); want == nil && !cc.IsInvoke() && cc.StaticCallee() == nil && !isBuiltin {
				// a call through a function value (callback, subscriber, worker function): which value is
				// called, with which arguments
				if _, isClosure := cc.Value.(*ssa.MakeClosure); !isClosure {
					var as []string
					for _, a := range cc.Args {
						as = append(as, argText(a))
					}
					out = append(out, "call "+argText(cc.Value)+"("+strings.Join(as, ", ")+")")
					continue
				}
			}
			if want != nil {
				if !want(name) {
					continue
				}
			} else {
				std := false
				for _, p := range []string{"strings.", "strconv.", "regexp.", "net.", "net/url.", "path.", "sort.", "fmt.Sprintf", "fmt.Sprint", "reflect.DeepEqual", "os.", "time.", "flag.", "github.com/spf13/pflag.", "os/exec.", "syscall.", "path/filepath.", "context.With", "slices.", "maps.", "text/template.", "io.", "bufio.", "encoding/", "crypto/"} {
					if strings.HasPrefix(full, p) || strings.HasPrefix(full, "(*"+p) || strings.HasPrefix(full, "("+p) {
						std = true
					}
				}
				// reads and writes of the cluster through the API clients: which object (namespace, name,
				// selector) is read is decided by the arguments
				extClient := false
				if cc.IsInvoke() {
					ts := cc.Value.Type().String()
					extClient = strings.Contains(ts, "sigs.k8s.io/controller-runtime/pkg/client.") || strings.Contains(ts, "k8s.io/client-go/listers/") || strings.Contains(ts, "k8s.io/client-go/kubernetes/typed/")
				}
				if extClient {
					var as []string
					for _, a := range core.CallArgs(cc) {
						as = append(as, argText(a))
					}
					out = append(out, name+"("+strings.Join(as, ", ")+")")
					continue
				}
				if std {
					// pure helpers of the standard library: their operands decide conditions and keys —
					// unless the result only ends up in a log line or an error message
					if v, isVal := in.(ssa.Value); isVal && feedsOnlyMessages(v, map[ssa.Value]bool{}) {
						continue
					}
				} else if strings.HasPrefix(full, "builtin:") || isLoggerName(full) || !(cc.IsInvoke() && strings.Contains(cc.Value.Type().String(), core.Module) || strings.Contains(full, "/") && !strings.Contains(full, "k8s.io") && !strings.Contains(full, "sigs.k8s") && strings.Contains(core.CalleeName(cc), "converters/") || strings.Contains(core.CalleeName(cc), "haproxy/") || strings.Contains(core.CalleeName(cc), "haproxy.") || strings.Contains(core.CalleeName(cc), "acme.") || strings.Contains(core.CalleeName(cc), "controller/") || strings.Contains(core.CalleeName(cc), "common/") || strings.Contains(core.CalleeName(cc), "utils")) {
					continue
				}
			}
			var as []string
			for _, a := range core.CallArgs(cc) {
				as = append(as, argText(a))
			}
			out = append(out, name+"("+strings.Join(as, ", ")+")")
		}
	}
	sort.Strings(out)
	return out
}

// wiringScope lists the packages whose functions are in the generated table.
var wiringScope = []string{"converters", "converters/ingress", "converters/gateway", "converters/utils", "converters/configmap", "converters/ingress/annotations", "haproxy", "haproxy/types", "haproxy/socket", "haproxy/template", "acme", "utils/workqueue", "controller/services", "controller/legacy", "controller/reconciler", "common/net/ssl", "utils", "controller/config", "controller/utils", "converters/ingress/utils", "common/ingress/controller"}

// WiringAll renders the table of the current tree (used by `hapverif genwiring`).
var wiringCache = map[*core.Env]map[string][]string{}

func WiringAll(env *core.Env) map[string][]string {
	if m, ok := wiringCache[env]; ok {
		return m
	}
	out := map[string][]string{}
	defer func() { wiringCache[env] = out }()
	for _, fn := range env.SrcFuncs() {
		in := false
		for _, p := range wiringScope {
			if core.PkgOf(fn) == p {
				in = true
			}
		}
		if !in || fn.Blocks == nil {
			continue
		}
		if rows := WiringRows(fn, nil); len(rows) > 0 {
			root := fn
			for root.Parent() != nil {
				root = root.Parent()
			}
			out[core.FuncName(root)] = append(out[core.FuncName(root)], rows...)
		}
	}
	for k := range out {
		sort.Strings(out[k])
	}
	return out
}

// calleeOf returns the callee part of a row.
func calleeOf(row string) string {
	if i := strings.Index(row, "("); i >= 0 {
		return row[:i]
	}
	return row
}

type wiringGroup struct {
	props   []string
	name    string
	pkgs    []string // packages of the calling functions ("" = all of wiringScope)
	callees map[string]bool
	why     string
}

func set(names ...string) map[string]bool {
	m := map[string]bool{}
	for _, n := range names {
		m[n] = true
	}
	return m
}

// stdHelpers are the standard-library helpers whose operands decide conditions, keys and parsed numbers.
var stdHelpers = []string{"Contains", "HasPrefix", "HasSuffix", "Split", "SplitN", "Join", "ToLower", "ToUpper", "TrimSpace", "TrimPrefix", "TrimSuffix", "TrimRight", "TrimLeft", "Trim", "Index", "LastIndex", "Replace", "ReplaceAll", "Fields", "EqualFold", "Atoi", "ParseBool", "ParseInt", "ParseFloat", "Itoa", "Compile", "MustCompile", "MatchString", "ParseIP", "ParseCIDR", "LookupHost", "Parse", "Strings", "Slice", "SliceStable"}

func withStd(m map[string]bool) map[string]bool {
	for _, n := range stdHelpers {
		m[n] = true
	}
	return m
}

var wiringGroups = []wiringGroup{
	{[]string{"C03", "C01", "C07", "C06"}, "routing", []string{"converters/ingress", "converters/utils", "converters/configmap", "converters"},
		withStd(set("FindHost", "AcquireHost", "FindPath", "FindPathWithLink", "AddPath", "AddLink", "AddRedirect", "CreateHostPathLink", "CreatePathLink", "addBackend", "addBackendWithClass", "addDefaultHostBackend", "addHost", "addTCPService", "AcquireTCPService", "normalizeHostname", "readPathType", "readServiceNamePort", "FindServicePort", "AcquireBackend", "FindBackend", "findBackend", "AcquireEndpoint", "AddEndpoint", "addEndpoints", "CreateEndpoints", "CreateSvcEndpoint", "createEndpoints", "createEndpointSlices", "createEndpointsExternalName", "GetEndpoints", "GetEndpointSlices", "GetTerminatingPods", "syncIngress", "syncIngressHTTP", "syncIngressTCP", "syncDefaultBackend", "syncBackendEndpointCookies", "syncBackendEndpointHashes", "syncEndpoints", "RemoveAll", "newEndpoint", "AddHeadersMatch", "addHeaderMatch")),
		"the values handed to the model when a rule becomes a host, a path, a backend and its servers"},
	{[]string{"C09", "C15", "C01"}, "cache reads", nil,
		set("GetService", "GetTLSSecretPath", "GetCASecretPath", "GetDHSecretPath", "GetPasswdSecretContent", "GetSecret", "GetConfigMap", "GetNamespace", "GetIngressClass", "GetIngress", "addTLS", "readCertRef", "readIngressClass", "readParameters", "readAnnotations", "NewMapper", "AddAnnotations", "ExternalNameLookup"),
		"the namespace and the name handed to a cache read: the default namespace is the namespace of the declaring object, which is what the cross-namespace verdict is computed against"},
	{[]string{"C01", "C14", "C17", "C15"}, "tracker links", nil,
		set("TrackNames", "TrackRefName", "TrackRefs", "QueryLinks", "ClearLinks"),
		"kind and name of both ends of every tracker link"},
	{[]string{"C17"}, "acme", nil,
		set("Acquire", "AddDomains", "AssignPreferredChain", "AcmeData", "Storages"),
		"which storage receives which domains"},
	{[]string{"C10", "C16", "C03"}, "gateway", []string{"converters/gateway"}, nil,
		"every call the Gateway API converter makes into the model, the cache and its own helpers"},
	{[]string{"C16"}, "weights", nil,
		set("RebalanceWeight", "AddEndpoint", "AcquireEndpoint", "CreateEndpoints"),
		"what is weighed and with which base"},
	{[]string{"C18", "C09"}, "external authentication", []string{"converters/ingress/annotations", "converters/ingress"},
		withStd(set("setAuthExternal", "AcquireAuthBackend", "ParseURL", "GetService", "FindServicePort", "ExternalNameLookup", "buildBackendAuthExternal", "buildHostAuthExternal", "buildBackendOAuth", "buildGlobalAuthProxy", "FindBackend", "AcquireBackend", "Get", "findAuthProxy", "AcquireAuthProxy"[0:0]+"Acquire")),
		"where the authentication request is sent"},
	{[]string{"C05", "C02", "C11", "C12", "C04", "C07"}, "model, updater and writers", []string{"haproxy", "haproxy/types", "haproxy/socket", "haproxy/template"}, nil,
		"every call inside pkg/haproxy: what the dynamic updater sends to the socket (command strings are built with fmt.Sprintf), what the writers hand to the templates, what the containers index by"},
	{[]string{"C17"}, "acme signer", []string{"acme"}, nil, "every call of the signer and the client"},
	{[]string{"C08", "C09", "C15", "C17", "C10", "C01", "C12", "C13"}, "cache facades and services", []string{"controller/services", "controller/legacy", "common/net/ssl", "utils"}, nil,
		"every call of the cache facades of both runtimes: which API version, namespace, name and file name a read or a write is made with"},
	{[]string{"C08", "C09", "C13", "C19", "C12", "C17", "C03", "C02", "C11"}, "options", []string{"controller/config", "controller/utils", "common/ingress/controller", "converters/ingress/utils"}, nil,
		"how the command-line options reach the converters, the cache and the instance"},
	{[]string{"C14", "C08", "C13"}, "watchers", []string{"controller/reconciler"}, nil, "every call of the watchers and the reconciler"},
	{[]string{"C13", "C12"}, "queues", []string{"utils/workqueue"}, nil, "every call of the work queue and the limiters"},
	{[]string{"C19"}, "snippets", []string{"converters/ingress/annotations"},
		set("firstToken", "LineToSlice", "Split", "buildBackendCustomConfig"),
		"what the keyword filter is given"},
}

func init() {
	seen := map[string]bool{}
	for range []int{0} {
		for _, p := range allProps {
			if seen[p] {
				continue
			}
			seen[p] = true
			prop := p
			addRule(prop, &core.Rule{ID: prop + ".wiring", Floor: 1, Late: true, Run: func(c *core.Ctx) { wiringRule(c, prop) },
				Doc: "Wiring table: for every function of the converters, the multiset of calls across the API boundaries this property depends on (see rules/zz_wiring.go for the groups: model construction, cache reads, tracker links, acme storages, Gateway converter, weights, external authentication, snippet filter), each call rendered with its arguments as name-independent expressions (parameters by reviewed name, fields as paths, nested calls by callee, phis as the set of their inputs), equals the table generated from the reviewed tree (rules/wiring_gen.go). A wrong variable at such a call type-checks and keeps the tests green unless a test has two distinct values there."})
		}
	}
}

func wiringRule(c *core.Ctx, prop string) {
	got := WiringAll(c.Env)
	n := 0
	// inherited from an upstream layer: limited to the functions this property's own rules anchor
	home := strings.HasPrefix(c.RuleID(), prop+".")
	for _, fnName := range sortedKeys(wiringTable) {
		pk := fnName
		// groups that apply to this property and this function
		want := func(rows []string) []string {
			var out []string
			for _, r := range rows {
				callee := calleeOf(r)
				for _, g := range wiringGroups {
					// every group applies under every property: the anchored scope decides which functions are compared
					if g.pkgs != nil {
						in := false
						for _, p := range g.pkgs {
							if strings.Contains(pk, "("+"*"+p+".") || strings.HasPrefix(pk, p+".") || strings.Contains(pk, "("+p+".") {
								in = true
							}
						}
						if !in {
							continue
						}
					}
					if g.callees == nil || g.callees[callee] {
						out = append(out, r)
						break
					}
				}
			}
			return out
		}
		w := want(wiringTable[fnName])
		if len(w) == 0 {
			continue
		}
		if !c.Anchored(fnName) {
			continue
		}
		g, present := got[fnName]
		if !present {
			c.MissingAnchor("function " + fnName + " of the wiring table")
			continue
		}
		gg := want(g)
		n++
		// multiset difference
		cnt := map[string]int{}
		for _, r := range w {
			cnt[r]++
		}
		for _, r := range gg {
			cnt[r]--
		}
		var missing, extra []string
		for _, r := range sortedKeys(cnt) {
			for i := 0; i < cnt[r]; i++ {
				missing = append(missing, r)
			}
			for i := 0; i < -cnt[r]; i++ {
				extra = append(extra, r)
			}
		}
		var fnv *ssa.Function
		for _, f := range c.SrcFuncs() {
			if core.FuncName(f) == fnName {
				fnv = f
			}
		}
		site := ""
		if fnv != nil {
			c.Touch(fnv)
			site = c.Pos(fnv.Pos())
		}
		c.Check(len(missing) == 0 && len(extra) == 0, fnName+": calls across the boundary carry the reviewed arguments", site, fmt.Sprintf("%d calls", len(w)),
			"the function no longer makes ["+clip(strings.Join(missing, " ; "), 600)+"] and now makes ["+clip(strings.Join(extra, " ; "), 600)+"]: a value handed across the boundary changed (wrong variable, dropped or added call)")
	}
	_ = home
	c.Held("functions compared with the wiring table", "", fmt.Sprintf("%d functions", n))
}

// feedsOnlyMessages: every use of v ends in a logger call, fmt.Errorf or errors.New (through interface
// conversions, variadic arrays, concatenation and phis). Such a value is text for people.
func feedsOnlyMessages(v ssa.Value, seen map[ssa.Value]bool) bool {
	if seen[v] {
		return true
	}
	seen[v] = true
	refs := v.Referrers()
	if refs == nil {
		return false
	}
	n := 0
	for _, r := range *refs {
		switch x := r.(type) {
		case *ssa.DebugRef:
			continue
		case *ssa.Call:
			n++
			cc := &x.Call
			if cc.IsInvoke() {
				t := cc.Value.Type().String()
				if isLoggerName(t) {
					continue
				}
				return false
			}
			cn := core.CalleeName(cc)
			if cn == "fmt.Errorf" || cn == "errors.New" || isLoggerName(cn) || strings.HasPrefix(cn, "(github.com/go-logr") || strings.HasPrefix(cn, "k8s.io/klog") {
				continue
			}
			return false
		case *ssa.MakeInterface:
			n++
			if !feedsOnlyMessages(x, seen) {
				return false
			}
		case *ssa.ChangeInterface:
			n++
			if !feedsOnlyMessages(x, seen) {
				return false
			}
		case *ssa.Convert:
			n++
			if !feedsOnlyMessages(x, seen) {
				return false
			}
		case *ssa.Slice:
			n++
			if !feedsOnlyMessages(x, seen) {
				return false
			}
		case *ssa.Phi:
			n++
			if !feedsOnlyMessages(x, seen) {
				return false
			}
		case *ssa.BinOp:
			n++
			if x.Op.String() != "+" || !feedsOnlyMessages(x, seen) {
				return false
			}
		case *ssa.Store:
			n++
			// stored into the backing array of a variadic call
			ia, ok := x.Addr.(*ssa.IndexAddr)
			if !ok || x.Val != v {
				return false
			}
			al, ok := ia.X.(*ssa.Alloc)
			if !ok || !feedsOnlyMessages(al, seen) {
				return false
			}
		case *ssa.IndexAddr:
			n++
			// the array itself: its element addresses are written (checked at the Store) — fine
		default:
			return false
		}
	}
	return n > 0
}

// isLoggerName: a type or callee name of one of the logging facilities used in the repository.
func isLoggerName(n string) bool {
	l := strings.ToLower(n)
	return strings.Contains(l, "logger") || strings.Contains(l, "logr.") || strings.Contains(l, "klog")
}

var callOrdCache = map[*ssa.Function]map[*ssa.Call]int{}

// callOrdinal numbers, in dominator preorder, the argument-less static calls of a function that share
// their callee; 0 when the callee is called once.
func callOrdinal(c *ssa.Call) int {
	fn := c.Parent()
	if fn == nil {
		return 0
	}
	m, ok := callOrdCache[fn]
	if !ok {
		m = map[*ssa.Call]int{}
		byCallee := map[string][]*ssa.Call{}
		for _, b := range fn.DomPreorder() {
			for _, in := range b.Instrs {
				if call, isCall := in.(*ssa.Call); isCall && !call.Call.IsInvoke() && len(core.CallArgs(&call.Call)) == 0 {
					if sig := call.Call.Signature(); sig != nil && sig.Recv() != nil {
						continue // methods are told apart by their receiver
					}
					cn := core.CalleeName(&call.Call)
					byCallee[cn] = append(byCallee[cn], call)
				}
			}
		}
		for _, calls := range byCallee {
			if len(calls) < 2 {
				continue
			}
			for i, call := range calls {
				m[call] = i + 1
			}
		}
		callOrdCache[fn] = m
	}
	return m[c]
}
