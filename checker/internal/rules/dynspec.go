package rules

import (
	"fmt"
	"sort"
	"strings"

	"golang.org/x/tools/go/ssa"

	"hapverif/internal/core"
)

// Exact decision specifications of the dynamic updater (C02 and C11 share the
// anchor: C02 needs every "must reload" condition to be present, C11 needs no
// other condition to force a reload; an exact table decides both directions).

func init() {
	doc := "Exact decision tables of the dynamic updater: checkEndpointPair, checkHostPair, the three regions of checkBackendPair (pre-checks, per-target loop, per-added-endpoint loop), frontendUpdated and backendUpdated. In every loop the carried verdict is updated as `updated' = updated && !<reload condition>` with the reload condition listed in the rule; the fields masked before the DeepEqual comparisons are exactly the listed ones."
	addRule("C02", &core.Rule{ID: "C02.dyn-tables", Floor: 14, Run: dynTables, Doc: doc})
	addRule("C11", &core.Rule{ID: "C11.dyn-tables", Floor: 14, Run: dynTables, Doc: doc})
	d2 := "alignSlots marks the backend's shard as changed on every path on which it added an empty slot (typestate over the flag variable), and pads every dynamic backend: minFreeSlots loop bound and block alignment are present."
	addRule("C05", &core.Rule{ID: "C05.align-dirty", Floor: 2, Run: alignDirty, Doc: d2})
	addRule("C02", &core.Rule{ID: "C02.align-dirty", Floor: 2, Run: alignDirty, Doc: d2})
}

// loopFlagSpec checks `flag' = flag && !reload` for the innermost loop around anchor.
func loopFlagSpec(c *core.Ctx, key string, fn *ssa.Function, anchor ssa.Instruction, flag string, m matchers, reload func(v map[string]bool) bool) {
	site := at(c, anchor)
	l := core.InnermostLoop(fn, anchor.Block())
	if l == nil || l.Body() == nil {
		c.Undecided(key, site, "anchor is not inside a loop")
		return
	}
	ph, _, _ := l.CarriedPhi(flag)
	if ph == nil {
		c.Undecided(key, site, "the loop does not carry a variable named "+flag)
		return
	}
	body := l.Body()
	t := core.ExtractTableFromExtra(fn, body, func(b *ssa.BasicBlock) bool { return l.Blocks[b] && b != l.Header }, ph)
	if t.Err != "" {
		c.Undecided(key, site, "decision table not extracted: "+t.Err)
		return
	}
	mm := matchers{}
	for k, v := range m {
		mm[k] = v
	}
	pk := "loopphi:" + ph.Name()
	mm["prev"] = func(k string) bool { return k == pk }
	b, err := t.Bind(mm)
	if err != nil {
		c.Undecided(key, site, "cannot bind the specification variables: "+err.Error())
		return
	}
	n := 0
	for i, p := range l.Header.Preds {
		if !(l.Blocks[p] && l.Header.Dominates(p)) {
			continue
		}
		n++
		under, ok := t.EdgeCond(p, l.Header)
		if !ok {
			continue
		}
		got := t.ValueTT(ph.Edges[i])
		good, diff, rows := t.CompareUnder(got, under, b, func(v map[string]bool) bool { return v["prev"] && !reload(v) })
		if !good {
			c.Violated(key, site, "the verdict carried around the loop differs from `"+flag+" && !reload`: "+diff)
			return
		}
		_ = rows
	}
	c.Check(n > 0, key, site, fmt.Sprintf("`%s' = %s && !reload` on every iteration (%d back edge(s)) over atoms [%s]", flag, flag, n, strings.Join(t.Atoms, " ; ")), "no back edge")
}

// deepEqualCopy finds the local copy that is compared: the Alloc whose address is the first argument of a reflect.DeepEqual call.
func deepEqualCopy(fn *ssa.Function) *ssa.Alloc {
	for _, s := range core.CallsNamed(fn, false, "reflect.DeepEqual") {
		v := s.Common().Args[0]
		if mi, ok := v.(*ssa.MakeInterface); ok {
			v = mi.X
		}
		if a, ok := v.(*ssa.Alloc); ok {
			return a
		}
	}
	return nil
}

// maskedFields lists the fields of the local copy (named `name` on the reviewed tree; identified as the
// Alloc handed to reflect.DeepEqual) that are overwritten before it is compared.
func maskedFields(fn *ssa.Function, name string) []string {
	copyAlloc := deepEqualCopy(fn)
	var out []string
	for _, b := range fn.Blocks {
		for _, in := range b.Instrs {
			st, ok := in.(*ssa.Store)
			if !ok {
				continue
			}
			// path of field addresses down to the alloc
			var path []string
			v := st.Addr
			for {
				fa, ok := v.(*ssa.FieldAddr)
				if !ok {
					break
				}
				_, f := core.FieldOf(fa)
				path = append([]string{f}, path...)
				v = fa.X
			}
			if a, ok := v.(*ssa.Alloc); ok && (a == copyAlloc || copyAlloc == nil && a.Comment == name) && len(path) > 0 {
				out = append(out, strings.Join(path, "."))
			}
		}
	}
	sort.Strings(out)
	return out
}

func dynTables(c *core.Ctx) {
	// ---- checkEndpointPair
	if fn := c.Fn("haproxy", "dynUpdater.checkEndpointPair"); fn != nil {
		m := matchers{
			"equal":    has("reflect.DeepEqual(&", ", pair.cur)"),
			"preserve": has("backend.Cookie.Preserve"),
			"cookie":   has("pair.old.CookieValue != pair.cur.CookieValue"),
			"enabled":  has("execEnableEndpoint(d, backend.ID, pair.old, pair.cur)"),
			"oldLabel": has(`pair.old.Label != ""`),
			"curLabel": has(`pair.cur.Label != ""`),
		}
		tableRule(c, "checkEndpointPair verdict", fn, 0, m, func(v map[string]bool) bool {
			return v["equal"] || !(v["preserve"] && v["cookie"]) && v["enabled"] && !v["oldLabel"] && !v["curLabel"]
		})
		t := core.ExtractTable(fn)
		for _, s := range core.CallsNamed(fn, false, "(*haproxy.dynUpdater).execEnableEndpoint") {
			condTable(c, "checkEndpointPair sends the update", t, s.Instr, matchers{"equal": m["equal"], "preserve": m["preserve"], "cookie": m["cookie"]}, func(v map[string]bool) bool {
				return !v["equal"] && !(v["preserve"] && v["cookie"])
			})
		}
		mf := maskedFields(fn, "oldEPCopy")
		c.Check(strings.Join(mf, ",") == "SourceIP", "checkEndpointPair masks only SourceIP", c.Pos(fn.Pos()), "", "fields masked before the comparison: "+strings.Join(mf, ",")+" (a change of a masked field is neither sent to the socket nor reloaded)")
	}
	// ---- checkHostPair
	if fn := c.Fn("haproxy", "dynUpdater.checkHostPair"); fn != nil {
		m := matchers{
			"equal":    has("reflect.DeepEqual(&", ", pair.cur)"),
			"hasTLS":   has("HasTLS(pair.cur.TLS)"),
			"hash":     has("TLSHash != pair.cur.TLS.TLSConfig.TLSHash"),
			"samefile": has("TLSFilename == pair.cur.TLS.TLSConfig.TLSFilename"),
			"certOK":   has("execUpdateCert(d, pair.cur.Hostname, pair.cur.TLS.TLSConfig.TLSFilename)"),
		}
		tableRule(c, "checkHostPair verdict", fn, 0, m, func(v map[string]bool) bool {
			return v["equal"] && !(v["hasTLS"] && v["hash"] && v["samefile"] && !v["certOK"])
		})
		mf := maskedFields(fn, "oldHostCopy")
		c.Check(strings.Join(mf, ",") == "TLS.TLSConfig.TLSCommonName,TLS.TLSConfig.TLSHash,TLS.TLSConfig.TLSNotAfter" || strings.Join(mf, ",") == "TLS.TLSCommonName,TLS.TLSHash,TLS.TLSNotAfter", "checkHostPair masks only the certificate identity", c.Pos(fn.Pos()), "", "fields masked before the comparison: "+strings.Join(mf, ","))
	}
	// ---- checkBackendPair
	if fn := c.Fn("haproxy", "dynUpdater.checkBackendPair"); fn != nil {
		mf := maskedFields(fn, "oldBackCopy")
		c.Check(strings.Join(mf, ",") == "Dynamic,Endpoints,ID", "checkBackendPair masks only ID, Dynamic and Endpoints", c.Pos(fn.Pos()), "", "fields masked before the comparison: "+strings.Join(mf, ",")+" (a change of a masked field is neither sent to the socket nor reloaded)")
		// region A: everything before the first loop
		inLoop := map[*ssa.BasicBlock]bool{}
		for _, l := range core.Loops(fn) {
			for b := range l.Blocks {
				inLoop[b] = true
			}
		}
		// blocks reachable from entry without entering the endpoint-mapping loops (the padding loop of the resolver branch is allowed)
		var firstMapLoop *ssa.BasicBlock
		for _, b := range fn.Blocks {
			for _, in := range b.Instrs {
				if fa, ok := in.(*ssa.FieldAddr); ok {
					if _, f := core.FieldOf(fa); f == "Enabled" && firstMapLoop == nil {
						if l := core.InnermostLoop(fn, b); l != nil {
							firstMapLoop = l.Header
						}
					}
				}
			}
		}
		if firstMapLoop == nil {
			c.Undecided("checkBackendPair pre-checks", c.Pos(fn.Pos()), "the loop that maps the old endpoints (reads Endpoint.Enabled) was not found")
		} else {
			region := func(b *ssa.BasicBlock) bool { return !firstMapLoop.Dominates(b) }
			t := core.ExtractTableRegion(fn, region)
			m := matchers{
				"equal":    has("reflect.DeepEqual(&", ", pair.cur)"),
				"grow":     has("builtin:len(pair.old.Endpoints) < builtin:len(pair.cur.Endpoints)"),
				"resolver": has(`pair.cur.Resolver != ""`),
				"dyn":      has("pair.cur.Dynamic.DynUpdate"),
				"sameEps":  has("reflect.DeepEqual(pair.old.Endpoints, pair.cur.Endpoints)"),
				"padding":  has("phi{", "< builtin:len(pair.old.Endpoints)"), // condition of the padding loop of the resolver branch
			}
			if t.Err != "" {
				c.Undecided("checkBackendPair pre-checks", c.Pos(fn.Pos()), t.Err)
			} else if b, err := t.Bind(m); err != nil {
				// the padding loop condition is an unbound atom; Bind only requires the named ones
				c.Undecided("checkBackendPair pre-checks", c.Pos(fn.Pos()), err.Error())
			} else {
				res, rets := newRegionResult(t, region)
				ok, diff, _ := t.Compare(rets, b, func(v map[string]bool) bool { return v["grow"] || v["resolver"] || !v["dyn"] }, func(v map[string]bool) bool { return !v["padding"] })
				c.Check(ok, "checkBackendPair returns early iff grown, resolver or not dynamic", c.Pos(fn.Pos()), "", diff)
				ok, diff, _ = t.CompareUnder(res, rets, b, func(v map[string]bool) bool {
					return !v["grow"] && v["equal"] && (v["resolver"] || v["sameEps"])
				})
				c.Check(ok, "checkBackendPair early verdict", c.Pos(fn.Pos()), "reload unless: not grown, equal outside endpoints, and (resolver or same endpoints)", diff)
			}
		}
		// region B: per-target loop (anchor: execDisableEndpoint)
		for _, s := range core.CallsNamed(fn, false, "(*haproxy.dynUpdater).execDisableEndpoint") {
			// two tests of pair.cur == nil: before and after the slot is refilled from `added`;
			// the one that guards the disable command is the second
			gone := ""
			for _, e := range core.ControllingEdges(s.Instr.Block()) {
				if strings.HasSuffix(core.Key(e.If.Cond), ".cur == nil)") && e.Branch {
					gone = "@" + e.If.Cond.Name()
				}
			}
			loopFlagSpec(c, "checkBackendPair per-target loop", fn, s.Instr, "updated", matchers{
				"gone":     func(k string) bool { return gone != "" && strings.HasSuffix(k, ".cur == nil)"+gone) },
				"refill":   func(k string) bool { return strings.Contains(k, ".cur == nil)@") && !strings.HasSuffix(k, gone) },
				"spare":    has("builtin:len(", ") > 0)"),
				"disabled": has("execDisableEndpoint("),
				"label":    has(`.old.Label != ""`),
				"pairOK":   has("checkEndpointPair("),
			}, func(v map[string]bool) bool {
				if v["gone"] {
					return !v["disabled"] || v["label"]
				}
				return !v["pairOK"]
			})
		}
		// region C: per-added loop (anchor: execEnableEndpoint)
		for _, s := range core.CallsNamed(fn, false, "(*haproxy.dynUpdater).execEnableEndpoint") {
			m := matchers{
				"preserve": has("pair.cur.Cookie.Preserve"),
				"cookie":   has(".CookieValue != ", ".CookieValue)"),
				"enabled":  has("execEnableEndpoint("),
				"label":    has(`.Label != ""`),
			}
			loopFlagSpec(c, "checkBackendPair per-added loop", fn, s.Instr, "updated", m, func(v map[string]bool) bool {
				return v["preserve"] && v["cookie"] || !v["enabled"] || v["label"]
			})
			// the cookie test compares the added endpoint with the slot it reuses
			ok := false
			for _, b := range fn.Blocks {
				for _, in := range b.Instrs {
					if bo, isBin := in.(*ssa.BinOp); isBin && strings.Contains(core.Key(bo), ".CookieValue != ") {
						l := core.InnermostLoop(fn, b)
						if l != nil && l.Blocks[s.Instr.Block()] {
							kx, ky := core.Key(bo.X), core.Key(bo.Y)
							ok = kx != ky && strings.HasSuffix(kx, ".CookieValue") && strings.HasSuffix(ky, ".CookieValue")
						}
					}
				}
			}
			c.Check(ok, "checkBackendPair compares the cookie of the added endpoint with the reused slot", at(c, s.Instr), "", "the cookie comparison of the per-added loop is missing or compares a value with itself")
		}
	}
	// ---- frontendUpdated / backendUpdated
	for _, x := range []struct{ name, check, nilTest string }{{"frontendUpdated", "checkHostPair(", ".cur == nil)"}, {"backendUpdated", "checkBackendPair(", ".cur != nil)"}} {
		fn := c.Fn("haproxy", "dynUpdater."+x.name)
		if fn == nil {
			continue
		}
		for _, s := range core.Calls(fn, false) {
			n := core.CalleeName(s.Common())
			switch {
			case strings.HasSuffix(n, "dynUpdater)."+strings.TrimSuffix(x.check, "(")):
				x := x
				loopFlagSpec(c, x.name+" pair loop", fn, s.Instr, "updated", matchers{
					"nil":    has(x.nilTest),
					"pairOK": has(x.check),
				}, func(v map[string]bool) bool {
					if x.name == "frontendUpdated" {
						return v["nil"] || !v["pairOK"] // removed host, or pair not applied
					}
					return v["nil"] && !v["pairOK"] // `nil` is bound to cur != nil here
				})
			}
		}
		// the add loop: an added object without a deleted twin forces a reload
		for _, b := range fn.Blocks {
			for _, in := range b.Instrs {
				lk, ok := in.(*ssa.Lookup)
				if !ok || !lk.CommaOk {
					continue
				}
				loopFlagSpec(c, x.name+" add loop", fn, lk, "updated", matchers{"found": func(k string) bool { return strings.HasSuffix(k, ",ok#1") }}, func(v map[string]bool) bool { return !v["found"] })
			}
		}
	}
}

// newRegionResult gives the bool result and the return condition over the returns inside region.
func newRegionResult(t *core.Table, region func(*ssa.BasicBlock) bool) (res, rets core.TT) {
	res, rets = t.False(), t.False()
	for _, b := range t.Fn.Blocks {
		if !region(b) || len(b.Instrs) == 0 {
			continue
		}
		ret, ok := b.Instrs[len(b.Instrs)-1].(*ssa.Return)
		if !ok || core.IsRecoverBlock(b) {
			continue
		}
		cnd, ok := t.BlockCond(b)
		if !ok {
			continue
		}
		rets = rets.Or(cnd)
		res = res.Or(cnd.And(t.ValueTT(core.Results(ret)[0])))
	}
	return
}

// alignDirty: on every path from an AddEmptyEndpoint call to the end of the
// iteration, BackendChanged is called.
func alignDirty(c *core.Ctx) {
	fn := c.Fn("haproxy", "dynUpdater.alignSlots")
	if fn == nil {
		return
	}
	var changedCall ssa.Instruction
	for _, s := range core.Calls(fn, false) {
		if strings.HasSuffix(core.CalleeName(s.Common()), "Backends).BackendChanged") {
			changedCall = s.Instr
		}
	}
	if changedCall == nil {
		c.Violated("alignSlots reports padded backends", c.Pos(fn.Pos()), "alignSlots never calls BackendChanged: slots added to a backend of an unchanged shard are not written")
		return
	}
	outer := core.InnermostLoop(fn, changedCall.Block())
	if outer == nil {
		c.Undecided("alignSlots reports padded backends", at(c, changedCall), "BackendChanged is not inside the backend loop")
		return
	}
	// flag typestate: state bit0 = a slot was added in this iteration, bit1 = flag variable is true
	// The flag is an SSA phi web named `changed`; evaluate it along edges.
	flagVal := func(v ssa.Value, from *ssa.BasicBlock) (known bool, val bool) {
		if core.IsConstBool(v, true) {
			return true, true
		}
		if core.IsConstBool(v, false) {
			return true, false
		}
		return false, false
	}
	guardCond := func() ssa.Value {
		for _, e := range core.ControllingEdges(changedCall.Block()) {
			if e.Branch {
				return e.If.Cond
			}
		}
		return nil
	}()
	n := 0
	for _, s := range core.Calls(fn, false) {
		if !strings.HasSuffix(core.CalleeName(s.Common()), "Backend).AddEmptyEndpoint") {
			continue
		}
		n++
		key := fmt.Sprintf("alignSlots: slot added at line %s is reported", lineOf(c, s.Instr))
		key = "alignSlots: slot added in " + loopRole(fn, s.Instr) + " is reported"
		// abstract interpretation over (flag ∈ {F,T,unknown→treated as F}); start right after the Add with the flag unknown=F
		const (
			stF = iota
			stT
		)
		bad := false
		// forward from the add: track the value of the guard condition's phi web
		f := core.Forward{Fn: fn, Start: s.Instr.Block(), Init: 1 << stF,
			Instr: func(in ssa.Instruction, st int) int { return st },
			Edge: func(from *ssa.BasicBlock, k int, st int) (int, bool) {
				to := from.Succs[k]
				if !outer.Blocks[to] || to == outer.Header {
					// leaving the iteration
					return st, false
				}
				// the guard: on the false edge of `if flag` with flag known true the path is infeasible
				if ifi, ok := from.Instrs[len(from.Instrs)-1].(*ssa.If); ok && guardCond != nil && ifi.Cond == guardCond {
					if k == 1 && st == stT {
						return st, false
					}
				}
				// phi transfer for the flag web
				ns := st
				for _, in := range to.Instrs {
					ph, ok := in.(*ssa.Phi)
					if !ok {
						break
					}
					if ph.Comment != "changed" {
						continue
					}
					for i, p := range to.Preds {
						if p == from {
							if known, v := flagVal(ph.Edges[i], from); known {
								if v {
									ns = stT
								} else {
									ns = stF
								}
							}
						}
					}
				}
				return ns, true
			}}
		_, before, _ := f.Run()
		// violation: the iteration can end (reach a latch of the outer loop) without passing BackendChanged
		reachedChanged := false
		if _, ok := before[changedCall]; ok {
			reachedChanged = true
		}
		// search a path from the add to the end of the iteration that avoids BackendChanged, feasible w.r.t. the flag
		w := feasibleAvoid(fn, s.Instr, changedCall, outer, guardCond)
		bad = w != ""
		_ = reachedChanged
		c.Check(!bad, key, at(c, s.Instr), "every feasible path to the end of the iteration calls BackendChanged", "an empty slot is added but the iteration can end without BackendChanged ("+w+"): the backend's shard is not rewritten, the file lacks servers the model has")
	}
	c.Check(n >= 2, "alignSlots pads", c.Pos(fn.Pos()), "", "fewer than two AddEmptyEndpoint sites (min-free-slots and block alignment)")
}

func lineOf(c *core.Ctx, in ssa.Instruction) string {
	p := at(c, in)
	if i := strings.LastIndex(p, ":"); i >= 0 {
		return p[i+1:]
	}
	return p
}

// loopRole names the inner loop of an instruction by its bound.
func loopRole(fn *ssa.Function, in ssa.Instruction) string {
	l := core.InnermostLoop(fn, in.Block())
	if l == nil {
		return "straight-line code"
	}
	if ifi, ok := l.Header.Instrs[len(l.Header.Instrs)-1].(*ssa.If); ok {
		k := core.Key(ifi.Cond)
		switch {
		case strings.Contains(k, "MinFreeSlots"):
			return "the min-free-slots loop"
		case strings.Contains(k, "BlockSize"):
			return "the block-alignment loop"
		}
		if len(k) > 60 {
			k = k[:60]
		}
		return "loop `" + k + "`"
	}
	return "a loop"
}

// feasibleAvoid searches a path from `from` to the end of the outer iteration
// that does not execute `must`, tracking the boolean flag tested by guard:
// once an edge assigns const true to the flag's phi web the false branch of
// the guard is infeasible.
func feasibleAvoid(fn *ssa.Function, from, must ssa.Instruction, outer *core.Loop, guard ssa.Value) string {
	type st struct {
		b    *ssa.BasicBlock
		flag int // 0 unknown/false, 1 true
	}
	// the flag after `from`: look at the phi edges leaving from's block
	start := st{from.Block(), 0}
	seen := map[st]bool{}
	work := []st{start}
	first := true
	for len(work) > 0 {
		s := work[0]
		work = work[1:]
		if seen[s] && !first {
			continue
		}
		seen[s] = true
		// does this block execute `must` (after `from` when it is the start block)?
		hit := false
		for _, in := range s.b.Instrs {
			if in == must {
				hit = true
			}
		}
		if hit && !(first && core.InstrIndex(must) < core.InstrIndex(from)) {
			first = false
			continue
		}
		first = false
		for k, to := range s.b.Succs {
			ns := st{to, s.flag}
			if ifi, ok := s.b.Instrs[len(s.b.Instrs)-1].(*ssa.If); ok && guard != nil && ifi.Cond == guard && k == 1 && s.flag == 1 {
				continue
			}
			for _, in := range to.Instrs {
				ph, ok := in.(*ssa.Phi)
				if !ok {
					break
				}
				if guard == nil || !phiWeb(guard, ph) {
					continue
				}
				for i, p := range to.Preds {
					if p == s.b {
						switch {
						case core.IsConstBool(ph.Edges[i], true):
							ns.flag = 1
						case core.IsConstBool(ph.Edges[i], false):
							ns.flag = 0
						}
					}
				}
			}
			if !outer.Blocks[to] || to == outer.Header {
				return fmt.Sprintf("leaves the iteration from block %d with the flag %v", s.b.Index, map[int]string{0: "not set", 1: "set"}[ns.flag])
			}
			if !seen[ns] {
				work = append(work, ns)
			}
		}
	}
	return ""
}

// phiWeb reports whether ph belongs to the phi web of v (v is reached from ph through phi edges, or equals it).
func phiWeb(v ssa.Value, ph *ssa.Phi) bool {
	seen := map[ssa.Value]bool{}
	var walk func(x ssa.Value) bool
	walk = func(x ssa.Value) bool {
		if x == ssa.Value(ph) {
			return true
		}
		if seen[x] {
			return false
		}
		seen[x] = true
		if p, ok := x.(*ssa.Phi); ok {
			for _, e := range p.Edges {
				if walk(e) {
					return true
				}
			}
		}
		return false
	}
	return walk(v)
}

func init() {
	doc := "The slot bookkeeping of checkBackendPair: old endpoints are partitioned by Enabled (enabled ones are keyed by target, the others are the free slots); a new endpoint whose target exists keeps that server (and its name), the others are `added`; a vanished target is refilled from `added` when one is left, else disabled and its slot becomes free; every added endpoint takes the name of the free slot it is sent to; the unused free slots are carried to the new backend with their names."
	addRule("C02", &core.Rule{ID: "C02.slot-mapping", Floor: 12, Run: slotMapping, Doc: doc})
	addRule("C11", &core.Rule{ID: "C11.slot-mapping", Floor: 12, Run: slotMapping, Doc: doc})
}

// appendsTo lists append calls that extend the source variable `name` (the first argument is, or flows
// from, a phi of that variable). When the variable was renamed, fallback selects the appends by role.
func appendsTo(fn *ssa.Function, name string, fallback func(*ssa.Call) bool) []*ssa.Call {
	var named, byRole []*ssa.Call
	for _, s := range core.Calls(fn, false) {
		if core.CalleeName(s.Common()) != "builtin:append" {
			continue
		}
		call, ok := s.Instr.(*ssa.Call)
		if !ok {
			continue
		}
		isVar := false
		if ph, ok := call.Call.Args[0].(*ssa.Phi); ok && ph.Comment == name {
			isVar = true
		}
		for _, r := range *call.Referrers() {
			if ph, ok := r.(*ssa.Phi); ok && ph.Comment == name {
				isVar = true
			}
		}
		if isVar {
			named = append(named, call)
		}
		if fallback != nil && fallback(call) {
			byRole = append(byRole, call)
		}
	}
	if len(named) > 0 {
		return named
	}
	return byRole
}

func slotMapping(c *core.Ctx) {
	fn := c.Fn("haproxy", "dynUpdater.checkBackendPair")
	if fn == nil {
		return
	}
	enabled := func(k string) bool { return strings.HasSuffix(k, ".Enabled") && strings.Contains(k, "old.Endpoints[") }
	found := func(k string) bool { return strings.HasSuffix(k, ",ok#1") }
	// P1: keyed by target when enabled
	n := 0
	for _, b := range fn.Blocks {
		for _, in := range b.Instrs {
			mu, ok := in.(*ssa.MapUpdate)
			if !ok || !strings.Contains(mu.Map.Type().String(), "epPair") {
				continue
			}
			n++
			c.Check(guardedBy(mu, enabled, true), "enabled old endpoints are keyed by target", at(c, mu), "", "the old endpoint is recorded as live without the `Enabled` guard (or on its false branch): a free slot is taken for a live server or the reverse")
			c.Check(strings.HasSuffix(core.Key(mu.Key), ".Target"), "old endpoints are keyed by Target", at(c, mu), "", "key is "+core.Key(mu.Key))
		}
	}
	c.Check(n == 1, "one endpoint map update", c.Pos(fn.Pos()), "", fmt.Sprintf("%d updates of the old-endpoint map", n))
	// P2/E1: empty
	ne := 0
	isEndpointList := func(a *ssa.Call) bool { return strings.HasSuffix(a.Type().String(), "[]*"+core.Module+"/pkg/haproxy/types.Endpoint") }
	for _, a := range appendsTo(fn, "empty", func(a *ssa.Call) bool {
		return isEndpointList(a) && (guardedBy(a, enabled, false) || guardedBy(a, func(k string) bool { return strings.HasSuffix(core.StripVersion(k), ".cur == nil)") }, true))
	}) {
		ne++
		switch {
		case guardedBy(a, enabled, false):
			c.Held("a disabled old endpoint is a free slot", at(c, a), "")
		case guardedBy(a, func(k string) bool { return strings.HasSuffix(core.StripVersion(k), ".cur == nil)") }, true):
			l := sliceLeaves(c.Env, a.Call.Args[1], 0)
			c.Check(leavesContain(l, ".old"), "a slot whose endpoint vanished becomes free", at(c, a), "", "the value appended to the free slots is "+leavesList(l))
		default:
			c.Violated("free slot list", at(c, a), "a slot is added to the free list neither for a disabled old endpoint nor for a vanished one")
		}
	}
	c.Check(ne == 2, "free slots come from disabled and vanished endpoints", c.Pos(fn.Pos()), "", fmt.Sprintf("%d appends to `empty` (expected 2)", ne))
	for _, a := range appendsTo(fn, "targets", func(a *ssa.Call) bool { return a.Type().String() == "[]string" }) {
		c.Check(guardedBy(a, enabled, true), "targets lists the enabled old endpoints", at(c, a), "", "a target is listed without the Enabled guard")
	}
	// M: matching loop
	na := 0
	for _, a := range appendsTo(fn, "added", func(a *ssa.Call) bool { return isEndpointList(a) && core.InnermostLoop(fn, a.Block()) != nil && !guardedBy(a, enabled, false) && !guardedBy(a, func(k string) bool { return strings.HasSuffix(core.StripVersion(k), ".cur == nil)") }, true) }) {
		na++
		c.Check(guardedBy(a, found, false), "an endpoint with an unknown target is `added`", at(c, a), "", "an endpoint is queued as added although its target was found (or unconditionally)")
	}
	c.Check(na == 1, "one append to `added`", c.Pos(fn.Pos()), "", fmt.Sprintf("%d", na))
	// stores to epPair.cur
	nc := 0
	for _, b := range fn.Blocks {
		for _, in := range b.Instrs {
			st, ok := in.(*ssa.Store)
			if !ok {
				continue
			}
			o, f := core.FieldOf(st.Addr)
			if strings.HasSuffix(o, "haproxy.epPair") && f == "cur" {
				nc++
				k := core.Key(st.Val)
				switch {
				case guardedBy(st, found, true):
					c.Check(strings.Contains(k, "cur.Endpoints["), "a known target keeps its server", at(c, st), "", "pair.cur receives "+k)
				default:
					g1 := guardedBy(st, func(k string) bool { return strings.HasSuffix(core.StripVersion(k), ".cur == nil)") }, true)
					g2 := guardedBy(st, has("builtin:len(", ") > 0)"), true)
					c.Check(g1 && g2 && strings.HasSuffix(k, "[0]"), "a vanished target is refilled with the first added endpoint, only if one is left", at(c, st), "", fmt.Sprintf("pair.cur = %s under cur==nil:%v len(added)>0:%v", k, g1, g2))
					// and added is advanced in the same block
					adv := false
					for _, x := range st.Block().Instrs {
						if sl, ok := x.(*ssa.Slice); ok && core.Key(sl.Low) == "1" {
							adv = true
						}
					}
					c.Check(adv, "the refilled endpoint leaves `added`", at(c, st), "", "no `added = added[1:]` next to the refill: the endpoint is sent to two slots")
				}
			}
		}
	}
	c.Check(nc == 2, "pair.cur assignments", c.Pos(fn.Pos()), "", fmt.Sprintf("%d (expected: match and refill)", nc))
	// names
	nn := 0
	for _, st := range fieldStores(fn, false, "haproxy/types.Endpoint", "Name") {
		nn++
		k := core.Key(st.Val)
		role := "added endpoint"
		switch {
		case guardedBy(st, found, true):
			role = "matched target"
		case guardedBy(st, func(k string) bool { return strings.HasSuffix(core.StripVersion(k), ".cur == nil)") }, true):
			role = "refilled slot"
		case strings.Contains(core.Key(st.Addr), "AddEmptyEndpoint("):
			role = "carried-over free slot"
		}
		c.Check(strings.HasSuffix(k, ".old.Name") || strings.Contains(k, "[") && strings.HasSuffix(k, ".Name"), "a reused slot keeps its server name: "+role, at(c, st), k, "the endpoint is named `"+k+"`, not after the slot it occupies: the commands and the written file address different servers")
	}
	c.Check(nn == 4, "server names follow the slots", c.Pos(fn.Pos()), "", fmt.Sprintf("%d name assignments (expected 4: match, refill, added, leftover)", nn))
	// leftover loop starts at len(added)
	okLeft := false
	for _, s := range core.CallsNamed(fn, false, "(*haproxy/types.Backend).AddEmptyEndpoint") {
		l := core.InnermostLoop(fn, s.Instr.Block())
		if l == nil {
			continue
		}
		for _, in := range l.Header.Instrs {
			if ph, ok := in.(*ssa.Phi); ok && ph.Type().String() == "int" {
				for i, p := range l.Header.Preds {
					if !l.Blocks[p] && strings.HasPrefix(core.Key(ph.Edges[i]), "builtin:len(") && !strings.Contains(core.Key(ph.Edges[i]), "Endpoints") {
						okLeft = true
					}
				}
			}
		}
	}
	c.Check(okLeft, "unused free slots are carried over", c.Pos(fn.Pos()), "", "no loop from len(added) that re-adds the unused free slots to the new backend: the new model has fewer servers than the running process")
}

func init() {
	addRule("C02", &core.Rule{ID: "C02.cert-update", Floor: 5, Run: certUpdate,
		Doc: "execUpdateCert reports success only when the certificate file was read, the socket accepted the batch and the answer to `commit ssl cert` (the second command) is a success; each of the three failures returns false."})
}

func certUpdate(c *core.Ctx) {
	fn := c.Fn("haproxy", "dynUpdater.execUpdateCert")
	if fn == nil {
		return
	}
	readErr := has("readFile", "#1 != nil)")
	cmdErr := has("execCommand(", "#1 != nil)")
	resp := has("cmdResponseOK(")
	f1, f2, f3, nTrue := false, false, false, 0
	for _, r := range core.Returns(fn) {
		v := core.Results(r)[0]
		switch {
		case core.IsConstBool(v, false):
			if guardedBy(r, readErr, true) {
				f1 = true
			} else if guardedBy(r, cmdErr, true) {
				f2 = true
			} else if guardedBy(r, resp, false) {
				f3 = true
			} else {
				c.Violated("execUpdateCert failure exits", at(c, r), "a `return false` under none of the three reviewed failures")
			}
		case core.IsConstBool(v, true):
			nTrue++
			ok := guardedBy(r, readErr, false) && guardedBy(r, cmdErr, false) && guardedBy(r, resp, true)
			c.Check(ok, "execUpdateCert succeeds only after read, send and commit succeeded", at(c, r), "", "`return true` is reachable without passing the success branch of all three checks")
		default:
			c.Violated("execUpdateCert verdict", at(c, r), "returns "+core.Key(v))
		}
	}
	c.Check(f1, "execUpdateCert fails when the file cannot be read", c.Pos(fn.Pos()), "", "missing")
	c.Check(f2, "execUpdateCert fails on a socket error", c.Pos(fn.Pos()), "", "missing")
	c.Check(f3, "execUpdateCert fails when the commit is not acknowledged", c.Pos(fn.Pos()), "", "missing")
	c.Check(nTrue == 1, "execUpdateCert has one success exit", c.Pos(fn.Pos()), "", fmt.Sprint(nTrue))
	for _, s := range core.Calls(fn, false) {
		if strings.HasSuffix(core.CalleeName(s.Common()), ".cmdResponseOK") {
			c.Check(core.IsConstString(s.Common().Args[0], "commit ssl cert") && strings.HasSuffix(core.Key(s.Common().Args[1]), "[1]"), "execUpdateCert validates the answer of the commit command", at(c, s.Instr), "", "validated: "+core.Key(s.Common().Args[0])+" / "+core.Key(s.Common().Args[1]))
		}
	}
}

func init() {
	doc := "Structure of the slot padding in alignSlots (the arithmetic itself is not decided): only dynamic backends are padded (every AddEmptyEndpoint is on the DynUpdate branch); the free-slot count increments exactly for empty endpoints; the min-free-slots loop runs from the counted free slots up to MinFreeSlots; the `one whole block` special case is taken exactly when MinFreeSlots == 0 and the backend has no endpoint; the block size has a floor of 1."
	addRule("C11", &core.Rule{ID: "C11.align-structure", Floor: 6, Run: alignStructure, Doc: doc})
	addRule("C02", &core.Rule{ID: "C02.align-structure", Floor: 6, Run: alignStructure, Doc: doc})
}

func alignStructure(c *core.Ctx) {
	fn := c.Fn("haproxy", "dynUpdater.alignSlots")
	if fn == nil {
		return
	}
	dyn := has(".Dynamic.DynUpdate")
	n := 0
	for _, s := range core.CallsNamed(fn, false, "(*haproxy/types.Backend).AddEmptyEndpoint") {
		n++
		c.Check(guardedBy(s.Instr, dyn, true), "only dynamic backends are padded: "+loopRole(fn, s.Instr), at(c, s.Instr), "", "an empty slot is added outside the DynUpdate branch: dynamic backends get no spare slot (every scale-up reloads) or static ones are padded")
	}
	c.Check(n >= 2, "alignSlots padding sites", c.Pos(fn.Pos()), "", fmt.Sprint(n))
	// free-slot counter
	okCount := false
	var counterPhi *ssa.Phi
	for _, b := range fn.Blocks {
		for _, in := range b.Instrs {
			bo, ok := in.(*ssa.BinOp)
			if !ok || bo.Op.String() != "+" || core.Key(bo.Y) != "1" {
				continue
			}
			ph, isPhi := bo.X.(*ssa.Phi)
			if !isPhi || ph.Comment != "totalFreeSlots" && !guardedBy(bo, has("Endpoint).IsEmpty("), true) && !guardedBy(bo, has("Endpoint).IsEmpty("), false) {
				continue
			}
			counterPhi = ph
			okCount = guardedBy(bo, has("Endpoint).IsEmpty("), true)
			c.Check(okCount, "free slots are the empty endpoints", at(c, bo), "", "totalFreeSlots is incremented outside the IsEmpty branch: occupied slots are counted as free (no padding) or free ones as occupied")
		}
	}
	if !okCount {
		c.Check(false, "free slots are counted", c.Pos(fn.Pos()), "", "no `totalFreeSlots++` under IsEmpty()")
	}
	// min-free-slots loop: i from totalFreeSlots while i < MinFreeSlots
	okMin := false
	for _, l := range core.Loops(fn) {
		ifi, ok := l.Header.Instrs[len(l.Header.Instrs)-1].(*ssa.If)
		if !ok {
			continue
		}
		bo, ok := ifi.Cond.(*ssa.BinOp)
		if !ok || bo.Op.String() != "<" || !strings.HasSuffix(core.Key(bo.Y), ".Dynamic.MinFreeSlots") {
			continue
		}
		ph, ok := bo.X.(*ssa.Phi)
		if !ok {
			continue
		}
		fromCount := false
		for i, p := range l.Header.Preds {
			if !l.Blocks[p] {
				if e, isPhi := ph.Edges[i].(*ssa.Phi); isPhi && (e.Comment == "totalFreeSlots" || counterPhi != nil && phiWeb(e, counterPhi)) {
					fromCount = true
				}
			}
		}
		bodyOnTrue := l.Blocks[l.Header.Succs[0]] && l.Header.Succs[0] != l.Header
		okMin = fromCount && bodyOnTrue
		c.Check(okMin, "the min-free-slots loop tops the free slots up to MinFreeSlots", at(c, ifi), "", fmt.Sprintf("loop `%s`: starts at the free-slot count: %v, body on the true branch: %v", core.Key(bo), fromCount, bodyOnTrue))
	}
	if !okMin {
		c.Check(false, "min-free-slots loop", c.Pos(fn.Pos()), "", "no loop `for i := totalFreeSlots; i < minFreeSlots; i++`")
	}
	// special case and block-size floor: conditions of the phi edges
	for _, b := range fn.Blocks {
		for _, in := range b.Instrs {
			ph, ok := in.(*ssa.Phi)
			if !ok {
				continue
			}
			role := ph.Comment
			if role != "newFreeSlots" && role != "blockSize" {
				// renamed: blockSize is the int phi choosing between 1 and Dynamic.BlockSize; newFreeSlots has an edge that is such a phi
				isBS := func(p *ssa.Phi) bool {
					one, bs := false, false
					for _, e := range p.Edges {
						if core.Key(e) == "1" {
							one = true
						}
						if strings.HasSuffix(core.Key(e), ".Dynamic.BlockSize") {
							bs = true
						}
					}
					return one && bs
				}
				if isBS(ph) {
					role = "blockSize"
				} else {
					for _, e := range ph.Edges {
						if ep, ok := e.(*ssa.Phi); ok && isBS(ep) {
							role = "newFreeSlots"
						}
					}
				}
			}
			switch role {
			case "newFreeSlots":
				if core.InnermostLoop(fn, b) != nil && core.InnermostLoop(fn, b).Header == b {
					continue
				}
				for i, e := range ph.Edges {
					if ep, isPhi := e.(*ssa.Phi); isPhi && (ep.Comment == "blockSize" || strings.Contains(core.Key(ep), ".Dynamic.BlockSize")) {
						p := b.Preds[i]
						g := core.ControllingEdges(p)
						okSpecial := len(g) >= 2 && false
						var ks []string
						for _, x := range g {
							if x.Branch {
								ks = append(ks, core.Key(x.If.Cond))
							}
						}
						joined := strings.Join(ks, " && ")
						okSpecial = strings.Contains(joined, ".Dynamic.MinFreeSlots == 0)") && strings.Contains(joined, ".Endpoints) == 0)")
						c.Check(okSpecial, "a whole block is added exactly for an empty backend without min-free-slots", at(c, ph), joined, "the special case `newFreeSlots = blockSize` is taken under `"+joined+"`, reviewed: MinFreeSlots == 0 && len(Endpoints) == 0")
					}
				}
			case "blockSize":
				for i, e := range ph.Edges {
					if core.Key(e) == "1" {
						p := b.Preds[i]
						ok := false
						for _, x := range core.ControllingEdges(p) {
							if strings.HasSuffix(core.Key(x.If.Cond), ".Dynamic.BlockSize < 1)") && x.Branch {
								ok = true
							}
						}
						c.Check(ok, "block size has a floor of 1", at(c, ph), "", "the constant 1 is chosen outside `blockSize < 1`")
					}
				}
			}
		}
	}
}

func init() {
	doc := "syncBackendEndpointCookies gives every server of a cookie-affinity backend the cookie value the dynamic updater compares: the server name by default; with the pod-uid strategy the pod's UID when the endpoint references a pod that can be read, else the name. No cookie value is assigned without cookie affinity."
	addRule("C02", &core.Rule{ID: "C02.cookie-values", Floor: 3, Run: cookieValues, Doc: doc})
	addRule("C11", &core.Rule{ID: "C11.cookie-values", Floor: 3, Run: cookieValues, Doc: doc})
}

func cookieValues(c *core.Ctx) {
	fn := c.Fn("converters/ingress", "converter.syncBackendEndpointCookies")
	if fn == nil {
		return
	}
	aff := has("Backend).CookieAffinity(")
	n := 0
	var uid, name int
	for _, st := range fieldStores(fn, false, "haproxy/types.Endpoint", "CookieValue") {
		n++
		k := core.Key(st.Val)
		if !guardedBy(st, aff, true) {
			c.Violated("cookie values are assigned only with cookie affinity", at(c, st), "CookieValue is stored outside the CookieAffinity() branch")
			continue
		}
		switch {
		case strings.HasSuffix(k, ".Name"):
			name++
			// default strategy, or pod-uid fallback (pod unreadable)
			okDefault := !guardedBy(st, has("EpCookieStrategy", " == "), true) || guardedBy(st, has("GetPod(", "#1 == nil)"), false)
			which := "default strategy"
			if guardedBy(st, has("GetPod(", "#1 == nil)"), false) {
				which = "pod cannot be read"
			}
			c.Check(okDefault, "cookie value is the server name: "+which, at(c, st), "", "the name is stored on the pod-readable branch of the pod-uid strategy")
		case strings.Contains(k, "fmt.Sprintf("):
			uid++
			l := sliceLeaves(c.Env, st.Val, 0)
			ok := leavesContain(l, ".UID") && guardedBy(st, has("GetPod(", "#1 == nil)"), true) && guardedBy(st, has(`.TargetRef != "")`), true)
			c.Check(ok, "pod-uid cookie is the UID of the referenced pod, when it can be read", at(c, st), "", "value "+leavesList(l)+" or not under `TargetRef != \"\"` and a successful GetPod")
		default:
			c.Violated("cookie value source", at(c, st), "CookieValue = "+k)
		}
	}
	c.Check(n == 3 && uid == 1 && name == 2, "cookie value assignments", c.Pos(fn.Pos()), "", fmt.Sprintf("%d stores (%d uid, %d name); reviewed: default name, pod uid, fallback name", n, uid, name))
}
