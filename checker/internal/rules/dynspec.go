package rules

import (
	"fmt"
	"sort"
	"strings"

	"golang.org/x/tools/go/ssa"

	"hapverif/internal/core"
)

// Exact decision specifications of the dynamic updater (C02 and C11 share the
// anchor: C02 needs every "must reload" condition to be present, C11 needs no
// other condition to force a reload; an exact table decides both directions).

func init() {
	doc := "Exact decision tables of the dynamic updater: checkEndpointPair, checkHostPair, the three regions of checkBackendPair (pre-checks, per-target loop, per-added-endpoint loop), frontendUpdated and backendUpdated. In every loop the carried verdict is updated as `updated' = updated && !<reload condition>` with the reload condition listed in the rule; the fields masked before the DeepEqual comparisons are exactly the listed ones."
	addRule("C02", &core.Rule{ID: "C02.dyn-tables", Floor: 14, Run: dynTables, Doc: doc})
	addRule("C11", &core.Rule{ID: "C11.dyn-tables", Floor: 14, Run: dynTables, Doc: doc})
	d2 := "alignSlots marks the backend's shard as changed on every path on which it added an empty slot (typestate over the flag variable), and pads every dynamic backend: minFreeSlots loop bound and block alignment are present."
	addRule("C05", &core.Rule{ID: "C05.align-dirty", Floor: 2, Run: alignDirty, Doc: d2})
	addRule("C02", &core.Rule{ID: "C02.align-dirty", Floor: 2, Run: alignDirty, Doc: d2})
}

// loopFlagSpec checks `flag' = flag && !reload` for the innermost loop around anchor.
func loopFlagSpec(c *core.Ctx, key string, fn *ssa.Function, anchor ssa.Instruction, flag string, m matchers, reload func(v map[string]bool) bool) {
	site := at(c, anchor)
	l := core.InnermostLoop(fn, anchor.Block())
	if l == nil || l.Body() == nil {
		c.Undecided(key, site, "anchor is not inside a loop")
		return
	}
	ph, _, _ := l.CarriedPhi(flag)
	if ph == nil {
		c.Undecided(key, site, "the loop does not carry a variable named "+flag)
		return
	}
	body := l.Body()
	t := core.ExtractTableFromExtra(fn, body, func(b *ssa.BasicBlock) bool { return l.Blocks[b] && b != l.Header }, ph)
	if t.Err != "" {
		c.Undecided(key, site, "decision table not extracted: "+t.Err)
		return
	}
	mm := matchers{}
	for k, v := range m {
		mm[k] = v
	}
	pk := "loopphi:" + ph.Name()
	mm["prev"] = func(k string) bool { return k == pk }
	b, err := t.Bind(mm)
	if err != nil {
		c.Undecided(key, site, "cannot bind the specification variables: "+err.Error())
		return
	}
	n := 0
	for i, p := range l.Header.Preds {
		if !(l.Blocks[p] && l.Header.Dominates(p)) {
			continue
		}
		n++
		under, ok := t.EdgeCond(p, l.Header)
		if !ok {
			continue
		}
		got := t.ValueTT(ph.Edges[i])
		good, diff, rows := t.CompareUnder(got, under, b, func(v map[string]bool) bool { return v["prev"] && !reload(v) })
		if !good {
			c.Violated(key, site, "the verdict carried around the loop differs from `"+flag+" && !reload`: "+diff)
			return
		}
		_ = rows
	}
	c.Check(n > 0, key, site, fmt.Sprintf("`%s' = %s && !reload` on every iteration (%d back edge(s)) over atoms [%s]", flag, flag, n, strings.Join(t.Atoms, " ; ")), "no back edge")
}

// maskedFields lists the fields of the local copy `name` that are overwritten before it is compared.
func maskedFields(fn *ssa.Function, name string) []string {
	var out []string
	for _, b := range fn.Blocks {
		for _, in := range b.Instrs {
			st, ok := in.(*ssa.Store)
			if !ok {
				continue
			}
			// path of field addresses down to the alloc
			var path []string
			v := st.Addr
			for {
				fa, ok := v.(*ssa.FieldAddr)
				if !ok {
					break
				}
				_, f := core.FieldOf(fa)
				path = append([]string{f}, path...)
				v = fa.X
			}
			if a, ok := v.(*ssa.Alloc); ok && a.Comment == name && len(path) > 0 {
				out = append(out, strings.Join(path, "."))
			}
		}
	}
	sort.Strings(out)
	return out
}

func dynTables(c *core.Ctx) {
	// ---- checkEndpointPair
	if fn := c.Fn("haproxy", "dynUpdater.checkEndpointPair"); fn != nil {
		m := matchers{
			"equal":    has("reflect.DeepEqual(&oldEPCopy, pair.cur)"),
			"preserve": has("backend.Cookie.Preserve"),
			"cookie":   has("pair.old.CookieValue != pair.cur.CookieValue"),
			"enabled":  has("execEnableEndpoint(d, backend.ID, pair.old, pair.cur)"),
			"oldLabel": has(`pair.old.Label != ""`),
			"curLabel": has(`pair.cur.Label != ""`),
		}
		tableRule(c, "checkEndpointPair verdict", fn, 0, m, func(v map[string]bool) bool {
			return v["equal"] || !(v["preserve"] && v["cookie"]) && v["enabled"] && !v["oldLabel"] && !v["curLabel"]
		})
		t := core.ExtractTable(fn)
		for _, s := range core.CallsNamed(fn, false, "(*haproxy.dynUpdater).execEnableEndpoint") {
			condTable(c, "checkEndpointPair sends the update", t, s.Instr, matchers{"equal": m["equal"], "preserve": m["preserve"], "cookie": m["cookie"]}, func(v map[string]bool) bool {
				return !v["equal"] && !(v["preserve"] && v["cookie"])
			})
		}
		mf := maskedFields(fn, "oldEPCopy")
		c.Check(strings.Join(mf, ",") == "SourceIP", "checkEndpointPair masks only SourceIP", c.Pos(fn.Pos()), "", "fields masked before the comparison: "+strings.Join(mf, ",")+" (a change of a masked field is neither sent to the socket nor reloaded)")
	}
	// ---- checkHostPair
	if fn := c.Fn("haproxy", "dynUpdater.checkHostPair"); fn != nil {
		m := matchers{
			"equal":    has("reflect.DeepEqual(&oldHostCopy, pair.cur)"),
			"hasTLS":   has("HasTLS(pair.cur.TLS)"),
			"hash":     has("TLSHash != pair.cur.TLS.TLSConfig.TLSHash"),
			"samefile": has("TLSFilename == pair.cur.TLS.TLSConfig.TLSFilename"),
			"certOK":   has("execUpdateCert(d, pair.cur.Hostname, pair.cur.TLS.TLSConfig.TLSFilename)"),
		}
		tableRule(c, "checkHostPair verdict", fn, 0, m, func(v map[string]bool) bool {
			return v["equal"] && !(v["hasTLS"] && v["hash"] && v["samefile"] && !v["certOK"])
		})
		mf := maskedFields(fn, "oldHostCopy")
		c.Check(strings.Join(mf, ",") == "TLS.TLSConfig.TLSCommonName,TLS.TLSConfig.TLSHash,TLS.TLSConfig.TLSNotAfter" || strings.Join(mf, ",") == "TLS.TLSCommonName,TLS.TLSHash,TLS.TLSNotAfter", "checkHostPair masks only the certificate identity", c.Pos(fn.Pos()), "", "fields masked before the comparison: "+strings.Join(mf, ","))
	}
	// ---- checkBackendPair
	if fn := c.Fn("haproxy", "dynUpdater.checkBackendPair"); fn != nil {
		mf := maskedFields(fn, "oldBackCopy")
		c.Check(strings.Join(mf, ",") == "Dynamic,Endpoints,ID", "checkBackendPair masks only ID, Dynamic and Endpoints", c.Pos(fn.Pos()), "", "fields masked before the comparison: "+strings.Join(mf, ",")+" (a change of a masked field is neither sent to the socket nor reloaded)")
		// region A: everything before the first loop
		inLoop := map[*ssa.BasicBlock]bool{}
		for _, l := range core.Loops(fn) {
			for b := range l.Blocks {
				inLoop[b] = true
			}
		}
		// blocks reachable from entry without entering the endpoint-mapping loops (the padding loop of the resolver branch is allowed)
		var firstMapLoop *ssa.BasicBlock
		for _, b := range fn.Blocks {
			for _, in := range b.Instrs {
				if fa, ok := in.(*ssa.FieldAddr); ok {
					if _, f := core.FieldOf(fa); f == "Enabled" && firstMapLoop == nil {
						if l := core.InnermostLoop(fn, b); l != nil {
							firstMapLoop = l.Header
						}
					}
				}
			}
		}
		if firstMapLoop == nil {
			c.Undecided("checkBackendPair pre-checks", c.Pos(fn.Pos()), "the loop that maps the old endpoints (reads Endpoint.Enabled) was not found")
		} else {
			region := func(b *ssa.BasicBlock) bool { return !firstMapLoop.Dominates(b) }
			t := core.ExtractTableRegion(fn, region)
			m := matchers{
				"equal":    has("reflect.DeepEqual(&oldBackCopy, pair.cur)"),
				"grow":     has("builtin:len(pair.old.Endpoints) < builtin:len(pair.cur.Endpoints)"),
				"resolver": has(`pair.cur.Resolver != ""`),
				"dyn":      has("pair.cur.Dynamic.DynUpdate"),
				"sameEps":  has("reflect.DeepEqual(pair.old.Endpoints, pair.cur.Endpoints)"),
				"padding":  has("phi{", "< builtin:len(pair.old.Endpoints)"), // condition of the padding loop of the resolver branch
			}
			if t.Err != "" {
				c.Undecided("checkBackendPair pre-checks", c.Pos(fn.Pos()), t.Err)
			} else if b, err := t.Bind(m); err != nil {
				// the padding loop condition is an unbound atom; Bind only requires the named ones
				c.Undecided("checkBackendPair pre-checks", c.Pos(fn.Pos()), err.Error())
			} else {
				res, rets := newRegionResult(t, region)
				ok, diff, _ := t.Compare(rets, b, func(v map[string]bool) bool { return v["grow"] || v["resolver"] || !v["dyn"] }, func(v map[string]bool) bool { return !v["padding"] })
				c.Check(ok, "checkBackendPair returns early iff grown, resolver or not dynamic", c.Pos(fn.Pos()), "", diff)
				ok, diff, _ = t.CompareUnder(res, rets, b, func(v map[string]bool) bool {
					return !v["grow"] && v["equal"] && (v["resolver"] || v["sameEps"])
				})
				c.Check(ok, "checkBackendPair early verdict", c.Pos(fn.Pos()), "reload unless: not grown, equal outside endpoints, and (resolver or same endpoints)", diff)
			}
		}
		// region B: per-target loop (anchor: execDisableEndpoint)
		for _, s := range core.CallsNamed(fn, false, "(*haproxy.dynUpdater).execDisableEndpoint") {
			// two tests of pair.cur == nil: before and after the slot is refilled from `added`;
			// the one that guards the disable command is the second
			gone := ""
			for _, e := range core.ControllingEdges(s.Instr.Block()) {
				if strings.HasSuffix(core.Key(e.If.Cond), ".cur == nil)") && e.Branch {
					gone = "@" + e.If.Cond.Name()
				}
			}
			loopFlagSpec(c, "checkBackendPair per-target loop", fn, s.Instr, "updated", matchers{
				"gone":     func(k string) bool { return gone != "" && strings.HasSuffix(k, ".cur == nil)"+gone) },
				"refill":   func(k string) bool { return strings.Contains(k, ".cur == nil)@") && !strings.HasSuffix(k, gone) },
				"spare":    has("builtin:len(", ") > 0)"),
				"disabled": has("execDisableEndpoint("),
				"label":    has(`.old.Label != ""`),
				"pairOK":   has("checkEndpointPair("),
			}, func(v map[string]bool) bool {
				if v["gone"] {
					return !v["disabled"] || v["label"]
				}
				return !v["pairOK"]
			})
		}
		// region C: per-added loop (anchor: execEnableEndpoint)
		for _, s := range core.CallsNamed(fn, false, "(*haproxy.dynUpdater).execEnableEndpoint") {
			m := matchers{
				"preserve": has("pair.cur.Cookie.Preserve"),
				"cookie":   has(".CookieValue != ", ".CookieValue)"),
				"enabled":  has("execEnableEndpoint("),
				"label":    has(`.Label != ""`),
			}
			loopFlagSpec(c, "checkBackendPair per-added loop", fn, s.Instr, "updated", m, func(v map[string]bool) bool {
				return v["preserve"] && v["cookie"] || !v["enabled"] || v["label"]
			})
			// the cookie test compares the added endpoint with the slot it reuses
			ok := false
			for _, b := range fn.Blocks {
				for _, in := range b.Instrs {
					if bo, isBin := in.(*ssa.BinOp); isBin && strings.Contains(core.Key(bo), ".CookieValue != ") {
						l := core.InnermostLoop(fn, b)
						if l != nil && l.Blocks[s.Instr.Block()] {
							kx, ky := core.Key(bo.X), core.Key(bo.Y)
							ok = kx != ky && strings.HasSuffix(kx, ".CookieValue") && strings.HasSuffix(ky, ".CookieValue")
						}
					}
				}
			}
			c.Check(ok, "checkBackendPair compares the cookie of the added endpoint with the reused slot", at(c, s.Instr), "", "the cookie comparison of the per-added loop is missing or compares a value with itself")
		}
	}
	// ---- frontendUpdated / backendUpdated
	for _, x := range []struct{ name, check, nilTest string }{{"frontendUpdated", "checkHostPair(", ".cur == nil)"}, {"backendUpdated", "checkBackendPair(", ".cur != nil)"}} {
		fn := c.Fn("haproxy", "dynUpdater."+x.name)
		if fn == nil {
			continue
		}
		for _, s := range core.Calls(fn, false) {
			n := core.CalleeName(s.Common())
			switch {
			case strings.HasSuffix(n, "dynUpdater)."+strings.TrimSuffix(x.check, "(")):
				x := x
				loopFlagSpec(c, x.name+" pair loop", fn, s.Instr, "updated", matchers{
					"nil":    has(x.nilTest),
					"pairOK": has(x.check),
				}, func(v map[string]bool) bool {
					if x.name == "frontendUpdated" {
						return v["nil"] || !v["pairOK"] // removed host, or pair not applied
					}
					return v["nil"] && !v["pairOK"] // `nil` is bound to cur != nil here
				})
			}
		}
		// the add loop: an added object without a deleted twin forces a reload
		for _, b := range fn.Blocks {
			for _, in := range b.Instrs {
				lk, ok := in.(*ssa.Lookup)
				if !ok || !lk.CommaOk {
					continue
				}
				loopFlagSpec(c, x.name+" add loop", fn, lk, "updated", matchers{"found": func(k string) bool { return strings.HasSuffix(k, ",ok#1") }}, func(v map[string]bool) bool { return !v["found"] })
			}
		}
	}
}

// newRegionResult gives the bool result and the return condition over the returns inside region.
func newRegionResult(t *core.Table, region func(*ssa.BasicBlock) bool) (res, rets core.TT) {
	res, rets = t.False(), t.False()
	for _, b := range t.Fn.Blocks {
		if !region(b) || len(b.Instrs) == 0 {
			continue
		}
		ret, ok := b.Instrs[len(b.Instrs)-1].(*ssa.Return)
		if !ok || core.IsRecoverBlock(b) {
			continue
		}
		cnd, ok := t.BlockCond(b)
		if !ok {
			continue
		}
		rets = rets.Or(cnd)
		res = res.Or(cnd.And(t.ValueTT(core.Results(ret)[0])))
	}
	return
}

// alignDirty: on every path from an AddEmptyEndpoint call to the end of the
// iteration, BackendChanged is called.
func alignDirty(c *core.Ctx) {
	fn := c.Fn("haproxy", "dynUpdater.alignSlots")
	if fn == nil {
		return
	}
	var changedCall ssa.Instruction
	for _, s := range core.Calls(fn, false) {
		if strings.HasSuffix(core.CalleeName(s.Common()), "Backends).BackendChanged") {
			changedCall = s.Instr
		}
	}
	if changedCall == nil {
		c.Violated("alignSlots reports padded backends", c.Pos(fn.Pos()), "alignSlots never calls BackendChanged: slots added to a backend of an unchanged shard are not written")
		return
	}
	outer := core.InnermostLoop(fn, changedCall.Block())
	if outer == nil {
		c.Undecided("alignSlots reports padded backends", at(c, changedCall), "BackendChanged is not inside the backend loop")
		return
	}
	// flag typestate: state bit0 = a slot was added in this iteration, bit1 = flag variable is true
	// The flag is an SSA phi web named `changed`; evaluate it along edges.
	flagVal := func(v ssa.Value, from *ssa.BasicBlock) (known bool, val bool) {
		if core.IsConstBool(v, true) {
			return true, true
		}
		if core.IsConstBool(v, false) {
			return true, false
		}
		return false, false
	}
	guardCond := func() ssa.Value {
		for _, e := range core.ControllingEdges(changedCall.Block()) {
			if e.Branch {
				return e.If.Cond
			}
		}
		return nil
	}()
	n := 0
	for _, s := range core.Calls(fn, false) {
		if !strings.HasSuffix(core.CalleeName(s.Common()), "Backend).AddEmptyEndpoint") {
			continue
		}
		n++
		key := fmt.Sprintf("alignSlots: slot added at line %s is reported", lineOf(c, s.Instr))
		key = "alignSlots: slot added in " + loopRole(fn, s.Instr) + " is reported"
		// abstract interpretation over (flag ∈ {F,T,unknown→treated as F}); start right after the Add with the flag unknown=F
		const (
			stF = iota
			stT
		)
		bad := false
		// forward from the add: track the value of the guard condition's phi web
		f := core.Forward{Fn: fn, Start: s.Instr.Block(), Init: 1 << stF,
			Instr: func(in ssa.Instruction, st int) int { return st },
			Edge: func(from *ssa.BasicBlock, k int, st int) (int, bool) {
				to := from.Succs[k]
				if !outer.Blocks[to] || to == outer.Header {
					// leaving the iteration
					return st, false
				}
				// the guard: on the false edge of `if flag` with flag known true the path is infeasible
				if ifi, ok := from.Instrs[len(from.Instrs)-1].(*ssa.If); ok && guardCond != nil && ifi.Cond == guardCond {
					if k == 1 && st == stT {
						return st, false
					}
				}
				// phi transfer for the flag web
				ns := st
				for _, in := range to.Instrs {
					ph, ok := in.(*ssa.Phi)
					if !ok {
						break
					}
					if ph.Comment != "changed" {
						continue
					}
					for i, p := range to.Preds {
						if p == from {
							if known, v := flagVal(ph.Edges[i], from); known {
								if v {
									ns = stT
								} else {
									ns = stF
								}
							}
						}
					}
				}
				return ns, true
			}}
		_, before, _ := f.Run()
		// violation: the iteration can end (reach a latch of the outer loop) without passing BackendChanged
		reachedChanged := false
		if _, ok := before[changedCall]; ok {
			reachedChanged = true
		}
		// search a path from the add to the end of the iteration that avoids BackendChanged, feasible w.r.t. the flag
		w := feasibleAvoid(fn, s.Instr, changedCall, outer, guardCond)
		bad = w != ""
		_ = reachedChanged
		c.Check(!bad, key, at(c, s.Instr), "every feasible path to the end of the iteration calls BackendChanged", "an empty slot is added but the iteration can end without BackendChanged ("+w+"): the backend's shard is not rewritten, the file lacks servers the model has")
	}
	c.Check(n >= 2, "alignSlots pads", c.Pos(fn.Pos()), "", "fewer than two AddEmptyEndpoint sites (min-free-slots and block alignment)")
}

func lineOf(c *core.Ctx, in ssa.Instruction) string {
	p := at(c, in)
	if i := strings.LastIndex(p, ":"); i >= 0 {
		return p[i+1:]
	}
	return p
}

// loopRole names the inner loop of an instruction by its bound.
func loopRole(fn *ssa.Function, in ssa.Instruction) string {
	l := core.InnermostLoop(fn, in.Block())
	if l == nil {
		return "straight-line code"
	}
	if ifi, ok := l.Header.Instrs[len(l.Header.Instrs)-1].(*ssa.If); ok {
		k := core.Key(ifi.Cond)
		switch {
		case strings.Contains(k, "MinFreeSlots"):
			return "the min-free-slots loop"
		case strings.Contains(k, "BlockSize"):
			return "the block-alignment loop"
		}
		if len(k) > 60 {
			k = k[:60]
		}
		return "loop `" + k + "`"
	}
	return "a loop"
}

// feasibleAvoid searches a path from `from` to the end of the outer iteration
// that does not execute `must`, tracking the boolean flag tested by guard:
// once an edge assigns const true to the flag's phi web the false branch of
// the guard is infeasible.
func feasibleAvoid(fn *ssa.Function, from, must ssa.Instruction, outer *core.Loop, guard ssa.Value) string {
	type st struct {
		b    *ssa.BasicBlock
		flag int // 0 unknown/false, 1 true
	}
	// the flag after `from`: look at the phi edges leaving from's block
	start := st{from.Block(), 0}
	seen := map[st]bool{}
	work := []st{start}
	first := true
	for len(work) > 0 {
		s := work[0]
		work = work[1:]
		if seen[s] && !first {
			continue
		}
		seen[s] = true
		// does this block execute `must` (after `from` when it is the start block)?
		hit := false
		for _, in := range s.b.Instrs {
			if in == must {
				hit = true
			}
		}
		if hit && !(first && core.InstrIndex(must) < core.InstrIndex(from)) {
			first = false
			continue
		}
		first = false
		for k, to := range s.b.Succs {
			ns := st{to, s.flag}
			if ifi, ok := s.b.Instrs[len(s.b.Instrs)-1].(*ssa.If); ok && guard != nil && ifi.Cond == guard && k == 1 && s.flag == 1 {
				continue
			}
			for _, in := range to.Instrs {
				ph, ok := in.(*ssa.Phi)
				if !ok {
					break
				}
				if guard == nil || !phiWeb(guard, ph) {
					continue
				}
				for i, p := range to.Preds {
					if p == s.b {
						switch {
						case core.IsConstBool(ph.Edges[i], true):
							ns.flag = 1
						case core.IsConstBool(ph.Edges[i], false):
							ns.flag = 0
						}
					}
				}
			}
			if !outer.Blocks[to] || to == outer.Header {
				return fmt.Sprintf("leaves the iteration from block %d with the flag %v", s.b.Index, map[int]string{0: "not set", 1: "set"}[ns.flag])
			}
			if !seen[ns] {
				work = append(work, ns)
			}
		}
	}
	return ""
}

// phiWeb reports whether ph belongs to the phi web of v (v is reached from ph through phi edges, or equals it).
func phiWeb(v ssa.Value, ph *ssa.Phi) bool {
	seen := map[ssa.Value]bool{}
	var walk func(x ssa.Value) bool
	walk = func(x ssa.Value) bool {
		if x == ssa.Value(ph) {
			return true
		}
		if seen[x] {
			return false
		}
		seen[x] = true
		if p, ok := x.(*ssa.Phi); ok {
			for _, e := range p.Edges {
				if walk(e) {
					return true
				}
			}
		}
		return false
	}
	return walk(v)
}
