package rules

import (
	"fmt"
	"strings"

	"golang.org/x/tools/go/ssa"

	"hapverif/internal/core"
)

func init() {
	addRule("C03", &core.Rule{ID: "C03.route-binding", Floor: 9, Run: routeBinding,
		Doc: "Wiring of one Ingress path in syncIngressHTTP, as identities of SSA values: the path link is built from the rule's own normalised host, the path's own uri (`/` when empty) and its own path type; the backend is created for `<ingress namespace>/<service name of this path>` and the port of this path; AddLink receives the host acquired for this rule, the backend created for this path and that same path link; a path already present is skipped before anything is added."})
}

func routeBinding(c *core.Ctx) {
	fn := c.Fn("converters/ingress", "converter.syncIngressHTTP")
	if fn == nil {
		return
	}
	one := func(name string) *ssa.Call {
		var out *ssa.Call
		n := 0
		for _, s := range core.Calls(fn, false) {
			cn := core.CalleeName(s.Common())
			if strings.HasSuffix(cn, name) {
				if call, ok := s.Instr.(*ssa.Call); ok {
					out = call
					n++
				}
			}
		}
		if n != 1 {
			return nil
		}
		return out
	}
	addLink := one("haproxy/types.Host).AddLink")
	addBack := one("converter).addBackendWithClass")
	mkLink := one("haproxy/types.CreateHostPathLink")
	pathType := one("converter).readPathType")
	if addLink == nil || addBack == nil || mkLink == nil || pathType == nil {
		c.Violated("syncIngressHTTP wiring anchors", c.Pos(fn.Pos()), "AddLink, addBackendWithClass, CreateHostPathLink or readPathType is not called exactly once")
		return
	}
	// host of the rule: the addHost call inside the rules loop (not the tls loop)
	var ruleHost *ssa.Call
	for _, s := range core.CallsNamed(fn, false, "(*converters/ingress.converter).addHost") {
		call := s.Instr.(*ssa.Call)
		if strings.Contains(core.Key(call.Call.Args[1]), "normalizeHostname(") {
			ruleHost = call
		}
	}
	if ruleHost == nil {
		c.Violated("syncIngressHTTP acquires the rule's host", c.Pos(fn.Pos()), "no addHost(normalizeHostname(rule.Host…))")
		return
	}
	hostArg := ruleHost.Call.Args[1]
	c.Check(strings.Contains(core.Key(hostArg), ".Host, 0)") || strings.Contains(core.Key(hostArg), "Host, 0"), "the host is the rule's own normalised host name", at(c, ruleHost), core.Key(hostArg), "addHost receives "+core.Key(hostArg))
	// path link
	la := mkLink.Call.Args
	c.Check(la[0] == hostArg, "the path link carries the rule's host", at(c, mkLink), "", "CreateHostPathLink host is `"+core.Key(la[0])+"`, the acquired host is `"+core.Key(hostArg)+"`")
	uriOK := false
	if ph, ok := la[1].(*ssa.Phi); ok {
		hasPath, hasRoot := false, false
		for _, e := range ph.Edges {
			if strings.HasSuffix(core.Key(e), ".Path") {
				hasPath = true
			}
			if core.IsConstString(e, "/") {
				hasRoot = true
			}
		}
		uriOK = hasPath && hasRoot
	}
	c.Check(uriOK, "the path link carries the path's own uri, `/` when empty", at(c, mkLink), "", "uri is `"+core.Key(la[1])+"`")
	c.Check(la[2] == ssa.Value(pathType), "the path link carries the path's own match type", at(c, mkLink), "", "match is `"+core.Key(la[2])+"`")
	// backend creation
	ba := addBack.Call.Args // c, source, pathLink, fullSvcName, svcPort, annBack, ingressClass
	c.Check(ba[2] == ssa.Value(mkLink), "the backend is created for this path link", at(c, addBack), "", "pathLink argument is `"+core.Key(ba[2])+"`")
	kName := core.Key(ba[3])
	c.Check(strings.Contains(kName, `ing.ObjectMeta.Namespace + "/")`) && strings.Contains(kName, "readServiceNamePort(") && strings.HasSuffix(kName, "#0)"), "the service is looked up in the Ingress namespace by this path's service name", at(c, addBack), kName, "service name argument is `"+kName+"`")
	kPort := core.Key(ba[4])
	c.Check(strings.Contains(kPort, "readServiceNamePort(") && strings.HasSuffix(kPort, "#1") && strings.Contains(kPort, ".Backend"), "the port is this path's service port", at(c, addBack), kPort, "port argument is `"+kPort+"`")
	// same readServiceNamePort call for name and port
	nm, pt := callOf(ba[3]), callOf(ba[4])
	c.Check(nm != nil && nm == pt, "service name and port come from the same backend reference", at(c, addBack), "", "name and port are read by different readServiceNamePort calls")
	// AddLink
	aa := addLink.Call.Args // host, backend, pathLink
	c.Check(aa[0] == ssa.Value(ruleHost), "the path is linked on the host acquired for this rule", at(c, addLink), "", "receiver is `"+core.Key(aa[0])+"`")
	okb := false
	if ex, ok := aa[1].(*ssa.Extract); ok && ex.Tuple == ssa.Value(addBack) && ex.Index == 0 {
		okb = true
	}
	c.Check(okb, "the path is linked to the backend created for it", at(c, addLink), "", "backend argument is `"+core.Key(aa[1])+"`")
	c.Check(aa[2] == ssa.Value(mkLink), "the path is linked under its own path link", at(c, addLink), "", "pathLink argument is `"+core.Key(aa[2])+"`")
	// error of the backend creation skips the link
	c.Check(guardedBy(addLink, has("addBackendWithClass(", "#1 != nil)"), false), "a path whose backend could not be created is not linked", at(c, addLink), "", "AddLink is reachable on the error branch of addBackendWithClass")
	// a redirect-to path gets no backend: after AddRedirect the iteration ends
	if red := one("haproxy/types.Host).AddRedirect"); red != nil {
		loop := core.InnermostLoop(fn, red.Block())
		w := core.PathQuery{Fn: fn, Start: red, Target: func(in ssa.Instruction) bool { return in == ssa.Instruction(addLink) || in == ssa.Instruction(addBack) },
			EdgeOK: func(from *ssa.BasicBlock, k int) bool { return loop == nil || from.Succs[k] != loop.Header }}.Find()
		c.Check(w == nil, "a redirect-to path is not also given a backend", at(c, red), "", "after AddRedirect the same iteration can still create and link a backend for the path: the maps send the request to the backend instead of redirecting")
		c.Check(guardedBy(red, has(`"redirect-to"]`, ` != "")`), true), "a path is a redirect only when redirect-to is declared", at(c, red), "", "AddRedirect is not on the `redirect-to != \"\"` branch")
	} else {
		c.Violated("redirect-to paths", c.Pos(fn.Pos()), "AddRedirect is not called exactly once")
	}
	// the duplicate test precedes every mutation of the host for this path
	dup := one("haproxy/types.Host).FindPathWithLink")
	if dup == nil {
		c.Violated("a redeclared path is detected", c.Pos(fn.Pos()), "FindPathWithLink is not called exactly once")
	} else {
		c.Check(dup.Call.Args[0] == ssa.Value(ruleHost) && dup.Call.Args[1] == ssa.Value(mkLink), "a redeclared path is searched on this host with this path link", at(c, dup), "", fmt.Sprintf("FindPathWithLink(%s, %s)", core.Key(dup.Call.Args[0]), core.Key(dup.Call.Args[1])))
		w := core.MustPrecede(fn, func(in ssa.Instruction) bool {
			if in == ssa.Instruction(dup) {
				return true
			}
			// the ssl-passthrough root path uses FindPath instead
			if call, ok := in.(*ssa.Call); ok && strings.HasSuffix(core.CalleeName(&call.Call), "haproxy/types.Host).FindPath") {
				return true
			}
			return false
		}, func(in ssa.Instruction) bool { return in == ssa.Instruction(addLink) || in == ssa.Instruction(addBack) })
		c.Check(w == nil, "the duplicate test precedes backend creation and linking", at(c, dup), "", "a path can be linked without the redeclaration test")
	}
}

// callOf returns the call a value was extracted from (through extracts and string concatenation).
func callOf(v ssa.Value) *ssa.Call {
	switch x := v.(type) {
	case *ssa.Extract:
		if c, ok := x.Tuple.(*ssa.Call); ok {
			return c
		}
	case *ssa.BinOp:
		if c := callOf(x.Y); c != nil {
			return c
		}
		return callOf(x.X)
	}
	return nil
}

func init() {
	addRule("C03", &core.Rule{ID: "C03.backend-binding", Floor: 8, Run: backendBinding,
		Doc: "Wiring of addBackendWithClass as value identities: the service read is `fullSvcName` in the source's namespace; the port is FindServicePort of that service and the requested port (first service port when none was given); an unknown port is an error unless the service is an ExternalName without ports; the backend is acquired for (namespace, name) split from fullSvcName and the target port of the resolved service port; endpoints are added from that service, that port, into that backend, once per sync (only when the backend had no annotation mapper yet)."})
}

func backendBinding(c *core.Ctx) {
	fn := c.Fn("converters/ingress", "converter.addBackendWithClass")
	if fn == nil {
		return
	}
	var getSvc, findPort, acquire, addEps *ssa.Call
	for _, s := range core.Calls(fn, false) {
		call, ok := s.Instr.(*ssa.Call)
		if !ok {
			continue
		}
		cn := core.CalleeName(s.Common())
		switch {
		case s.Common().IsInvoke() && s.Common().Method.Name() == "GetService":
			getSvc = call
		case strings.HasSuffix(cn, "converters/utils.FindServicePort"):
			findPort = call
		case strings.HasSuffix(cn, "haproxy/types.Backends).AcquireBackend"):
			acquire = call
		case strings.HasSuffix(cn, "converter).addEndpoints"):
			addEps = call
		}
	}
	if getSvc == nil || findPort == nil || acquire == nil || addEps == nil {
		c.Violated("addBackendWithClass anchors", c.Pos(fn.Pos()), "GetService, FindServicePort, AcquireBackend or addEndpoints call missing")
		return
	}
	ga := getSvc.Call.Args
	c.Check(strings.HasSuffix(core.Key(ga[0]), "source.Namespace") && core.Key(ga[1]) == "fullSvcName", "the service read is fullSvcName, relative to the source's namespace", at(c, getSvc), "", fmt.Sprintf("GetService(%s, %s)", core.Key(ga[0]), core.Key(ga[1])))
	svc := func(v ssa.Value) bool {
		ex, ok := v.(*ssa.Extract)
		return ok && ex.Tuple == ssa.Value(getSvc) && ex.Index == 0
	}
	fa := findPort.Call.Args
	c.Check(svc(fa[0]), "the port is searched in the service that was read", at(c, findPort), "", "FindServicePort service is `"+core.Key(fa[0])+"`")
	okPort := false
	if ph, isPhi := fa[1].(*ssa.Phi); isPhi {
		hasParam, hasFirst := false, false
		for i, e := range ph.Edges {
			if core.Key(e) == "svcPort" {
				hasParam = true
			}
			if strings.Contains(core.Key(e), "Spec.Ports[0].TargetPort") {
				// only when no port was requested
				for _, g := range core.ControllingEdges(ph.Block().Preds[i]) {
					if strings.Contains(core.Key(g.If.Cond), `svcPort == "")`) && g.Branch {
						hasFirst = true
					}
				}
				if ph.Block().Preds[i].Instrs != nil && !hasFirst {
					// the pred block itself may be the then-block
					for _, g := range core.ControllingEdges(ph.Block().Preds[i]) {
						_ = g
					}
				}
			}
		}
		okPort = hasParam && hasFirst
	}
	c.Check(okPort, "the requested port is used, the first service port only when none was requested", at(c, findPort), "", "port argument is `"+core.Key(fa[1])+"`")
	// acquire
	aa := acquire.Call.Args // recv, namespace, name, port
	k1, k2, k3 := core.Key(aa[1]), core.Key(aa[2]), core.Key(aa[3])
	c.Check(strings.Contains(k1, "strings.Split(fullSvcName") && strings.HasSuffix(k1, "[0]") && strings.Contains(k2, "strings.Split(fullSvcName") && strings.HasSuffix(k2, "[1]"), "the backend is named after the namespace and name of fullSvcName", at(c, acquire), "", "AcquireBackend("+k1+", "+k2+", …)")
	c.Check(strings.Contains(k3, ".TargetPort") && strings.Contains(k3, "String("), "the backend is keyed by the target port of the resolved service port", at(c, acquire), k3, "port key is `"+k3+"`")
	portOf := func(v ssa.Value) bool {
		// phi{FindServicePort(), &ServicePort literal}
		ok := false
		seen := map[ssa.Value]bool{}
		var walk func(x ssa.Value)
		walk = func(x ssa.Value) {
			if seen[x] {
				return
			}
			seen[x] = true
			if x == ssa.Value(findPort) {
				ok = true
			}
			if ph, isPhi := x.(*ssa.Phi); isPhi {
				for _, e := range ph.Edges {
					walk(e)
				}
			}
		}
		walk(v)
		return ok
	}
	// endpoints
	ea := addEps.Call.Args // c, svc, port, backend
	c.Check(svc(ea[1]), "endpoints come from the service that was read", at(c, addEps), "", "addEndpoints service is `"+core.Key(ea[1])+"`")
	c.Check(portOf(ea[2]), "endpoints are those of the resolved port", at(c, addEps), "", "addEndpoints port is `"+core.Key(ea[2])+"`")
	c.Check(ea[3] == ssa.Value(acquire), "endpoints are added to the backend acquired here", at(c, addEps), "", "addEndpoints backend is `"+core.Key(ea[3])+"`")
	c.Check(guardedBy(addEps, func(k string) bool { return strings.HasSuffix(k, ",ok#1") && strings.Contains(k, "backendAnnotations") }, false), "endpoints are added once per sync", at(c, addEps), "", "addEndpoints is not on the !found branch of the per-sync mapper table: a backend shared by two paths gets its endpoints twice (or never)")
	// unknown port
	okErr := false
	for _, r := range core.Returns(fn) {
		res := core.Results(r)
		if core.IsNilConst(res[0]) && !core.IsNilConst(res[1]) && guardedBy(r, has("FindServicePort(", " == nil)"), true) {
			okErr = true
		}
	}
	c.Check(okErr, "an unknown port is an error", c.Pos(fn.Pos()), "", "no error return under FindServicePort(...) == nil")
}

func init() {
	addRule("C03", &core.Rule{ID: "C03.endpoint-values", Floor: 8, Run: endpointValues,
		Doc: "Where endpoint addresses come from: createEndpoints pairs each address (Addresses / NotReadyAddresses) of a subset with the port of the matching endpoint port of the same subset; createEndpointSlices skips ports of another protocol or another name and builds the endpoint from the slice endpoint's first address and that port; CreateEndpoints reads the Endpoints / EndpointSlices of the very service it was given and dispatches ExternalName services to the DNS lookup; FindContainerPort returns a numeric target port as is and resolves a named one on protocol and name."})
}

func endpointValues(c *core.Ctx) {
	if fn := c.Fn("converters/utils", "createEndpoints"); fn != nil {
		n := 0
		for _, s := range core.CallsNamed(fn, false, "converters/utils.newEndpoint") {
			n++
			a := s.Common().Args
			lIP, lPort := sliceLeaves(c.Env, a[0], 0), sliceLeaves(c.Env, a[1], 0)
			side := "ready"
			if leavesContain(lIP, "NotReadyAddresses") {
				side = "not-ready"
			}
			okIP := leavesContain(lIP, "Addresses[") && leavesContain(lIP, ".IP") && (side == "not-ready" || !leavesContain(lIP, "NotReadyAddresses"))
			okPort := leavesContain(lPort, ".Ports[") && leavesContain(lPort, ".Port") && !leavesContain(lPort, "Addresses")
			c.Check(okIP && okPort, "createEndpoints "+side+" endpoint is (address IP, matching port)", at(c, s.Instr), "", "endpoint built from "+leavesList(lIP)+" : "+leavesList(lPort))
			// the port loop and the address loop range over the same subset element
			c.Check(leavesContain(lIP, "Subsets") && leavesContain(lPort, "Subsets"), "createEndpoints "+side+" address and port belong to the subsets of the given Endpoints", at(c, s.Instr), "", "address: "+leavesList(lIP)+"; port: "+leavesList(lPort))
		}
		c.Check(n == 2, "createEndpoints builds ready and not-ready endpoints", c.Pos(fn.Pos()), "", fmt.Sprint(n))
	}
	if fn := c.Fn("converters/utils", "createEndpointSlices"); fn != nil {
		for _, s := range core.CallsNamed(fn, false, "converters/utils.newEndpoint") {
			a := s.Common().Args
			lIP, lPort := sliceLeaves(c.Env, a[0], 0), sliceLeaves(c.Env, a[1], 0)
			c.Check(leavesContain(lIP, ".Addresses[0]") && leavesContain(lIP, ".Endpoints[") && leavesContain(lPort, ".Ports[") && leavesContain(lPort, ".Port"), "createEndpointSlices endpoint is (first address, port of the slice port)", at(c, s.Instr), "", "endpoint built from "+leavesList(lIP)+" : "+leavesList(lPort))
			c.Check(guardedBy(s.Instr, has("Protocol", " != "), false) || guardedBy(s.Instr, has("Protocol", " == "), true), "createEndpointSlices skips ports of another protocol", at(c, s.Instr), "", "the endpoint is built without the protocol test")
			okName := false
			for _, g := range guardsOf(s.Instr) {
				if strings.Contains(g.Key, "svcPort.Name != ") && strings.Contains(g.Key, ".Name)") && !strings.Contains(g.Key, `""`) && !g.Branch {
					okName = true
				}
			}
			// `name != "" && name != epName` short-circuits: the body has two predecessors; accept the table form
			if !okName {
				for _, b := range fn.Blocks {
					ifi, ok := b.Instrs[len(b.Instrs)-1].(*ssa.If)
					if !ok {
						continue
					}
					k := core.Key(ifi.Cond)
					if !strings.Contains(k, "svcPort.Name != ") || strings.Contains(k, `""`) {
						continue
					}
					l := core.InnermostLoop(fn, b)
					if l == nil {
						continue
					}
					// the true edge leaves the iteration (continue); the false edge reaches the endpoint
					if !reachesInLoop(b.Succs[0], s.Instr.Block(), l) && reachesInLoop(b.Succs[1], s.Instr.Block(), l) {
						okName = true
					}
				}
			}
			c.Check(okName, "createEndpointSlices skips ports of another name", at(c, s.Instr), "", "no `svcPort.Name != *epPort.Name → continue` before the endpoint is built")
			// exact: an endpoint is built for a slice port iff the protocol matches and not (the service port is named and the names differ)
			if pl := core.InnermostLoop(fn, s.Instr.Block()); pl != nil {
				// the ports loop is the loop around the endpoints loop
				var ports *core.Loop
				for _, l := range core.Loops(fn) {
					if l.Blocks[pl.Header] && l.Header != pl.Header && (ports == nil || len(l.Blocks) < len(ports.Blocks)) {
						ports = l
					}
				}
				if ports != nil && ports.Body() != nil {
					t := core.ExtractTableFrom(fn, ports.Body(), func(b *ssa.BasicBlock) bool { return ports.Blocks[b] && b != ports.Header })
					mm := matchers{
						"protoDiff": has("Protocol", " != "),
						"named":     has(`svcPort.Name != "")`),
						"nameDiff":  func(k string) bool { return strings.Contains(k, "svcPort.Name != ") && !strings.Contains(k, `""`) },
					}
					cond, okc := t.BlockCond(pl.Header)
					if t.Err != "" || !okc {
						c.Undecided("createEndpointSlices port filter", at(c, s.Instr), fmt.Sprintf("table error %q, header cond available: %v, ports header b%d, endpoints header b%d, root b%d", t.Err, okc, ports.Header.Index, pl.Header.Index, ports.Body().Index))
					} else if bd, _, dup := bindDeps(t, cond, mm); dup != "" || len(missingBound(bd, mm)) > 0 {
						c.Violated("createEndpointSlices port filter", at(c, s.Instr), fmt.Sprintf("the port filter does not depend on %v %s", missingBound(bd, mm), dup))
					} else {
						ok, diff, _ := t.Compare(cond, bd, func(v map[string]bool) bool { return !v["protoDiff"] && !(v["named"] && v["nameDiff"]) }, nil)
						c.Check(ok, "createEndpointSlices port filter", at(c, s.Instr), "endpoints of a slice port are used iff the protocol matches and a named service port has the same name", diff)
					}
				}
			}
		}
	}
	if fn := c.Fn("converters/utils", "CreateEndpoints"); fn != nil {
		for _, s := range core.Calls(fn, false) {
			cc := s.Common()
			if cc.IsInvoke() && (cc.Method.Name() == "GetEndpoints" || cc.Method.Name() == "GetEndpointSlices") {
				c.Check(core.Key(cc.Args[0]) == "svc", "CreateEndpoints reads the "+cc.Method.Name()[3:]+" of the given service", at(c, s.Instr), "", "argument is "+core.Key(cc.Args[0]))
			}
			if strings.HasSuffix(core.CalleeName(cc), "createEndpointsExternalName") {
				c.Check(guardedBy(s.Instr, has(`Spec.Type == "ExternalName")`), true), "ExternalName services are resolved by name lookup", at(c, s.Instr), "", "not on the ExternalName branch")
			}
			if strings.HasSuffix(core.CalleeName(cc), "utils.createEndpointSlices") {
				c.Check(guardedBy(s.Instr, func(k string) bool { return k == "useEndpointSlices" }, true), "EndpointSlices are used iff enabled", at(c, s.Instr), "", "not on the useEndpointSlices branch")
			}
		}
	}
	if fn := c.Fn("converters/utils", "FindContainerPort"); fn != nil {
		okNum, okNamed := false, false
		for _, r := range core.Returns(fn) {
			k := core.Key(core.Results(r)[0])
			if strings.Contains(k, "IntValue(") && guardedBy(r, has("IntValue(", " > 0)"), true) {
				okNum = true
			}
			if strings.HasSuffix(k, ".ContainerPort") {
				g1 := guardedBy(r, has(".Protocol == svcPort.Protocol"), true)
				g2 := guardedBy(r, has(".Name == "), true)
				okNamed = g1 && g2
			}
		}
		c.Check(okNum, "FindContainerPort returns a numeric target port as is", c.Pos(fn.Pos()), "", "missing")
		c.Check(okNamed, "FindContainerPort resolves a named port on protocol and name", c.Pos(fn.Pos()), "", "the container port is returned without both the protocol and the name test")
	}
}

func reachesInLoop(from, to *ssa.BasicBlock, l *core.Loop) bool {
	seen := map[*ssa.BasicBlock]bool{}
	stack := []*ssa.BasicBlock{from}
	for len(stack) > 0 {
		b := stack[len(stack)-1]
		stack = stack[:len(stack)-1]
		if b == to {
			return true
		}
		if seen[b] || !l.Blocks[b] || b == l.Header {
			continue
		}
		seen[b] = true
		stack = append(stack, b.Succs...)
	}
	return false
}

type mapWrite struct {
	field, method string
	args          []string   // substrings of the rendered arguments (after the receiver), "" = any
	guards        [][2]string // (substring of guard key, "T"/"F")
	why           string
}

var frontendMapTable = []mapWrite{
	{"DefaultHostMap", "AddHostnamePathMapping", []string{`"<default>"`, "Paths[", ".Backend.ID"}, [][2]string{{"DefaultHost(", "T"}, {"SSLPassthrough(", "F"}}, "paths of the default host serve requests whose host matched nothing"},
	{"SSLPassthroughMap", "AddHostnameMapping", []string{".Hostname", ".Backend.ID"}, [][2]string{{`.Backend.ID != "")`, "T"}, {"SSLPassthrough(", "T"}, {`Path(`, "T"}}, "ssl-passthrough hosts are selected by SNI, root path only"},
	{"HTTPSHostMap", "AddHostnamePathMapping", []string{".Hostname", "Paths[", ".Backend.ID"}, [][2]string{{`.Backend.ID != "")`, "T"}, {"SSLPassthrough(", "F"}, {"HasTLS(", "T"}}, "HTTPS serves only hosts with TLS that are not passthrough"},
	{"HTTPSHostMap", "AddAliasPathMapping", []string{".Alias", "Paths[", ".Backend.ID"}, [][2]string{{`.Backend.ID != "")`, "T"}, {"SSLPassthrough(", "F"}, {"HasTLS(", "T"}}, "aliases follow the host"},
	{"HTTPHostMap", "AddHostnamePathMapping", []string{".Hostname", "Paths[", ""}, [][2]string{{`.Backend.ID != "")`, "T"}}, "every path with a backend is served on HTTP (or redirected by its backend)"},
	{"HTTPHostMap", "AddAliasPathMapping", []string{".Alias", "Paths[", ""}, [][2]string{{`.Backend.ID != "")`, "T"}}, "aliases follow the host"},
	{"RedirToMap", "AddHostnamePathMapping", []string{".Hostname", "Paths[", ".RedirTo"}, [][2]string{{`.Backend.ID != "")`, "F"}, {`.RedirTo != "")`, "T"}}, "redirect-to paths have no backend"},
	{"RedirToMap", "AddAliasPathMapping", []string{".Alias", "Paths[", ".RedirTo"}, [][2]string{{`.Backend.ID != "")`, "F"}, {`.RedirTo != "")`, "T"}}, "aliases follow the host"},
	{"VarNamespaceMap", "AddHostnamePathMapping", []string{".Hostname", "Paths[", ""}, [][2]string{{"HasVarNamespace(", "T"}}, "namespace variable map covers every path when any host asks for it"},
	{"RedirFromMap", "AddHostnameMapping", []string{".Redirect.RedirectHost", ".Hostname"}, [][2]string{{"SSLPassthrough(", "F"}, {`.Redirect.RedirectHost != "")`, "T"}}, "redirect-from maps the source name to this host"},
	{"RedirFromMap", "AddHostnameMappingRegex", []string{".Redirect.RedirectHostRegex", ".Hostname"}, [][2]string{{"SSLPassthrough(", "F"}, {`.Redirect.RedirectHostRegex != "")`, "T"}}, "regex variant"},
	{"TLSAuthList", "AddHostnameMapping", []string{".Hostname", `""`}, [][2]string{{"SSLPassthrough(", "F"}, {"HasTLSAuth(", "T"}, {`.CAVerify != "skip-check")`, "T"}}, "client certificate is verified unless skip-check"},
	{"TLSNeedCrtList", "AddHostnameMapping", []string{".Hostname", `""`}, [][2]string{{"SSLPassthrough(", "F"}, {"HasTLSAuth(", "T"}, {"CAVerifyOptional(", "F"}}, "client certificate is required unless optional"},
	{"TLSInvalidCrtPagesMap", "AddHostnameMapping", []string{".Hostname", ".TLS.CAErrorPage"}, [][2]string{{"HasTLSAuth(", "T"}, {`.TLS.CAErrorPage != "")`, "T"}}, "error page of invalid certificates"},
	{"TLSMissingCrtPagesMap", "AddHostnameMapping", []string{".Hostname", ".TLS.CAErrorPage"}, [][2]string{{"HasTLSAuth(", "T"}, {`.TLS.CAErrorPage != "")`, "T"}, {"CAVerifyOptional(", "F"}}, "error page of missing certificates"},
	{"RedirRootSSLMap", "AddHostnameMapping", []string{".Hostname", `""`}, [][2]string{{"SSLPassthrough(", "F"}, {`.RootRedirect != "")`, "T"}, {"WriteFrontendMaps$1(", "T"}}, "root redirect goes through https first when the root path redirects to ssl"},
	{"RedirFromRootMap", "AddHostnameMapping", []string{".Hostname", ".RootRedirect"}, [][2]string{{"SSLPassthrough(", "F"}, {`.RootRedirect != "")`, "T"}}, "app-root"},
}

func init() {
	addRule("C03", &core.Rule{ID: "C03.frontend-maps", Floor: 17, Run: frontendMaps,
		Doc: "Reviewed table of every write into the frontend maps by WriteFrontendMaps: which map, keyed by which name (hostname, alias, redirect source, <default>), with which value, under which conditions (has a backend, passthrough, has TLS, redirect-to, tls-auth…). A write into another map, with another key/value, or under weaker/stronger conditions changes which backend a request reaches."})
	addRule("C15", &core.Rule{ID: "C15.frontend-maps", Floor: 17, Run: frontendMaps,
		Doc: "Shared with C03: HTTPS map entries exist exactly for non-passthrough hosts with TLS."})
}

func frontendMaps(c *core.Ctx) {
	fn := c.Fn("haproxy", "config.WriteFrontendMaps")
	if fn == nil {
		return
	}
	seen := map[string]int{}
	for _, s := range core.Calls(fn, false) {
		cn := core.CalleeName(s.Common())
		if !strings.Contains(cn, "haproxy/types.HostsMap).Add") {
			continue
		}
		method := cn[strings.LastIndex(cn, ".")+1:]
		a := s.Common().Args
		recv := core.Key(a[0])
		field := recv[strings.LastIndex(recv, ".")+1:]
		id := field + "." + method
		seen[id]++
		var ent *mapWrite
		for i := range frontendMapTable {
			if frontendMapTable[i].field == field && frontendMapTable[i].method == method {
				ent = &frontendMapTable[i]
			}
		}
		if ent == nil {
			c.Violated("frontend map write "+id, at(c, s.Instr), "a write into the frontend maps that is not in the reviewed table")
			continue
		}
		var bad []string
		for i, want := range ent.args {
			if want == "" || i+1 >= len(a) {
				continue
			}
			l := sliceLeaves(c.Env, a[i+1], 0)
			if !strings.Contains(core.Key(a[i+1]), want) && !leavesContain(l, want) {
				bad = append(bad, fmt.Sprintf("argument %d is `%s`, reviewed `…%s…`", i+1, core.Key(a[i+1]), want))
			}
		}
		for _, g := range ent.guards {
			if !guardedBy(s.Instr, has(g[0]), g[1] == "T") {
				bad = append(bad, fmt.Sprintf("not under `%s`=%s", g[0], g[1]))
			}
		}
		c.Check(len(bad) == 0, "frontend map write "+id, at(c, s.Instr), ent.why, strings.Join(bad, "; ")+" ("+ent.why+")")
	}
	for _, e := range frontendMapTable {
		id := e.field + "." + e.method
		c.Check(seen[id] == 1, "frontend map write "+id+" exists once", c.Pos(fn.Pos()), "", fmt.Sprintf("%d writes (reviewed: 1)", seen[id]))
	}
	// the HTTP value for passthrough hosts: the http port backend or the https redirect, never the TLS backend
	for _, s := range core.Calls(fn, false) {
		cn := core.CalleeName(s.Common())
		if strings.HasSuffix(cn, "HostsMap).AddHostnamePathMapping") && strings.HasSuffix(core.Key(s.Common().Args[0]), ".HTTPHostMap") {
			v := s.Common().Args[3]
			ph, ok := v.(*ssa.Phi)
			good := false
			if ok {
				var ks []string
				for _, e := range ph.Edges {
					ks = append(ks, core.Key(e))
				}
				j := strings.Join(ks, " | ")
				good = strings.Contains(j, ".Backend.ID") && strings.Contains(j, "_redirect_https") && strings.Contains(j, "HTTPPassthroughBackend")
			}
			c.Check(good, "HTTP map value of a passthrough root path is the http-port backend or the https redirect", at(c, s.Instr), "", "value is `"+core.Key(v)+"`")
		}
	}
}

func init() {
	addRule("C03", &core.Rule{ID: "C03.terminating-filter", Floor: 4, Run: terminatingFilter,
		Doc: "GetTerminatingPods (both cache implementations) returns exactly the listed pods for which isTerminatingPod(service, pod) holds for that very pod: the element is stored/appended on the true branch of the call on the same element, the write index advances with it, the result is the filled prefix; a list error is returned. The legacy isTerminatingPod has the same decision as the controller-runtime one."})
}

func terminatingFilter(c *core.Ctx) {
	for _, x := range [][2]string{{"controller/services", "c.GetTerminatingPods"}, {"controller/legacy", "k8scache.GetTerminatingPods"}} {
		fn := c.Fn(x[0], x[1])
		if fn == nil {
			continue
		}
		key := x[0] + "." + x[1]
		n := 0
		check := func(in ssa.Instruction, elem ssa.Value) {
			n++
			ok := false
			for _, g := range guardsOf(in) {
				call, isCall := g.Cond.(*ssa.Call)
				if !isCall || !g.Branch || !strings.HasSuffix(core.CalleeName(&call.Call), ".isTerminatingPod") {
					continue
				}
				a := call.Call.Args
				if core.Key(a[0]) == "service" && (a[1] == elem || core.Key(a[1]) == core.Key(elem)) {
					ok = true
				}
			}
			c.Check(ok, key+" keeps a pod only when it is terminating", at(c, in), "", "the pod is kept outside the true branch of isTerminatingPod(service, thatPod): running pods are added as draining servers, or terminating ones are dropped")
		}
		for _, b := range fn.Blocks {
			for _, in := range b.Instrs {
				switch y := in.(type) {
				case *ssa.Store:
					if ia, ok := y.Addr.(*ssa.IndexAddr); ok && strings.Contains(y.Val.Type().String(), "Pod") {
						if _, isAlloc := ia.X.(*ssa.Alloc); isAlloc {
							continue // argument array of a variadic append
						}
						check(y, y.Val)
						adv := false
						for _, z := range y.Block().Instrs {
							if bo, ok := z.(*ssa.BinOp); ok && bo.Op.String() == "+" && core.Key(bo.Y) == "1" && bo.X == ia.Index {
								adv = true
							}
						}
						c.Check(adv, key+" advances the write index", at(c, y), "", "the index is not incremented next to the store")
					}
				case *ssa.Call:
					if core.CalleeName(&y.Call) == "builtin:append" && strings.Contains(y.Type().String(), "Pod") {
						l := sliceLeaves(c.Env, y.Call.Args[1], 0)
						var elem ssa.Value
						for _, g := range guardsOf(y) {
							if call, isCall := g.Cond.(*ssa.Call); isCall && strings.HasSuffix(core.CalleeName(&call.Call), ".isTerminatingPod") {
								if leavesContain(l, strings.TrimPrefix(core.Key(call.Call.Args[1]), "&")) || true {
									elem = call.Call.Args[1]
								}
							}
						}
						if elem == nil {
							elem = y.Call.Args[1]
						}
						check(y, elem)
					}
				}
			}
		}
		c.Check(n == 1, key+" filter site", c.Pos(fn.Pos()), "", fmt.Sprintf("%d stores/appends of pods", n))
		for _, r := range core.Returns(fn) {
			res := core.Results(r)
			if core.IsNilConst(res[1]) && !core.IsNilConst(res[0]) {
				_, isSlice := res[0].(*ssa.Slice)
				_, isPhi := res[0].(*ssa.Phi)
				c.Check(isSlice || isPhi, key+" returns the filled part of the list", at(c, r), "", "result is "+core.Key(res[0]))
			}
		}
	}
	// legacy isTerminatingPod: same table as the services one
	if fn := c.Fn("controller/legacy", "isTerminatingPod"); fn != nil {
		t := core.ExtractTable(fn)
		b, err := t.Bind(matchers{
			"nsDiff":   has("GetNamespace(svc", " != ", "GetNamespace(pod"),
			"present":  func(k string) bool { return strings.Contains(k, ".Labels[") && strings.HasSuffix(k, ",ok#1") },
			"valDiff":  func(k string) bool { return strings.Contains(k, ".Labels[") && strings.Contains(k, " != ") && strings.Contains(k, ",ok#0") },
			"deleting": has("DeletionTimestamp != nil)"),
			"notLost":  has(`.Status.Reason != "NodeLost")`),
			"hasIP":    has(`.Status.PodIP != "")`),
		})
		if t.Err != "" || err != nil {
			c.Undecided("controller/legacy.isTerminatingPod", c.Pos(fn.Pos()), fmt.Sprint(t.Err, err))
		} else {
			res, _ := t.BoolResult(0)
			ok, diff, _ := compareIgnoringLoopImplies(t, res, b, func(v map[string]bool) bool {
				return !v["nsDiff"] && v["deleting"] && v["notLost"] && v["hasIP"]
			})
			c.Check(ok, "controller/legacy.isTerminatingPod result implies the terminating conditions", c.Pos(fn.Pos()), "", diff)
		}
	}
}

func init() {
	addRule("C10", &core.Rule{ID: "C10.rule-binding", Floor: 10, Run: gwRuleBinding,
		Doc: "Wiring of one admitted (listener, rule) of an HTTPRoute, as value identities: every backendRef of the rule is passed on; the backend is created for this route and `_rule<index of this rule>`; hosts are the listener/route host name filter of this listener and this route; paths are this rule's matches; hosts and paths are linked to the backend created for this rule and only when one was created. filterHostnames returns the route's names (or `*`) for an open listener and the listener's name otherwise. createBackend reads each backendRef's service in the route's namespace, its declared port, the ready endpoints, and skips refs without port, unknown services or ports."})
}

func gwRuleBinding(c *core.Ctx) {
	fn := c.Fn("converters/gateway", "converter.syncHTTPRouteGateway")
	if fn == nil {
		return
	}
	var mkBack, mkHosts, filt *ssa.Call
	for _, s := range core.Calls(fn, false) {
		call, ok := s.Instr.(*ssa.Call)
		if !ok {
			continue
		}
		switch cn := core.CalleeName(s.Common()); {
		case strings.HasSuffix(cn, "converter).createBackend"):
			mkBack = call
		case strings.HasSuffix(cn, "converter).createHTTPHosts"):
			mkHosts = call
		case strings.HasSuffix(cn, "converter).filterHostnames"):
			filt = call
		}
	}
	if mkBack == nil || mkHosts == nil || filt == nil {
		c.Violated("syncHTTPRouteGateway anchors", c.Pos(fn.Pos()), "createBackend, createHTTPHosts or filterHostnames is not called")
		return
	}
	ba := mkBack.Call.Args // c, source, index, backendRefs
	c.Check(strings.HasSuffix(core.Key(ba[1]), "httpRouteSource.source"), "the backend belongs to this route", at(c, mkBack), "", "source is "+core.Key(ba[1]))
	okIdx := false
	if sp, ok := ba[2].(*ssa.Call); ok && core.CalleeName(&sp.Call) == "fmt.Sprintf" && core.IsConstString(sp.Call.Args[0], "_rule%d") {
		// the formatted value is the index of the rules loop the call sits in
		loop := core.InnermostLoop(fn, mkBack.Block())
		if sl, ok := sp.Call.Args[1].(*ssa.Slice); ok && loop != nil {
			if al, ok := sl.X.(*ssa.Alloc); ok {
				for _, r := range *al.Referrers() {
					ia, ok := r.(*ssa.IndexAddr)
					if !ok {
						continue
					}
					for _, r2 := range *ia.Referrers() {
						if st, ok := r2.(*ssa.Store); ok {
							v := st.Val
							if mi, ok := v.(*ssa.MakeInterface); ok {
								v = mi.X
							}
							// rangeindex: t = phi + 1 defined in the loop header
							if bo, ok := v.(*ssa.BinOp); ok {
								if ph, ok := bo.X.(*ssa.Phi); ok && ph.Block() == loop.Header {
									okIdx = true
								}
							}
							if ex, ok := v.(*ssa.Extract); ok {
								if _, isNext := ex.Tuple.(*ssa.Next); isNext {
									okIdx = true
								}
							}
						}
					}
				}
			}
		}
	}
	c.Check(okIdx, "the backend is named after the index of this rule", at(c, mkBack), "", "index argument is not `_rule<index of the enclosing rules loop>`: "+core.Key(ba[2]))
	// backendRefs: every element copied from this rule
	okCopy := false
	for _, b := range fn.Blocks {
		for _, in := range b.Instrs {
			st, ok := in.(*ssa.Store)
			if !ok {
				continue
			}
			ia, ok := st.Addr.(*ssa.IndexAddr)
			if !ok || !strings.Contains(ia.X.Type().String(), "BackendRef") {
				continue
			}
			k := core.Key(st.Val)
			l := sliceLeaves(c.Env, st.Val, 0)
			if (strings.Contains(k, ".BackendRefs[") || leavesContain(l, ".BackendRefs[")) && core.InnermostLoop(fn, b) != nil {
				okCopy = ia.X == ba[3] || core.Key(ia.X) == core.Key(ba[3])
			}
		}
	}
	c.Check(okCopy, "every backendRef of the rule is passed to createBackend", at(c, mkBack), "", "the list given to createBackend is not filled from rule.BackendRefs in a loop")
	// hosts
	fa := filt.Call.Args
	c.Check(strings.HasSuffix(core.Key(fa[1]), ".Hostname") && strings.Contains(core.Key(fa[1]), "Listeners[") || leavesContain(sliceLeaves(c.Env, fa[1], 0), ".Hostname"), "host names are filtered by this listener's host name", at(c, filt), "", "first argument "+core.Key(fa[1]))
	c.Check(strings.HasSuffix(core.Key(fa[2]), "httpRouteSource.spec.Hostnames"), "host names come from this route", at(c, filt), "", "second argument "+core.Key(fa[2]))
	ha := mkHosts.Call.Args // c, source, hostnames, matches, backend
	c.Check(ha[2] == ssa.Value(filt), "hosts are created for the filtered names", at(c, mkHosts), "", "hostnames argument "+core.Key(ha[2]))
	lm := sliceLeaves(c.Env, ha[3], 0)
	c.Check(strings.HasSuffix(core.Key(ha[3]), ".Matches") || leavesContain(lm, ".Matches"), "paths are this rule's matches", at(c, mkHosts), "", "matches argument "+core.Key(ha[3]))
	okB := false
	if ex, ok := ha[4].(*ssa.Extract); ok && ex.Tuple == ssa.Value(mkBack) && ex.Index == 0 {
		okB = true
	}
	c.Check(okB, "hosts and paths are linked to the backend created for this rule", at(c, mkHosts), "", "backend argument "+core.Key(ha[4]))
	c.Check(guardedBy(mkHosts, has("createBackend(", "#0 != nil)"), true), "nothing is produced for a rule without backend", at(c, mkHosts), "", "createHTTPHosts is reachable with a nil backend")
	// filterHostnames table
	if ff := c.Fn("converters/gateway", "converter.filterHostnames"); ff != nil {
		var open, listener int
		for _, r := range core.Returns(ff) {
			k := core.Key(core.Results(r)[0])
			l := sliceLeaves(c.Env, core.Results(r)[0], 0)
			switch {
			case k == "routeHostnames":
				open++
			case leavesContain(l, "listenerHostname") || strings.Contains(k, "listenerHostname"):
				listener++
				ok := true
				for _, g := range guardsOf(r) {
					kk := core.StripVersion(g.Key)
					if (strings.Contains(kk, "listenerHostname == nil") || strings.Contains(kk, `== "")`) || strings.Contains(kk, `== "*")`)) && g.Branch {
						ok = false
					}
				}
				c.Check(ok, "filterHostnames uses the listener's name only when it has a specific one", at(c, r), "", "the listener host name is returned on an `open listener` branch")
			}
		}
		c.Check(open == 1 && listener == 1, "filterHostnames returns route names for an open listener and the listener name otherwise", c.Pos(ff.Pos()), "", fmt.Sprintf("%d / %d", open, listener))
	}
	// createBackend
	if cb := c.Fn("converters/gateway", "converter.createBackend"); cb != nil {
		for _, s := range core.Calls(cb, false) {
			cc := s.Common()
			if cc.IsInvoke() && cc.Method.Name() == "GetService" {
				k := core.Key(cc.Args[1])
				c.Check(strings.Contains(k, `routeSource.namespace + "/")`) && strings.Contains(k, ".Name"), "createBackend reads the backendRef's service in the route's namespace", at(c, s.Instr), "", "service name "+k)
			}
			if strings.HasSuffix(core.CalleeName(cc), "converters/utils.FindServicePort") {
				l := sliceLeaves(c.Env, cc.Args[1], 0)
				c.Check(leavesContain(l, ".Port") && strings.Contains(core.Key(cc.Args[0]), "GetService("), "createBackend resolves the backendRef's declared port in that service", at(c, s.Instr), "", "FindServicePort("+core.Key(cc.Args[0])+", "+leavesList(l)+")")
			}
			if strings.HasSuffix(core.CalleeName(cc), "converters/utils.CreateEndpoints") {
				c.Check(strings.Contains(core.Key(cc.Args[1]), "GetService(") && strings.Contains(core.Key(cc.Args[2]), "FindServicePort("), "createBackend takes the endpoints of that service and port", at(c, s.Instr), "", "CreateEndpoints("+core.Key(cc.Args[1])+", "+core.Key(cc.Args[2])+")")
			}
		}
		for _, a := range appendsTo(cb, "backends", func(a *ssa.Call) bool { return strings.Contains(a.Type().String(), "backend") && core.InnermostLoop(cb, a.Block()) != nil }) {
			ok := guardedBy(a, has(".Port == nil)"), false) && guardedBy(a, has("GetService(", "#1 != nil)"), false) && guardedBy(a, has("FindServicePort(", " == nil)"), false) && guardedBy(a, has("CreateEndpoints(", "#2 != nil)"), false)
			c.Check(ok, "a backendRef becomes servers only with a port, a service, a known port and readable endpoints", at(c, a), "", "the group is recorded without passing all four tests")
		}
	}
}

func init() {
	addRule("C10", &core.Rule{ID: "C10.parent-defaults", Floor: 3, Run: gwParentDefaults,
		Doc: "The group, kind and namespace a parentRef is resolved with are the parentRef's own value exactly when it sets a non-empty one, else the default (Gateway API group, kind Gateway, the route's namespace): the explicit value flows in only from the branch `field != nil && *field != \"\"`."})
}

// overrideEdgeGuarded: the phi named `name` takes a value whose key contains `from` only from a block guarded by both tests.
func overrideEdgeGuarded(fn *ssa.Function, name, from string, tests [2]string) (found, ok bool, detail string) {
	for _, b := range fn.Blocks {
		for _, in := range b.Instrs {
			ph, isPhi := in.(*ssa.Phi)
			if !isPhi {
				continue
			}
			if ph.Comment != name {
				// renamed: the variable is the phi that has an edge from the parentRef field
				has := false
				for _, e := range ph.Edges {
					if strings.HasSuffix(core.Key(e), from) {
						if _, carried := e.(*ssa.Phi); !carried {
							has = true
						}
					}
				}
				if !has {
					continue
				}
			}
			for i, e := range ph.Edges {
				if !strings.HasSuffix(core.Key(e), from) {
					continue
				}
				if _, loopCarried := e.(*ssa.Phi); loopCarried {
					continue
				}
				found = true
				g1, g2 := false, false
				for _, g := range core.ControllingEdges(b.Preds[i]) {
					k := core.StripVersion(core.Key(g.If.Cond))
					if strings.Contains(k, tests[0]) && g.Branch {
						g1 = true
					}
					if strings.Contains(k, tests[1]) && g.Branch {
						g2 = true
					}
				}
				ok = g1 && g2
				detail = fmt.Sprintf("`%s` under %s:%v %s:%v", core.Key(e), tests[0], g1, tests[1], g2)
			}
		}
	}
	return
}

func gwParentDefaults(c *core.Ctx) {
	fn := c.Fn("converters/gateway", "converter.syncRoute")
	if fn == nil {
		return
	}
	for _, x := range []struct{ v, field string }{{"parentGroup", "Group"}, {"parentKind", "Kind"}, {"namespace", "Namespace"}} {
		found, ok, detail := overrideEdgeGuarded(fn, x.v, "."+x.field, [2]string{"." + x.field + " != nil)", "." + x.field + ` != "")`})
		c.Check(found && ok, "syncRoute takes the parentRef's "+strings.ToLower(x.field)+" only when it sets a non-empty one", c.Pos(fn.Pos()), detail, "the explicit "+x.field+" is used "+detail+" (found: "+fmt.Sprint(found)+"): an explicit foreign value is ignored (the default attaches the route) or an empty one replaces the default")
	}
}

func init() {
	addRule("C15", &core.Rule{ID: "C15.gateway-cert", Floor: 4, Run: gwCert,
		Doc: "applyCertRef gives a gateway host the file and hash of the very certificate whose VerifyHostname accepted the host name (first loop), or of the first valid certificate when none matched (second loop, only for hosts still without hash); file and hash always come from the same certificate."})
}

func gwCert(c *core.Ctx) {
	fn := c.Fn("converters/gateway", "converter.applyCertRef")
	if fn == nil {
		return
	}
	type pair struct{ file, hash *ssa.Store }
	byBlock := map[*ssa.BasicBlock]*pair{}
	for _, st := range fieldStores(fn, false, "haproxy/types.TLSConfig", "TLSFilename") {
		if byBlock[st.Block()] == nil {
			byBlock[st.Block()] = &pair{}
		}
		byBlock[st.Block()].file = st
	}
	for _, st := range fieldStores(fn, false, "haproxy/types.TLSConfig", "TLSHash") {
		if byBlock[st.Block()] == nil {
			byBlock[st.Block()] = &pair{}
		}
		byBlock[st.Block()].hash = st
	}
	n := 0
	for _, p := range byBlock {
		n++
		if p.file == nil || p.hash == nil {
			var site ssa.Instruction
			if p.file != nil {
				site = p.file
			} else {
				site = p.hash
			}
			c.Violated("applyCertRef sets file and hash together", at(c, site), "a host gets a certificate file without its hash (or the reverse): the hash marks the host as assigned and drives in-place rotation")
			continue
		}
		kf, kh := core.Key(p.file.Val), core.Key(p.hash.Val)
		src := func(k string) string {
			if i := strings.LastIndex(k, "."); i >= 0 {
				return k[:i]
			}
			return k
		}
		role := "matching certificate"
		if strings.Contains(kf, "defaultCrtFile") || strings.Contains(kf, "phi{") {
			role = "first valid certificate"
		}
		c.Check(strings.HasSuffix(kf, ".Filename") && strings.HasSuffix(kh, ".SHA1Hash") && src(kf) == src(kh), "applyCertRef sets file and hash of one certificate: "+role, at(c, p.file), "", "file from `"+kf+"`, hash from `"+kh+"`")
		if role == "matching certificate" {
			c.Check(guardedBy(p.file, has("VerifyHostname(", " == nil)"), true), "applyCertRef assigns a certificate only to a host name it covers", at(c, p.file), "", "the assignment is not under VerifyHostname(host) == nil")
		} else {
			c.Check(guardedBy(p.file, has(`.TLSHash != "")`), false), "applyCertRef falls back only for hosts still without certificate", at(c, p.file), "", "the fallback overwrites hosts that already have a certificate")
		}
	}
	c.Check(n == 2, "applyCertRef assignment sites", c.Pos(fn.Pos()), "", fmt.Sprintf("%d (reviewed: matching and fallback)", n))
}

func init() {
	addRule("C16", &core.Rule{ID: "C16.rebalance-structure", Floor: 9, Run: rebalanceStructure,
		Doc: "Structure of RebalanceWeight around the (undecided) arithmetic: the replica lcm skips exactly the empty groups and nothing is rebalanced when all are empty; the scaled weights, their gcd, minimum and maximum range over the groups that have replicas and a non-zero weight; minimum/maximum are updated on `<`/`>` (first value when unset); nothing is rebalanced when all weights are zero; in the final pass the weight is divided by the overflow factor exactly when that factor exceeds 1 and written back to the group."})
}

func rebalanceStructure(c *core.Ctx) {
	fn := c.Fn("converters/utils", "RebalanceWeight")
	if fn == nil {
		return
	}
	lenZero := has(".Length == 0)")
	wZero := func(k string) bool { return strings.HasSuffix(k, ".Weight == 0)") }
	// 1. lcm accumulation
	for _, s := range core.CallsNamed(fn, false, "converters/utils.lcm") {
		c.Check(guardedBy(s.Instr, lenZero, false), "the replica lcm skips empty groups", at(c, s.Instr), "", "lcm is taken over a group with Length == 0 (division by zero inside lcm) or only over empty groups")
		c.Check(strings.HasSuffix(core.Key(s.Common().Args[1]), ".Length"), "the lcm is over replica counts", at(c, s.Instr), "", "second argument "+core.Key(s.Common().Args[1]))
	}
	// 2. gcd accumulation over scaled weights of non-empty, non-zero groups
	for _, s := range core.CallsNamed(fn, false, "converters/utils.gcd") {
		g1 := guardedBy(s.Instr, lenZero, false)
		g2 := guardedBy(s.Instr, wZero, false)
		c.Check(g1 && g2, "scaled weights are taken over groups with replicas and a non-zero weight", at(c, s.Instr), "", fmt.Sprintf("Length != 0 on the way: %v, Weight != 0 on the way: %v", g1, g2))
		k := core.Key(s.Common().Args[1])
		c.Check(strings.Contains(k, ".Weight * ") && strings.Contains(k, " / ") && strings.HasSuffix(k, ".Length)"), "the scaled weight is weight * lcm / replicas", at(c, s.Instr), "", "scaled weight is "+k)
	}
	// 3. early returns: lcmCount == 0 and gcd == 0
	nRet := 0
	for _, r := range core.Returns(fn) {
		gs := guardsOf(r)
		if len(gs) == 0 {
			continue
		}
		k := core.StripVersion(gs[0].Key)
		if strings.HasSuffix(k, " == 0)") && gs[0].Branch && strings.Contains(k, "phi{") {
			nRet++
		}
	}
	c.Check(nRet == 2, "nothing is rebalanced when all groups are empty or all weights are zero", c.Pos(fn.Pos()), "", fmt.Sprintf("%d early returns on an accumulator == 0 (reviewed: lcm and gcd)", nRet))
	// 4. min / max updates: phi edges fed by the scaled weight under < / >
	minOK, maxOK := false, false
	for _, b := range fn.Blocks {
		ifi, ok := b.Instrs[len(b.Instrs)-1].(*ssa.If)
		if !ok {
			continue
		}
		bo, ok := ifi.Cond.(*ssa.BinOp)
		if !ok {
			continue
		}
		kx, ky := core.Key(bo.X), core.Key(bo.Y)
		scaled := func(k string) bool { return strings.Contains(k, ".Weight * ") && strings.Contains(k, " / ") }
		_, yPhi := bo.Y.(*ssa.Phi)
		_ = ky
		if bo.Op.String() == "<" && scaled(kx) && yPhi {
			minOK = true
		}
		if bo.Op.String() == ">" && scaled(kx) && yPhi {
			maxOK = true
		}
	}
	// exact update conditions: the scaled weight flows into the min/max phi exactly from the block reached under the test
	var scaleLoop *core.Loop
	for _, s := range core.CallsNamed(fn, false, "converters/utils.gcd") {
		scaleLoop = core.InnermostLoop(fn, s.Instr.Block())
	}
	for _, b := range fn.Blocks {
		if scaleLoop == nil || !scaleLoop.Blocks[b] {
			continue
		}
		for _, in := range b.Instrs {
			ph, ok := in.(*ssa.Phi)
			if !ok || ph.Type().String() != "int" {
				continue
			}
			for i, e := range ph.Edges {
				ke := core.Key(e)
				if !(strings.Contains(ke, ".Weight * ") && strings.Contains(ke, " / ")) || strings.HasPrefix(ke, "phi{") {
					continue
				}
				if ph.Comment == "gcdClusterWeight" || strings.Contains(core.Key(ph), "utils.gcd(") {
					continue // the gcd accumulator takes the first scaled weight as is
				}
				pred := b.Preds[i]
				l := core.InnermostLoop(fn, pred)
				if l == nil || l.Body() == nil {
					continue
				}
				t := core.ExtractTableFrom(fn, l.Body(), func(bb *ssa.BasicBlock) bool { return l.Blocks[bb] && bb != l.Header })
				cond, okc := t.BlockCond(pred)
				if t.Err != "" || !okc {
					c.Undecided("min/max update condition", at(c, ph), "table: "+t.Err)
					continue
				}
				mm := matchers{
					"lenZero": has(".Length == 0)"), "wZero": func(k string) bool { return strings.HasSuffix(k, ".Weight == 0)") },
					"lt":     func(k string) bool { return strings.Contains(k, " < ") && !strings.HasSuffix(k, " < 0)") },
					"unset":  func(k string) bool { return strings.HasSuffix(k, " < 0)") },
					"gt":     func(k string) bool { return strings.Contains(k, " > ") && !strings.HasSuffix(k, " > 0)") && !strings.HasSuffix(k, " > 1)") },
					"gcdSet": func(k string) bool { return strings.HasSuffix(k, " > 0)") },
				}
				bd, _, dup := bindDeps(t, cond, mm)
				if dup != "" {
					c.Undecided("min/max update condition", at(c, ph), "ambiguous: "+dup)
					continue
				}
				isMin := cond.DependsOn(indexOfAtom(t, mm["lt"]))
				if isMin {
					ok, diff, _ := t.Compare(cond, bd, func(v map[string]bool) bool { return !v["lenZero"] && !v["wZero"] && (v["lt"] || v["unset"]) }, nil)
					c.Check(ok, "the minimum takes a scaled weight exactly when it is smaller or the minimum is unset", at(c, ph), "", diff)
				} else {
					ok, diff, _ := t.Compare(cond, bd, func(v map[string]bool) bool { return !v["lenZero"] && !v["wZero"] && v["gt"] }, nil)
					c.Check(ok, "the maximum takes a scaled weight exactly when it is greater", at(c, ph), "", diff)
				}
			}
		}
	}
	c.Check(minOK, "the minimum is lowered when a scaled weight is smaller", c.Pos(fn.Pos()), "", "no `clusterWeight < minWeight` test on the scaled weight")
	c.Check(maxOK, "the maximum is raised when a scaled weight is greater", c.Pos(fn.Pos()), "", "no `clusterWeight > maxWeight` test on the scaled weight")
	// 5. final stores: the overflow factor is the value compared with 1; only the overflowing branch divides by it
	var factor ssa.Value
	for _, b := range fn.Blocks {
		if ifi, ok := b.Instrs[len(b.Instrs)-1].(*ssa.If); ok {
			if bo, ok := ifi.Cond.(*ssa.BinOp); ok && bo.Op.String() == ">" && core.Key(bo.Y) == "1" {
				factor = bo.X
			}
		}
	}
	dividesByFactor := func(v ssa.Value) bool {
		found := false
		seen := map[ssa.Value]bool{}
		var walk func(x ssa.Value, d int)
		walk = func(x ssa.Value, d int) {
			if x == nil || seen[x] || d > 8 {
				return
			}
			seen[x] = true
			switch y := x.(type) {
			case *ssa.BinOp:
				if y.Op.String() == "/" && factor != nil && y.Y == factor {
					found = true
				}
				walk(y.X, d+1)
				walk(y.Y, d+1)
			case *ssa.Convert:
				walk(y.X, d+1)
			case *ssa.Phi:
				for _, e := range y.Edges {
					walk(e, d+1)
				}
			}
		}
		walk(v, 0)
		return found
	}
	var div, plain int
	for _, st := range fieldStores(fn, false, "converters/utils.WeightCluster", "Weight") {
		over := guardedBy(st, has(" > 1)"), true)
		notOver := guardedBy(st, has(" > 1)"), false)
		k := core.Key(st.Val)
		switch {
		case over:
			div++
			c.Check(dividesByFactor(st.Val), "an overflowing weight is divided by the overflow factor", at(c, st), "", "on the `factor > 1` branch the stored value `"+k+"` is not divided by the factor: weights above 256 are written")
			// the floor of 1 for a positive configured weight that rounds to zero
			floor := false
			if ph, ok := st.Val.(*ssa.Phi); ok {
				for i, e := range ph.Edges {
					if core.Key(e) == "1" {
						pred := ph.Block().Preds[i]
						g1, g2 := false, false
						for _, g := range core.ControllingEdges(pred) {
							kk := core.Key(g.If.Cond)
							if strings.HasSuffix(kk, " == 0)") && g.Branch {
								g1 = true
							}
							if strings.HasSuffix(kk, ".Weight > 0)") && g.Branch {
								g2 = true
							}
						}
						floor = g1 && g2
					}
				}
			}
			c.Check(floor, "a positive configured weight never rounds down to zero", at(c, st), "", "no `propWeight = 1` under `propWeight == 0 && cl.Weight > 0`: a group with a small share gets weight 0 and no traffic although its configured weight is not zero")
		case notOver:
			plain++
			c.Check(!dividesByFactor(st.Val), "a weight that fits is written as computed", at(c, st), "", "the value on the `factor <= 1` branch is divided by the factor (the branches are swapped)")
		default:
			c.Violated("final weight is chosen by the overflow factor", at(c, st), "a weight is written back outside both branches of `weightFactor > 1`")
		}
	}
	c.Check(div == 1 && plain == 1, "both branches write the group weight back", c.Pos(fn.Pos()), "", fmt.Sprintf("%d under factor > 1, %d otherwise", div, plain))
}

func indexOfAtom(t *core.Table, m func(string) bool) int {
	for i, a := range t.Atoms {
		if m(core.StripVersion(a)) {
			return i
		}
	}
	return -1
}

func init() {
	addRule("C07", &core.Rule{ID: "C07.backend-path-maps", Floor: 4, Run: backendPathMaps,
		Doc: "WriteBackendMaps gives every path of a backend that needs ACLs an entry `host path -> path id` (the id the backend's ACLs use): the key is the path's own host name (the <default> literal for default-host paths, in the default-host map), the value the path's own ID, the host path the one found by that path's link; both maps are stored on the backend."})
}

func backendPathMaps(c *core.Ctx) {
	fn := c.Fn("haproxy", "config.WriteBackendMaps")
	if fn == nil {
		return
	}
	n := 0
	for _, s := range core.CallsNamed(fn, false, "(*haproxy/types.HostsMap).AddHostnamePathMapping") {
		n++
		a := s.Common().Args // map, hostname, hostpath, value
		isDef := guardedBy(s.Instr, has("IsDefaultHost("), true)
		kind := map[bool]string{true: "default-host", false: "named-host"}[isDef]
		lv := sliceLeaves(c.Env, a[3], 0)
		c.Check(leavesContain(lv, ".ID") && (strings.HasSuffix(core.Key(a[3]), ".ID") || leavesContain(lv, "Paths[")), "the "+kind+" entry maps to the path's own id", at(c, s.Instr), "", "value "+core.Key(a[3]))
		if isDef {
			c.Check(core.IsConstString(a[1], "<default>") || strings.Contains(core.Key(a[1]), "DefaultHost"), "default-host paths are keyed by the <default> literal", at(c, s.Instr), "", "key "+core.Key(a[1]))
		} else {
			c.Check(strings.Contains(core.Key(a[1]), "Hostname("), "named-host paths are keyed by their host name", at(c, s.Instr), "", "key "+core.Key(a[1]))
			c.Check(guardedBy(s.Instr, has("IsDefaultHost("), false), "named-host entries exclude default-host paths", at(c, s.Instr), "", "not on the else branch")
		}
		c.Check(strings.Contains(core.Key(a[2]), "FindPathWithLink("), "the "+kind+" entry uses the host path found by this path's link", at(c, s.Instr), "", "host path "+core.Key(a[2]))
		c.Check(guardedBy(s.Instr, has("Backend).NeedACL("), true), "the "+kind+" entry exists when the backend needs ACLs", at(c, s.Instr), "", "not under NeedACL()")
	}
	c.Check(n == 2, "WriteBackendMaps entries", c.Pos(fn.Pos()), "", fmt.Sprint(n))
	for _, f := range []string{"PathsMap", "PathsDefaultHostMap"} {
		sts := fieldStores(fn, false, "haproxy/types.Backend", f)
		ok := len(sts) == 1 && strings.Contains(core.Key(sts[0].Val), "AddMap(")
		c.Check(ok, "Backend."+f+" receives the map that was filled", c.Pos(fn.Pos()), "", fmt.Sprintf("%d stores", len(sts)))
	}
}
