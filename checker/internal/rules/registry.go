// Package rules holds the per-property static rules (DESIGN §4).
package rules

import (
	"sort"

	"hapverif/internal/core"
)

var registry = map[string]*core.Property{}

func register(p *core.Property) { registry[p.ID] = p }

// Get returns a property by id.
func Get(id string) *core.Property { return registry[id] }

// IDs lists the registered property ids.
func IDs() []string {
	var ids []string
	for id := range registry {
		ids = append(ids, id)
	}
	sort.Strings(ids)
	return ids
}
