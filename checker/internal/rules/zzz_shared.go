package rules

import (
	"strings"

	"hapverif/internal/core"
)

// A rule is a necessary condition of every property whose behaviour passes through the construct it
// pins. The table below registers a rule that was written for one property under the other properties
// that rely on the same construct, with the reason the construct is necessary there. The rule's code
// and obligations are the same; only the rule id (prefix) changes.
//
// Rules with known findings (C01.acquire-tracked, C06.map-ranges, C12.commit-after-success,
// C19.global-exempt) are not shared: a known finding is listed for one rule id.
type sharedRule struct {
	from string
	to   []string
	why  string
}

var sharedRules = []sharedRule{
	{"C01.pretrack-covers", []string{"C03", "C06", "C15"},
		"an added or updated Ingress that claims a host, path or TLS secret another Ingress owns must force both to be re-parsed in creation order, otherwise the winner of the conflict depends on the order the events arrived in"},
	{"C07.strict-host-fallback", []string{"C03"},
		"the fallback chain (default host, default backend, 404) of a request that matches no rule"},
	{"C12.early-returns", []string{"C07", "C02"},
		"a map or crt-list file that a configuration line references must be written by the writers; an early return leaves a referenced file missing or stale"},
	{"C15.fallback", []string{"C09", "C01"},
		"addTLS resolves every (namespace, secret) through the cache on each call — a result memoised under a weaker key hands one namespace's certificate to another, and a partial sync would see a stale one"},
	{"C15.malformed", []string{"C09"},
		"the certificate reader validates what it read before handing out a file name"},
	{"C02.responses", []string{"C11", "C12"},
		"the accepted-response table of the runtime commands: accepting less reloads needlessly (C11), accepting more loses a failed update (C12)"},
	{"C02.responses-all", []string{"C11", "C12"},
		"every response of a multi-command exchange is examined"},
	{"C02.masks", []string{"C11", "C05"},
		"the set of backend fields the runtime API can change without rewriting the backend section"},
	{"C02.shrink-match", []string{"C11", "C01", "C03"},
		"the comparison that decides whether a re-parsed host or backend is unchanged: masking a field that matters keeps the old object (divergence, stale routing), comparing a masked field forces a reload"},
	{"C02.dyn-tables", []string{"C12", "C16"},
		"the decision tables of the dynamic update: a server whose weight or state differs is either updated through the socket or the backend is reloaded"},
	{"C02.cert-update", []string{"C15"},
		"a changed Secret reaches the running process through the certificate update commands or a reload"},
	{"C14.compose", []string{"C13", "C08"},
		"every accepted event enqueues a reconciliation request, unconditionally"},
	{"C14.handlers", []string{"C13", "C01"},
		"every watcher handler records the event and notifies the queue"},
	{"C14.add-del-lists", []string{"C01", "C08"},
		"an event is filed in the add, update or delete list its kind of change requires"},
	{"C14.reclass", []string{"C08"},
		"an Ingress that moves in or out of the controller's class is delivered as add or delete"},
	{"C01.merge-order", []string{"C15"},
		"the Ingresses of a partial sync are processed in one list sorted by creation time, so the first-created Ingress that declares a TLS host wins"},
	{"C06.lists-sorted", []string{"C15", "C03", "C01", "C10"},
		"the lists a converter iterates are sorted by creation time then name before use: first-created wins a duplicated host, path, or TLS declaration"},
	{"C03.drain", []string{"C16"},
		"a not-ready or terminating endpoint is added with weight zero"},
	{"C03.ready-split", []string{"C16"},
		"ready and not-ready endpoints are told apart before weights are assigned"},
	{"C03.terminating-filter", []string{"C16"},
		"terminating pods become weight-0 servers only under drain-support"},
	{"C16.zeroing", []string{"C03"},
		"a draining server keeps weight zero through the rebalance"},
	{"C12.error-exits", []string{"C05", "C02"},
		"a failed write is reported, so that 'successful update' implies every file was written"},
	{"C12.propagate", []string{"C05"},
		"errors of the writers reach the caller that decides whether to commit"},
	{"C01.tracker", []string{"C15", "C17", "C03"},
		"the tracker answers which hosts and backends depend on a changed Secret, Service or Ingress"},
	{"C05.commit-total", []string{"C01", "C02"},
		"commit resets every change-tracking field, so the next partial sync starts from the committed state"},
	{"C15.reader-exits", []string{"C09", "C01"},
		"the error exits of the secret readers: a missing, malformed or forbidden Secret is an error, not a file"},
	{"C15.reader-dispatch", []string{"C01"},
		"which reader of the cache serves which lookup"},
	{"C04.file-order", []string{"C03"},
		"the order in which map files are consulted implements 'exact first, then longest path'"},
	{"C04.key", []string{"C03", "C07"},
		"the key written to a map is host + path in the form the frontend looks up"},
	{"C04.priority", []string{"C03"},
		"the order of entries inside a map file"},
	{"C03.frontend-maps", []string{"C07", "C04"},
		"which map each kind of host rule is written to, and that its value names the backend"},
	{"C07.server-names", []string{"C02", "C11"},
		"runtime commands address a server slot by name; the name is unique in its backend"},
	{"C15.crt-list", []string{"C07", "C05", "C02"},
		"every certificate a bind line can select is an entry of the written crt-list"},
	{"C15.pem-always-written", []string{"C07", "C02"},
		"the certificate file a crt-list entry names is written"},
	{"C05.shard-loop-complete", []string{"C07", "C12"},
		"every backend is written to exactly one shard file"},
	{"C05.dirty-bit", []string{"C12", "C01"},
		"a changed backend or host marks its shard or map for rewriting"},
	{"C09.reader-ns", []string{"C15"},
		"a Secret of another namespace is refused before it is read (forbidden Secret falls back to the default certificate)"},
	{"C09.resolver", []string{"C15", "C18"},
		"resource names resolve to (namespace, name) with the cross-namespace verdict"},
	{"C11.order", []string{"C02", "C12"},
		"the update sequence: sync, shrink, runtime update, write, reload/commit"},
	{"C11.align", []string{"C16"},
		"slot alignment leaves empty slots disabled with weight zero"},
	{"C13.through-limiter", []string{"C12"},
		"a failed reload is retried through the same queue"},
	{"C17.tracked", []string{"C01"},
		"acme storages follow the tracker of Ingress and Secret changes"},
	{"C18.template", []string{"C07"},
		"the template emits the auth-request lines only with the names the model allocated"},
	{"C10.rule-binding", []string{"C16", "C03"},
		"each backendRef of a rule becomes a weighted group of servers of the rule's backend"},
	{"C08.decision", []string{"C14", "C01"},
		"the class decision is the only gate between an Ingress event and the batch"},
	{"C11.shrink-restore", []string{"C05", "C01", "C03", "C02"},
		"when an unchanged add/del pair is dropped the committed object is put back everywhere it is indexed (items and its shard): a later rewrite of the shard otherwise renders the discarded copy"},
	{"C11.match-cond", []string{"C05", "C01"},
		"which re-parsed backends and hosts count as unchanged"},
	{"C08.filter", []string{"C01", "C03"},
		"the converters read Ingresses only through the class filter"},
}

// Layer sharing. The controller is a pipeline: events -> batch (L1: C14) -> model (L2: converters; the
// partial-sync discipline is C01) -> files (L3: C05) -> running process (L4: C02/C11/C12). A property
// that is stated over "the configuration written / HAProxy would load" observes the output of L3, so
// every structural condition of L3 is a necessary condition of it: a shard or map that is not
// rewritten keeps serving the old routing, certificate, weight or snippet. Likewise a property
// quantified over histories observes the output of the partial sync (L2) and of the batching (L1).
// Authors of changes label a change with the property whose statement they see broken, not with the
// layer the change is in; the same rule therefore runs under every property downstream of its layer.
type layerShare struct {
	from   string
	to     []string
	why    string
	except map[string]bool // rule suffixes not shared (known findings are listed for one rule id)
}

var layerShares = []layerShare{
	{"C05", []string{"C01", "C03", "C04", "C06", "C07", "C08", "C09", "C10", "C15", "C16", "C18", "C19", "C12", "C02", "C11"},
		"L3, model to files: the property is observed in the files HAProxy loads; a file that is not rewritten when its part of the model changed keeps the old behaviour", nil},
	{"C01", []string{"C03", "C04", "C06", "C07", "C08", "C09", "C15", "C17", "C16", "C18", "C10", "C11", "C05", "C02", "C12", "C19"},
		"L2, partial sync: the property is quantified over histories (or the change was made through an incremental reconciliation); what a partial sync does not re-parse keeps the old behaviour",
		map[string]bool{".acquire-tracked": true}},
	{"C14", []string{"C01", "C08", "C15", "C17", "C03", "C13"},
		"L1, events to batch: an event that does not reach a batch is a change of the cluster the configuration never reflects", nil},
	{"C12", []string{"C02", "C05", "C11"},
		"L4, files to running process: failures of the update path are reported and retried",
		map[string]bool{".commit-after-success": true}},
	{"C02", []string{"C11", "C12", "C15", "C16"},
		"L4, runtime updates: what is applied through the socket equals what was written",
		nil},
}

func init() {
	defer func() {
		for _, ls := range layerShares {
			src := registry[ls.from]
			if src == nil {
				panic("layer share: unknown property " + ls.from)
			}
			rulesNow := append([]*core.Rule(nil), src.Rules...)
			for _, r := range rulesNow {
				suffix := strings.TrimPrefix(r.ID, ls.from)
				if ls.except[suffix] {
					continue
				}
				for _, p := range ls.to {
					dup := false
					for _, x := range registry[p].Rules {
						if x.ID == p+suffix {
							dup = true
						}
					}
					if dup {
						continue
					}
					doc := r.Doc
					if strings.HasPrefix(doc, "Shared with ") {
						if i := strings.Index(doc, "): "); i >= 0 {
							doc = doc[i+3:]
						}
					}
					addRule(p, &core.Rule{ID: p + suffix, Floor: r.Floor, Thorough: r.Thorough, Late: r.Late, Run: r.Run,
						Doc: "Shared with " + ls.from + " (" + ls.why + "): " + doc})
				}
			}
		}
	}()
	for _, s := range sharedRules {
		src := registry[s.from[:3]]
		var r *core.Rule
		if src != nil {
			for _, x := range src.Rules {
				if x.ID == s.from {
					r = x
				}
			}
		}
		if r == nil {
			panic("shared rule not found: " + s.from)
		}
		suffix := strings.TrimPrefix(s.from, s.from[:3])
		for _, p := range s.to {
			dup := false
			for _, x := range registry[p].Rules {
				if x.ID == p+suffix {
					dup = true
				}
			}
			if dup {
				continue
			}
			addRule(p, &core.Rule{ID: p + suffix, Floor: r.Floor, Thorough: r.Thorough, Late: r.Late, Run: r.Run,
				Doc: "Shared with " + s.from[:3] + " (" + s.why + "): " + r.Doc})
		}
	}
}
