package rules

import (
	"fmt"
	"strings"

	"golang.org/x/tools/go/callgraph"
	"golang.org/x/tools/go/ssa"

	"hapverif/internal/core"
)

func init() {
	register(&core.Property{
		ID:          "C14",
		Title:       "Every Kubernetes event lands in exactly one reconciliation batch",
		Explanation: "Static decision of the lock discipline and swap protocol that make the batch hand-over atomic: (1) every function that touches the batch accumulator (`watchers.ch`) or the `run` flag holds `watchers.mu` — it locks at entry with a deferred unlock, or every call-graph edge (VTA, field-sensitive for the handler closures) into it comes from a function that holds the lock; (2) getChangedObjects copies the accumulator and re-initialises it inside one critical section, and the fresh accumulator shares no slice or map with the one handed out — only the two ConfigMap data fields are carried, `New` if present else `Cur`; (3) each event handler records the typed change, the link and the description and notifies on every path; the ConfigMap handler stores the data of every accepted event; (4) Reconcile takes the batch exactly once per run.",
		NotDecided: []string{
			"interleavings as executions (the lock analysis is over the call graph, not over schedules)",
			"delivery guarantees of controller-runtime informers",
		},
		Assumptions: []string{
			"the VTA call graph over-approximates the callers of the handler closures; controller-runtime enters only through hdlr.Create/Update/Delete/Generic and the predicates",
			"sync.Mutex provides mutual exclusion",
		},
		Rules: []*core.Rule{
			{ID: "C14.guarded", Floor: 12, Run: c14Guarded,
				Doc: "Guarded-by: every access of watchers.ch / watchers.run is in a function that holds watchers.mu (lock function, or all its callers hold it; constructor exempt)."},
			{ID: "C14.swap", Floor: 4, Run: c14Swap,
				Doc: "getChangedObjects: lock function; the batch that is returned is read from w.ch before initCh() on every path; initCh installs a freshly allocated object; the fresh object receives from the old one nothing but the two ConfigMap `Cur` fields (sharing a slice/map would let later events leak into, or vanish from, the batch already handed out)."},
			{ID: "C14.carry", Floor: 4, Run: c14Carry,
				Doc: "initCh: GlobalConfigMapDataCur' = New if New != nil else Cur, same for the TCP ConfigMap; Links is a fresh map."},
			{ID: "C14.handlers", Floor: 8, Run: c14Handlers,
				Doc: "Create/Update/Delete lock, then call the typed callback (if any), compose and notify on all paths; compose appends to Links[h.res] and Objects; notify enqueues rate-limited on all paths and sets NeedFullSync iff h.full; the ConfigMap callback stores the data of each accepted event guarded only by the name match."},
			{ID: "C14.once", Floor: 1, Run: c14Once,
				Doc: "Reconcile calls getChangedObjects exactly once, outside any loop."},
		},
	})
}

func watchersField(v ssa.Value, field string) bool {
	o, f := core.FieldOf(v)
	return f == field && strings.HasSuffix(o, "controller/reconciler.watchers")
}

func c14Guarded(c *core.Ctx) {
	// functions needing the lock
	need := map[*ssa.Function][]ssa.Instruction{}
	for _, fn := range c.SrcFuncs() {
		if core.PkgOf(fn) != "controller/reconciler" {
			continue
		}
		for _, b := range fn.Blocks {
			for _, in := range b.Instrs {
				if fa, ok := in.(*ssa.FieldAddr); ok && (watchersField(fa, "ch") || watchersField(fa, "run")) {
					need[fn] = append(need[fn], in)
				}
			}
		}
	}
	cg := c.CallGraph()
	isLock := func(fn *ssa.Function) bool { return lockedAtEntry(fn, "watchers") }
	// constructor: allocates the watchers object itself
	isCtor := func(fn *ssa.Function) bool {
		for _, b := range fn.Blocks {
			for _, in := range b.Instrs {
				if al, ok := in.(*ssa.Alloc); ok && strings.HasSuffix(al.Type().String(), "controller/reconciler.watchers") {
					return true
				}
			}
		}
		return false
	}
	held := map[*ssa.Function]bool{}
	var holds func(fn *ssa.Function, depth int, stack map[*ssa.Function]bool) (bool, string)
	holds = func(fn *ssa.Function, depth int, stack map[*ssa.Function]bool) (bool, string) {
		if isLock(fn) {
			return true, "locks at entry"
		}
		if isCtor(fn) {
			return true, "constructor (object not yet shared)"
		}
		if held[fn] {
			return true, "all callers hold the lock"
		}
		if depth > 6 || stack[fn] {
			return false, "call chain too deep / recursive"
		}
		node := cg.Nodes[fn]
		if node == nil || len(node.In) == 0 {
			return false, "entry point without lock (no caller in the call graph)"
		}
		stack[fn] = true
		defer delete(stack, fn)
		var callers []string
		for _, e := range node.In {
			caller := e.Caller.Func
			if caller == nil || caller.Synthetic != "" && caller.Blocks == nil {
				continue
			}
			ok, why := holds(caller, depth+1, stack)
			if !ok {
				return false, "caller " + core.FuncName(caller) + ": " + why
			}
			callers = append(callers, core.FuncName(caller))
		}
		held[fn] = true
		return true, "callers hold the lock: " + strings.Join(dedup(callers), ", ")
	}
	for fn, sites := range need {
		c.Touch(fn)
		c.Sites(len(sites))
		ok, why := holds(fn, 0, map[*ssa.Function]bool{})
		c.Check(ok, core.FuncName(fn)+" accesses watchers.ch/run", c.Pos(fn.Pos()), why, "accumulator accessed without watchers.mu: "+why+" — an event can be lost or duplicated when a handler races with the batch swap")
	}
	_ = callgraph.Node{}
}

func dedup(s []string) []string {
	m := map[string]bool{}
	var out []string
	for _, x := range s {
		if !m[x] {
			m[x] = true
			out = append(out, x)
		}
	}
	return out
}

func c14Swap(c *core.Ctx) {
	get := c.Fn("controller/reconciler", "watchers.getChangedObjects")
	initCh := c.Fn("controller/reconciler", "watchers.initCh")
	if get == nil || initCh == nil {
		return
	}
	c.Check(lockedAtEntry(get, "watchers"), "getChangedObjects holds mu", c.Pos(get.Pos()), "locks at entry, unlock deferred", "getChangedObjects does not hold watchers.mu for its whole body")
	// reads of w.ch
	var reads []ssa.Instruction
	for _, b := range get.Blocks {
		for _, in := range b.Instrs {
			if u, ok := in.(*ssa.UnOp); ok && watchersField(u.X, "ch") {
				reads = append(reads, in)
			}
		}
	}
	isInit := func(in ssa.Instruction) bool {
		call, ok := in.(*ssa.Call)
		return ok && call.Call.StaticCallee() == initCh
	}
	if len(reads) == 0 {
		c.Violated("getChangedObjects reads w.ch", c.Pos(get.Pos()), "the accumulator is not read")
	}
	for _, r := range reads {
		// every path from the read to a return passes initCh
		w := core.MustFollow(get, r, isInit)
		c.Check(w == nil, "getChangedObjects: re-init after read", at(c, r), "initCh() follows the read of the accumulator on every path", "a path returns the accumulator without re-initialising it: the next batch would contain the same events again")
	}
	// no read of w.ch after initCh flows to the result
	for _, ret := range core.Returns(get) {
		res := core.Results(ret)[0]
		l := sliceLeaves(c.Env, res, 0)
		c.Check(leavesContain(l, "load:w.ch") || leavesContain(l, "field:w.ch"), "getChangedObjects: returns the accumulated batch", at(c, ret), "result derives from w.ch", "result does not derive from the accumulator: "+leavesList(l))
	}
	for _, r := range reads {
		w := core.PathQuery{Fn: get, Target: func(in ssa.Instruction) bool { return in == r }, Barrier: func(in ssa.Instruction) bool { return !isInit(in) && false }}.Find()
		_ = w
		// the read must not be after initCh
		after := false
		for _, b := range get.Blocks {
			for _, in := range b.Instrs {
				if isInit(in) {
					if core.Reaches(get, in, func(x ssa.Instruction) bool { return x == r }) != nil {
						after = true
					}
				}
			}
		}
		c.Check(!after, "getChangedObjects: read before re-init", at(c, r), "", "the accumulator is read after initCh(): the batch handed out is the empty one and the events are delivered twice or never")
	}
	// initCh: installs a fresh object
	sts := fieldStores(initCh, false, "controller/reconciler.watchers", "ch")
	okFresh := len(sts) == 1
	var fresh ssa.Value
	if okFresh {
		_, isAlloc := sts[0].Val.(*ssa.Alloc)
		okFresh = isAlloc
		fresh = sts[0].Val
	}
	c.Check(okFresh, "initCh installs a fresh accumulator", c.Pos(initCh.Pos()), "w.ch = new(ChangedObjects)", "initCh does not store exactly one freshly allocated object into w.ch")
	if fresh == nil {
		return
	}
	// every store into a field of the fresh object: value may derive from old w.ch only for the two Cur fields
	for _, b := range initCh.Blocks {
		for _, in := range b.Instrs {
			st, ok := in.(*ssa.Store)
			if !ok {
				continue
			}
			fa, ok := st.Addr.(*ssa.FieldAddr)
			if !ok {
				continue
			}
			base := fa.X
			if u, ok := base.(*ssa.UnOp); ok && watchersField(u.X, "ch") {
				// w.ch.Links = ... after installation
				base = fresh
			}
			if base != fresh {
				continue
			}
			_, field := core.FieldOf(fa)
			l := sliceLeaves(c.Env, st.Val, 0)
			fromOld := leavesContain(l, "w.ch.")
			okCarry := !fromOld || field == "GlobalConfigMapDataCur" || field == "TCPConfigMapDataCur"
			c.Check(okCarry, "initCh: fresh."+field, at(c, st), "not shared with the previous accumulator (or a ConfigMap Cur field)", "the fresh accumulator's "+field+" is built from the previous accumulator ("+leavesList(l)+"): the batch already handed out and the live accumulator share storage")
		}
	}
}

func c14Carry(c *core.Ctx) {
	initCh := c.Fn("controller/reconciler", "watchers.initCh")
	if initCh == nil {
		return
	}
	t := core.ExtractTable(initCh)
	for _, pre := range []string{"Global", "TCP"} {
		field := pre + "ConfigMapDataCur"
		sts := fieldStores(initCh, false, "converters/types.ChangedObjects", field)
		if len(sts) != 2 {
			c.Violated("initCh: "+field, c.Pos(initCh.Pos()), fmt.Sprintf("%d stores, expected 2 (from New, from Cur)", len(sts)))
			continue
		}
		m := matchers{"old": has("(w.ch != nil)"), "new": has("w.ch." + pre + "ConfigMapDataNew != nil")}
		for _, st := range sts {
			k := core.Key(st.Val)
			switch {
			case strings.HasSuffix(k, "w.ch."+pre+"ConfigMapDataNew"):
				condTable(c, "initCh: "+field+" <- New", t, st, m, func(v map[string]bool) bool { return v["old"] && v["new"] })
			case strings.HasSuffix(k, "w.ch."+pre+"ConfigMapDataCur"):
				condTable(c, "initCh: "+field+" <- Cur", t, st, m, func(v map[string]bool) bool { return v["old"] && !v["new"] })
			default:
				c.Violated("initCh: "+field, at(c, st), "carried value is `"+k+"`, expected the previous New or Cur of the same ConfigMap")
			}
		}
	}
	// Links fresh map
	sts := fieldStores(initCh, false, "converters/types.ChangedObjects", "Links")
	ok := len(sts) == 1
	if ok {
		_, isMake := core.Unwrap(sts[0].Val).(*ssa.MakeMap)
		ok = isMake
		if cond, has := t.InstrCond(sts[0]); has {
			ok = ok && cond.IsTrue()
		}
	}
	c.Check(ok, "initCh: Links", c.Pos(initCh.Pos()), "Links is a fresh map on every path", "Links is not unconditionally a fresh map")
}

func c14Handlers(c *core.Ctx) {
	compose := c.Fn("controller/reconciler", "hdlr.compose")
	notify := c.Fn("controller/reconciler", "hdlr.notify")
	if compose == nil || notify == nil {
		return
	}
	isCompose := func(in ssa.Instruction) bool {
		call, ok := in.(*ssa.Call)
		return ok && call.Call.StaticCallee() == compose
	}
	isNotify := func(in ssa.Instruction) bool {
		call, ok := in.(*ssa.Call)
		return ok && call.Call.StaticCallee() == notify
	}
	for _, m := range []struct{ name, cb string }{{"Create", "add"}, {"Update", "upd"}, {"Delete", "del"}} {
		fn := c.Fn("controller/reconciler", "hdlr."+m.name)
		if fn == nil {
			continue
		}
		key := "hdlr." + m.name
		c.Check(lockedAtEntry(fn, "watchers"), key+" holds mu", c.Pos(fn.Pos()), "locks at entry, unlock deferred", "handler does not hold watchers.mu for its whole body")
		w1 := core.MustPrecede(fn, isCompose, core.IsReturn)
		w2 := core.MustPrecede(fn, isNotify, core.IsReturn)
		c.Check(w1 == nil, key+" composes on all paths", c.Pos(fn.Pos()), "", "a path leaves the handler without recording the link and the description")
		c.Check(w2 == nil, key+" notifies on all paths", c.Pos(fn.Pos()), "", "a path leaves the handler without enqueueing a reconciliation")
		// typed callback is called when non-nil
		called := false
		for _, s := range core.Calls(fn, false) {
			if k := core.Key(s.Common().Value); strings.HasSuffix(k, "h."+m.cb) {
				called = guardedBy(s.Instr, has("h."+m.cb+" != nil"), true)
			}
		}
		c.Check(called, key+" calls the typed callback", c.Pos(fn.Pos()), "h."+m.cb+" is called when set", "the typed callback h."+m.cb+" is not called: typed lists (IngressesAdd/Upd/Del, ConfigMap data) miss the event")
	}
	// compose: Links[h.res] and Objects
	{
		okLinks, okObjs := false, false
		for _, b := range compose.Blocks {
			for _, in := range b.Instrs {
				switch x := in.(type) {
				case *ssa.MapUpdate:
					if strings.HasSuffix(core.Key(x.Map), ".ch.Links") && strings.HasSuffix(core.Key(x.Key), "h.res") {
						cond, _ := core.ExtractTable(compose).InstrCond(in)
						okLinks = cond.IsTrue()
					}
				case *ssa.Store:
					if _, f := core.FieldOf(x.Addr); f == "Objects" {
						cond, _ := core.ExtractTable(compose).InstrCond(in)
						okObjs = cond.IsTrue()
					}
				}
			}
		}
		c.Check(okLinks, "compose records the link", c.Pos(compose.Pos()), "Links[h.res] updated on every path", "compose does not unconditionally add the object to Links[h.res]")
		c.Check(okObjs, "compose records the description", c.Pos(compose.Pos()), "Objects updated on every path", "compose does not unconditionally add the change description")
	}
	// notify
	{
		isARL := func(in ssa.Instruction) bool {
			call, ok := in.(*ssa.Call)
			return ok && call.Call.IsInvoke() && call.Call.Method.Name() == "AddRateLimited"
		}
		w := core.MustPrecede(notify, isARL, core.IsReturn)
		c.Check(w == nil, "notify enqueues on all paths", c.Pos(notify.Pos()), "", "a path leaves notify without AddRateLimited")
		sts := fieldStores(notify, false, "converters/types.ChangedObjects", "NeedFullSync")
		ok := len(sts) == 1 && core.IsConstBool(sts[0].Val, true) && guardedBy(sts[0], has("h.full"), true)
		c.Check(ok, "notify: NeedFullSync iff h.full", c.Pos(notify.Pos()), "", "NeedFullSync is not set exactly under h.full")
		// the queue item carries h.full
		for _, b := range notify.Blocks {
			for _, in := range b.Instrs {
				if isARL(in) {
					l := sliceLeaves(c.Env, in.(*ssa.Call).Call.Args[0], 0)
					c.Check(leavesContain(l, "h.full"), "notify: item carries h.full", at(c, in), "", "the queue item does not carry h.full: "+leavesList(l))
				}
			}
		}
	}
	// ConfigMap callback: stores guarded only by the name comparison
	if core := c.Fn("controller/reconciler", "watchers.handlersCore"); core != nil {
		n := 0
		for _, a := range anonFuncs(core) {
			for _, f := range []string{"GlobalConfigMapDataNew", "TCPConfigMapDataNew"} {
				for _, st := range fieldStores(a, false, "converters/types.ChangedObjects", f) {
					n++
					bad := ""
					for _, g := range guardsOf(st) {
						if !strings.Contains(g.Key, "ConfigMapName") {
							bad = g.Key
						}
					}
					c.Check(bad == "" && strings.HasSuffix(coreKey(st.Val), ".Data"), "ConfigMap handler stores "+f, at(c, st), "stored for every accepted event of that ConfigMap", "the store is additionally guarded by `"+bad+"` or does not store the event's data: a later event's data can be dropped and an older value delivered as current")
				}
			}
		}
		if n < 2 {
			c.Violated("ConfigMap handler", c.Pos(core.Pos()), "stores of GlobalConfigMapDataNew/TCPConfigMapDataNew not found")
		}
	}
}

func coreKey(v ssa.Value) string { return core.Key(v) }

func c14Once(c *core.Ctx) {
	fn := c.Fn("controller/reconciler", "IngressReconciler.Reconcile")
	get := c.Env.Func("controller/reconciler", "watchers.getChangedObjects")
	if fn == nil || get == nil {
		return
	}
	var sites []ssa.Instruction
	for _, s := range core.Calls(fn, true) {
		if s.Common().StaticCallee() == get {
			sites = append(sites, s.Instr)
		}
	}
	ok := len(sites) == 1
	if ok {
		// not in a loop: the call cannot reach itself
		if core.Reaches(fn, sites[0], func(in ssa.Instruction) bool { return in == sites[0] }) != nil {
			ok = false
		}
	}
	c.Check(ok, "Reconcile takes the batch once", c.Pos(fn.Pos()), "exactly one call of getChangedObjects, outside loops", fmt.Sprintf("%d call sites of getChangedObjects (or inside a loop): a second batch taken in the same run is never reconciled", len(sites)))
	// all other callers of getChangedObjects
	n := 0
	for _, f := range c.SrcFuncs() {
		for _, s := range core.Calls(f, false) {
			if s.Common().StaticCallee() == get {
				n++
			}
		}
	}
	c.Check(n == 1, "getChangedObjects has one caller", c.Pos(get.Pos()), "", fmt.Sprintf("%d callers take batches", n))
}
