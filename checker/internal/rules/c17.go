package rules

import (
	"fmt"
	"strings"

	"golang.org/x/tools/go/ssa"

	"hapverif/internal/core"
)

func init() {
	register(&core.Property{
		ID:          "C17",
		Title:       "ACME: certificates requested exactly when needed, queue tracks Ingress changes",
		Explanation: "Static decision of the issuing decision and of the queue bookkeeping: (1) signer.verify calls Sign iff the secret cannot be read, or expires before now + the configured window, or does not cover every domain; `match` is an all-quantifier over the requested domains; (2) the secret is written only when certificate and key are both present, the error is reported otherwise; (3) add/remove of queue items happens only on the leader with an account, and the facade enqueues only on the leader; (4) the add and del lists are built after dropping unchanged add/del pairs, and a pair is dropped only when equal; (5) an acme storage acquired for an Ingress is linked to it and consumed by the partial sync; (6) acme is on for a tls block iff the tls-acme annotation (when tracked) is true or cert-signer is acme, and a storage is acquired only for a named secret.",
		NotDecided:  []string{"certificate time arithmetic at the boundary", "histories of the work queue"},
		Rules: []*core.Rule{
			{ID: "C17.verify", Floor: 3, Run: c17Verify, Doc: "verify: Sign iff errSecret != nil || NotAfter.Before(now+expiring) || !match(domains, crt); match returns false for the first uncovered domain and true only after all were covered."},
			{ID: "C17.store", Floor: 2, Run: c17Store, Doc: "SetTLSSecretContent only when crt != nil && key != nil; otherwise the sign error is returned."},
			{ID: "C17.leader", Floor: 4, Run: c17Leader, Doc: "AcmeUpdate is called only under svcleader.isLeader(); inside, adds/removes only under LeaderElector.IsLeader() and HasAccount; svcAcmeClient.Add/AddAfter enqueue only under isLeader()."},
			{ID: "C17.delta", Floor: 3, Run: c17Delta, Doc: "BuildAcmeStoragesAdd/Del call shrink() before building; shrink drops a name from both sets iff found && DeepEqual(add, del)."},
			{ID: "C17.tracked", Floor: 5, Run: c01AcquireTrackedBase, Doc: "Shared with C01: Storages().Acquire is followed by Ingress -> AcmeData tracking."},
			{ID: "C17.decl", Floor: 2, Run: c17Decl, Doc: "syncIngressHTTP: a storage is acquired iff (AcmeTrackTLSAnn && tls-acme true || cert-signer == acme) && SecretName != \"\"; its name is namespace/secretName and it receives the tls block's hosts."},
		},
	})
}

func c17Verify(c *core.Ctx) {
	fn := c.Fn("acme", "signer.verify")
	if fn != nil {
		t := core.ExtractTable(fn)
		var sign ssa.Instruction
		for _, s := range core.Calls(fn, false) {
			if s.Common().IsInvoke() && s.Common().Method.Name() == "Sign" {
				sign = s.Instr
			}
		}
		if sign == nil {
			c.Violated("verify signs", c.Pos(fn.Pos()), "no Sign call")
		} else if t.Err != "" {
			c.Undecided("verify decision", at(c, sign), t.Err)
		} else {
			cond, _ := t.InstrCond(sign)
			mVerify := matchers{
				"noSecret": has("GetTLSSecretContent(", "#1 != nil)"),
				"expiring": has("(time.Time).Before(", ".NotAfter", "(time.Time).Add(time.Now(), s.expiring)"),
				"covers":   has("acme.match("),
			}
			b, unbound, dup := bindDeps(t, cond, mVerify)
			if miss := missingBound(b, mVerify); len(miss) > 0 {
				c.Violated("verify decision", at(c, sign), fmt.Sprintf("the decision to sign does not depend on %v any more", miss))
			} else if dup != "" || len(unbound) > 0 {
				c.Violated("verify decision", at(c, sign), fmt.Sprintf("the decision to sign also depends on %v %s", unbound, dup))
			} else {
				ok, diff, _ := t.Compare(cond, b, func(v map[string]bool) bool { return v["noSecret"] || v["expiring"] || !v["covers"] }, nil)
				c.Check(ok, "verify decision", at(c, sign), "Sign iff secret unreadable || expiring within the window || a domain is not covered", diff)
			}
			// match receives the requested domains and the stored certificate
			for _, s := range core.Calls(fn, false) {
				if strings.HasSuffix(core.CalleeName(s.Common()), "acme.match") {
					a := s.Common().Args
					c.Check(core.Key(a[0]) == "domains" && strings.HasSuffix(core.Key(a[1]), ".Crt"), "verify matches the requested domains against the stored certificate", at(c, s.Instr), "", "match(`"+core.Key(a[0])+"`, `"+core.Key(a[1])+"`)")
				}
			}
			// Sign receives the domains
			call := sign.(*ssa.Call)
			c.Check(core.Key(call.Call.Args[0]) == "domains", "verify signs the requested domains", at(c, sign), "", "Sign(`"+core.Key(call.Call.Args[0])+"`)")
		}
	}
	if m := c.Fn("acme", "match"); m != nil {
		okFalse, okTrue := false, true
		n := 0
		for _, ret := range core.Returns(m) {
			n++
			v := core.Results(ret)[0]
			switch {
			case core.IsConstBool(v, false):
				// reached only where VerifyHostname failed
				for _, g := range guardsOf(ret) {
					k := g.Key
					neg := false
					for strings.HasPrefix(k, "!") {
						k = k[1:]
						neg = !neg
					}
					if strings.Contains(k, "VerifyHostname(") && strings.HasSuffix(k, "== nil)") && (g.Branch == neg) {
						okFalse = true
					}
					if strings.Contains(k, "VerifyHostname(") && strings.HasSuffix(k, "!= nil)") && (g.Branch != neg) {
						okFalse = true
					}
				}
			case core.IsConstBool(v, true):
			default:
				okTrue = false
			}
		}
		c.Check(okFalse && okTrue && n >= 2, "match is an all-quantifier over the domains", c.Pos(m.Pos()), "false at the first uncovered domain, true only after the loop", "match does not return false for every uncovered domain (its result is not the constant true after a loop that returns false on the first miss): a certificate that covers only some of the domains is taken as sufficient and never re-issued")
		// the loop ranges over the domains argument
		l := false
		for _, b := range m.Blocks {
			for _, in := range b.Instrs {
				if call, ok := in.(*ssa.Call); ok && core.CalleeName(&call.Call) == "builtin:len" && core.Key(call.Call.Args[0]) == "domains" {
					l = true
				}
			}
		}
		c.Check(l, "match ranges over the requested domains", c.Pos(m.Pos()), "", "no loop over `domains`")
	}
}

func c17Store(c *core.Ctx) {
	fn := c.Fn("acme", "signer.verify")
	if fn == nil {
		return
	}
	t := core.ExtractTable(fn)
	for _, s := range core.Calls(fn, false) {
		if s.Common().IsInvoke() && s.Common().Method.Name() == "SetTLSSecretContent" {
			if t.Err != "" {
				c.Undecided("verify stores", at(c, s.Instr), t.Err)
				continue
			}
			cond, _ := t.InstrCond(s.Instr)
			b, _, _ := bindDeps(t, cond, matchers{"crt": has("Sign(", "#0 != nil)"), "key": has("Sign(", "#1 != nil)")})
			ok, diff, _ := t.Compare(cond, b, func(v map[string]bool) bool { return false }, func(v map[string]bool) bool { return !(v["crt"] && v["key"]) })
			n := 0
			for _, nm := range b.Names {
				if nm != "" {
					n++
				}
			}
			c.Check(ok && n == 2, "the secret is written only with certificate and key", at(c, s.Instr), "", "SetTLSSecretContent is reachable without both a certificate and a key: "+diff)
			a := s.Common().Args
			c.Check(core.Key(a[0]) == "secretName" && strings.HasSuffix(core.Key(a[1]), "#0") && strings.HasSuffix(core.Key(a[2]), "#1"), "the issued pair is stored under the requested secret", at(c, s.Instr), "", "arguments: "+core.Key(a[0]))
		}
	}
	// the result is the sign/store error: every return value derives from Sign#2 / SetTLSSecretContent or nil
	for _, ret := range core.Returns(fn) {
		l := sliceLeaves(c.Env, core.Results(ret)[0], 0)
		c.Check(leavesContain(l, "Sign#2") && leavesContain(l, "SetTLSSecretContent"), "verify reports the signing/storing error", at(c, ret), "", "result does not carry the sign and store errors: "+leavesList(l))
	}
}

func c17Leader(c *core.Ctx) {
	if fn := c.Fn("controller/services", "Services.ReconcileIngress"); fn != nil {
		for _, s := range core.Calls(fn, false) {
			if s.Common().IsInvoke() && s.Common().Method.Name() == "AcmeUpdate" {
				c.Check(guardedBy(s.Instr, has("svcLeader).isLeader("), true), "AcmeUpdate runs on the leader only", at(c, s.Instr), "", "AcmeUpdate is not guarded by svcleader.isLeader()")
			}
		}
	}
	if fn := c.Fn("haproxy", "instance.AcmeUpdate"); fn != nil {
		n := 0
		for _, s := range core.Calls(fn, false) {
			cn := core.CalleeName(s.Common())
			if strings.HasSuffix(cn, "instance).acmeAddStorage") || strings.HasSuffix(cn, "instance).acmeRemoveStorage") {
				n++
				okL := guardedBy(s.Instr, has(".IsLeader()"), true)
				okA := guardedBy(s.Instr, has("acmeEnsureConfig("), true)
				c.Check(okL && okA, "AcmeUpdate "+cn[strings.LastIndex(cn, ".")+1:]+" under leader and account", at(c, s.Instr), "", "queue is changed without being the leader or without an account")
			}
		}
		c.Check(n == 2, "AcmeUpdate adds and removes", c.Pos(fn.Pos()), "", fmt.Sprintf("%d add/remove calls", n))
		// adds come from BuildAcmeStoragesAdd, removes from BuildAcmeStoragesDel
		for _, s := range core.Calls(fn, false) {
			cn := core.CalleeName(s.Common())
			if strings.HasSuffix(cn, "instance).acmeAddStorage") {
				l := sliceLeaves(c.Env, s.Common().Args[1], 0)
				c.Check(leavesContain(l, "BuildAcmeStoragesAdd") && !leavesContain(l, "BuildAcmeStoragesDel"), "adds are the added storages", at(c, s.Instr), "", leavesList(l))
			}
			if strings.HasSuffix(cn, "instance).acmeRemoveStorage") {
				l := sliceLeaves(c.Env, s.Common().Args[1], 0)
				c.Check(leavesContain(l, "BuildAcmeStoragesDel") && !leavesContain(l, "BuildAcmeStoragesAdd"), "removes are the deleted storages", at(c, s.Instr), "", leavesList(l))
			}
		}
	}
	for _, n := range []string{"svcAcmeClient.Add", "svcAcmeClient.AddAfter"} {
		if fn := c.Fn("controller/services", n); fn != nil {
			for _, s := range core.Calls(fn, false) {
				if s.Common().IsInvoke() && (s.Common().Method.Name() == "Add" || s.Common().Method.Name() == "AddAfter") {
					c.Check(guardedBy(s.Instr, has("svcLeader).isLeader("), true), n+" enqueues on the leader only", at(c, s.Instr), "", "non-leaders enqueue certificates")
				}
			}
		}
	}
}

func c17Delta(c *core.Ctx) {
	shrink := c.Env.Func("haproxy/types", "AcmeStorages.shrink")
	for _, n := range []string{"AcmeStorages.BuildAcmeStoragesAdd", "AcmeStorages.BuildAcmeStoragesDel"} {
		fn := c.Fn("haproxy/types", n)
		if fn == nil {
			continue
		}
		var build ssa.Instruction
		for _, s := range core.Calls(fn, false) {
			if strings.HasSuffix(core.CalleeName(s.Common()), "buildAcmeStorages") {
				build = s.Instr
			}
		}
		if build == nil {
			c.Violated(n+" builds the list", c.Pos(fn.Pos()), "no buildAcmeStorages call")
			continue
		}
		w := core.MustPrecede(fn, staticCallTo(shrink), func(in ssa.Instruction) bool { return in == build })
		c.Check(w == nil && shrink != nil, n+" shrinks first", at(c, build), "", "the list is built without dropping unchanged add/del pairs first: an Ingress re-parsed without change re-enqueues (or removes) its certificate")
		want := "itemsAdd"
		if strings.HasSuffix(n, "Del") {
			want = "itemsDel"
		}
		c.Check(strings.HasSuffix(core.Key(build.(*ssa.Call).Call.Args[0]), "."+want), n+" lists "+want, at(c, build), "", "built from `"+core.Key(build.(*ssa.Call).Call.Args[0])+"`")
	}
	if shrink != nil {
		c.Touch(shrink)
		t := core.ExtractTable(shrink)
		var del ssa.Instruction
		for _, o := range mapOpsOn(shrink, "haproxy/types.AcmeStorages") {
			if o.field == "itemsAdd" && !o.insert {
				del = o.in
			}
		}
		if del == nil || t.Err != "" {
			c.Undecided("AcmeStorages.shrink", c.Pos(shrink.Pos()), "delete from itemsAdd not found")
			return
		}
		b, err := t.Bind(matchers{"found": has("c.itemsAdd[", ",ok#1"), "equal": has("reflect.DeepEqual(")})
		if err != nil {
			c.Undecided("AcmeStorages.shrink", at(c, del), err.Error())
			return
		}
		cond, _ := t.InstrCond(del)
		ok, diff, _ := compareIgnoringLoop(t, cond, b, func(v map[string]bool) bool { return v["found"] && v["equal"] })
		c.Check(ok, "AcmeStorages.shrink drops equal pairs only", at(c, del), "", diff)
	}
}

func c17Decl(c *core.Ctx) {
	fn := c.Fn("converters/ingress", "converter.syncIngressHTTP")
	if fn == nil {
		return
	}
	var acq *ssa.Call
	for _, s := range core.Calls(fn, false) {
		if strings.HasSuffix(core.CalleeName(s.Common()), "AcmeStorages).Acquire") {
			acq, _ = s.Instr.(*ssa.Call)
		}
	}
	if acq == nil {
		c.Violated("syncIngressHTTP acquires acme storages", c.Pos(fn.Pos()), "no Storages().Acquire call")
		return
	}
	// region: from the block that tests AcmeTrackTLSAnn
	var root *ssa.BasicBlock
	for d := acq.Block(); d != nil; d = d.Idom() {
		if ifi, ok := d.Instrs[len(d.Instrs)-1].(*ssa.If); ok && strings.HasSuffix(core.Key(ifi.Cond), "options.AcmeTrackTLSAnn") {
			root = d
		}
	}
	if root == nil {
		c.Undecided("acme declaration condition", at(c, acq), "the AcmeTrackTLSAnn test was not found")
		return
	}
	t := core.ExtractTableFrom(fn, root, core.DominatedBy(root))
	if t.Err != "" {
		c.Undecided("acme declaration condition", at(c, acq), t.Err)
		return
	}
	cond, ok := t.InstrCond(acq)
	if !ok {
		c.Undecided("acme declaration condition", at(c, acq), "not in region")
		return
	}
	mDecl := matchers{
		"track":  func(k string) bool { return strings.HasSuffix(k, "options.AcmeTrackTLSAnn") },
		"ann":    has("strconv.ParseBool(", `"kubernetes.io/tls-acme"`, "#0"),
		"signer": has(`strings.ToLower(annHost["cert-signer"]`, `== "acme")`),
		"named":  has(`.SecretName != "")`),
	}
	b, unbound, dup := bindDeps(t, cond, mDecl)
	if miss := missingBound(b, mDecl); len(miss) > 0 {
		c.Violated("acme declaration condition", at(c, acq), fmt.Sprintf("the declaration does not depend on %v any more", miss))
		return
	}
	if dup != "" || len(unbound) > 0 {
		c.Violated("acme declaration condition", at(c, acq), fmt.Sprintf("also depends on %v %s", unbound, dup))
		return
	}
	good, diff, _ := t.Compare(cond, b, func(v map[string]bool) bool { return (v["track"] && v["ann"] || v["signer"]) && v["named"] }, nil)
	c.Check(good, "acme declaration condition", at(c, acq), "storage acquired iff (tracked tls-acme annotation true || cert-signer acme) && secret named", diff)
	// name and domains
	k := core.Key(acq.Call.Args[1])
	c.Check(strings.Contains(k, `.Namespace + "/")`) && strings.HasSuffix(k, ".SecretName)"), "acme storage is named namespace/secretName", at(c, acq), "", "storage name is `"+k+"`")
	okDom := false
	for _, s := range core.Calls(fn, false) {
		if strings.HasSuffix(core.CalleeName(s.Common()), "AcmeCerts).AddDomains") {
			okDom = s.Common().Args[0] == ssa.Value(acq) && strings.HasSuffix(core.Key(s.Common().Args[1]), ".Hosts")
		}
	}
	c.Check(okDom, "acme storage receives the tls block's hosts", at(c, acq), "", "AddDomains(tls.Hosts) on the acquired storage not found")
}
