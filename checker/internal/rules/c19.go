package rules

import (
	"fmt"
	"go/ast"
	"go/constant"
	"go/types"
	"strings"

	"golang.org/x/tools/go/ssa"

	"hapverif/internal/core"
)

func init() {
	register(&core.Property{
		ID:          "C19",
		Title:       "Disabled snippet keywords never reach the configuration through annotations",
		Explanation: "Static decision of the filter's structure: (1) the lines stored into Backend.CustomConfig are the very value the keyword scan ranged over; (2) the store is reachable only after the loop over all disabled keywords completed, `*` returns before it from any position in the list, a first-token hit returns before it, an empty keyword only skips itself; (3) no other annotation-fed writer of Backend.CustomConfig exists; (4) firstToken skips and stops on the same constant table of ASCII blanks, which contains at least space, tab, CR, LF, VT and FF; (5) the template prints CustomConfig lines of backends verbatim (nothing else feeds raw annotation text into a backend section).",
		NotDecided: []string{
			"every spelling of a first token (a statement about all strings); mixed-case keywords are compared case-sensitively as documented",
			"the clause `snippets from the global ConfigMap are unaffected`: the code filters them too — recorded as a known finding (documentation/code mismatch in the safe direction, pinned by TestCustomConfig)",
		},
		Rules: []*core.Rule{
			{ID: "C19.same-value", Floor: 1, Run: c19SameValue, Doc: "The slice stored into Backend.CustomConfig is the slice the keyword scan iterates."},
			{ID: "C19.scan-complete", Floor: 3, Run: c19ScanComplete, Doc: "Every path to the store has left the loop over DisableKeywords through its exhaustion edge; inside the loop `*` and a first-token match return; the only `continue` is for the empty keyword."},
			{ID: "C19.one-writer", Floor: 1, Run: c19OneWriter, Doc: "Writers of Backend.CustomConfig: buildBackendCustomConfig and the internal auth backend (constant-prefixed line); nothing else."},
			{ID: "C19.token", Floor: 3, Run: c19Token, Doc: "firstToken: skip loop and stop loop test the same table; the table marks exactly the ASCII blanks (space, \\t, \\n, \\v, \\f, \\r) with the value the stop loop compares against."},
			{ID: "C19.global-exempt", Floor: 1, Run: c19GlobalExempt, Doc: "Documentation says global ConfigMap snippets are unaffected; the filter must not be applied when the value has no Source."},
		},
	})
}

func c19SameValue(c *core.Ctx) {
	fn := c.Fn("converters/ingress/annotations", "updater.buildBackendCustomConfig")
	if fn == nil {
		return
	}
	sts := fieldStores(fn, false, "haproxy/types.Backend", "CustomConfig")
	if len(sts) != 1 {
		c.Violated("buildBackendCustomConfig stores CustomConfig", c.Pos(fn.Pos()), fmt.Sprintf("%d stores, expected 1", len(sts)))
		return
	}
	st := sts[0]
	// the value ranged over in the scan: the operand of the firstToken call derives from indexing it
	var scanned ssa.Value
	for _, s := range core.Calls(fn, false) {
		if strings.HasSuffix(core.CalleeName(s.Common()), ".firstToken") {
			a := s.Common().Args[0]
			if u, ok := a.(*ssa.UnOp); ok {
				if ia, ok := u.X.(*ssa.IndexAddr); ok {
					scanned = ia.X
				}
			}
			if ix, ok := a.(*ssa.Index); ok {
				scanned = ix.X
			}
		}
	}
	if scanned == nil {
		c.Violated("buildBackendCustomConfig scans the snippet", c.Pos(fn.Pos()), "no firstToken(line) over a slice found: the snippet is not scanned")
		return
	}
	c.Check(st.Val == scanned, "buildBackendCustomConfig stores what it scanned", at(c, st), "stored value is the scanned slice: "+core.Key(scanned),
		"stored value `"+core.Key(st.Val)+"` is not the scanned value `"+core.Key(scanned)+"`: lines that were never checked reach the configuration")
	// and the scanned value derives from the annotation value through LineToSlice only
	l := sliceLeaves(c.Env, scanned, 0)
	c.Check(leavesContain(l, "utils.LineToSlice") && leavesContain(l, `"config-backend"`), "scanned value is the config-backend snippet", at(c, st), "", "scanned value does not derive from the config-backend key: "+leavesList(l))
}

func c19ScanComplete(c *core.Ctx) {
	fn := c.Fn("converters/ingress/annotations", "updater.buildBackendCustomConfig")
	if fn == nil {
		return
	}
	sts := fieldStores(fn, false, "haproxy/types.Backend", "CustomConfig")
	if len(sts) != 1 {
		return
	}
	st := sts[0]
	// the outer loop: rangeindex over options.DisableKeywords
	var hdr *ssa.BasicBlock
	var lenKw ssa.Value
	for _, b := range fn.Blocks {
		for _, in := range b.Instrs {
			if call, ok := in.(*ssa.Call); ok && core.CalleeName(&call.Call) == "builtin:len" && strings.HasSuffix(core.Key(call.Call.Args[0]), ".DisableKeywords") {
				lenKw = call
			}
		}
	}
	if lenKw == nil {
		c.Violated("loop over DisableKeywords", c.Pos(fn.Pos()), "no loop over options.DisableKeywords found")
		return
	}
	var loopIf *ssa.If
	for _, b := range fn.Blocks {
		if ifi, ok := b.Instrs[len(b.Instrs)-1].(*ssa.If); ok {
			if bo, ok := ifi.Cond.(*ssa.BinOp); ok && bo.Y == lenKw {
				loopIf = ifi
				hdr = b
			}
		}
	}
	if loopIf == nil {
		c.Violated("loop over DisableKeywords", c.Pos(fn.Pos()), "loop condition not found")
		return
	}
	// every path from entry to the store takes the exhaustion (false) edge of the loop condition
	w := core.PathQuery{Fn: fn, Target: func(in ssa.Instruction) bool { return in == ssa.Instruction(st) }, EdgeOK: func(from *ssa.BasicBlock, succ int) bool {
		return !(from == hdr && succ == 1)
	}}.Find()
	c.Check(w == nil, "store only after the keyword loop is exhausted", at(c, st), "", "the store is reachable without finishing the loop over all disabled keywords: "+w.Describe(c.Env))
	// inside the loop: `*` returns
	t := core.ExtractTable(fn)
	_ = t
	star, hit, empty := false, false, false
	for _, b := range fn.Blocks {
		ifi, ok := b.Instrs[len(b.Instrs)-1].(*ssa.If)
		if !ok || !hdr.Dominates(b) {
			continue
		}
		k := core.Key(ifi.Cond)
		switch {
		case strings.HasSuffix(k, `== "*")`) && strings.Contains(k, ".DisableKeywords["):
			// true edge reaches a return without reaching the store or the loop header
			r := core.PathQuery{Fn: fn, Start: ifi, Target: func(in ssa.Instruction) bool { return in == ssa.Instruction(st) || in.Block() == hdr }, EdgeOK: func(from *ssa.BasicBlock, succ int) bool {
				return !(from == b && succ == 1)
			}}.Find()
			star = r == nil
		case strings.Contains(k, ".firstToken(") && strings.Contains(k, " == ") && strings.Contains(k, ".DisableKeywords["):
			r := core.PathQuery{Fn: fn, Start: ifi, Target: func(in ssa.Instruction) bool { return in == ssa.Instruction(st) || in.Block() == hdr }, EdgeOK: func(from *ssa.BasicBlock, succ int) bool {
				return !(from == b && succ == 1)
			}}.Find()
			hit = r == nil
		case strings.HasSuffix(k, `== "")`) && strings.Contains(k, ".DisableKeywords["):
			// the empty keyword skips itself only: true edge goes back to the loop header
			empty = b.Succs[0] == hdr || len(b.Succs[0].Succs) == 1 && b.Succs[0].Succs[0] == hdr
		}
	}
	c.Check(star, "`*` drops every annotation snippet", c.Pos(fn.Pos()), "a `*` keyword at any position returns before the store", "no `keyword == \"*\"` test inside the keyword loop whose true edge returns before the store: `*` at a later position of the list is not honoured")
	c.Check(hit, "a first-token match drops the snippet", c.Pos(fn.Pos()), "firstToken(line) == keyword returns before the store", "no first-token comparison inside the loop whose true edge returns before the store")
	c.Check(empty, "an empty keyword only skips itself", c.Pos(fn.Pos()), "", "the empty-keyword test does not continue with the next keyword")
	// every line of the snippet is compared with every (non-empty) keyword: inside the line loop the
	// comparison lies on every path to the next line, and inside the keyword loop the line loop lies on
	// every path to the next keyword except the empty-keyword skip.
	var testBlk, emptyBlk *ssa.BasicBlock
	for _, b := range fn.Blocks {
		ifi, ok := b.Instrs[len(b.Instrs)-1].(*ssa.If)
		if !ok || !hdr.Dominates(b) {
			continue
		}
		k := core.Key(ifi.Cond)
		switch {
		case strings.Contains(k, ".firstToken(") && strings.Contains(k, " == ") && strings.Contains(k, ".DisableKeywords["):
			testBlk = b
		case strings.HasSuffix(k, `== "")`) && strings.Contains(k, ".DisableKeywords["):
			emptyBlk = b
		}
	}
	if testBlk == nil {
		return
	}
	inner := core.InnermostLoop(fn, testBlk)
	var outer *core.Loop
	for _, l := range core.Loops(fn) {
		if l.Header == hdr {
			outer = l
		}
	}
	if inner == nil || outer == nil || inner.Header == hdr {
		c.Violated("every line is compared with every keyword", c.Pos(fn.Pos()), "the first-token comparison is not inside a loop over the lines nested in the loop over the keywords")
		return
	}
	ok := true
	detail := ""
	for _, l := range inner.Latch {
		if !testBlk.Dominates(l) {
			ok = false
			detail = "inside the loop over the lines a path reaches the next line without passing the first-token comparison (" + at(c, l.Instrs[len(l.Instrs)-1]) + "): some lines are not checked"
		}
	}
	for b := range inner.Blocks {
		if b == inner.Header {
			continue
		}
		for _, sx := range b.Succs {
			if !inner.Blocks[sx] && outer.Blocks[sx] {
				ok = false
				detail = "the loop over the lines is left before its last line and the scan continues with the next keyword"
			}
		}
	}
	if w := (core.PathQuery{Fn: fn, Start: hdr.Instrs[len(hdr.Instrs)-1], Target: func(in ssa.Instruction) bool {
		for _, l := range outer.Latch {
			if l == emptyBlk && l.Succs[0] == hdr && l.Succs[1] != hdr {
				continue // the empty-keyword skip itself
			}
			if in == l.Instrs[len(l.Instrs)-1] {
				return true
			}
		}
		return false
	}, Barrier: func(in ssa.Instruction) bool { return in.Block() == inner.Header }, EdgeOK: func(from *ssa.BasicBlock, succ int) bool {
		if from == hdr && succ == 1 {
			return false
		}
		return !(emptyBlk != nil && from == emptyBlk && succ == 0)
	}}).Find(); w != nil && ok {
		ok = false
		detail = "a keyword is skipped without scanning the lines (other than the empty keyword): " + w.Describe(c.Env)
	}
	c.Check(ok, "every line is compared with every keyword", c.Pos(fn.Pos()), "the comparison dominates every continuation of the line loop; the line loop is on every path to the next keyword but the empty-keyword skip", detail)
}

func c19OneWriter(c *core.Ctx) {
	ws := writersOf(c.Env, "haproxy/types.Backend", "CustomConfig")
	allowed := map[string]string{
		"(*converters/ingress/annotations.updater).buildBackendCustomConfig": "the filter",
		"(*haproxy/types.Backends).AcquireAuthBackend":                       "internal auth backend: constant-prefixed line",
	}
	var bad []string
	for f := range ws {
		if strings.Contains(f, "helper_test") {
			continue
		}
		if _, ok := allowed[f]; !ok {
			bad = append(bad, f)
		}
	}
	c.Check(len(bad) == 0 && len(ws) > 0, "writers of Backend.CustomConfig", "", "only the filter and the internal auth backend", "other writers feed lines into backend sections: "+strings.Join(bad, ", "))
	// the auth backend's line starts with a constant
	if fn := c.Env.Func("haproxy/types", "Backends.AcquireAuthBackend"); fn != nil {
		for _, st := range fieldStores(fn, false, "haproxy/types.Backend", "CustomConfig") {
			l := sliceLeaves(c.Env, st.Val, 0)
			c.Check(!leavesContain(l, ".Value"), "AcquireAuthBackend line is not annotation text", at(c, st), "", "derives from a config value: "+leavesList(l))
		}
	}
}

func c19Token(c *core.Ctx) {
	fn := c.Fn("converters/ingress/annotations", "firstToken")
	if fn == nil {
		return
	}
	// the two loops index the same global table (identified by role, not by name)
	var conds []string
	tables := map[string]bool{}
	for _, b := range fn.Blocks {
		if ifi, ok := b.Instrs[len(b.Instrs)-1].(*ssa.If); ok {
			bo, ok := ifi.Cond.(*ssa.BinOp)
			if !ok {
				continue
			}
			if u, ok := bo.X.(*ssa.UnOp); ok {
				if ia, ok := u.X.(*ssa.IndexAddr); ok {
					if g, ok := ia.X.(*ssa.Global); ok {
						tables[g.Name()] = true
						conds = append(conds, core.Key(ifi.Cond))
					}
				}
			}
		}
	}
	tableName := ""
	for n := range tables {
		tableName = n
	}
	okSkip, okStop := false, false
	for _, k := range conds {
		if strings.HasSuffix(k, "== 0)") {
			okSkip = true
		}
		if strings.HasSuffix(k, "== 1)") {
			okStop = true
		}
	}
	c.Check(okSkip && okStop && len(conds) == 2 && len(tables) == 1, "firstToken uses one blank table for skipping and stopping", c.Pos(fn.Pos()), strings.Join(conds, " ; "), "expected `table[c] == 0` to end the skip loop and `table[c] == 1` to end the token, on one constant table; found: "+strings.Join(conds, " ; "))
	// the table: constant composite literal in the syntax
	p := c.Pkg("converters/ingress/annotations")
	found := false
	for _, f := range p.Syntax {
		ast.Inspect(f, func(n ast.Node) bool {
			vs, ok := n.(*ast.ValueSpec)
			if !ok || len(vs.Names) != 1 || vs.Names[0].Name != tableName || len(vs.Values) != 1 {
				return true
			}
			cl, ok := vs.Values[0].(*ast.CompositeLit)
			if !ok {
				return true
			}
			found = true
			got := map[int64]int64{}
			for _, el := range cl.Elts {
				kv, ok := el.(*ast.KeyValueExpr)
				if !ok {
					continue
				}
				kt, vt := p.TypesInfo.Types[kv.Key], p.TypesInfo.Types[kv.Value]
				if kt.Value == nil || vt.Value == nil {
					continue
				}
				ki, _ := constant.Int64Val(constant.ToInt(kt.Value))
				vi, _ := constant.Int64Val(constant.ToInt(vt.Value))
				got[ki] = vi
			}
			want := []int64{' ', '\t', '\n', '\v', '\f', '\r'}
			var missing []string
			for _, w := range want {
				if got[w] != 1 {
					missing = append(missing, fmt.Sprintf("%q", rune(w)))
				}
			}
			c.Check(len(missing) == 0, "blank table covers the ASCII blanks", c.Pos(vs.Pos()), "space, \\t, \\n, \\v, \\f, \\r are marked 1", "not marked as blank: "+strings.Join(missing, " ")+" — a keyword preceded by that character is not recognised as the first token while HAProxy still splits on it")
			extra := 0
			for k, v := range got {
				isWant := false
				for _, w := range want {
					if k == w {
						isWant = true
					}
				}
				if !isWant && v != 0 {
					extra++
				}
			}
			c.Check(extra == 0, "blank table marks nothing else", c.Pos(vs.Pos()), "", "characters other than ASCII blanks are treated as separators")
			return false
		})
	}
	if !found {
		c.Violated("blank table", c.Pos(fn.Pos()), "firstToken does not classify characters through a constant table: its notion of blank cannot be established as covering the ASCII blanks")
	}
	_ = types.Typ
}

func c19GlobalExempt(c *core.Ctx) {
	fn := c.Fn("converters/ingress/annotations", "updater.buildBackendCustomConfig")
	if fn == nil {
		return
	}
	sts := fieldStores(fn, false, "haproxy/types.Backend", "CustomConfig")
	if len(sts) != 1 {
		return
	}
	// is there a path to the store that bypasses the keyword loop when config.Source == nil?
	bypass := false
	for _, b := range fn.Blocks {
		if ifi, ok := b.Instrs[len(b.Instrs)-1].(*ssa.If); ok {
			k := core.Key(ifi.Cond)
			if strings.Contains(k, `"config-backend").Source`) && strings.Contains(k, "nil") {
				// does either edge reach the store without entering the keyword loop?
				for succ := 0; succ < 2; succ++ {
					s := succ
					w := core.PathQuery{Fn: fn, Start: ifi, Target: func(in ssa.Instruction) bool { return in == ssa.Instruction(sts[0]) },
						Barrier: func(in ssa.Instruction) bool {
							call, ok := in.(*ssa.Call)
							return ok && core.CalleeName(&call.Call) == "builtin:len" && strings.HasSuffix(core.Key(call.Call.Args[0]), ".DisableKeywords")
						},
						EdgeOK: func(from *ssa.BasicBlock, sc int) bool { return !(from == b && sc != s) }}.Find()
					if w != nil {
						bypass = true
					}
				}
			}
		}
	}
	c.Check(bypass, "global ConfigMap snippet is exempt from the keyword filter", c.Pos(fn.Pos()), "a value without Source bypasses the scan", "the global ConfigMap's config-backend snippet goes through the same keyword scan as annotation snippets, although the documentation (command-line.md, --disable-config-keywords) says it is unaffected")
}
