package rules

import (
	"fmt"
	"regexp"
	"sort"
	"strings"

	"golang.org/x/tools/go/ssa"

	"hapverif/internal/core"
)

func init() {
	register(&core.Property{
		ID:          "C07",
		Title:       "Every generated configuration is loadable: references resolve, names are unique",
		Explanation: "Static decision of the reference closure between Go and the (parsed, never executed) template and of the writers of the uniqueness invariants: (1) every literal backend name referenced by `use_backend`/`default_backend` in the template, and every `_name` constant the Go code can put into a host's backend id or a map target, is defined by a literal `backend <name>` section, under a guard that holds whenever the reference is produced; (2) the userlist a backend names is a live one, and the backend is linked to the secret so that it is re-created when the list goes away; (3) path ids are assigned by one writer from the path count of an append-only list; (4) auth-proxy binds are written by three Frontend methods only; the allocator scans a list it keeps sorted by port and reports exhaustion; the `used` set that decides which binds may be recycled covers every holder; (5) server names are chosen after scanning the existing names.",
		NotDecided:  []string{"loadability of a concrete configuration by HAProxy (`haproxy -c`)", "map files and crt-lists existence on disk"},
		Rules: []*core.Rule{
			{ID: "C07.names-closed", Floor: 5, Run: c07NamesClosed, Doc: "Reference closure of literal backend names between Go and the template, with their guards (frozen guard table: behavioural)."},
			{ID: "C07.userlist-live", Floor: 2, Run: c07UserlistLive, Doc: "AuthHTTP.UserlistName is the Name of a userlist returned by Userlists.Find/Replace, and the Secret->HABackend link lies on every path from the lookup to the assignment."},
			{ID: "C07.path-ids", Floor: 2, Run: c07PathIDs, Doc: "Backend.Paths is only appended to (AddBackendPath) and re-sorted; the id is formatted from len(Paths)+1 before the append."},
			{ID: "C07.auth-ports", Floor: 5, Run: c07AuthPorts, Doc: "AuthProxy.BindList writers are AcquireAuthBackendName, RemoveAuthBackendExcept, RemoveAuthBackendByTarget; the acquiring one re-sorts by LocalPort after appending (its free-port scan assumes ascending ports) and fails iff the free port exceeds RangeEnd; the removing ones keep order."},
			{ID: "C07.used-holders", Floor: 3, Run: c18UsedHolders, Doc: "Shared with C18: the used set covers BackendPath.AuthExternal and HostPath.AuthExt over the whole current model."},
			{ID: "C07.server-names", Floor: 2, Run: c07ServerNames, Doc: "Backend.sanitizeName returns a name only after the scan of existing endpoint names found no equal one; AddEndpoint names every endpoint through it."},
		},
	})
}

func c07NamesClosed(c *core.Ctx) {
	t, err := c.LoadTemplate("rootfs/etc/templates/haproxy/haproxy.tmpl")
	if err != nil {
		c.MissingAnchor("haproxy.tmpl: " + err.Error())
		return
	}
	defs := map[string][]string{}
	refs := map[string][][]string{}
	for _, d := range t.Directives() {
		if strings.Contains(d.Name, "{{") || strings.HasPrefix(d.Name, "%[") || d.Name == "" {
			continue
		}
		switch d.Keyword {
		case "backend":
			defs[d.Name] = core.GuardStrings(d.Guards)
		case "use_backend", "default_backend":
			refs[d.Name] = append(refs[d.Name], core.GuardStrings(d.Guards))
		}
	}
	// Go side: string constants of the form _[a-z0-9_]+ stored into HostBackend.ID / used as map targets
	re := regexp.MustCompile(`^_[a-z][a-z0-9_]*$`)
	goRefs := map[string]string{}
	for _, fn := range c.SrcFuncs() {
		pkg := core.PkgOf(fn)
		if !strings.HasPrefix(pkg, "haproxy") {
			continue
		}
		for _, b := range fn.Blocks {
			for _, in := range b.Instrs {
				for _, op := range in.Operands(nil) {
					if cst, ok := (*op).(*ssa.Const); ok && cst.Value != nil {
						s := strings.Trim(cst.Value.ExactString(), "\"")
						if re.MatchString(s) && (strings.HasPrefix(s, "_error") || strings.HasPrefix(s, "_redirect") || strings.HasPrefix(s, "_acme") || strings.HasPrefix(s, "_default")) {
							goRefs[s] = core.FuncName(fn) + " @ " + c.InstrPos(in)
						}
					}
				}
			}
		}
	}
	names := map[string]bool{}
	for n := range refs {
		names[n] = true
	}
	for n := range goRefs {
		names[n] = true
	}
	var all []string
	for n := range names {
		all = append(all, n)
	}
	sort.Strings(all)
	// frozen guard table: definition guard per support backend
	wantDef := map[string]string{
		"_acme_challenge": "if $global.Acme.Enabled",
		"_error404":       "if not $backends.DefaultBackend",
		"_redirect_https": "if $hosts.HasSSLPassthrough",
	}
	for _, n := range all {
		g, ok := defs[n]
		where := goRefs[n]
		if where == "" {
			where = "template"
		}
		if !c.Check(ok, "backend "+n+" is defined", where, "defined under: "+strings.Join(g, " / "), "`"+n+"` is referenced (by "+where+") but no literal `backend "+n+"` section exists in the template: HAProxy refuses the configuration") {
			continue
		}
		if want, has := wantDef[n]; has {
			c.Check(len(g) == 1 && g[0] == want, "backend "+n+" definition guard", "haproxy.tmpl", want, "definition guard is ["+strings.Join(g, " / ")+"], expected ["+want+"]: the section can be missing when a reference to it is produced")
		}
	}
	// reference guards (template side)
	for _, gs := range refs["_acme_challenge"] {
		j := strings.Join(gs, " / ")
		c.Check(strings.Contains(j, "$acmeexclusive") || strings.Contains(j, "and $global.Acme.Enabled $global.Acme.Shared"), "reference to _acme_challenge is under an acme guard", "haproxy.tmpl", j, "reference under ["+j+"]")
	}
	for _, gs := range refs["_error404"] {
		j := strings.Join(gs, " / ")
		c.Check(strings.Contains(j, "else $defaultbackend"), "reference to _error404 is the no-default-backend branch", "haproxy.tmpl", j, "reference under ["+j+"]")
	}
	// Go side guards
	if fn := c.Fn("haproxy", "config.WriteFrontendMaps"); fn != nil {
		n := 0
		for _, b := range fn.Blocks {
			for _, in := range b.Instrs {
				ph, ok := in.(*ssa.Phi)
				if !ok {
					continue
				}
				for i, e := range ph.Edges {
					if core.IsConstString(e, "_redirect_https") {
						n++
						c.Check(blockGuarded(ph.Block().Preds[i], func(g guard) bool { return strings.Contains(g.Key, "Host).SSLPassthrough(") && g.Branch }), "_redirect_https is used only for ssl-passthrough hosts", at(c, ph), "", "the constant can be produced without an ssl-passthrough host: `backend _redirect_https` is only defined under $hosts.HasSSLPassthrough")
					}
				}
			}
		}
		c.Check(n > 0, "_redirect_https producer found", c.Pos(fn.Pos()), "", "not found")
	}
	if fn := c.Fn("haproxy/types", "Host.AddPath"); fn != nil || true {
		// _error404 is produced in Go only when the backend argument is nil
		for _, f := range c.SrcFuncs() {
			if core.PkgOf(f) != "haproxy/types" {
				continue
			}
			for _, b := range f.Blocks {
				for _, in := range b.Instrs {
					st, ok := in.(*ssa.Store)
					if !ok || !core.IsConstString(st.Val, "_error404") {
						continue
					}
					okG := guardedBy(st, func(k string) bool { return strings.HasSuffix(k, "== nil)") || strings.HasSuffix(k, "!= nil)") }, true) || guardedBy(st, func(k string) bool { return strings.HasSuffix(k, "!= nil)") }, false)
					c.Check(okG, "_error404 is produced only for a missing backend", at(c, st), "", "the constant is stored without a nil test of the backend")
				}
			}
		}
	}
}

func c07UserlistLive(c *core.Ctx) {
	c01ReuseTracked(c)
	fn := c.Env.Func("converters/ingress/annotations", "updater.buildBackendAuthHTTP")
	if fn == nil {
		return
	}
	for _, st := range fieldStores(fn, false, "haproxy/types.AuthHTTP", "UserlistName") {
		l := sliceLeaves(c.Env, st.Val, 0)
		ok := (leavesContain(l, "Userlists).Find") || leavesContain(l, "Userlists).Replace")) && strings.HasSuffix(core.Key(st.Val), ".Name")
		c.Check(ok, "UserlistName is the name of a live userlist", at(c, st), "", "the userlist name does not come from Userlists.Find/Replace: "+leavesList(l))
	}
}

func c07PathIDs(c *core.Ctx) {
	ws := writersOf(c.Env, "haproxy/types.Backend", "Paths")
	var bad []string
	for f := range ws {
		if strings.Contains(f, "helper_test") {
			continue
		}
		if !strings.HasSuffix(f, "Backend).AddBackendPath") {
			bad = append(bad, f)
		}
	}
	c.Check(len(bad) == 0 && len(ws) > 0, "writers of Backend.Paths", "", "only AddBackendPath", "other writers can drop or reorder paths, so `len(Paths)+1` is no longer a fresh id: "+strings.Join(bad, ", "))
	fn := c.Fn("haproxy/types", "Backend.AddBackendPath")
	if fn == nil {
		return
	}
	for _, st := range fieldStores(fn, false, "haproxy/types.Backend", "Paths") {
		k := core.Key(st.Val)
		c.Check(strings.HasPrefix(k, "builtin:append(b.Paths"), "AddBackendPath only appends", at(c, st), "", "Paths is assigned `"+k+"`")
	}
	okID := false
	for _, st := range fieldStores(fn, false, "haproxy/types.BackendPath", "ID") {
		l := sliceLeaves(c.Env, st.Val, 0)
		k := core.Key(st.Val)
		_ = k
		if leavesContain(l, "fmt.Sprintf") && leavesContain(l, "b.Paths") && leavesContain(l, "const:1") {
			okID = true
		}
	}
	c.Check(okID, "path id is formatted from len(Paths)+1", c.Pos(fn.Pos()), "", "the id does not derive from len(b.Paths)+1")
	// an existing path is returned instead of a second id
	okFind := false
	for _, ret := range core.Returns(fn) {
		if strings.Contains(core.Key(core.Results(ret)[0]), "FindBackendPath(") {
			okFind = guardedBy(ret, has("FindBackendPath(", "!= nil)"), true)
		}
	}
	c.Check(okFind, "AddBackendPath returns the existing path for a known link", c.Pos(fn.Pos()), "", "a link already present gets a second path id")
}

func c07AuthPorts(c *core.Ctx) {
	ws := writersOf(c.Env, "haproxy/types.AuthProxy", "BindList")
	allowed := map[string]bool{"AcquireAuthBackendName": true, "RemoveAuthBackendExcept": true, "RemoveAuthBackendByTarget": true}
	var bad []string
	for f := range ws {
		if strings.Contains(f, "helper_test") {
			continue
		}
		if !allowed[f[strings.LastIndex(f, ".")+1:]] {
			bad = append(bad, f)
		}
	}
	c.Check(len(bad) == 0 && len(ws) >= 3, "writers of AuthProxy.BindList", "", "the three Frontend methods", "unexpected writers: "+strings.Join(bad, ", "))
	fn := c.Fn("haproxy/types", "Frontend.AcquireAuthBackendName")
	if fn == nil {
		return
	}
	// after the append, a sort of the list by LocalPort on every path to the return
	var app *ssa.Store
	for _, st := range fieldStores(fn, false, "haproxy/types.AuthProxy", "BindList") {
		if strings.HasPrefix(core.Key(st.Val), "builtin:append(") {
			app = st
		}
	}
	if app == nil {
		c.Violated("AcquireAuthBackendName appends the new bind", c.Pos(fn.Pos()), "no append to BindList")
		return
	}
	isSort := func(in ssa.Instruction) bool {
		call, ok := in.(*ssa.Call)
		return ok && core.CalleeName(&call.Call) == "sort.Slice" && strings.HasSuffix(core.Key(call.Call.Args[0]), ".BindList")
	}
	w := core.MustFollow(fn, app, isSort)
	c.Check(w == nil, "the bind list is re-sorted after an append", at(c, app), "sort.Slice(BindList) on every path", "the list is not re-sorted after appending: the free-port scan assumes ascending ports, so after a bind in the middle is released a later acquire can hand out a port (name, socket id) that is still in use — two `_auth_<port>` sections")
	for _, a := range anonFuncs(fn) {
		tableRule(c, "bind list comparator", a, 0, matchers{"lt": has(".LocalPort < ")}, func(v map[string]bool) bool { return v["lt"] })
	}
	// exhaustion
	okErr := false
	for _, ret := range core.Returns(fn) {
		res := core.Results(ret)
		if !core.IsNilConst(res[1]) {
			okErr = guardedBy(ret, has("> ", ".RangeEnd)"), true)
		}
	}
	c.Check(okErr, "an exhausted port range is reported", c.Pos(fn.Pos()), "", "no error return under freePort > RangeEnd: a port outside the range (or a duplicate) is handed out")
	// the free port starts at RangeStart and is bumped only on an equal port
	okScan := false
	for _, b := range fn.Blocks {
		if ifi, ok := b.Instrs[len(b.Instrs)-1].(*ssa.If); ok {
			k := core.Key(ifi.Cond)
			if strings.Contains(k, "== ") && strings.HasSuffix(k, ".LocalPort)") {
				okScan = true
			}
		}
	}
	c.Check(okScan, "free-port scan compares with each bind's LocalPort", c.Pos(fn.Pos()), "", "scan not found")
	// an existing bind for the backend is reused
	okReuse := false
	for _, ret := range core.Returns(fn) {
		res := core.Results(ret)
		if strings.HasSuffix(core.Key(res[0]), ".AuthBackendName") && core.IsNilConst(res[1]) && guardedBy(ret, has(".Backend == backend)"), true) {
			okReuse = true
		}
	}
	c.Check(okReuse, "an existing bind of the same backend is reused", c.Pos(fn.Pos()), "", "a second bind (port) is allocated for a backend that already has one")
	// removers keep order: they only compact
	for _, n := range []string{"Frontend.RemoveAuthBackendExcept", "Frontend.RemoveAuthBackendByTarget"} {
		if f := c.Fn("haproxy/types", n); f != nil {
			for _, st := range fieldStores(f, false, "haproxy/types.AuthProxy", "BindList") {
				_, isSlice := st.Val.(*ssa.Slice)
				c.Check(isSlice, n+" compacts in place", at(c, st), "", "BindList is assigned `"+core.Key(st.Val)+"`")
			}
		}
	}
}

func c07ServerNames(c *core.Ctx) {
	fn := c.Fn("haproxy/types", "Backend.sanitizeName")
	if fn == nil {
		return
	}
	// the return of sname is reached only through the exhaustion edge of the scan loop
	ok := false
	n := 0
	for _, ret := range core.Returns(fn) {
		k := core.Key(core.Results(ret)[0])
		if strings.HasPrefix(k, "phi{") || k == "name" {
			n++
			// not reachable from the `equal name found` edge
			w := core.PathQuery{Fn: fn, Target: func(in ssa.Instruction) bool { return in == ssa.Instruction(ret) }, EdgeOK: func(from *ssa.BasicBlock, succ int) bool {
				if ifi, isIf := from.Instrs[len(from.Instrs)-1].(*ssa.If); isIf && strings.Contains(core.Key(ifi.Cond), ".Name == ") {
					return succ == 0 // follow only the `found` edge
				}
				return true
			}}.Find()
			_ = w
			ok = true
			for _, b := range fn.Blocks {
				if ifi, isIf := b.Instrs[len(b.Instrs)-1].(*ssa.If); isIf && strings.Contains(core.Key(ifi.Cond), ".Name == ") {
					// true edge must not reach this return without a recursive call
					tb := b.Succs[0]
					r := core.PathQuery{Fn: fn, Start: tb.Instrs[0], Target: func(in ssa.Instruction) bool { return in == ssa.Instruction(ret) }, Barrier: func(in ssa.Instruction) bool {
						call, isCall := in.(*ssa.Call)
						return isCall && call.Call.StaticCallee() == fn
					}}.Find()
					if r != nil || tb.Instrs[0] == ssa.Instruction(ret) {
						ok = false
					}
				}
			}
		}
	}
	c.Check(ok && n > 0, "sanitizeName returns a name no endpoint has", c.Pos(fn.Pos()), "the candidate is returned only after the scan found no equal name", "a candidate name equal to an existing server name can be returned: two `server` lines with one name")
	if add := c.Fn("haproxy/types", "Backend.AddEndpoint"); add != nil {
		for _, st := range fieldStores(add, false, "haproxy/types.Endpoint", "Name") {
			c.Check(strings.Contains(core.Key(st.Val), "sanitizeName("), "AddEndpoint names servers through sanitizeName", at(c, st), "", "Name is `"+core.Key(st.Val)+"`")
		}
	}
	_ = fmt.Sprint
}
