package rules

import (
	"fmt"
	"strings"

	"golang.org/x/tools/go/ssa"

	"hapverif/internal/core"
)

// specIsValidIngress is written from the property statement and
// docs/content/en/docs/configuration/keys.md#class-matter, not from the code.
func specIsValidIngress(v map[string]bool) bool {
	var fromAnn bool
	if v["watch"] {
		fromAnn = !v["hasAnn"] || v["annEq"]
	} else {
		fromAnn = v["hasAnn"] && v["annEq"]
	}
	fromClass := v["hasClass"] && v["classFound"] && v["classOurs"]
	if v["hasAnn"] {
		if v["hasClass"] && fromAnn != fromClass && v["precedence"] {
			return fromClass
		}
		return fromAnn
	}
	if v["hasClass"] {
		return fromClass
	}
	return fromAnn
}

var isValidIngressAtoms = matchers{
	"watch":      has("WatchIngressWithoutClass"),
	"hasAnn":     has(`Annotations["kubernetes.io/ingress.class"],ok#1`, "~=="),
	"annEq":      has(`Annotations["kubernetes.io/ingress.class"],ok#0 == `, ".IngressClass)"),
	"hasClass":   has("(ing.Spec.IngressClassName != nil)"),
	"classFound": has("GetIngressClass(", "#0 != nil)", "~IsValidIngressClass"),
	"classOurs":  has("IsValidIngressClass(", "GetIngressClass(", "#0)"),
	"precedence": has("IngressClassPrecedence"),
}

func init() {
	register(&core.Property{
		ID:          "C08",
		Title:       "Only Ingresses classified for this controller are ever configured",
		Explanation: "Static decision of the class-selection mechanism: (1) the complete truth table of IsValidIngress, in the new and the legacy controller, extracted from SSA by a forward dataflow over the Boolean algebra of its conditions, equals the documented class rules on all rows; (2) the cache getters hand an Ingress to the converters only on the valid edge; (3) the Ingress watcher reclassifies updates as add/update/delete by the validity of the old and new object and its predicates pass an event iff the documented validity holds; (4) every kind read by the validity decision (IngressClass) forces a full sync, because an Ingress that is not valid has no tracking link to be found by a partial sync; (5) the converter obtains Ingress objects only from the filtered getters and the watcher lists.",
		NotDecided: []string{
			"histories on a live API server (informer re-lists, resync periods)",
			"that removing everything an Ingress added works for every history — that part is C01's tracking completeness",
		},
		Assumptions: []string{
			"go/ssa models the source faithfully; conditions of the decision are independent atoms (an over-approximation: extra rows can only make the comparison fail)",
			"controller-runtime calls the predicates before the handlers and delivers events as documented",
		},
		Rules: []*core.Rule{
			{ID: "C08.decision", Floor: 2, Run: c08Decision,
				Doc: "IsValidIngress (new and legacy controller) must implement exactly: annotation equals our class (or, with --watch-ingress-without-class, is absent) / ingressClassName names an existing IngressClass of this controller; annotation wins a disagreement unless --ingress-class-precedence. Compared on all 2^8 rows. A single flipped operator selects foreign Ingresses or drops ours only for one combination of flags that no test row covers."},
			{ID: "C08.class-table", Floor: 2, Run: c08ClassTable,
				Doc: "IsValidIngressClass is `class.Spec.Controller == configured controller name`, nothing else."},
			{ID: "C08.filter", Floor: 3, Run: c08Filter,
				Doc: "GetIngress returns the object without error only on the valid edge of IsValidIngress; GetIngressList stores an element into its result only on the valid edge."},
			{ID: "C08.watch-table", Floor: 5, Run: c08WatchTable,
				Doc: "Ingress watcher: an update is recorded as Upd iff old and new are valid, as Add (new object) iff only new is valid, as Del (old object) iff only old is valid; Create/Delete predicates pass iff the object is valid, Update iff old or new is valid. Dropping the old-object test loses the removal of an Ingress that leaves the class."},
			{ID: "C08.validity-deps", Floor: 1, Run: c08ValidityDeps,
				Doc: "Every watched kind read inside IsValidIngress (today: IngressClass through GetIngressClass) must have a watcher that forces a full sync: an Ingress that was not valid has no tracking link, so a partial sync cannot find it when the class appears or changes owner."},
			{ID: "C08.sources", Floor: 3, Run: c08Sources,
				Doc: "syncIngress is reached only with Ingress values that come from GetIngressList, GetIngress (nil-error edge) or the watcher's Add list; the partial sync skips an Ingress whose GetIngress fails."},
		},
	})
}

func c08Decision(c *core.Ctx) {
	if fn := c.Fn("controller/services", "c.IsValidIngress"); fn != nil {
		tableRule(c, "controller/services.(*c).IsValidIngress", fn, 0, isValidIngressAtoms, specIsValidIngress)
	}
	if fn := c.Fn("controller/legacy", "k8scache.IsValidIngress"); fn != nil {
		m := matchers{}
		for k, v := range isValidIngressAtoms {
			m[k] = v
		}
		tableRule(c, "controller/legacy.(*k8scache).IsValidIngress", fn, 0, m, specIsValidIngress)
	}
}

func c08ClassTable(c *core.Ctx) {
	for _, x := range [][2]string{{"controller/services", "c.IsValidIngressClass"}, {"controller/legacy", "k8scache.IsValidIngressClass"}} {
		fn := c.Fn(x[0], x[1])
		if fn == nil {
			continue
		}
		tableRule(c, x[0]+"."+x[1], fn, 0, matchers{
			"eq": has("Spec.Controller == ", "ControllerName"),
		}, func(v map[string]bool) bool { return v["eq"] })
	}
}

func c08Filter(c *core.Ctx) {
	// GetIngress
	if fn := c.Fn("controller/services", "c.GetIngress"); fn != nil {
		t := core.ExtractTable(fn)
		key := "controller/services.(*c).GetIngress"
		b, err := t.Bind(matchers{"errNil": has(".get(", " == nil"), "valid": has("IsValidIngress(")})
		if t.Err != "" || err != nil {
			c.Undecided(key, c.Pos(fn.Pos()), fmt.Sprintf("cannot extract the decision: %s %v", t.Err, err))
		} else {
			// every return whose first result is not nil and whose error result can be nil
			n := 0
			for _, blk := range fn.Blocks {
				ret, ok := blk.Instrs[len(blk.Instrs)-1].(*ssa.Return)
				if !ok || len(ret.Results) != 2 || core.IsNilConst(ret.Results[0]) {
					continue
				}
				n++
				cond, _ := t.BlockCond(blk)
				// forbidden: returning the object with a nil error while not valid.
				// The returned error is the get() error, so "nil error" = errNil.
				okc, diff, _ := t.Compare(cond, b, func(v map[string]bool) bool { return false }, func(v map[string]bool) bool { return v["errNil"] && !v["valid"] })
				leaves := sliceLeaves(c.Env, ret.Results[1], 0)
				if !leavesContain(leaves, "c).get") {
					c.Violated(key+"#err", at(c, ret), "the error returned with the object is not the error of the read: "+leavesList(leaves))
					continue
				}
				c.Check(okc, key, at(c, ret), "object is returned with a nil error only when IsValidIngress holds", "an Ingress that is not valid is returned without error: "+diff)
			}
			if n == 0 {
				c.Undecided(key, c.Pos(fn.Pos()), "no return of an object found")
			}
		}
	}
	// GetIngressList: stores into the result slice
	for _, x := range [][3]string{{"controller/services", "c.GetIngressList", "controller/services.(*c).GetIngressList"}, {"controller/legacy", "k8scache.GetIngressList", "controller/legacy.(*k8scache).GetIngressList"}} {
		fn := c.Fn(x[0], x[1])
		if fn == nil {
			continue
		}
		key := x[2]
		n := 0
		for _, blk := range fn.Blocks {
			for _, in := range blk.Instrs {
				st, ok := in.(*ssa.Store)
				if !ok {
					continue
				}
				if _, isIdx := st.Addr.(*ssa.IndexAddr); !isIdx {
					continue
				}
				if !strings.Contains(st.Val.Type().String(), "Ingress") {
					continue
				}
				n++
				// the guard must be the verdict computed for this very element, not a value merged from elsewhere
				okG := false
				for _, g := range guardsOf(st) {
					if call, isCall := g.Cond.(*ssa.Call); isCall && g.Branch && strings.HasSuffix(core.CalleeName(&call.Call), ").IsValidIngress") {
						a := call.Call.Args[len(call.Call.Args)-1]
						if a == st.Val || core.Key(a) == core.Key(st.Val) {
							okG = true
						}
					}
				}
				c.Check(okG, key, at(c, st),
					"element stored only on the valid edge of IsValidIngress called on that element", "an element is stored into the result without (or with a cached / merged) IsValidIngress verdict for that very Ingress: its own annotation is not consulted")
			}
			// appends
			for _, in := range blk.Instrs {
				if call, ok := in.(*ssa.Call); ok && core.CalleeName(&call.Call) == "builtin:append" && strings.Contains(call.Type().String(), "Ingress") {
					n++
					c.Check(guardedBy(call, has("IsValidIngress("), true), key, at(c, call),
						"element appended only on the valid edge of IsValidIngress", "an element is appended to the result without the IsValidIngress test")
				}
			}
		}
		if n == 0 {
			c.Undecided(key, c.Pos(fn.Pos()), "no store into the result list found")
		}
		// the returned slice is cut to the number of valid elements: items[:i]
		for _, blk := range fn.Blocks {
			if ret, ok := blk.Instrs[len(blk.Instrs)-1].(*ssa.Return); ok && len(ret.Results) == 2 && !core.IsNilConst(ret.Results[0]) {
				_, isSlice := ret.Results[0].(*ssa.Slice)
				_, isPhi := ret.Results[0].(*ssa.Phi)
				c.Check(isSlice || isPhi, key+"#cut", at(c, ret), "result is the filtered prefix / appended list", "result is returned uncut: slots of filtered-out ingresses stay in the list: "+core.Key(ret.Results[0]))
			}
		}
	}
	// legacy GetIngress: a non-nil object is returned only when IsValidIngress holds for it
	if fn := c.Fn("controller/legacy", "k8scache.GetIngress"); fn != nil {
		key := "controller/legacy.(*k8scache).GetIngress"
		t := core.ExtractTable(fn)
		b, err := t.Bind(matchers{"some": has("#0 != nil)"), "valid": has("IsValidIngress(")})
		if t.Err != "" || err != nil {
			c.Undecided(key, c.Pos(fn.Pos()), fmt.Sprintf("cannot extract the decision (is the object still tested with IsValidIngress before it is returned?): %s %v", t.Err, err))
		} else {
			n := 0
			for _, ret := range core.Returns(fn) {
				res := core.Results(ret)
				if len(res) != 2 || core.IsNilConst(res[0]) {
					continue
				}
				n++
				cond, _ := t.BlockCond(ret.Block())
				okc, diff, _ := t.Compare(cond, b, func(v map[string]bool) bool { return false }, func(v map[string]bool) bool { return v["some"] && !v["valid"] })
				c.Check(okc, key, at(c, ret), "a non-nil object is returned only when IsValidIngress holds", "an Ingress that is not valid is returned: "+diff)
			}
			c.Check(n > 0, key+" returns the object", c.Pos(fn.Pos()), "", "no return of an object")
		}
	}
}

func c08WatchTable(c *core.Ctx) {
	fn := c.Fn("controller/reconciler", "watchers.handlersIngress")
	if fn == nil {
		return
	}
	isValid := ifaceMethod(c, "controller/services", "IsValidResource", "IsValidIngress")
	if isValid == nil {
		return
	}
	valid := func(which string) func(string) bool {
		return func(k string) bool {
			return strings.Contains(k, "IsValidIngress(") && strings.Contains(k, which) && !strings.Contains(k, "IsValidIngressClass")
		}
	}
	found := map[string]bool{}
	for _, a := range anonFuncs(fn) {
		if len(core.CallsTo(a, false, isValid)) == 0 {
			continue
		}
		c.Touch(a)
		name := core.FuncName(a)
		switch {
		case paramTypeContains(a, "event.TypedCreateEvent") || paramTypeContains(a, "event.CreateEvent"):
			found["create"] = true
			tableRule(c, "predicate Create (Ingress)", a, 0, matchers{"v": has("IsValidIngress(", ".Object")}, func(v map[string]bool) bool { return v["v"] })
		case paramTypeContains(a, "event.TypedDeleteEvent") || paramTypeContains(a, "event.DeleteEvent"):
			found["delete"] = true
			tableRule(c, "predicate Delete (Ingress)", a, 0, matchers{"v": has("IsValidIngress(", ".Object")}, func(v map[string]bool) bool { return v["v"] })
		case paramTypeContains(a, "event.TypedUpdateEvent") || paramTypeContains(a, "event.UpdateEvent"):
			found["update"] = true
			tableRule(c, "predicate Update (Ingress)", a, 0, matchers{"o": has("IsValidIngress(", "ObjectOld"), "n": has("IsValidIngress(", "ObjectNew")},
				func(v map[string]bool) bool { return v["o"] || v["n"] })
		case len(a.Params) == 2:
			// the upd handler
			found["upd"] = true
			t := core.ExtractTable(a)
			m := matchers{"o": valid("old"), "n": valid("new")}
			n := 0
			for _, fld := range []struct {
				f    string
				obj  string
				spec func(v map[string]bool) bool
			}{
				{"IngressesUpd", "new", func(v map[string]bool) bool { return v["o"] && v["n"] }},
				{"IngressesAdd", "new", func(v map[string]bool) bool { return !v["o"] && v["n"] }},
				{"IngressesDel", "old", func(v map[string]bool) bool { return v["o"] && !v["n"] }},
			} {
				sts := fieldStores(a, false, "converters/types.ChangedObjects", fld.f)
				if len(sts) != 1 {
					c.Violated("upd handler: "+fld.f, c.Pos(a.Pos()), fmt.Sprintf("%d stores to %s in the update handler, expected 1", len(sts), fld.f))
					continue
				}
				n++
				condTable(c, "upd handler: "+fld.f+" condition", t, sts[0], m, fld.spec)
				leaves := sliceLeaves(c.Env, sts[0].Val, 0)
				c.Check(leavesContain(leaves, "param:"+fld.obj) && leavesContain(leaves, "field:") && strings.Contains(core.Key(sts[0].Val), fld.f),
					"upd handler: "+fld.f+" object", at(c, sts[0]), "appends the "+fld.obj+" object to the current list",
					"appended value is not (list, "+fld.obj+" object): "+leavesList(leaves))
				if fld.obj == "old" {
					c.Check(!leavesContain(leaves, "param:new"), "upd handler: "+fld.f+" not-new", at(c, sts[0]), "", "the deletion list receives the new object: hosts of the old object stay configured")
				} else {
					c.Check(!leavesContain(leaves, "param:old"), "upd handler: "+fld.f+" not-old", at(c, sts[0]), "", "the list receives the old object")
				}
			}
			_ = n
		default:
			_ = name
		}
	}
	for _, k := range []string{"create", "delete", "update", "upd"} {
		if !found[k] {
			c.Violated("ingress watcher: "+k, c.Pos(fn.Pos()), "no "+k+" closure calling IsValidIngress found in handlersIngress: events are not filtered/reclassified by validity")
		}
	}
}

// hdlrFull returns, for every hdlr composite literal in `watchers`, the
// resource constant name and whether `full: true` is set. Decided on the AST
// (composite literals are data).
func c08ValidityDeps(c *core.Ctx) {
	full := handlerFullByResource(c)
	if full == nil {
		return
	}
	// kinds read by IsValidIngress
	fn := c.Fn("controller/services", "c.IsValidIngress")
	if fn == nil {
		return
	}
	kindOfGetter := map[string]string{"GetIngressClass": "ResourceIngressClass", "GetConfigMap": "ResourceConfigMap", "GetService": "ResourceService", "GetNamespace": "ResourceNamespace", "GetSecret": "ResourceSecret"}
	n := 0
	seen := map[*ssa.Function]bool{}
	var walk func(f *ssa.Function, d int)
	walk = func(f *ssa.Function, d int) {
		if f == nil || seen[f] || d > 3 || f.Blocks == nil {
			return
		}
		seen[f] = true
		for _, s := range core.Calls(f, true) {
			o := core.CalleeObj(s.Common())
			if o == nil {
				continue
			}
			if kind, ok := kindOfGetter[o.Name()]; ok {
				n++
				isFull, known := full[kind]
				c.Check(known && isFull, "IsValidIngress reads "+kind+" via "+o.Name(), at(c, s.Instr),
					"watcher of "+kind+" forces a full sync", "IsValidIngress depends on "+kind+" but its watcher does not force a full sync: an Ingress that becomes valid when the object appears is never picked up by a partial sync")
			}
			if callee := s.Common().StaticCallee(); callee != nil && callee.Pkg == fn.Pkg {
				walk(callee, d+1)
			}
		}
	}
	walk(fn, 0)
	if n == 0 {
		c.Held("IsValidIngress reads no watched kind", c.Pos(fn.Pos()), "")
	}
}

func c08Sources(c *core.Ctx) {
	cacheT := "Cache"
	getList := ifaceMethod(c, "converters/types", cacheT, "GetIngressList")
	getIng := ifaceMethod(c, "converters/types", cacheT, "GetIngress")
	if getList == nil || getIng == nil {
		return
	}
	for _, name := range []string{"converter.syncFull", "converter.syncPartial"} {
		fn := c.Fn("converters/ingress", name)
		if fn == nil {
			continue
		}
		syncIng := c.Env.Func("converters/ingress", "converter.syncIngress")
		if syncIng == nil {
			c.MissingAnchor("converters/ingress.converter.syncIngress")
			return
		}
		sites := core.Calls(fn, false)
		n := 0
		for _, s := range sites {
			if s.Common().StaticCallee() != syncIng {
				continue
			}
			n++
			arg := s.Common().Args[1]
			leaves := sliceLeaves(c.Env, arg, 0)
			var bad []string
			for l := range leaves {
				switch {
				case strings.HasPrefix(l, "call:"):
					nm := strings.TrimPrefix(l, "call:")
					if i := strings.Index(nm, "#"); i >= 0 {
						nm = nm[:i]
					}
					switch {
					case strings.HasSuffix(nm, "Cache).GetIngressList"), strings.HasSuffix(nm, "Cache).GetIngress"), nm == "builtin:append", nm == "builtin:len", strings.HasSuffix(nm, "sortIngress"):
					default:
						bad = append(bad, l)
					}
				case strings.HasPrefix(l, "field:") && strings.Contains(l, "changed.Ingresses"):
					if !strings.Contains(l, "changed.IngressesAdd") {
						bad = append(bad, l)
					}
				}
			}
			c.Check(len(bad) == 0, "converters/ingress.(*"+name[:9]+")."+name[10:]+" -> syncIngress argument", at(c, s.Instr),
				"ingress values come from the filtered getters / watcher Add list", "ingress passed to syncIngress derives from an unfiltered source: "+strings.Join(bad, ", "))
		}
		if n == 0 {
			c.Violated(name+" calls syncIngress", c.Pos(fn.Pos()), "no call of syncIngress found")
		}
	}
	// partial: an Ingress whose GetIngress fails is skipped: on the error edge
	// of GetIngress the value appended to the list cannot be the result.
	if fn := c.Env.Func("converters/ingress", "converter.syncPartial"); fn != nil {
		for _, s := range core.CallsTo(fn, false, getIng) {
			call := s.Instr.(*ssa.Call)
			// find the append whose value derives from this call
			var ext0 ssa.Value
			for _, r := range *call.Referrers() {
				if e, ok := r.(*ssa.Extract); ok && e.Index == 0 {
					ext0 = e
				}
			}
			if ext0 == nil {
				c.Violated("syncPartial: GetIngress result", at(c, call), "result of GetIngress is not used")
				continue
			}
			// the object flows into a phi; on the err != nil path the phi must receive nil
			ok := false
			for _, r := range *ext0.Referrers() {
				if ph, isPhi := r.(*ssa.Phi); isPhi {
					for i, e := range ph.Edges {
						if core.IsNilConst(e) {
							pred := ph.Block().Preds[i]
							for _, g := range core.ControllingEdges(pred) {
								k := core.Key(g.If.Cond)
								if strings.Contains(k, "GetIngress(") && strings.Contains(k, "#1 != nil") && g.Branch {
									ok = true
								}
							}
						}
					}
				}
			}
			c.Check(ok, "syncPartial: failed GetIngress is skipped", at(c, call), "on the error edge of GetIngress the ingress is replaced by nil and not synced", "no nil replacement of the ingress on the error edge of GetIngress was found: an Ingress rejected by the class filter would be synced")
		}
	}
}
