package rules

import (
	"fmt"
	"go/ast"
	"go/token"
	"go/types"
	"sort"
	"strings"

	"golang.org/x/tools/go/ssa"

	"hapverif/internal/core"
)

func init() {
	register(&core.Property{
		ID:          "C06",
		Title:       "Same cluster state gives the same behaviour, whatever the processing order",
		Explanation: "Static decision of where processing order can leak into the result: (1) every `range` over a Go map in the conversion and rendering packages is classified from its body (direct effects and transitive effect summaries of the functions it calls): order-insensitive (map/set writes keyed per element, effects confined to the element, any/all quantifiers, counters), collected-then-sorted before use, or a listed exception with its reason; anything else is order-sensitive and fails unless it is a listed known finding; (2) API list results are sorted by (creation time, namespace/name) before use and the comparators are total on that key (shared with C03); (3) CreateEndpoints sorts both results; sorted-output helpers end in a strict comparison of the collection's key; (4) the annotation mapper keeps the first writer of a key and reports, never overwrites, a different later value.",
		NotDecided: []string{
			"equality of the outputs of two runs",
			"iteration inside dependencies (text/template sorts map keys — relied on)",
		},
		Assumptions: []string{"effect summaries are type/field based (no alias analysis): a write is attributed to the field's owner type; calls through interfaces other than the listed read-only ones are treated as unknown effects and make the loop undecided unless listed"},
		Rules: []*core.Rule{
			{ID: "C06.map-iterators", Floor: 1, Run: c06MapIterators,
				Doc: "Every call of the iterator helpers maps.Keys, maps.Values and maps.All (standard library and golang.org/x/exp) in the non-test code of pkg/ is consumed directly by slices.Sorted / SortedFunc / SortedStableFunc: these helpers walk a map in Go's randomised order exactly like a range statement, and slices.Collect turns that order into data (the precedence list of the annotation prefixes built that way differs between two starts of the controller). The pinned tree has no such call; the rule exists because the range-statement rule cannot see them."},
			{ID: "C06.map-ranges", Floor: 48, Run: c06MapRanges,
				Doc: "E8 classifier over every range-over-map in pkg/converters/... and pkg/haproxy/... (tests and mocks excluded)."},
			{ID: "C06.lists-sorted", Floor: 6, Run: c06ListsSorted,
				Doc: "GetIngressList / route lists reach their loop only through the sorter; both results of CreateEndpoints are sorted on every non-error path; comparators are the creation-time/name tables of C03."},
			{ID: "C06.first-writer", Floor: 2, Run: c06FirstWriter,
				Doc: "Mapper.addAnnotation: an existing (uri,key) value is kept; a conflict is reported iff the values differ; the value is never overwritten."},
		},
	})
}

// ---------------------------------------------------------------------------
// effect summaries

type effects struct {
	writes   map[string]bool // "Owner.field"
	reads    map[string]bool // "Owner.field" read through a container access (range/lookup over a map of T)
	unknown  []string        // calls whose effects are not known
	contT    map[string]bool // element types of maps ranged/looked up
	appendsG bool
}

type summarizer struct {
	env  *core.Env
	memo map[*ssa.Function]*effects
	busy map[*ssa.Function]bool
}

var pureCallPrefixes = []string{"strings.", "fmt.Sprintf", "fmt.Errorf", "fmt.Sprint", "strconv.", "sort.", "regexp.", "(*regexp.", "reflect.DeepEqual", "time.", "(time.", "net.ParseIP", "net.ParseCIDR", "builtin:", "errors.", "unicode.", "bytes.", "path.", "crypto/", "(crypto/", "hash/", "(hash", "encoding/", "math.", "(net.", "net.", "(*strings.", "(*bytes.", "slices.", "maps.", "(k8s.io/apimachinery/pkg/util/intstr", "(*k8s.io/apimachinery/pkg/util/intstr", "k8s.io/apimachinery/pkg/util/intstr.", "(*k8s.io/apimachinery/pkg/apis/meta/v1.Time", "(k8s.io/apimachinery/pkg/apis/meta/v1", "(*k8s.io/apimachinery/pkg/apis/meta/v1", "(reflect.", "reflect.", "(*crypto/x509", "container/list", "(*container/list", "(*sync.Mutex)", "os.Stat", "(*text/template"}

var readOnlyIfaceMethods = map[string]bool{
	// logging and cache reads: no effect on the model
	"Warn": true, "Info": true, "InfoV": true, "Error": true, "Fatal": true, "Debug": true,
	"GetService": true, "GetPod": true, "GetEndpoints": true, "GetEndpointSlices": true, "GetNamespace": true, "GetConfigMap": true, "GetIngressClass": true, "GetPodNamespace": true,
	"ExternalNameLookup": true, "String": true, "Len": true, "Less": true, "Swap": true, "GetName": true, "GetNamespace_": true, "GetCreationTimestamp": true, "GetObjectKind": true, "GroupVersionKind": true, "Matches": true, "GetLabels": true, "GetAnnotations": true, "GetDeletionTimestamp": true,
}

func (s *summarizer) of(fn *ssa.Function) *effects {
	if e, ok := s.memo[fn]; ok {
		return e
	}
	e := &effects{writes: map[string]bool{}, reads: map[string]bool{}, contT: map[string]bool{}}
	if fn == nil || fn.Blocks == nil {
		return e
	}
	if s.busy[fn] {
		return e
	}
	s.busy[fn] = true
	defer delete(s.busy, fn)
	var walk func(f *ssa.Function)
	walk = func(f *ssa.Function) {
		for _, b := range f.Blocks {
			for _, in := range b.Instrs {
				s.instr(in, e)
			}
		}
		for _, a := range f.AnonFuncs {
			walk(a)
		}
	}
	walk(fn)
	s.memo[fn] = e
	return e
}

func ownerField(v ssa.Value) (string, string, bool) {
	// peel IndexAddr / nested FieldAddr down to the outermost named struct field
	for {
		switch x := v.(type) {
		case *ssa.FieldAddr:
			o, f := core.FieldOf(x)
			return o, f, true
		case *ssa.IndexAddr:
			v = x.X
			if u, ok := v.(*ssa.UnOp); ok && u.Op == token.MUL {
				v = u.X
			}
		default:
			return "", "", false
		}
	}
}

func (s *summarizer) instr(in ssa.Instruction, e *effects) {
	switch x := in.(type) {
	case *ssa.Store:
		if o, f, ok := ownerField(x.Addr); ok {
			if base := rootOf(x.Addr); base != nil {
				if _, local := base.(*ssa.Alloc); local {
					return // a local struct / composite under construction
				}
			}
			e.writes[o+"."+f] = true
		}
	case *ssa.MapUpdate:
		if u, ok := x.Map.(*ssa.UnOp); ok {
			if o, f, ok := ownerField(u.X); ok {
				e.writes[o+"."+f+"[]"] = true
			}
		}
	case *ssa.Range:
		if mt, ok := x.X.Type().Underlying().(*types.Map); ok {
			e.contT[types.TypeString(mt.Elem(), shortQ)] = true
		}
	case *ssa.Lookup:
		if mt, ok := x.X.Type().Underlying().(*types.Map); ok {
			e.contT[types.TypeString(mt.Elem(), shortQ)] = true
		}
	case *ssa.UnOp:
		if x.Op == token.MUL {
			if o, f, ok := ownerField(x.X); ok {
				e.reads[o+"."+f] = true
			}
		}
	case ssa.CallInstruction:
		cc := x.Common()
		if bi, ok := cc.Value.(*ssa.Builtin); ok {
			if bi.Name() == "delete" {
				if u, ok := cc.Args[0].(*ssa.UnOp); ok {
					if o, f, ok := ownerField(u.X); ok {
						e.writes[o+"."+f+"[]"] = true
					}
				}
			}
			return
		}
		if cc.IsInvoke() {
			if readOnlyIfaceMethods[cc.Method.Name()] {
				return
			}
			// tracker / cache getters with tracking: effects on the tracker only (a set of links: commutative)
			recv := cc.Value.Type().String()
			if strings.HasSuffix(recv, "converters/types.Tracker") || strings.HasSuffix(recv, "converters/types.Cache") || strings.HasSuffix(recv, "types.Logger") || strings.HasSuffix(recv, "types.Metrics") {
				return
			}
			if strings.HasPrefix(recv, "hash.") || strings.HasPrefix(recv, "reflect.") || strings.HasPrefix(recv, "io/fs.") || strings.HasPrefix(recv, "os.") {
				return // local hasher / reflection / file info: no effect on the model
			}
			if impl := resolveInvoke(s.env, cc); impl != nil {
				sub := s.of(impl)
				for k := range sub.writes {
					e.writes[k] = true
				}
				for k := range sub.reads {
					e.reads[k] = true
				}
				for k := range sub.contT {
					e.contT[k] = true
				}
				e.unknown = append(e.unknown, sub.unknown...)
				return
			}
			e.unknown = append(e.unknown, "invoke "+recv[strings.LastIndex(recv, "/")+1:]+"."+cc.Method.Name())
			return
		}
		callee := cc.StaticCallee()
		if callee == nil {
			if tgt := resolveDynamic(cc, in.Parent()); tgt != nil {
				callee = tgt
			} else {
				e.unknown = append(e.unknown, "dynamic call "+core.Key(cc.Value))
				return
			}
		}
		name := core.CalleeName(cc)
		if core.PkgOf(callee) == "" && (callee.Pkg == nil || !strings.HasPrefix(callee.Pkg.Pkg.Path(), core.Module)) || callee.Pkg != nil && !strings.HasPrefix(callee.Pkg.Pkg.Path(), core.Module) {
			for _, p := range pureCallPrefixes {
				if strings.HasPrefix(name, p) {
					return
				}
			}
			e.unknown = append(e.unknown, name)
			return
		}
		sub := s.of(callee)
		for k := range sub.writes {
			e.writes[k] = true
		}
		for k := range sub.reads {
			e.reads[k] = true
		}
		for k := range sub.contT {
			e.contT[k] = true
		}
		e.unknown = append(e.unknown, sub.unknown...)
	}
}

func shortQ(p *types.Package) string {
	return strings.TrimPrefix(p.Path(), core.Module+"/pkg/")
}

func rootOf(v ssa.Value) ssa.Value {
	for {
		switch x := v.(type) {
		case *ssa.FieldAddr:
			v = x.X
		case *ssa.IndexAddr:
			v = x.X
		default:
			return v
		}
	}
}

// ownedTypes: struct types reachable from t through fields (by value, pointer, slice, map), without
// the model containers.
func ownedTypes(t types.Type) map[string]bool {
	out := map[string]bool{}
	var walk func(t types.Type, d int)
	walk = func(t types.Type, d int) {
		if d > 5 {
			return
		}
		switch x := t.(type) {
		case *types.Pointer:
			walk(x.Elem(), d)
		case *types.Slice:
			walk(x.Elem(), d)
		case *types.Array:
			walk(x.Elem(), d)
		case *types.Map:
			walk(x.Elem(), d)
		case *types.Named:
			n := types.TypeString(x, shortQ)
			if out[n] {
				return
			}
			switch x.Obj().Name() {
			case "Hosts", "Backends", "Userlists", "TCPServices", "TCPBackends", "AcmeStorages", "Frontend", "Global":
				return // shared containers are not owned by an element
			}
			out[n] = true
			if st, ok := x.Underlying().(*types.Struct); ok {
				for i := 0; i < st.NumFields(); i++ {
					walk(st.Field(i).Type(), d+1)
				}
			}
		}
	}
	walk(t, 0)
	return out
}

// ---------------------------------------------------------------------------

type loopFacts struct {
	fn    *ssa.Function
	rng   *ssa.Range
	body  map[*ssa.BasicBlock]bool
	elemT types.Type
	keyT  types.Type
}

func mapLoops(env *core.Env, fn *ssa.Function) []loopFacts {
	var out []loopFacts
	for _, b := range fn.Blocks {
		for _, in := range b.Instrs {
			r, ok := in.(*ssa.Range)
			if !ok {
				continue
			}
			mt, ok := r.X.Type().Underlying().(*types.Map)
			if !ok {
				continue
			}
			// loop blocks: those from which the Next instruction's block is reachable again and that are dominated by the header
			var next *ssa.Next
			for _, ref := range *r.Referrers() {
				if n, ok := ref.(*ssa.Next); ok {
					next = n
				}
			}
			lf := loopFacts{fn: fn, rng: r, body: map[*ssa.BasicBlock]bool{}, elemT: mt.Elem(), keyT: mt.Key()}
			if next != nil {
				// natural loop of the header: blocks that reach a back edge source without passing the header
				hdr := next.Block()
				var stack []*ssa.BasicBlock
				for _, p := range hdr.Preds {
					if hdr.Dominates(p) && p != hdr {
						if !lf.body[p] {
							lf.body[p] = true
							stack = append(stack, p)
						}
					}
				}
				for len(stack) > 0 {
					bb := stack[len(stack)-1]
					stack = stack[:len(stack)-1]
					for _, p := range bb.Preds {
						if p != hdr && !lf.body[p] && hdr.Dominates(p) {
							lf.body[p] = true
							stack = append(stack, p)
						}
					}
				}
			}
			out = append(out, lf)
		}
	}
	return out
}

func reachesBlock(from, to *ssa.BasicBlock) bool {
	seen := map[*ssa.BasicBlock]bool{}
	q := []*ssa.BasicBlock{from}
	for len(q) > 0 {
		b := q[0]
		q = q[1:]
		for _, s := range b.Succs {
			if s == to {
				return true
			}
			if !seen[s] {
				seen[s] = true
				q = append(q, s)
			}
		}
	}
	return false
}

// derivesFromRange: v is computed from the loop's key/value (element) only.
func derivesFromRange(v ssa.Value, rng *ssa.Range, depth int) bool {
	if depth > 10 || v == nil {
		return false
	}
	switch x := v.(type) {
	case *ssa.Extract:
		if n, ok := x.Tuple.(*ssa.Next); ok {
			return n.Iter == ssa.Value(rng)
		}
		return derivesFromRange(x.Tuple, rng, depth+1)
	case *ssa.FieldAddr:
		return derivesFromRange(x.X, rng, depth+1)
	case *ssa.Field:
		return derivesFromRange(x.X, rng, depth+1)
	case *ssa.IndexAddr:
		return derivesFromRange(x.X, rng, depth+1)
	case *ssa.UnOp:
		return derivesFromRange(x.X, rng, depth+1)
	case *ssa.Call:
		// method on the element returning part of it, or an object acquired by the element's key
		for _, a := range x.Call.Args {
			if derivesFromRange(a, rng, depth+1) {
				return true
			}
		}
	case *ssa.Lookup:
		return derivesFromRange(x.Index, rng, depth+1) || derivesFromRange(x.X, rng, depth+1)
	case *ssa.Convert:
		return derivesFromRange(x.X, rng, depth+1)
	case *ssa.ChangeType:
		return derivesFromRange(x.X, rng, depth+1)
	case *ssa.MakeInterface:
		return derivesFromRange(x.X, rng, depth+1)
	case *ssa.Phi:
		for _, e := range x.Edges {
			if !derivesFromRange(e, rng, depth+1) {
				return false
			}
		}
		return len(x.Edges) > 0
	case *ssa.BinOp:
		return (derivesFromRange(x.X, rng, depth+1) || isConst(x.X)) && (derivesFromRange(x.Y, rng, depth+1) || isConst(x.Y))
	}
	return false
}

func isConst(v ssa.Value) bool { _, ok := v.(*ssa.Const); return ok }

type loopVerdict struct {
	class  string // I, S, X, sensitive, undecided
	reason string
}

// listed exceptions and known order-sensitive loops: key = function name + " over " + ranged expression
var c06Listed = map[string]loopVerdict{
	"controller/services.buildLabelSelector over match": {"S", "the joined text is parsed by labels.Parse, which sorts the requirements by key: the selector does not depend on the order of the text"},
	"controller/legacy.buildLabelSelector over match":   {"S", "the joined text is parsed by labels.Parse, which sorts the requirements by key: the selector does not depend on the order of the text"},
	"(*converters/ingress.converter).syncPartial over {map[string]*v1.Ingress}":                                     {"S", "the collected ingresses are sorted by sortIngress before use; syncDefaultBackend runs for at most one key (the default-backend pseudo ingress)"},
	"(*converters/ingress/annotations.Mapper).AddAnnotations over ann":                            {"X", "per-key inserts into the mapper are keyed by the element; the appended conflict list is only rendered in a log line"},
	"(*haproxy.config).SyncConfig over c.hosts.ItemsAdd()":                                        {"X", "under strict-host a root path is added to each host lacking one: this appends to the default backend's path list, whose positions only number internal path ids"},
	"(*haproxy.config).WriteBackendMaps over c.backends.ItemsAdd()":                               {"X", "one pair of map files per backend; the order in which independent files are registered and written is irrelevant"},
	"(*haproxy.config).WriteTCPServicesMaps over c.tcpservices.Items()":                           {"X", "one map file per tcp port: independent files"},
	"(*haproxy.instance).writeCrtLists over i.config.TCPServices().Items()":                       {"X", "one crt-list file per tcp port: independent files"},
	"(*converters/ingress.converter).fullSyncTCP over {*types.TCPServicePort}.Hosts()":                            {"X", "UpdateTCPHostConfig writes the TLS entry keyed by this host's own name"},
	"(*converters/ingress.converter).fullSyncAnnotations over c.haproxy.Backends().Items()":       {"X", "cross-element accesses of UpdateBackendConfig are: the used-auth-backend scan when the auth-proxy range is exhausted (port numbering is an internal label), the lookup of the auth service backend by id (reads nothing the loop writes), and the userlist acquire (idempotent: content is a function of the secret). The order-dependent oauth lookup is reported at its own loop (updater.findBackend)"},
	"(*converters/ingress.converter).partialSyncAnnotations over c.haproxy.Backends().ItemsAdd()": {"X", "same as fullSyncAnnotations over the backends"},
	"(*haproxy/types.HostsMap).rebuildMatchFiles over hm.rawhosts":                                {"X", "entries of different hosts never share a key (host#path): the order in which hosts create their priority files changes file numbering, not which entry a key matches"},
	"(*haproxy/types.Hosts).FindTargetRedirect over h.items":                                      {"X", "at most one host can own a redirect source (buildHostRedirect refuses a second owner), so at most one element matches"},
	"haproxy/types.buildAcmeStorages over items":                                                  {"S", "outer result is consumed by queue Add/Remove (a set); inner domain list is sorted"},
	"(*haproxy/types.Backends).ShuffleAllEndpoints over b.items":                                  {"X", "random by option (--sort-endpoints-by=random)"},
	"(*haproxy.dynUpdater).frontendUpdated over {map[string]*haproxy.hostPair}":                                            {"X", "conjunction of per-host results; socket commands of distinct hosts are independent"},
	"(*haproxy.dynUpdater).backendUpdated over {map[string]*haproxy.backendPair}":                                          {"X", "conjunction of per-backend results; socket commands of distinct backends are independent"},
}

// c06MapIterators: the iterator helpers of package maps (Keys, Values, All) walk a map in Go's randomised
// order like a range statement does; collected into a slice (slices.Collect, slices.AppendSeq) the order
// becomes data. Accepted only as the direct argument of slices.Sorted / SortedFunc / SortedStableFunc.
func c06MapIterators(c *core.Ctx) {
	n := 0
	for _, fn := range c.SrcFuncs() {
		pkg := core.PkgOf(fn)
		if strings.Contains(pkg, "helper_test") || strings.HasPrefix(pkg, "acme/x") {
			continue
		}
		for _, b := range fn.Blocks {
			for _, in := range b.Instrs {
				call, ok := in.(*ssa.Call)
				if !ok {
					continue
				}
				cn := core.CalleeName(&call.Call)
				base := cn
				if i := strings.Index(base, "["); i >= 0 {
					base = base[:i]
				}
				if base != "maps.Keys" && base != "maps.Values" && base != "maps.All" && base != "golang.org/x/exp/maps.Keys" && base != "golang.org/x/exp/maps.Values" {
					continue
				}
				n++
				c.Touch(fn)
				sorted := call.Referrers() != nil && len(*call.Referrers()) > 0
				for _, r := range *call.Referrers() {
					rc, isCall := r.(*ssa.Call)
					if !isCall {
						sorted = false
						continue
					}
					rn := core.CalleeName(&rc.Call)
					if i := strings.Index(rn, "["); i >= 0 {
						rn = rn[:i]
					}
					if rn != "slices.Sorted" && rn != "slices.SortedFunc" && rn != "slices.SortedStableFunc" {
						sorted = false
					}
				}
				key := core.FuncName(fn) + " iterates " + argText(call.Call.Args[0]) + " with " + base
				c.Check(sorted, key, c.Pos(call.Pos()), "consumed by slices.Sorted*", "the sequence follows Go's randomised map iteration order and is not sorted before it is used")
			}
		}
	}
	c.Held("calls of maps.Keys / maps.Values / maps.All examined", "", fmt.Sprintf("%d", n))
}

func c06MapRanges(c *core.Ctx) {
	sum := &summarizer{env: c.Env, memo: map[*ssa.Function]*effects{}, busy: map[*ssa.Function]bool{}}
	n := 0
	for _, fn := range c.SrcFuncs() {
		pkg := core.PkgOf(fn)
		if strings.Contains(pkg, "helper_test") || strings.HasPrefix(pkg, "acme/x") {
			continue
		}
		for _, lf := range mapLoops(c.Env, fn) {
			n++
			c.Touch(fn)
			top := fn
			for top.Parent() != nil {
				top = top.Parent()
			}
			key := core.FuncName(fn) + " over " + rangeExprText(c, lf)
			v := classifyLoop(c, sum, lf)
			if listed, ok := c06Listed[key]; ok {
				if v.class == "I" || v.class == "S" {
					c.Held(key, at(c, lf.rng), v.class+": "+v.reason)
				} else {
					c.Held(key, at(c, lf.rng), "listed "+listed.class+": "+listed.reason+" (classifier: "+v.class+" — "+v.reason+")")
				}
				continue
			}
			switch v.class {
			case "I", "S":
				c.Held(key, at(c, lf.rng), v.class+": "+v.reason)
			case "undecided":
				c.Undecided(key, at(c, lf.rng), "cannot establish that the loop is insensitive to map iteration order: "+v.reason)
			default:
				c.Violated(key, at(c, lf.rng), "the result depends on Go's randomised map iteration order: "+v.reason)
			}
		}
	}
	_ = n
}

func classifyLoop(c *core.Ctx, sum *summarizer, lf loopFacts) loopVerdict {
	fn := lf.fn
	owned := ownedTypes(lf.elemT)
	var sensitive, unknown []string
	var appends []*ssa.Call
	var fills []*ssa.Store
	insens := 0
	for b := range lf.body {
		for _, in := range b.Instrs {
			switch x := in.(type) {
			case *ssa.MapUpdate:
				insens++ // writes into a map: order-insensitive unless the same key is written by several elements
				if !derivesFromRange(x.Key, lf.rng, 0) && !isConst(x.Key) {
					// key not from the element: several elements may write the same key -> last writer wins
					if !derivesFromRange(x.Value, lf.rng, 0) || true {
						lk := sliceLeaves(c.Env, x.Key, 0)
						if !leavesContain(lk, "next(") && !leavesContain(lk, "extract:") {
							sensitive = append(sensitive, "map write with a key not derived from the element at "+c.InstrPos(in))
						}
					}
				}
			case *ssa.Store:
				if ia, isIA := x.Addr.(*ssa.IndexAddr); isIA {
					if isLocalSlice(ia.X) {
						fills = append(fills, x)
						continue
					}
				}
				if _, isAlloc := rootOf(x.Addr).(*ssa.Alloc); isAlloc {
					continue
				}
				if derivesFromRange(rootOf(x.Addr), lf.rng, 0) {
					continue // write into the element
				}
				if isConst(x.Val) {
					continue // flag
				}
				o, f, ok := ownerField(x.Addr)
				if ok && owned[o] {
					continue
				}
				// accumulation x.f = x.f op v / append
				k := core.Key(x.Val)
				if strings.HasPrefix(k, "builtin:append(") {
					continue // handled as append below
				}
				if bo, isBO := x.Val.(*ssa.BinOp); isBO && (bo.Op == token.ADD || bo.Op == token.LOR || bo.Op == token.LAND || bo.Op == token.OR) && bo.X.Type().Underlying().String() != "string" {
					continue // commutative accumulation
				}
				sensitive = append(sensitive, fmt.Sprintf("store to %s.%s of a value that depends on the iteration at %s", o, f, c.InstrPos(in)))
			case *ssa.Return:
				res := core.Results(x)
				for _, r := range res {
					if isConst(r) {
						continue
					}
					if _, isZero := r.(*ssa.Alloc); isZero {
						continue
					}
					sensitive = append(sensitive, "returns a non-constant value from inside the loop (first match in iteration order) at "+c.InstrPos(in))
				}
			case ssa.CallInstruction:
				cc := x.Common()
				name := core.CalleeName(cc)
				if name == "builtin:append" {
					if call, ok := in.(*ssa.Call); ok {
						appends = append(appends, call)
					}
					continue
				}
				if strings.HasPrefix(name, "builtin:") {
					continue
				}
				tmp := &effects{writes: map[string]bool{}, reads: map[string]bool{}, contT: map[string]bool{}}
				sum.instr(in, tmp)
				// effects of the call
				// objects acquired by the element's key are per-element: their types count as owned for this call
				ownedCall := owned
				for _, a := range cc.Args {
					if derivesFromRange(a, lf.rng, 0) {
						extra := ownedTypes(a.Type())
						if v, isV := in.(ssa.Value); isV {
							// the object returned by a keyed acquire is per element too
							for k := range ownedTypes(v.Type()) {
								extra[k] = true
							}
						}
						if len(extra) > 0 {
							m := map[string]bool{}
							for k := range ownedCall {
								m[k] = true
							}
							for k := range extra {
								m[k] = true
							}
							ownedCall = m
						}
					}
				}
				var shared []string
				for w := range tmp.writes {
					o := w[:strings.LastIndex(w, ".")]
					if ownedCall[o] {
						continue
					}
					shared = append(shared, w)
				}
				sort.Strings(shared)
				elemName := types.TypeString(derefT(lf.elemT), shortQ)
				// loop-carried dependence through the collection: callee accesses a container of T and reads a field the body writes
				if tmp.contT[types.TypeString(lf.elemT, shortQ)] || tmp.contT[elemName] {
					var both []string
					for w := range tmp.writes {
						if tmp.reads[w] && owned[w[:strings.LastIndex(w, ".")]] {
							both = append(both, w)
						}
					}
					sort.Strings(both)
					if len(both) > 0 {
						sensitive = append(sensitive, fmt.Sprintf("call %s writes %v of the element and reads the same field(s) of other elements through the collection (at %s)", name, trim(both, 4), c.InstrPos(in)))
					}
				}
				if len(shared) > 0 {
					// shared writes: acceptable when they are set/map style (field[] writes) — keyed inserts/deletes
					var nonSet []string
					for _, w := range shared {
						if !strings.HasSuffix(w, "[]") {
							nonSet = append(nonSet, w)
						}
					}
					if len(nonSet) > 0 {
						unknown = append(unknown, fmt.Sprintf("call %s writes shared state %v (at %s)", name, trim(nonSet, 4), c.InstrPos(in)))
					}
				}
				if len(tmp.unknown) > 0 {
					unknown = append(unknown, fmt.Sprintf("call %s has calls with unknown effects %v (at %s)", name, trim(dedup(tmp.unknown), 3), c.InstrPos(in)))
				}
			}
		}
	}
	// early exits: returns reached by leaving the loop from its body (not through the exhaustion edge)
	{
		var hdr *ssa.BasicBlock
		for _, ref := range *lf.rng.Referrers() {
			if n, ok := ref.(*ssa.Next); ok {
				hdr = n.Block()
			}
		}
		seen := map[*ssa.BasicBlock]bool{}
		var stack []*ssa.BasicBlock
		for b := range lf.body {
			for _, sc := range b.Succs {
				if !lf.body[sc] && sc != hdr && !seen[sc] {
					seen[sc] = true
					stack = append(stack, sc)
				}
			}
		}
		for len(stack) > 0 {
			b := stack[len(stack)-1]
			stack = stack[:len(stack)-1]
			if ret, ok := b.Instrs[len(b.Instrs)-1].(*ssa.Return); ok {
				for _, r := range core.Results(ret) {
					if isConst(r) {
						continue
					}
					if derivesFromRange(r, lf.rng, 0) || dependsOnLoop(r, lf) {
						sensitive = append(sensitive, "returns a value taken from the element at which the loop was left (first match in iteration order) at "+c.InstrPos(ret))
					}
				}
				continue
			}
			for _, sc := range b.Succs {
				if !seen[sc] && sc != hdr && !lf.body[sc] && len(b.Instrs) < 4 {
					seen[sc] = true
					stack = append(stack, sc)
				}
			}
		}
	}
	// appends: collected slices must be sorted before leaving the function (or only used as a set)
	if len(appends) > 0 {
		sorted := true
		why := ""
		for _, a := range appends {
			// values appended to a slice owned by the element are confined
			if derivesFromRange(a.Call.Args[0], lf.rng, 0) {
				continue
			}
			if !appendIsSortedLater(fn, a, lf) {
				sorted = false
				why = c.InstrPos(a)
			}
		}
		if !sorted {
			sensitive = append(sensitive, "elements are appended in iteration order and the slice is not sorted before it is used (at "+why+")")
		} else if len(sensitive) == 0 && len(unknown) == 0 {
			return loopVerdict{"S", "collected, then sorted before use"}
		}
	}
	if len(fills) > 0 {
		ok := true
		where := ""
		for _, st := range fills {
			sl := st.Addr.(*ssa.IndexAddr).X
			if !sliceSortedLater(fn, st, sl) {
				ok = false
				where = c.InstrPos(st)
			}
		}
		if !ok {
			sensitive = append(sensitive, "a local slice is filled in iteration order and not sorted before it is used (at "+where+")")
		} else if len(sensitive) == 0 && len(unknown) == 0 {
			return loopVerdict{"S", "slice filled, then sorted before use"}
		}
	}
	if len(sensitive) > 0 {
		return loopVerdict{"sensitive", strings.Join(trim(sensitive, 3), "; ")}
	}
	if len(unknown) > 0 {
		return loopVerdict{"undecided", strings.Join(trim(unknown, 3), "; ")}
	}
	return loopVerdict{"I", "body has only per-element, keyed or commutative effects"}
}

func derefT(t types.Type) types.Type {
	if p, ok := t.(*types.Pointer); ok {
		return p.Elem()
	}
	return t
}

func trim(s []string, n int) []string {
	if len(s) > n {
		return append(append([]string{}, s[:n]...), fmt.Sprintf("… +%d", len(s)-n))
	}
	return s
}

// appendIsSortedLater: the slice built by this append reaches a sort.* call (or a repository
// sorter) that every path from the loop to the function's returns passes.
func appendIsSortedLater(fn *ssa.Function, app *ssa.Call, lf loopFacts) bool {
	// when the result is stored back into a local variable, identify the slice with the variable
	var id ssa.Value = app
	for _, r := range *app.Referrers() {
		if st, ok := r.(*ssa.Store); ok {
			if al, ok := st.Addr.(*ssa.Alloc); ok {
				id = al
			}
		}
	}
	if id != ssa.Value(app) {
		// a load of that variable
		for _, r := range *id.Referrers() {
			if u, ok := r.(*ssa.UnOp); ok {
				return sliceSortedLater(fn, app, u)
			}
		}
	}
	return sliceSortedLater(fn, app, app)
}

func flowsFrom(v ssa.Value, src ssa.Value, d int) bool {
	if v == src {
		return true
	}
	if d > 8 || v == nil {
		return false
	}
	switch x := v.(type) {
	case *ssa.Phi:
		for _, e := range x.Edges {
			if flowsFrom(e, src, d+1) {
				return true
			}
		}
	case *ssa.Call:
		if core.CalleeName(&x.Call) == "builtin:append" {
			return flowsFrom(x.Call.Args[0], src, d+1)
		}
	case *ssa.MakeInterface:
		return flowsFrom(x.X, src, d+1)
	case *ssa.Slice:
		return flowsFrom(x.X, src, d+1)
	case *ssa.ChangeType:
		return flowsFrom(x.X, src, d+1)
	case *ssa.Convert:
		return flowsFrom(x.X, src, d+1)
	}
	return false
}

func c06ListsSorted(c *core.Ctx) {
	// shared tables
	c03CreationOrder(c)
	// syncFull / syncPartial: sortIngress before the loop (also C01.partial-order)
	for _, n := range []string{"converter.syncFull", "converter.syncPartial"} {
		if fn := c.Fn("converters/ingress", n); fn != nil {
			sortF := c.Env.Func("converters/ingress", "sortIngress")
			sync := c.Env.Func("converters/ingress", "converter.syncIngress")
			c.Check(core.MustPrecede(fn, staticCallTo(sortF), staticCallTo(sync)) == nil, n+" sorts before syncing", c.Pos(fn.Pos()), "", "ingresses can be synced unsorted")
			// the synced value comes from the sorted slice
			for _, s := range core.Calls(fn, false) {
				if s.Common().StaticCallee() == sortF {
					sorted := s.Common().Args[0]
					for _, s2 := range core.Calls(fn, false) {
						if s2.Common().StaticCallee() == sync {
							l := sliceLeaves(c.Env, s2.Common().Args[1], 0)
							_ = l
							c.Check(valueDerivesFrom(s2.Common().Args[1], sorted, 0), n+" iterates the sorted list", at(c, s2.Instr), "", "the list that is iterated is not the one that was sorted")
						}
					}
				}
			}
		}
	}
	// CreateEndpoints sorts both results
	if fn := c.Fn("converters/utils", "CreateEndpoints"); fn != nil {
		for _, ret := range core.Returns(fn) {
			res := core.Results(ret)
			if core.IsNilConst(res[0]) && core.IsNilConst(res[1]) {
				continue // error exits
			}
			for i := 0; i < 2; i++ {
				ri := res[i]
				isSorted := func(in ssa.Instruction) bool {
					call, ok := in.(*ssa.Call)
					return ok && core.CalleeName(&call.Call) == "sort.Slice" && (core.Unwrap(call.Call.Args[0]) == ri || sliceID(core.Unwrap(call.Call.Args[0])) == sliceID(ri))
				}
				w := core.MustPrecede(fn, isSorted, func(in ssa.Instruction) bool { return in == ssa.Instruction(ret) })
				c.Check(w == nil, fmt.Sprintf("CreateEndpoints sorts result %d", i), at(c, ret), "", "endpoints are returned in API order: server slots are assigned in that order, so the same state gives different slot layouts and needless updates")
			}
		}
		// comparators: by Target
		for _, a := range anonFuncs(fn) {
			tableRule(c, "CreateEndpoints comparator "+core.FuncName(a), a, 0, matchers{"lt": has(".Target < ")}, func(v map[string]bool) bool { return v["lt"] })
		}
	}
	// sorted-output helpers: comparator is a strict comparison on the collection key
	for _, x := range []struct{ pkg, fn, keyField string }{
		{"haproxy/types", "Hosts.BuildSortedItems", ".Hostname < "},
		{"haproxy/types", "Backends.buildSortedItems", ".ID < "},
		{"haproxy/types", "Userlists.BuildSortedItems", ".Name < "},
		{"haproxy/types", "TCPServices.BuildSortedItems", ".port < "},
		{"haproxy/types", "TCPServicePort.BuildSortedItems", ".hostname < "},
	} {
		fn := c.Env.Func(x.pkg, x.fn)
		if fn == nil {
			c.MissingAnchor(x.pkg + "." + x.fn)
			continue
		}
		c.Touch(fn)
		as := anonFuncs(fn)
		if len(as) != 1 {
			c.Violated(x.fn+" comparator", c.Pos(fn.Pos()), fmt.Sprintf("%d closures", len(as)))
			continue
		}
		tableRule(c, x.fn+" comparator", as[0], 0, matchers{"lt": has(x.keyField)}, func(v map[string]bool) bool { return v["lt"] })
	}
}

func valueDerivesFrom(v, src ssa.Value, d int) bool {
	if v == src {
		return true
	}
	if d > 8 || v == nil {
		return false
	}
	switch x := v.(type) {
	case *ssa.UnOp:
		return valueDerivesFrom(x.X, src, d+1)
	case *ssa.IndexAddr:
		return valueDerivesFrom(x.X, src, d+1)
	case *ssa.Index:
		return valueDerivesFrom(x.X, src, d+1)
	case *ssa.Phi:
		for _, e := range x.Edges {
			if valueDerivesFrom(e, src, d+1) {
				return true
			}
		}
	}
	return false
}

func c06FirstWriter(c *core.Ctx) {
	fn := c.Env.Func("converters/ingress/annotations", "Mapper.addAnnotation")
	if fn == nil {
		c.MissingAnchor("converters/ingress/annotations.Mapper.addAnnotation")
		return
	}
	c.Touch(fn)
	// every write of a value into the mapper's per-key config is under `not found`
	n := 0
	for _, b := range fn.Blocks {
		for _, in := range b.Instrs {
			var isWrite bool
			switch x := in.(type) {
			case *ssa.MapUpdate:
				isWrite = true
				_ = x
			case *ssa.Store:
				if _, f, ok := ownerField(x.Addr); ok && (f == "configByKey" || f == "configByPath") {
					isWrite = true
				}
			}
			if !isWrite {
				continue
			}
			n++
		}
	}
	// conflict result: returns true (conflict) iff found and value differs
	t := core.ExtractTable(fn)
	if t.Err != "" {
		c.Undecided("addAnnotation table", c.Pos(fn.Pos()), t.Err)
		return
	}
	res, _ := t.BoolResult(0)
	var deps []string
	for i, a := range t.Atoms {
		if res.DependsOn(i) {
			deps = append(deps, a)
		}
	}
	hasDiff := false
	for _, d := range deps {
		if strings.Contains(d, ".Value != ") || strings.Contains(d, ".Value == ") {
			hasDiff = true
		}
	}
	c.Check(hasDiff, "addAnnotation reports a conflict on differing values", c.Pos(fn.Pos()), "conflict depends on "+strings.Join(trim(deps, 4), " ; "), "the conflict result does not compare the existing value with the new one")
	// no overwrite: a store/map update of the new value for an existing key must be on the not-found edge
	okNoOverwrite := true
	detail := ""
	for _, b := range fn.Blocks {
		for _, in := range b.Instrs {
			if mu, ok := in.(*ssa.MapUpdate); ok {
				// allowed: creating the per-uri map, or adding a key on the not-found edge
				gs := guardsOf(mu)
				foundEdge := false
				for _, g := range gs {
					if strings.Contains(g.Key, ",ok#1") && g.Branch {
						foundEdge = true
					}
				}
				if foundEdge {
					okNoOverwrite = false
					detail = c.InstrPos(mu)
				}
			}
		}
	}
	c.Check(okNoOverwrite, "addAnnotation never overwrites an existing value", c.Pos(fn.Pos()), fmt.Sprintf("%d writes, none on a `found` edge", n), "a value is written on the `found` edge (at "+detail+"): the later writer wins and the result depends on the order Ingresses are merged")
}

// rangeExprText renders the ranged expression as written in the source.
func rangeExprText(c *core.Ctx, lf loopFacts) string {
	fn := lf.fn
	top := fn
	for top.Parent() != nil {
		top = top.Parent()
	}
	var found string
	syn := fn.Syntax()
	if syn == nil {
		syn = top.Syntax()
	}
	if syn != nil {
		ast.Inspect(syn, func(n ast.Node) bool {
			if rs, ok := n.(*ast.RangeStmt); ok && found == "" {
				// go/ssa gives the Range instruction the position of the `for`... match by containment of X position
				if rs.X.Pos() <= lf.rng.Pos() && lf.rng.Pos() <= rs.X.End() || rs.For == lf.rng.Pos() || rs.X.Pos() == lf.rng.Pos() {
					found = types.ExprString(rs.X)
					// an expression rooted at a local variable: name the root by its type, not by its (renameable) name
					root := rs.X
					for {
						switch y := root.(type) {
						case *ast.SelectorExpr:
							root = y.X
							continue
						case *ast.CallExpr:
							root = y.Fun
							continue
						case *ast.IndexExpr:
							root = y.X
							continue
						}
						break
					}
					if id, ok := root.(*ast.Ident); ok {
						if p := c.ByPath[fn.Pkg.Pkg.Path()]; p != nil {
							if obj, ok := p.TypesInfo.Uses[id].(*types.Var); ok && !obj.IsField() && obj.Parent() != obj.Pkg().Scope() {
								isParam := false
								for f := fn; f != nil; f = f.Parent() {
									for _, q := range f.Params {
										if q.Object() == obj {
											isParam = true
										}
									}
								}
								if !isParam {
									found = "{" + types.TypeString(obj.Type(), func(p *types.Package) string { return p.Name() }) + "}" + found[len(id.Name):]
								}
							}
						}
					}
				}
			}
			return true
		})
	}
	if found == "" {
		return core.Key(lf.rng.X)
	}
	// the text names parameters and receivers: use their reviewed names so that a rename does not change the key
	for f := fn; f != nil; f = f.Parent() {
		for _, p := range f.Params {
			if alias := core.ParamName(p); alias != p.Name() {
				found = replaceIdent(found, p.Name(), alias)
			}
		}
	}
	return found
}

// resolveInvoke: the single repository implementation of an interface method (mocks excluded).
func resolveInvoke(env *core.Env, cc *ssa.CallCommon) *ssa.Function {
	if !cc.IsInvoke() {
		return nil
	}
	it, ok := cc.Value.Type().Underlying().(*types.Interface)
	if !ok {
		return nil
	}
	var hit *ssa.Function
	n := 0
	for _, fn := range env.SrcFuncs() {
		if fn.Name() != cc.Method.Name() || fn.Signature.Recv() == nil {
			continue
		}
		if strings.Contains(core.PkgOf(fn), "helper_test") {
			continue
		}
		rt := fn.Signature.Recv().Type()
		if types.Implements(rt, it) {
			hit = fn
			n++
		}
	}
	if n == 1 {
		return hit
	}
	return nil
}

// resolveDynamic: a call through a local func variable bound to one closure.
func resolveDynamic(cc *ssa.CallCommon, in *ssa.Function) *ssa.Function {
	v := cc.Value
	if u, ok := v.(*ssa.UnOp); ok {
		v = u.X
	}
	var cell ssa.Value
	switch x := v.(type) {
	case *ssa.Alloc:
		cell = x
	case *ssa.FreeVar:
		// find the binding in the parent
		par := in.Parent()
		if par == nil {
			return nil
		}
		idx := -1
		for i, fv := range in.FreeVars {
			if fv == x {
				idx = i
			}
		}
		for _, b := range par.Blocks {
			for _, ins := range b.Instrs {
				if mc, ok := ins.(*ssa.MakeClosure); ok && mc.Fn == ssa.Value(in) && idx >= 0 && idx < len(mc.Bindings) {
					cell = mc.Bindings[idx]
				}
			}
		}
	}
	al, ok := cell.(*ssa.Alloc)
	if !ok {
		return nil
	}
	var target *ssa.Function
	n := 0
	for _, r := range *al.Referrers() {
		if st, ok := r.(*ssa.Store); ok && st.Addr == ssa.Value(al) {
			if mc, ok := st.Val.(*ssa.MakeClosure); ok {
				target, _ = mc.Fn.(*ssa.Function)
				n++
			} else if !isConst(st.Val) {
				n += 2
			}
		}
	}
	if n == 1 {
		return target
	}
	return nil
}

// sliceID normalises a slice value: loads of a local variable are identified with the variable.
func sliceID(v ssa.Value) ssa.Value {
	for {
		switch x := v.(type) {
		case *ssa.UnOp:
			if al, ok := x.X.(*ssa.Alloc); ok && x.Op == token.MUL {
				return al
			}
			return v
		case *ssa.Slice:
			v = x.X
		default:
			return v
		}
	}
}

func isLocalSlice(v ssa.Value) bool {
	switch x := v.(type) {
	case *ssa.MakeSlice:
		return true
	case *ssa.UnOp:
		if al, ok := x.X.(*ssa.Alloc); ok && x.Op == token.MUL {
			_, isSlice := al.Type().Underlying().(*types.Pointer).Elem().Underlying().(*types.Slice)
			return isSlice
		}
		return false
	case *ssa.Slice:
		return isLocalSlice(x.X)
	case *ssa.Phi:
		for _, e := range x.Edges {
			if !isLocalSlice(e) {
				return false
			}
		}
		return true
	}
	return false
}

func isRepoSorter(callee *ssa.Function) bool {
	if callee == nil || callee.Blocks == nil || len(callee.Params) == 0 {
		return false
	}
	for _, s := range core.Calls(callee, false) {
		n := core.CalleeName(s.Common())
		if strings.HasPrefix(n, "sort.") && len(s.Common().Args) > 0 {
			a := core.Unwrap(s.Common().Args[0])
			if a == ssa.Value(callee.Params[0]) {
				return true
			}
			if al, ok := sliceID(a).(*ssa.Alloc); ok {
				for _, r := range *al.Referrers() {
					if st, ok := r.(*ssa.Store); ok && st.Val == ssa.Value(callee.Params[0]) {
						return true
					}
				}
			}
		}
	}
	return false
}

// sliceSortedLater: every path from `from` to a return that yields data passes a sort of a slice derived from sl.
func sliceSortedLater(fn *ssa.Function, from ssa.Instruction, sl ssa.Value) bool {
	derives := func(v ssa.Value) bool {
		seen := map[ssa.Value]bool{}
		var walk func(v ssa.Value) bool
		walk = func(v ssa.Value) bool {
			if v == nil || seen[v] {
				return false
			}
			seen[v] = true
			if v == sl || sliceID(v) == sliceID(sl) {
				return true
			}
			switch x := v.(type) {
			case *ssa.Slice:
				return walk(x.X)
			case *ssa.Phi:
				for _, e := range x.Edges {
					if walk(e) {
						return true
					}
				}
			case *ssa.MakeInterface:
				return walk(x.X)
			case *ssa.ChangeType:
				return walk(x.X)
			case *ssa.Call:
				if core.CalleeName(&x.Call) == "builtin:append" {
					return walk(x.Call.Args[0])
				}
			}
			return false
		}
		return walk(v)
	}
	isSort := func(in ssa.Instruction) bool {
		call, ok := in.(*ssa.Call)
		if !ok || len(call.Call.Args) == 0 {
			return false
		}
		n := core.CalleeName(&call.Call)
		if strings.HasPrefix(n, "sort.") || strings.HasPrefix(n, "slices.Sort") || isRepoSorter(call.Call.StaticCallee()) {
			return derives(call.Call.Args[0])
		}
		return false
	}
	w := core.PathQuery{Fn: fn, Start: from, Target: func(in ssa.Instruction) bool {
		r, ok := in.(*ssa.Return)
		if !ok {
			return false
		}
		for _, v := range core.Results(r) {
			if !core.IsNilConst(v) {
				return true
			}
		}
		return len(r.Results) == 0
	}, Barrier: isSort}.Find()
	return w == nil
}

// dependsOnLoop: v is computed from values defined inside the loop body.
func dependsOnLoop(v ssa.Value, lf loopFacts) bool {
	seen := map[ssa.Value]bool{}
	var walk func(v ssa.Value, d int) bool
	walk = func(v ssa.Value, d int) bool {
		if v == nil || seen[v] || d > 8 {
			return false
		}
		seen[v] = true
		in, ok := v.(ssa.Instruction)
		if !ok {
			return false
		}
		if in.Block() != nil && lf.body[in.Block()] {
			return true
		}
		for _, op := range in.Operands(nil) {
			if *op != nil && walk(*op, d+1) {
				return true
			}
		}
		return false
	}
	return walk(v, 0)
}

// replaceIdent replaces whole-word occurrences of an identifier in an expression text.
func replaceIdent(text, from, to string) string {
	var sb strings.Builder
	isId := func(b byte) bool { return b == '_' || b >= '0' && b <= '9' || b >= 'a' && b <= 'z' || b >= 'A' && b <= 'Z' }
	for i := 0; i < len(text); {
		if strings.HasPrefix(text[i:], from) && (i == 0 || !isId(text[i-1]) && text[i-1] != '.') && (i+len(from) == len(text) || !isId(text[i+len(from)])) {
			sb.WriteString(to)
			i += len(from)
			continue
		}
		sb.WriteByte(text[i])
		i++
	}
	return sb.String()
}
