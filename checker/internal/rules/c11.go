package rules

import (
	"fmt"
	"strings"

	"golang.org/x/tools/go/ssa"

	"hapverif/internal/core"
)

func init() {
	register(&core.Property{
		ID:          "C11",
		Title:       "No needless reloads: no-op resyncs and in-capacity endpoint changes stay dynamic",
		Explanation: "Static decision of necessary conditions only: (1) the update pipeline runs SyncConfig, Shrink, the map writers, the dynamic updater and writeConfig in that order; (2) Shrink drops a re-created object only when it equals the committed one and then puts the COMMITTED object (which carries the live slot layout) back into the current state, for every shard setting; (3) the slot padding (alignSlots) runs exactly when a reload is due, visits every backend of the current state, and flags every backend it pads (typestate: `padded` implies `flagged` at the end of each iteration); (4) added endpoints consume free slots before a reload is declared and unused free slots are carried to the new backend.",
		NotDecided: []string{
			"slots-min-free / slots-increment arithmetic",
			"that a history of spurious events produces no reload (needs executions)",
		},
		Rules: []*core.Rule{
			{ID: "C11.order", Floor: 5, Run: c11Order, Doc: "HAProxyUpdate: SyncConfig < Shrink < WriteTCPServicesMaps/WriteFrontendMaps/WriteBackendMaps < update() < writeConfig."},
			{ID: "C11.shrink-restore", Floor: 6, Run: c11ShrinkRestore, Doc: "Hosts.Shrink / Backends.Shrink: on a match items[name] = the deleted (committed) object, and the name leaves itemsAdd and itemsDel, all under the same condition; Backends also restores the shard entry when sharding is on."},
			{ID: "C11.match-cond", Floor: 2, Run: c11MatchCond, Doc: "Backends.Shrink matches iff found && len(add.Endpoints) <= len(del.Endpoints) && backendsMatch(add, del); Hosts.Shrink iff found && reflect.DeepEqual(add, del)."},
			{ID: "C11.align", Floor: 3, Run: c11Align, Doc: "alignSlots ranges over all current backends (Items, not only the changed ones) and on every iteration in which it appends an empty endpoint it calls BackendChanged before the next iteration."},
			{ID: "C11.reuse", Floor: 2, Run: c11Reuse, Doc: "checkBackendPair: added endpoints take the names of free slots and are enabled through the socket; remaining free slots are copied to the current backend."},
		},
	})
}

func c11Order(c *core.Ctx) {
	fn := c.Fn("haproxy", "instance.HAProxyUpdate")
	if fn == nil {
		return
	}
	steps := []string{"Config.SyncConfig", "Config.Shrink", "Config.WriteTCPServicesMaps", "Config.WriteFrontendMaps", "Config.WriteBackendMaps", "dynUpdater).update", "instance).writeConfig"}
	pred := func(suffix string) func(ssa.Instruction) bool {
		return func(in ssa.Instruction) bool {
			call, ok := in.(*ssa.Call)
			if !ok {
				return false
			}
			n := core.CalleeName(&call.Call)
			if call.Call.IsInvoke() {
				n = call.Call.Value.Type().String() + "." + call.Call.Method.Name()
				n = strings.ReplaceAll(n, core.Module+"/pkg/", "")
			}
			return strings.HasSuffix(n, suffix)
		}
	}
	for i := 0; i+1 < len(steps); i++ {
		a, b := steps[i], steps[i+1]
		if core.Reaches(fn, nil, pred(a)) == nil {
			c.Violated("HAProxyUpdate: "+a, c.Pos(fn.Pos()), "step not found")
			continue
		}
		w := core.MustPrecede(fn, pred(a), pred(b))
		c.Check(w == nil, "HAProxyUpdate: "+a+" < "+b, c.Pos(fn.Pos()), "", b+" can run before "+a)
	}
}

func c11ShrinkRestore(c *core.Ctx) {
	for _, x := range []struct{ typ, full string }{{"Hosts", "haproxy/types.Hosts"}, {"Backends", "haproxy/types.Backends"}} {
		fn := c.Fn("haproxy/types", x.typ+".Shrink")
		if fn == nil {
			continue
		}
		ops := mapOpsOn(fn, x.full)
		var ins, delAdd, delDel *mapOp
		for i := range ops {
			o := &ops[i]
			switch {
			case o.field == "items" && o.insert:
				ins = o
			case o.field == "itemsAdd" && !o.insert:
				delAdd = o
			case o.field == "itemsDel" && !o.insert:
				delDel = o
			}
		}
		if ins == nil || delAdd == nil || delDel == nil {
			c.Violated(x.typ+".Shrink restores and untracks", c.Pos(fn.Pos()), "items[name] = ..., delete(itemsAdd, name), delete(itemsDel, name) not all found")
			continue
		}
		// the restored value is the element of itemsDel (range value)
		mu := ins.in.(*ssa.MapUpdate)
		l := sliceLeaves(c.Env, mu.Value, 0)
		fromDel := leavesContain(l, "range:"+recvName(fn)+".itemsDel") && !leavesContain(l, ".itemsAdd[")
		c.Check(fromDel, x.typ+".Shrink restores the committed object", at(c, mu), "items[name] = the object from itemsDel", "the object put back into the current state is not the committed (deleted) one: "+leavesList(l)+" — the freshly parsed copy has no empty slots / differs in runtime state, so the next endpoint change needs a reload")
		same := ins.in.Block() == delAdd.in.Block() && ins.in.Block() == delDel.in.Block()
		c.Check(same, x.typ+".Shrink restore and untrack happen together", at(c, mu), "same block", "the object is dropped from the change sets under a different condition than it is restored into items: with one of the conditions false the current state keeps the re-created object while the updater sees no change")
		if x.typ == "Backends" {
			// shard restore under len(shards) > 0 only, value = del
			ok := false
			for _, b := range fn.Blocks {
				for _, in := range b.Instrs {
					if mu2, isMU := in.(*ssa.MapUpdate); isMU && isShardElem(mu2.Map) {
						ok = guardedBy(mu2, has("builtin:len(b.shards) > 0"), true) && mu2.Value == mu.Value
					}
				}
			}
			c.Check(ok, "Backends.Shrink restores the shard entry", c.Pos(fn.Pos()), "", "the shard map is not given back the committed object under len(shards) > 0")
			// and the items restore is NOT under the shards guard
			c.Check(!guardedBy(mu, has("builtin:len(b.shards) > 0"), true), "Backends.Shrink restores items regardless of sharding", at(c, mu), "", "items[name] = del is only done when sharding is on")
		}
	}
}

func recvName(fn *ssa.Function) string {
	if len(fn.Params) > 0 {
		return core.ParamName(fn.Params[0])
	}
	return "?"
}

func c11MatchCond(c *core.Ctx) {
	if fn := c.Fn("haproxy/types", "Backends.Shrink"); fn != nil {
		t := core.ExtractTable(fn)
		var del ssa.Instruction
		for _, o := range mapOpsOn(fn, "haproxy/types.Backends") {
			if o.field == "itemsAdd" && !o.insert {
				del = o.in
			}
		}
		if del != nil {
			m := matchers{
				"found": has("b.itemsAdd[", ",ok#1"),
				"fits":  has("builtin:len(", ".Endpoints) <= builtin:len(", ".Endpoints)"),
				"match": has("backendsMatch("),
			}
			b, err := t.Bind(m)
			if t.Err != "" || err != nil {
				c.Undecided("Backends.Shrink match condition", at(c, del), fmt.Sprint(t.Err, err))
			} else {
				cond, _ := t.InstrCond(del)
				// loop atoms (range next ok) are unbound: compare under care = all, ignoring unbound via dependence
				ok, diff, _ := compareIgnoringLoop(t, cond, b, func(v map[string]bool) bool { return v["found"] && v["fits"] && v["match"] })
				c.Check(ok, "Backends.Shrink match condition", at(c, del), "found && len(add.Endpoints) <= len(del.Endpoints) && backendsMatch", diff)
			}
			// argument order of `fits`: add on the left
			for _, a := range t.Atoms {
				if strings.Contains(a, ".Endpoints) <= builtin:len(") {
					c.Check(strings.Index(a, "itemsAdd[") < strings.Index(a, "<=") && strings.Index(a, "itemsAdd[") >= 0, "Backends.Shrink capacity direction", at(c, del), "new endpoints fit in the committed slots", "capacity comparison is reversed: `"+a+"`")
				}
			}
		}
	}
	if fn := c.Fn("haproxy/types", "Hosts.Shrink"); fn != nil {
		t := core.ExtractTable(fn)
		var del ssa.Instruction
		for _, o := range mapOpsOn(fn, "haproxy/types.Hosts") {
			if o.field == "itemsAdd" && !o.insert {
				del = o.in
			}
		}
		if del != nil {
			b, err := t.Bind(matchers{"found": has("h.itemsAdd[", ",ok#1"), "equal": has("reflect.DeepEqual(")})
			if t.Err != "" || err != nil {
				c.Undecided("Hosts.Shrink match condition", at(c, del), fmt.Sprint(t.Err, err))
			} else {
				cond, _ := t.InstrCond(del)
				ok, diff, _ := compareIgnoringLoop(t, cond, b, func(v map[string]bool) bool { return v["found"] && v["equal"] })
				c.Check(ok, "Hosts.Shrink match condition", at(c, del), "found && DeepEqual(add, del)", diff)
			}
		}
	}
}

// compareIgnoringLoop compares cond with spec on the rows where every unbound
// atom (loop conditions: `range` has a next element) is true.
func compareIgnoringLoop(t *core.Table, cond core.TT, b *core.Binding, spec func(v map[string]bool) bool) (bool, string, int) {
	// bind unbound atoms to a reserved name and care only when they are true
	b2 := &core.Binding{Names: append([]string(nil), b.Names...)}
	var loopNames []string
	for i := range b2.Names {
		if b2.Names[i] == "" {
			n := fmt.Sprintf("__loop%d", i)
			b2.Names[i] = n
			loopNames = append(loopNames, n)
		}
	}
	return t.Compare(cond, b2, spec, func(v map[string]bool) bool {
		for _, n := range loopNames {
			if !v[n] {
				return false
			}
		}
		return true
	})
}

func c11Align(c *core.Ctx) {
	fn := c.Fn("haproxy", "dynUpdater.alignSlots")
	if fn == nil {
		return
	}
	// ranges over Items()
	okRange := false
	for _, b := range fn.Blocks {
		for _, in := range b.Instrs {
			if r, ok := in.(*ssa.Range); ok {
				k := core.Key(r.X)
				okRange = strings.HasSuffix(k, "Backends).Items("+strings.TrimSuffix(strings.TrimPrefix(k[strings.LastIndex(k, "(")+1:], ""), ")")+")") || strings.Contains(k, "Backends).Items(")
				c.Check(strings.Contains(k, "Backends).Items("), "alignSlots visits every current backend", at(c, r), "ranges over Backends().Items()", "alignSlots ranges over `"+k+"`: a backend that was not touched in this batch is not re-padded at the reload, so its next in-capacity scale-up reloads again")
			}
		}
	}
	_ = okRange
	// typestate: padded => flagged at iteration end
	isPad := func(in ssa.Instruction) bool {
		call, ok := in.(*ssa.Call)
		return ok && strings.HasSuffix(core.CalleeName(&call.Call), "Backend).AddEmptyEndpoint")
	}
	isFlag := func(in ssa.Instruction) bool {
		call, ok := in.(*ssa.Call)
		return ok && strings.HasSuffix(core.CalleeName(&call.Call), "Backends).BackendChanged")
	}
	// the bool phi family standing for the local `changed`
	family := map[*ssa.Phi]bool{}
	for _, b := range fn.Blocks {
		for _, in := range b.Instrs {
			if ph, ok := in.(*ssa.Phi); ok && ph.Type().String() == "bool" {
				family[ph] = true
			}
		}
	}
	// outer loop header: target of a back edge that dominates every pad
	var header *ssa.BasicBlock
	for _, b := range fn.Blocks {
		for _, s := range b.Succs {
			if core.IsBackEdge(b, s) {
				all := true
				for _, bb := range fn.Blocks {
					for _, in := range bb.Instrs {
						if isPad(in) && !s.Dominates(bb) {
							all = false
						}
					}
				}
				if all && (header == nil || header.Dominates(s)) {
					header = s
				}
			}
		}
	}
	// states: bit0 padded-unflagged, bit1 local flag value
	enc := func(p, f bool) int {
		s := 0
		if p {
			s |= 1
		}
		if f {
			s |= 2
		}
		return s
	}
	fw := core.Forward{Fn: fn, Init: 1 << uint(enc(false, false)),
		Instr: func(in ssa.Instruction, s int) int {
			p, f := s&1 != 0, s&2 != 0
			if isPad(in) {
				p = true
			}
			if isFlag(in) {
				p = false
			}
			return enc(p, f)
		},
		Edge: func(from *ssa.BasicBlock, succ int, s int) (int, bool) {
			p, f := s&1 != 0, s&2 != 0
			to := from.Succs[succ]
			// branch on the flag
			if ifi, ok := from.Instrs[len(from.Instrs)-1].(*ssa.If); ok {
				if ph, isPhi := ifi.Cond.(*ssa.Phi); isPhi && family[ph] {
					if (succ == 0) != f {
						return s, false
					}
				}
			}
			if header != nil && to == header && core.IsBackEdge(from, to) {
				return s, false
			}
			// phi updates of the flag on this edge
			idx := -1
			for i, pr := range to.Preds {
				if pr == from {
					idx = i
				}
			}
			for _, in := range to.Instrs {
				ph, ok := in.(*ssa.Phi)
				if !ok {
					break
				}
				if !family[ph] || idx < 0 {
					continue
				}
				e := ph.Edges[idx]
				switch {
				case core.IsConstBool(e, true):
					f = true
				case core.IsConstBool(e, false):
					f = false
				}
			}
			return enc(p, f), true
		}}
	_, _, blockOut := fw.Run()
	bad := false
	n := 0
	for _, b := range fn.Blocks {
		for k, s := range b.Succs {
			if header != nil && s == header && core.IsBackEdge(b, header) {
				n++
				// apply the flag branch filter for this edge
				for _, st := range blockOut[b].States() {
					p, f := st&1 != 0, st&2 != 0
					if ifi, ok := b.Instrs[len(b.Instrs)-1].(*ssa.If); ok {
						if ph, isPhi := ifi.Cond.(*ssa.Phi); isPhi && family[ph] && (k == 0) != f {
							continue
						}
					}
					if p {
						bad = true
					}
				}
			}
		}
	}
	c.Check(!bad && n > 0, "alignSlots flags every backend it pads", c.Pos(fn.Pos()), fmt.Sprintf("%d iteration exits, none with an unflagged padded backend", n), "an iteration can end after AddEmptyEndpoint without BackendChanged: with sharding the padded backend's shard file is not rewritten and the running process has fewer slots than the model believes")
	// alignSlots is called from update only
	cg := 0
	for _, f := range c.SrcFuncs() {
		for _, s := range core.Calls(f, false) {
			if s.Common().StaticCallee() == fn {
				cg++
				c.Check(strings.HasSuffix(core.FuncName(f), "dynUpdater).update"), "alignSlots caller "+core.FuncName(f), at(c, s.Instr), "", "alignSlots is called outside dynUpdater.update")
			}
		}
	}
}

func c11Reuse(c *core.Ctx) {
	fn := c.Fn("haproxy", "dynUpdater.checkBackendPair")
	if fn == nil {
		return
	}
	// a store Name = empty[i].Name to an added endpoint, followed by execEnableEndpoint
	okName := false
	for _, st := range fieldStores(fn, false, "haproxy/types.Endpoint", "Name") {
		k := core.Key(st.Val)
		if strings.Contains(k, "empty") || strings.Contains(k, "phi{") && strings.HasSuffix(k, ".Name") {
			l := sliceLeaves(c.Env, st.Val, 0)
			if leavesContain(l, "builtin:append") || leavesContain(l, "old.Endpoints") || leavesContain(l, "oldBack") {
				okName = true
			}
		}
	}
	c.Check(okName, "added endpoints reuse the names of free slots", c.Pos(fn.Pos()), "", "no assignment of a free slot's name to an added endpoint: an added endpoint cannot be enabled at runtime")
	// remaining empty slots are copied: AddEmptyEndpoint in a loop after the enable loop
	okCopy := false
	for _, s := range core.Calls(fn, false) {
		if strings.HasSuffix(core.CalleeName(s.Common()), "Backend).AddEmptyEndpoint") {
			// result's Name is stored
			if v, ok := s.Instr.(ssa.Value); ok {
				for _, r := range *v.Referrers() {
					if fa, ok := r.(*ssa.FieldAddr); ok {
						if _, f := core.FieldOf(fa); f == "Name" {
							okCopy = true
						}
					}
				}
			}
		}
	}
	c.Check(okCopy, "unused free slots are carried to the current backend", c.Pos(fn.Pos()), "", "remaining free slots of the old backend are not copied (with their names) to the current one: they are lost for the next update")
}
