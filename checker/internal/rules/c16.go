package rules

import (
	"fmt"
	"go/token"
	"strings"

	"golang.org/x/tools/go/ssa"

	"hapverif/internal/core"
)

func init() {
	register(&core.Property{
		ID:          "C16",
		Title:       "Weighted balancing: server weights are valid and split traffic as configured",
		Explanation: "The statement is arithmetic (integer lcm/gcd mixed with float32 scaling and truncation); bounding RebalanceWeight's result over all weight/replica vectors needs numeric reasoning no sound static argument available here provides, so the arithmetic itself is NOT decided. Decided structurally, as necessary conditions: (1) the configured blue/green weight is clamped to 0..256 before it is stored (in `pod` mode it is written to the servers unchanged); (2) endpoints matching no group get weight 0 and draining endpoints (weight 0) are skipped before grouping; (3) the rebalance runs for `deploy` mode with the configured initial weight, and in the Gateway converter on every path that adds weighted endpoints, with base 128 and default backendRef weight 1, and the server weights are read back from the rebalanced clusters; (4) accumulator discipline inside RebalanceWeight: the lcm/gcd accumulators are combined with themselves on every iteration once initialised — a plain overwrite is allowed only while the accumulator still has its initial value.",
		NotDecided: []string{
			"weights in 0..256 after RebalanceWeight, proportional shares up to rounding: arithmetic, not applicable to static analysis (DESIGN §4 C16)",
		},
		Rules: []*core.Rule{
			{ID: "C16.clamp", Floor: 1, Run: c16Clamp, Doc: "buildBackendBlueGreenBalance: the value stored into the group's cluster weight is the parsed value, or 0 under `w < 0`, or 256 under `w > 256`."},
			{ID: "C16.zeroing", Floor: 2, Run: c16Zeroing, Doc: "Endpoints with no matching label get Weight = 0; endpoints whose Weight is 0 (draining) are skipped before the label match."},
			{ID: "C16.rebalance-call", Floor: 4, Run: c16RebalanceCall, Doc: "ann: RebalanceWeight(cl, initial-weight) runs unless mode is `pod`, and endpoint weights are then read from cl[i].Weight; gw: RebalanceWeight(cl, 128) precedes every AddEndpoint whose weight comes from cl[i].Weight, default backendRef weight is 1."},
			{ID: "C16.accumulators", Floor: 2, Run: c16Accumulators, Doc: "RebalanceWeight: a loop-carried accumulator that is combined through lcm/gcd may be overwritten with a value that does not depend on it only on the edge where it still is its initial value (acc > 0 is false)."},
		},
	})
}

func c16Clamp(c *core.Ctx) {
	fn := c.Fn("converters/ingress/annotations", "updater.buildBackendBlueGreenBalance")
	if fn == nil {
		return
	}
	var st *ssa.Store
	for _, s := range fieldStores(fn, false, "converters/utils.WeightCluster", "Weight") {
		st = s
	}
	if st == nil {
		c.Violated("blue/green group weight is stored", c.Pos(fn.Pos()), "no store to WeightCluster.Weight")
		return
	}
	v := core.Unwrap(st.Val)
	// expected: phi{256 | phi{0 | ParseInt#0}}
	type edge struct {
		val  ssa.Value
		from *ssa.BasicBlock
	}
	var leaves []edge
	var walk func(v ssa.Value, from *ssa.BasicBlock, d int)
	walk = func(v ssa.Value, from *ssa.BasicBlock, d int) {
		if ph, ok := v.(*ssa.Phi); ok && d < 4 {
			for i, e := range ph.Edges {
				walk(e, ph.Block().Preds[i], d+1)
			}
			return
		}
		leaves = append(leaves, edge{v, from})
	}
	walk(v, st.Block(), 0)
	var has0, has256, hasParsed bool
	ok := true
	detail := ""
	for _, e := range leaves {
		k := core.Key(e.val)
		switch {
		case k == "0":
			has0 = true
			if !blockGuarded(e.from, func(g guard) bool {
				return strings.Contains(g.Key, "strconv.ParseInt(") && strings.HasSuffix(g.Key, "< 0)") && g.Branch
			}) {
				ok, detail = false, "the constant 0 is assigned outside the `w < 0` branch"
			}
		case k == "256":
			has256 = true
			if !blockGuarded(e.from, func(g guard) bool { return strings.HasSuffix(g.Key, "> 256)") && g.Branch }) {
				ok, detail = false, "the constant 256 is assigned outside the `w > 256` branch"
			}
		case strings.HasPrefix(k, "strconv.ParseInt(") && strings.HasSuffix(k, "#0"):
			hasParsed = true
		default:
			ok, detail = false, "unexpected source of the weight: "+k
		}
	}
	c.Check(ok && has0 && has256 && hasParsed, "blue/green group weight is clamped to 0..256", at(c, st), "stored value is parsed | 0 under w<0 | 256 under w>256", "the configured weight reaches the server weight without being clamped to 0..256 ("+detail+fmt.Sprintf("; has0=%v has256=%v parsed=%v", has0, has256, hasParsed)+"): HAProxy refuses weights above 256 and negative weights")
}

func blockGuarded(b *ssa.BasicBlock, pred func(g guard) bool) bool {
	if b == nil {
		return false
	}
	for _, e := range core.ControllingEdges(b) {
		if pred(guard{core.Key(e.If.Cond), e.Branch, e.If.Cond}) {
			return true
		}
	}
	return false
}

func c16Zeroing(c *core.Ctx) {
	fn := c.Fn("converters/ingress/annotations", "updater.buildBackendBlueGreenBalance")
	if fn == nil {
		return
	}
	// store ep.Weight = 0 under the false edge of the hasLabel phi
	okZero := false
	for _, st := range fieldStores(fn, false, "haproxy/types.Endpoint", "Weight") {
		if core.Key(st.Val) != "0" {
			continue
		}
		for _, g := range guardsOf(st) {
			if ph, ok := g.Cond.(*ssa.Phi); ok && ph.Type().String() == "bool" && !g.Branch {
				// the phi is true only where a label matched
				okZero = true
			}
		}
	}
	c.Check(okZero, "endpoints without a matching label get weight 0", c.Pos(fn.Pos()), "", "no `ep.Weight = 0` under `!hasLabel`: an endpoint outside every group keeps its weight and receives traffic")
	// draining skip: (ep.Weight == 0) true edge leaves the iteration before GetPod
	okSkip := false
	for _, b := range fn.Blocks {
		if ifi, ok := b.Instrs[len(b.Instrs)-1].(*ssa.If); ok {
			k := core.Key(ifi.Cond)
			if strings.Contains(k, ".Endpoints[") && strings.HasSuffix(k, ".Weight == 0)") {
				// every weight assignment of the loop executes only on the false edge of this test
				l := core.InnermostLoop(fn, b)
				if l == nil {
					continue
				}
				okSkip = true
				n := 0
				for _, st := range fieldStores(fn, false, "haproxy/types.Endpoint", "Weight") {
					if !l.Blocks[st.Block()] {
						continue
					}
					n++
					if !guardedBy(st, func(g string) bool { return g == k }, false) {
						okSkip = false
						c.Violated("draining endpoint keeps weight 0: "+core.Key(st.Val), at(c, st), "a weight is assigned in the label-matching loop on a path that does not pass the false edge of `ep.Weight == 0`: a draining server (weight 0) gets a group's weight back")
					}
				}
				if n < 2 {
					okSkip = false
				}
			}
		}
	}
	c.Check(okSkip, "draining endpoints are skipped", c.Pos(fn.Pos()), "", "no `if ep.Weight == 0 { continue }` before the label match: a draining server gets its group's weight back")
}

func c16RebalanceCall(c *core.Ctx) {
	isReb := func(in ssa.Instruction) bool {
		call, ok := in.(*ssa.Call)
		return ok && strings.HasSuffix(core.CalleeName(&call.Call), "converters/utils.RebalanceWeight")
	}
	if fn := c.Fn("converters/ingress/annotations", "updater.buildBackendBlueGreenBalance"); fn != nil {
		n := 0
		for _, b := range fn.Blocks {
			for _, in := range b.Instrs {
				if !isReb(in) {
					continue
				}
				n++
				call := in.(*ssa.Call)
				k := core.Key(call.Call.Args[1])
				c.Check(strings.Contains(k, `"initial-weight")`) && strings.Contains(k, ".Int("), "ann: rebalance base is initial-weight", at(c, call), "", "base is `"+k+"`")
				okMode := guardedBy(call, has(`"blue-green-mode").Value == "pod")`), false)
				c.Check(okMode, "ann: rebalance is skipped only for mode pod", at(c, call), "", "the rebalance is not guarded exactly by mode != pod")
			}
		}
		c.Check(n == 1, "ann: one rebalance call", c.Pos(fn.Pos()), "", fmt.Sprintf("%d calls", n))
		// after it endpoints read cl[i].Weight
		okRead := false
		for _, st := range fieldStores(fn, false, "haproxy/types.Endpoint", "Weight") {
			k := core.Key(st.Val)
			if strings.HasSuffix(k, ".Weight") && strings.Contains(k, "makeslice[") {
				for _, b := range fn.Blocks {
					for _, in := range b.Instrs {
						if isReb(in) && core.Reaches(fn, in, func(x ssa.Instruction) bool { return x == ssa.Instruction(st) }) != nil {
							okRead = true
						}
					}
				}
			}
		}
		c.Check(okRead, "ann: endpoint weights are read back from the rebalanced clusters", c.Pos(fn.Pos()), "", "no ep.Weight = cl[i].Weight after the rebalance")
	}
	if fn := c.Fn("converters/gateway", "converter.createBackend"); fn != nil {
		var reb *ssa.Call
		for _, b := range fn.Blocks {
			for _, in := range b.Instrs {
				if isReb(in) {
					reb = in.(*ssa.Call)
				}
			}
		}
		if reb == nil {
			c.Violated("gw: rebalance call", c.Pos(fn.Pos()), "createBackend never rebalances backendRef weights")
			return
		}
		c.Check(core.Key(reb.Call.Args[1]) == "128", "gw: rebalance base is 128", at(c, reb), "", "base is "+core.Key(reb.Call.Args[1]))
		// every store to Endpoint.Weight: value from cl[i].Weight and preceded by the rebalance on all paths
		n := 0
		for _, st := range fieldStores(fn, false, "haproxy/types.Endpoint", "Weight") {
			n++
			k := core.Key(st.Val)
			okVal := strings.HasSuffix(k, ".Weight") && strings.Contains(k, "makeslice[")
			w := core.MustPrecede(fn, func(in ssa.Instruction) bool { return in == ssa.Instruction(reb) }, func(in ssa.Instruction) bool { return in == ssa.Instruction(st) })
			c.Check(okVal && w == nil, "gw: server weight comes from the rebalanced clusters", at(c, st), "", "a server weight is assigned `"+k+"` or on a path that skips RebalanceWeight: the configured backendRef weight (e.g. 0) is not honoured")
		}
		// every AddEndpoint is followed by a weight store (no endpoint left at the default weight)
		for _, s := range core.Calls(fn, false) {
			if strings.HasSuffix(core.CalleeName(s.Common()), "Backend).AddEndpoint") {
				w := core.MustPrecede(fn, func(in ssa.Instruction) bool { return in == ssa.Instruction(reb) }, func(in ssa.Instruction) bool { return in == s.Instr })
				c.Check(w == nil, "gw: endpoints are added after the rebalance", at(c, s.Instr), "", "an endpoint can be added on a path that skips RebalanceWeight")
				used := false
				if v, ok := s.Instr.(ssa.Value); ok {
					for _, r := range *v.Referrers() {
						if fa, ok := r.(*ssa.FieldAddr); ok {
							if _, f := core.FieldOf(fa); f == "Weight" {
								used = true
							}
						}
					}
				}
				c.Check(used, "gw: every added endpoint gets its cluster weight", at(c, s.Instr), "", "an endpoint is added without assigning its weight")
			}
		}
		c.Check(n > 0, "gw: weights are assigned", c.Pos(fn.Pos()), "", "no store to Endpoint.Weight")
		// default weight 1 when nil, *back.Weight otherwise
		okDef := false
		for _, st := range fieldStores(fn, false, "converters/utils.WeightCluster", "Weight") {
			k := core.Key(st.Val)
			if strings.HasPrefix(k, "phi{") && strings.Contains(k, "1") && strings.Contains(k, ".Weight") {
				okDef = true
			}
		}
		c.Check(okDef, "gw: backendRef weight defaults to 1", c.Pos(fn.Pos()), "", "cluster weight is not (1 | *backendRef.Weight)")
	}
}

func c16Accumulators(c *core.Ctx) {
	fn := c.Fn("converters/utils", "RebalanceWeight")
	if fn == nil {
		return
	}
	n := 0
	for _, b := range fn.Blocks {
		for _, in := range b.Instrs {
			acc, ok := in.(*ssa.Phi)
			if !ok {
				break
			}
			// loop header phi?
			isHeader := false
			for i := range acc.Edges {
				if core.IsBackEdge(b.Preds[i], b) {
					isHeader = true
				}
			}
			if !isHeader {
				continue
			}
			// collect leaf incoming values on back edges, looking through merge phis
			type leaf struct {
				v    ssa.Value
				from *ssa.BasicBlock
			}
			var leaves []leaf
			seen := map[ssa.Value]bool{}
			var walk func(v ssa.Value, from *ssa.BasicBlock)
			walk = func(v ssa.Value, from *ssa.BasicBlock) {
				if v == ssa.Value(acc) {
					return
				}
				if ph, ok := v.(*ssa.Phi); ok && ph != acc {
					if seen[ph] {
						return
					}
					seen[ph] = true
					for i, e := range ph.Edges {
						walk(e, ph.Block().Preds[i])
					}
					return
				}
				leaves = append(leaves, leaf{v, from})
			}
			for i, e := range acc.Edges {
				if core.IsBackEdge(b.Preds[i], b) {
					walk(e, b.Preds[i])
				}
			}
			combines := false
			for _, l := range leaves {
				if call, ok := l.v.(*ssa.Call); ok {
					nm := core.CalleeName(&call.Call)
					if (strings.HasSuffix(nm, ".lcm") || strings.HasSuffix(nm, ".gcd")) && len(call.Call.Args) == 2 && (call.Call.Args[0] == ssa.Value(acc) || call.Call.Args[1] == ssa.Value(acc)) {
						combines = true
					}
				}
			}
			if !combines {
				continue
			}
			n++
			name := acc.Comment
			for _, l := range leaves {
				if call, ok := l.v.(*ssa.Call); ok {
					nm := core.CalleeName(&call.Call)
					if strings.HasSuffix(nm, ".lcm") || strings.HasSuffix(nm, ".gcd") {
						continue
					}
				}
				if dependsOn(l.v, acc, 6) {
					continue
				}
				// a plain overwrite: allowed only where acc > 0 is false
				ok := blockGuarded(l.from, func(g guard) bool {
					bo, isBO := g.Cond.(*ssa.BinOp)
					if !isBO || bo.X != ssa.Value(acc) {
						return false
					}
					return bo.Op == token.GTR && core.Key(bo.Y) == "0" && !g.Branch
				})
				c.Check(ok, "RebalanceWeight accumulator "+name+" overwrite", c.InstrPos(l.from.Instrs[len(l.from.Instrs)-1]), "overwritten only while still at its initial value",
					"the "+name+" accumulator is overwritten with `"+core.Key(l.v)+"` on an edge where it may already hold a value: the least common multiple / greatest common divisor of the groups seen so far is lost and the resulting weights are out of proportion or out of range")
			}
		}
	}
	if n < 2 {
		c.Violated("RebalanceWeight accumulators", c.Pos(fn.Pos()), fmt.Sprintf("%d lcm/gcd accumulators found, expected 2", n))
	}
}

func dependsOn(v ssa.Value, target ssa.Value, depth int) bool {
	if v == target {
		return true
	}
	if depth == 0 {
		return false
	}
	in, ok := v.(ssa.Instruction)
	if !ok {
		return false
	}
	for _, op := range in.Operands(nil) {
		if *op != nil && dependsOn(*op, target, depth-1) {
			return true
		}
	}
	return false
}
