package rules

import (
	"fmt"
	"strings"

	"golang.org/x/tools/go/ssa"

	"hapverif/internal/core"
)

func init() {
	register(&core.Property{
		ID:          "C10",
		Title:       "Gateway API routes attach only where class, listener and namespace rules allow",
		Explanation: "Static decision of the admission functions: (1) the complete decision tables of checkListenerAllowed, checkListenerAllowedKind (per element) and checkListenerAllowedNamespace equal the Gateway API rules (Same / All / Selector, nil means denied); (2) syncRoute reaches a Gateway only for group/kind Gateway (nil or empty default to it), resolves the parent namespace per parentRef from that parentRef or the route's namespace — never from a value carried over from another parentRef — and skips a Gateway the cache did not return; (3) the three GetGateway* getters return (nil, nil) exactly for a readable Gateway of a foreign class, class validity is recomputed from the GatewayClass on every call, and the three IsValidGatewayClass* compare the controller name; (4) in both route kinds, hosts, backends and TCP services are created only past the sectionName match and a nil result of checkListenerAllowed.",
		NotDecided:  []string{"the product of object sets on concrete clusters; backendRef weights (arithmetic, see C16)"},
		Rules: []*core.Rule{
			{ID: "C10.allowed", Floor: 3, Run: c10Allowed, Doc: "Decision tables of the three checkListenerAllowed* functions."},
			{ID: "C10.parent", Floor: 4, Run: c10Parent, Doc: "syncRoute: group/kind defaults and test; parent namespace is the parentRef's or the route's, computed inside the iteration; nil gateway source is skipped."},
			{ID: "C10.class", Floor: 7, Run: c10Class, Doc: "GetGatewayA2/B1/GetGateway: (nil,nil) iff enabled, read ok and class not ours; isValidGateway = class readable and IsValidGatewayClass, with no other input; class tables."},
			{ID: "C10.listener", Floor: 4, Run: c10Listener, Doc: "syncHTTPRouteGateway / syncTCPRouteGateway: creation calls only past (sectionName == nil || *sectionName == listener.Name) and checkListenerAllowed == nil, with that listener and that route."},
			{ID: "C10.source-nil", Floor: 1, Run: c10SourceNil, Doc: "newGatewaySource returns nil when the getter fails or returns a nil gateway."},
		},
	})
}

func errClass(r *ssa.Return) string {
	res := core.Results(r)
	if core.IsNilConst(res[len(res)-1]) {
		return "allow"
	}
	return "deny"
}

func c10Allowed(c *core.Ctx) {
	if fn := c.Fn("converters/gateway", "converter.checkListenerAllowed"); fn != nil {
		t := core.ExtractTable(fn)
		b, err := t.Bind(matchers{
			"lnil":  has("(listener == nil)"),
			"arnil": has("listener.AllowedRoutes == nil)"),
			"kind":  has("checkListenerAllowedKind(", " != nil)"),
			"ns":    has("checkListenerAllowedNamespace(", " != nil)"),
		})
		if t.Err != "" || err != nil {
			c.Undecided("checkListenerAllowed", c.Pos(fn.Pos()), fmt.Sprint(t.Err, err))
		} else {
			ok, diff, rows := t.CompareClasses(t.ReturnClasses(errClass), b, func(v map[string]bool) string {
				if v["lnil"] || v["arnil"] || v["kind"] || v["ns"] {
					return "deny"
				}
				return "allow"
			})
			c.Check(ok, "checkListenerAllowed", c.Pos(fn.Pos()), fmt.Sprintf("allowed iff listener and AllowedRoutes set and kind and namespace admitted (%d rows)", rows), diff)
		}
		// arguments: the kind check gets the route and AllowedRoutes.Kinds; the namespace check gateway, route, AllowedRoutes.Namespaces
		for _, s := range core.Calls(fn, false) {
			n := core.CalleeName(s.Common())
			a := s.Common().Args
			if strings.HasSuffix(n, "checkListenerAllowedKind") {
				c.Check(core.Key(a[0]) == "routeSource" && strings.HasSuffix(core.Key(a[1]), "AllowedRoutes.Kinds"), "checkListenerAllowed passes route and kinds", at(c, s.Instr), "", "wrong arguments")
			}
			if strings.HasSuffix(n, "checkListenerAllowedNamespace") {
				c.Check(core.Key(a[1]) == "gatewaySource" && core.Key(a[2]) == "routeSource" && strings.HasSuffix(core.Key(a[3]), "AllowedRoutes.Namespaces"), "checkListenerAllowed passes gateway, route and namespaces", at(c, s.Instr), "", "wrong arguments")
			}
		}
	}
	if fn := c.Fn("converters/gateway", "checkListenerAllowedKind"); fn != nil {
		t := core.ExtractTable(fn)
		m := matchers{
			"empty": has("builtin:len(kinds) == 0)"),
			"gnil":  has(".Group == nil)"),
			"geq":   has(".Group == gatewayGroup)"),
			"keq":   has(".Kind == ", "routeSource.kind"),
		}
		b, err := t.Bind(m)
		if t.Err != "" || err != nil {
			c.Undecided("checkListenerAllowedKind", c.Pos(fn.Pos()), fmt.Sprint(t.Err, err))
		} else {
			// per element: an element admits iff (gnil || geq) && keq; allow returns are: empty list, or an admitting element
			cl := t.ReturnClasses(errClass)
			allow := cl["allow"]
			ok, diff, _ := compareIgnoringLoop(t, allow, b, func(v map[string]bool) bool {
				return v["empty"] || (v["gnil"] || v["geq"]) && v["keq"]
			})
			c.Check(ok, "checkListenerAllowedKind", c.Pos(fn.Pos()), "allowed iff the list is empty or an element has (group nil or gateway group) and the route's kind", diff)
			// the deny return is after the loop
			nDeny := 0
			for _, r := range core.Returns(fn) {
				if errClass(r) == "deny" {
					nDeny++
				}
			}
			c.Check(nDeny > 0, "checkListenerAllowedKind denies when no element admits", c.Pos(fn.Pos()), "", "no error return: a route of a kind the listener does not list is admitted")
			for _, r := range core.Returns(fn) {
				if errClass(r) == "deny" {
					k := core.Key(core.Results(r)[0])
					c.Check(strings.Contains(k, "fmt.Errorf("), "checkListenerAllowedKind denies after the loop", at(c, r), "", "deny result is `"+k+"`")
				}
			}
		}
	}
	if fn := c.Fn("converters/gateway", "converter.checkListenerAllowedNamespace"); fn != nil {
		t := core.ExtractTable(fn)
		m := matchers{
			"nsnil":   has("(namespaces == nil)"),
			"fromnil": has("namespaces.From == nil)"),
			"same":    has(`namespaces.From == "Same")`),
			"eqns":    has("routeSource.namespace == gatewaySource.source.namespace)"),
			"all":     has(`namespaces.From == "All")`),
			"sel":     has(`namespaces.From == "Selector")`),
			"selnil":  has("namespaces.Selector == nil)"),
			"selerr":  has("LabelSelectorAsSelector(", "#1 != nil)"),
			"nserr":   has("GetNamespace(", "#1 != nil)"),
			"match":   has(".Matches("),
		}
		b, err := t.Bind(m)
		if t.Err != "" || err != nil {
			c.Undecided("checkListenerAllowedNamespace", c.Pos(fn.Pos()), fmt.Sprint(t.Err, err))
		} else {
			ok, diff, rows := t.CompareClasses(t.ReturnClasses(errClass), b, func(v map[string]bool) string {
				// From is one value: rows with two of same/all/sel true are infeasible
				cnt := 0
				for _, k := range []string{"same", "all", "sel"} {
					if v[k] {
						cnt++
					}
				}
				if cnt > 1 {
					return ""
				}
				if v["nsnil"] || v["fromnil"] {
					return "deny"
				}
				if v["same"] && v["eqns"] {
					return "allow"
				}
				if v["all"] {
					return "allow"
				}
				if v["sel"] && !v["selnil"] && !v["selerr"] && !v["nserr"] && v["match"] {
					return "allow"
				}
				return "deny"
			})
			c.Check(ok, "checkListenerAllowedNamespace", c.Pos(fn.Pos()), fmt.Sprintf("Same/All/Selector rules on %d feasible rows", rows), diff)
		}
		// the namespace read is the route's, the labels matched are that namespace's
		for _, s := range core.Calls(fn, false) {
			if s.Common().IsInvoke() && s.Common().Method.Name() == "GetNamespace" {
				c.Check(core.Key(s.Common().Args[0]) == "routeSource.namespace", "selector is evaluated on the route's namespace", at(c, s.Instr), "", "GetNamespace(`"+core.Key(s.Common().Args[0])+"`)")
			}
			if s.Common().IsInvoke() && s.Common().Method.Name() == "Matches" {
				k := core.Key(s.Common().Args[0])
				c.Check(strings.Contains(k, "GetNamespace(") && strings.Contains(k, ".Labels"), "selector matches the namespace labels", at(c, s.Instr), "", "Matches(`"+k+"`)")
			}
		}
	}
}

func c10Parent(c *core.Ctx) {
	fn := c.Fn("converters/gateway", "converter.syncRoute")
	if fn == nil {
		return
	}
	newSrc := c.Env.Func("converters/gateway", "converter.newGatewaySource")
	var srcCall, gwCall *ssa.Call
	for _, s := range core.Calls(fn, false) {
		if s.Common().StaticCallee() == newSrc {
			srcCall, _ = s.Instr.(*ssa.Call)
		}
		if k := core.Key(s.Common().Value); k == "syncGateway" {
			gwCall, _ = s.Instr.(*ssa.Call)
		}
	}
	if srcCall == nil || gwCall == nil {
		c.Violated("syncRoute resolves the gateway and attaches", c.Pos(fn.Pos()), "newGatewaySource / syncGateway calls not found")
		return
	}
	// (a) namespace argument: no loop-carried value
	ns := srcCall.Call.Args[1]
	carried := ""
	seen := map[ssa.Value]bool{}
	var walk func(v ssa.Value)
	walk = func(v ssa.Value) {
		if v == nil || seen[v] {
			return
		}
		seen[v] = true
		switch x := v.(type) {
		case *ssa.Phi:
			for i := range x.Edges {
				if core.IsBackEdge(x.Block().Preds[i], x.Block()) {
					carried = core.Key(x)
				}
			}
			for _, e := range x.Edges {
				walk(e)
			}
		case *ssa.Convert:
			walk(x.X)
		case *ssa.ChangeType:
			walk(x.X)
		case *ssa.UnOp:
			walk(x.X)
		}
	}
	walk(ns)
	l := sliceLeaves(c.Env, ns, 0)
	c.Check(carried == "" && leavesContain(l, "routeSource.namespace") && leavesContain(l, ".Namespace"), "syncRoute parent namespace is per parentRef", at(c, srcCall), "the route's namespace unless this parentRef names one",
		"the namespace used to resolve the parent Gateway is carried over from a previous parentRef ("+carried+") or does not default to the route's namespace: a parentRef without namespace resolves in a foreign namespace")
	// (b) name argument is this parentRef's
	c.Check(strings.HasSuffix(core.Key(srcCall.Call.Args[2]), ".Name"), "syncRoute resolves this parentRef's name", at(c, srcCall), "", "name argument is `"+core.Key(srcCall.Call.Args[2])+"`")
	// (c) group/kind test guards the resolution
	t := core.ExtractTable(fn)
	if t.Err != "" {
		c.Undecided("syncRoute group/kind", at(c, srcCall), t.Err)
	} else {
		cond, _ := t.InstrCond(srcCall)
		b, unbound, dup := bindDeps(t, cond, matchers{
			"gne": func(k string) bool { return strings.HasSuffix(k, "!= gatewayGroup)") },
			"kne": func(k string) bool { return strings.HasSuffix(k, "!= gatewayKind)") },
		})
		var real []string
		for _, u := range unbound {
			if !strings.Contains(u, "builtin:len(") && !strings.HasPrefix(u, "loopphi") {
				real = append(real, u)
			}
		}
		bound := map[string]bool{}
		if b != nil {
			for _, n := range b.Names {
				bound[n] = true
			}
		}
		if dup != "" || len(real) > 0 {
			c.Violated("syncRoute group/kind", at(c, srcCall), fmt.Sprintf("the resolution also depends on %v %s", real, dup))
		} else if !bound["gne"] || !bound["kne"] {
			c.Violated("syncRoute group/kind", at(c, srcCall), "the resolution of the parent does not depend on the group and kind tests: a parentRef of a foreign group or kind is resolved as a Gateway")
		} else {
			ok, diff, _ := compareIgnoringLoop(t, cond, b, func(v map[string]bool) bool { return !v["gne"] && !v["kne"] })
			c.Check(ok, "syncRoute group/kind", at(c, srcCall), "a parent is resolved iff its group and kind are the Gateway API Gateway", diff)
		}
		// the compared values default to the gateway group/kind: phi of (constant global, *parentRef.Group)
		for _, a := range t.Atoms {
			if strings.HasSuffix(a, "!= gatewayGroup)") {
				c.Check(strings.Contains(a, "phi{") && strings.Contains(a, "gatewayGroup|") || strings.Contains(a, "|gatewayGroup}"), "syncRoute group defaults to the gateway group", c.Pos(fn.Pos()), "", "group compared is `"+a+"`")
			}
			if strings.HasSuffix(a, "!= gatewayKind)") {
				c.Check(strings.Contains(a, "phi{") && (strings.Contains(a, "gatewayKind|") || strings.Contains(a, "|gatewayKind}")), "syncRoute kind defaults to Gateway", c.Pos(fn.Pos()), "", "kind compared is `"+a+"`")
			}
		}
	}
	// (d) syncGateway only for a non-nil source, with that source and this parentRef's sectionName
	okNil := guardedBy(gwCall, has("newGatewaySource(", " == nil)"), false) || guardedBy(gwCall, has("newGatewaySource(", " != nil)"), true)
	c.Check(okNil, "syncRoute skips a gateway the cache did not return", at(c, gwCall), "", "syncGateway is called without the nil test of the gateway source")
	c.Check(gwCall.Call.Args[0] == ssa.Value(srcCall) && strings.HasSuffix(core.Key(gwCall.Call.Args[1]), ".SectionName"), "syncRoute attaches to the resolved gateway with this parentRef's sectionName", at(c, gwCall), "", "arguments: "+core.Key(gwCall.Call.Args[0])+", "+core.Key(gwCall.Call.Args[1]))
}

func c10Class(c *core.Ctx) {
	for _, x := range []struct{ fn, flag, valid string }{
		{"c.GetGatewayA2", "HasGatewayA2", "IsValidGatewayA2("},
		{"c.GetGatewayB1", "HasGatewayB1", "IsValidGatewayB1("},
		{"c.GetGateway", "HasGatewayV1", "IsValidGateway("},
	} {
		fn := c.Fn("controller/services", x.fn)
		if fn == nil {
			continue
		}
		t := core.ExtractTable(fn)
		b, err := t.Bind(matchers{
			"enabled": has("c.config." + x.flag),
			"errnil":  has("client.Get(", " == nil)"),
			"valid":   has(x.valid),
		})
		if t.Err != "" || err != nil {
			c.Undecided("controller/services."+x.fn, c.Pos(fn.Pos()), fmt.Sprint(t.Err, err))
			continue
		}
		cl := t.ReturnClasses(func(r *ssa.Return) string {
			res := core.Results(r)
			switch {
			case core.IsNilConst(res[0]) && core.IsNilConst(res[1]):
				return "foreign"
			case core.IsNilConst(res[0]):
				return "disabled"
			default:
				if strings.Contains(core.Key(res[1]), "client.Get(") {
					return "object"
				}
				return "?" + core.Key(res[1])
			}
		})
		ok, diff, rows := t.CompareClasses(cl, b, func(v map[string]bool) string {
			if !v["enabled"] {
				return "disabled"
			}
			if v["errnil"] && !v["valid"] {
				return "foreign"
			}
			return "object"
		})
		c.Check(ok, "controller/services."+x.fn, c.Pos(fn.Pos()), fmt.Sprintf("(nil,nil) iff enabled, read ok and class not ours (%d rows)", rows), diff)
	}
	if fn := c.Fn("controller/services", "c.isValidGateway"); fn != nil {
		tableRule(c, "controller/services.c.isValidGateway", fn, 0, matchers{
			"realerr": has(".IgnoreNotFound(", "!= nil)"),
			"err": func(k string) bool {
				return strings.HasSuffix(k, "#1 != nil)") && strings.Contains(k, "getGatewayClass(") && !strings.Contains(k, "IgnoreNotFound")
			},
			"ourclass": has("IsValidGatewayClass("),
		}, func(v map[string]bool) bool {
			if v["realerr"] || v["err"] {
				return false
			}
			return v["ourclass"]
		})
		// the class read is keyed by the gateway's class name
		for _, s := range core.Calls(fn, false) {
			if strings.HasSuffix(core.CalleeName(s.Common()), ".getGatewayClass") {
				k := core.Key(s.Common().Args[2])
				c.Check(strings.HasSuffix(k, "Spec.GatewayClassName"), "isValidGateway reads the gateway's own class", at(c, s.Instr), "", "class read is keyed by `"+k+"`")
			}
		}
	}
	for _, n := range []string{"c.IsValidGatewayClassA2", "c.IsValidGatewayClassB1", "c.IsValidGatewayClass"} {
		if fn := c.Fn("controller/services", n); fn != nil {
			tableRule(c, "controller/services."+n, fn, 0, matchers{"eq": has("Spec.ControllerName == ", "c.config.ControllerName")}, func(v map[string]bool) bool { return v["eq"] })
		}
	}
}

func c10Listener(c *core.Ctx) {
	for _, x := range []struct {
		fn      string
		creates []string
	}{
		{"converter.syncHTTPRouteGateway", []string{"createBackend", "createHTTPHosts", "applyCertRef"}},
		{"converter.syncTCPRouteGateway", []string{"createBackend", "createTCPService"}},
	} {
		fn := c.Fn("converters/gateway", x.fn)
		if fn == nil {
			continue
		}
		t := core.ExtractTable(fn)
		if t.Err != "" {
			c.Undecided(x.fn, c.Pos(fn.Pos()), t.Err)
			continue
		}
		for _, s := range core.Calls(fn, false) {
			cn := core.CalleeName(s.Common())
			base := cn[strings.LastIndex(cn, ".")+1:]
			isCreate := false
			for _, n := range x.creates {
				if n == base {
					isCreate = true
				}
			}
			if !isCreate {
				continue
			}
			cond, ok := t.InstrCond(s.Instr)
			if !ok {
				continue
			}
			b, _, dup := bindDeps(t, cond, matchers{
				"secset":  has("(sectionName != nil)"),
				"secdiff": has("(sectionName != ", ".Name)"),
				"denied":  has("checkListenerAllowed(", " != nil)"),
			})
			if dup != "" {
				c.Undecided(x.fn+" -> "+base, at(c, s.Instr), "ambiguous conditions: "+dup)
				continue
			}
			found := map[string]bool{}
			for _, n := range b.Names {
				found[n] = true
			}
			if !found["secset"] || !found["secdiff"] || !found["denied"] {
				c.Violated(x.fn+" -> "+base, at(c, s.Instr), fmt.Sprintf("the creation does not depend on the sectionName match and on checkListenerAllowed (found %v): configuration is produced for a listener that does not admit the route", found))
				continue
			}
			good, diff, _ := t.Compare(cond, b, func(v map[string]bool) bool { return false }, func(v map[string]bool) bool {
				return v["secset"] && v["secdiff"] || v["denied"]
			})
			c.Check(good, x.fn+" -> "+base, at(c, s.Instr), "reached only past the sectionName match and an admitted listener", "creation is reachable for a non-admitted listener: "+diff)
		}
		// checkListenerAllowed receives this listener and this route
		for _, s := range core.Calls(fn, false) {
			if strings.HasSuffix(core.CalleeName(s.Common()), "converter).checkListenerAllowed") {
				a := s.Common().Args
				okArgs := core.Key(a[1]) == "gatewaySource" && strings.HasSuffix(core.Key(a[2]), "RouteSource.source") && strings.Contains(core.Key(a[3]), "listener")
				c.Check(okArgs, x.fn+" checks this listener for this route", at(c, s.Instr), "", fmt.Sprintf("arguments: %s, %s, %s", core.Key(a[1]), core.Key(a[2]), core.Key(a[3])))
			}
		}
	}
}

func c10SourceNil(c *core.Ctx) {
	fn := c.Fn("converters/gateway", "converter.newGatewaySource")
	if fn == nil {
		return
	}
	t := core.ExtractTable(fn)
	if t.Err != "" {
		c.Undecided("newGatewaySource", c.Pos(fn.Pos()), t.Err)
		return
	}
	nonnil := t.False()
	for _, b := range fn.Blocks {
		cond, ok := t.BlockCond(b)
		if !ok || core.IsRecoverBlock(b) {
			continue
		}
		if r, isRet := b.Instrs[len(b.Instrs)-1].(*ssa.Return); isRet && !core.IsNilConst(core.Results(r)[0]) {
			nonnil = nonnil.Or(cond)
		}
	}
	b, _, dup := bindDeps(t, nonnil, matchers{
		"err": func(k string) bool {
			return strings.HasPrefix(k, "(phi{") && strings.HasSuffix(k, "!= nil)") && strings.Contains(k, "GetGateway")
		},
		"isnil": has("reflect.Value).IsNil("),
	})
	if dup != "" {
		c.Undecided("newGatewaySource", c.Pos(fn.Pos()), dup)
		return
	}
	ok, diff, _ := t.Compare(nonnil, b, func(v map[string]bool) bool { return false }, func(v map[string]bool) bool { return v["err"] || v["isnil"] })
	n := 0
	for _, nm := range b.Names {
		if nm != "" {
			n++
		}
	}
	c.Check(ok && n == 2, "newGatewaySource returns nil for a failed or filtered gateway", c.Pos(fn.Pos()), "", "a gateway source is returned although the getter failed or returned nil (foreign class): "+diff)
}
