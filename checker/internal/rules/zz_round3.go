package rules

import (
	"fmt"
	"go/types"
	"sort"
	"strings"

	"golang.org/x/tools/go/ssa"

	"hapverif/internal/core"
)

// Rules planned in the first design but built late, and generalisations of the
// lessons of the seeded rounds (written before round 3 results were read).

func init() {
	addRule("C14", &core.Rule{ID: "C14.reclass", Floor: 12, Run: c14Reclass,
		Doc: "Every typed update callback of the watchers (Ingress, Gateway and GatewayClass of the three API versions) that calls an IsValid* predicate on the old and the new object records Upd iff both are valid, Add (new object) iff only the new one is, Del (old object) iff only the old one is."})
	addRule("C08", &core.Rule{ID: "C08.facade-stateless", Floor: 2, Run: cacheFacadeStateless,
		Doc: "The cache facade keeps no verdicts: its struct has no map / sync.Map field and its fields are written only by its constructor, so every validity and permission decision is recomputed from the API objects on each call."})
	addRule("C10", &core.Rule{ID: "C10.facade-stateless", Floor: 2, Run: cacheFacadeStateless,
		Doc: "Shared with C08: class validity cannot be memoised in the long-lived cache facade."})
	addRule("C09", &core.Rule{ID: "C09.facade-stateless", Floor: 2, Run: cacheFacadeStateless,
		Doc: "Shared with C08: permission decisions cannot be memoised in the long-lived cache facade."})
	addRule("C03", &core.Rule{ID: "C03.endpoints-key", Floor: 2, Run: c03EndpointsKey,
		Doc: "GetEndpoints reads the Endpoints object named like the Service in the Service's namespace; a pod is returned as terminating only for same namespace, every selector label equal, deletion timestamp set, not NodeLost, with an IP."})
	addRule("C01", &core.Rule{ID: "C01.collection-scope", Floor: 12, Run: collectionScope,
		Doc: "Sibling consistency of which model collection a pass ranges over: full-sync passes and passes that must see the whole current state use Items(); passes that only complete what this batch (re)created use ItemsAdd(); deletions are read from ItemsDel(). Frozen table with one reason per entry (behavioural)."})
	addRule("C05", &core.Rule{ID: "C05.collection-scope", Floor: 12, Run: collectionScope,
		Doc: "Shared with C01: e.g. map writers iterate the changed backends, shard builders the whole shard."})
}

func c14Reclass(c *core.Ctx) {
	n := 0
	for _, hn := range []string{"watchers.handlersIngress", "watchers.handlersGatewayv1alpha2", "watchers.handlersGatewayv1beta1", "watchers.handlersGatewayv1"} {
		fn := c.Fn("controller/reconciler", hn)
		if fn == nil {
			continue
		}
		for _, a := range anonFuncs(fn) {
			if len(a.Params) != 2 {
				continue
			}
			// two IsValid* calls on old and new
			var valids []*ssa.Call
			for _, s := range core.Calls(a, false) {
				if s.Common().IsInvoke() && strings.HasPrefix(s.Common().Method.Name(), "IsValid") {
					if call, ok := s.Instr.(*ssa.Call); ok {
						valids = append(valids, call)
					}
				}
			}
			if len(valids) != 2 {
				continue
			}
			c.Touch(a)
			t := core.ExtractTable(a)
			if t.Err != "" {
				c.Undecided(core.FuncName(a), c.Pos(a.Pos()), t.Err)
				continue
			}
			m := matchers{
				"o": func(k string) bool { return strings.Contains(k, ".IsValid") && strings.Contains(k, "old.(") },
				"n": func(k string) bool { return strings.Contains(k, ".IsValid") && strings.Contains(k, "new.(") },
			}
			// stores into ChangedObjects fields ending in Upd / Add / Del
			seen := map[string]bool{}
			for _, b := range a.Blocks {
				for _, in := range b.Instrs {
					st, ok := in.(*ssa.Store)
					if !ok {
						continue
					}
					o, f := core.FieldOf(st.Addr)
					if !strings.HasSuffix(o, "converters/types.ChangedObjects") {
						continue
					}
					var kind, obj string
					var spec func(v map[string]bool) bool
					switch {
					case strings.HasSuffix(f, "Upd"):
						kind, obj, spec = "Upd", "new", func(v map[string]bool) bool { return v["o"] && v["n"] }
					case strings.HasSuffix(f, "Add"):
						kind, obj, spec = "Add", "new", func(v map[string]bool) bool { return !v["o"] && v["n"] }
					case strings.HasSuffix(f, "Del"):
						kind, obj, spec = "Del", "old", func(v map[string]bool) bool { return v["o"] && !v["n"] }
					default:
						continue
					}
					n++
					seen[kind] = true
					key := hn[9:] + " update callback: " + f
					condTable(c, key+" condition", t, st, m, spec)
					l := sliceLeaves(c.Env, st.Val, 0)
					other := map[string]string{"new": "old", "old": "new"}[obj]
					c.Check(leavesContain(l, "param:"+obj) && !leavesContain(l, "param:"+other) && strings.Contains(core.Key(st.Val), f), key+" object", at(c, st), "appends the "+obj+" object to "+f, "the list does not receive the "+obj+" object (or is not "+f+" itself): "+leavesList(l))
				}
			}
			for _, k := range []string{"Upd", "Add", "Del"} {
				c.Check(seen[k], hn[9:]+" update callback "+core.FuncName(a)+" records "+k, c.Pos(a.Pos()), "", "the update callback never records a "+k+": a class transition of that direction is lost")
			}
		}
	}
	_ = n
}

func cacheFacadeStateless(c *core.Ctx) {
	nt := c.NamedType("controller/services", "c")
	if nt == nil {
		c.MissingAnchor("controller/services.c")
		return
	}
	st := structOf(nt)
	var bad []string
	for i := 0; i < st.NumFields(); i++ {
		f := st.Field(i)
		ts := f.Type().String()
		if _, isMap := f.Type().Underlying().(*types.Map); isMap || strings.Contains(ts, "sync.Map") || strings.Contains(ts, "lru") || strings.Contains(ts, "cache.") && !strings.Contains(ts, "client") {
			bad = append(bad, f.Name()+" "+ts)
		}
	}
	c.Check(len(bad) == 0, "cache facade has no memo fields", c.Pos(nt.Obj().Pos()), fmt.Sprintf("%d fields, none map-like", st.NumFields()), "the cache facade holds "+strings.Join(bad, ", ")+": a verdict (class validity, permission) computed once is reused after the cluster changed")
	// writers of its fields: constructor only
	writers := map[string]bool{}
	for _, fn := range c.SrcFuncs() {
		if core.PkgOf(fn) != "controller/services" {
			continue
		}
		for _, b := range fn.Blocks {
			for _, in := range b.Instrs {
				var addr ssa.Value
				switch x := in.(type) {
				case *ssa.Store:
					addr = x.Addr
				case *ssa.MapUpdate:
					if u, ok := x.Map.(*ssa.UnOp); ok {
						addr = u.X
					}
				}
				if addr == nil {
					continue
				}
				if o, _ := core.FieldOf(addr); strings.HasSuffix(o, "controller/services.c") {
					if _, fresh := rootOf(addr).(*ssa.Alloc); !fresh {
						writers[core.FuncName(fn)] = true
					}
				}
			}
		}
	}
	var w []string
	for k := range writers {
		w = append(w, k)
	}
	sort.Strings(w)
	c.Check(len(w) == 0, "cache facade fields are written only at construction", "", "", "fields of the facade are written at run time by "+strings.Join(w, ", "))
}

func c03EndpointsKey(c *core.Ctx) {
	if fn := c.Fn("controller/services", "c.GetEndpoints"); fn != nil {
		ok := false
		for _, s := range core.Calls(fn, false) {
			if s.Common().IsInvoke() && s.Common().Method.Name() == "Get" {
				l := sliceLeaves(c.Env, s.Common().Args[1], 0)
				ok = leavesContain(l, "service.ObjectMeta.Namespace") && leavesContain(l, "service.ObjectMeta.Name")
				c.Check(ok, "GetEndpoints reads the Service's own Endpoints", at(c, s.Instr), "key = (service.Namespace, service.Name)", "the Endpoints object read is keyed by "+leavesList(l))
			}
		}
	}
	for _, x := range [][2]string{{"controller/services", "isTerminatingPod"}, {"controller/legacy", "isTerminatingPod"}} {
		fn := c.Fn(x[0], x[1])
		if fn == nil {
			continue
		}
		t := core.ExtractTable(fn)
		b, err := t.Bind(matchers{
			"nsDiff":   has("GetNamespace(svc", " != ", "GetNamespace(pod"),
			"present":  func(k string) bool { return strings.Contains(k, ".Labels[") && strings.HasSuffix(k, ",ok#1") },
			"valDiff":  func(k string) bool { return strings.Contains(k, ".Labels[") && strings.Contains(k, " != ") && strings.Contains(k, ",ok#0") },
			"deleting": has("DeletionTimestamp != nil)"),
			"notLost":  has(`.Status.Reason != "NodeLost")`),
			"hasIP":    has(`.Status.PodIP != "")`),
		})
		if t.Err != "" || err != nil {
			c.Undecided(x[0]+"."+x[1], c.Pos(fn.Pos()), fmt.Sprint(t.Err, err))
			continue
		}
		res, _ := t.BoolResult(0)
		// a pod is terminating only if: same ns, no selector mismatch seen, and the three status tests
		ok, diff, _ := compareIgnoringLoopImplies(t, res, b, func(v map[string]bool) bool {
			return !v["nsDiff"] && v["deleting"] && v["notLost"] && v["hasIP"]
		})
		c.Check(ok, x[0]+"."+x[1]+" result implies the terminating conditions", c.Pos(fn.Pos()), "", diff)
		// a selector mismatch returns false from inside the loop
		okMis, okAbsent := false, false
		for _, r := range core.Returns(fn) {
			if !core.IsConstBool(core.Results(r)[0], false) {
				continue
			}
			// `!present || differs` is short-circuit: the return block has one predecessor per operand
			for _, p := range r.Block().Preds {
				ifi, isIf := p.Instrs[len(p.Instrs)-1].(*ssa.If)
				if !isIf {
					continue
				}
				k := core.Key(ifi.Cond)
				if !strings.Contains(k, ".Labels[") {
					continue
				}
				onTrue := p.Succs[0] == r.Block()
				if strings.HasSuffix(k, ",ok#1") && !onTrue {
					okAbsent = true
				}
				if strings.Contains(k, " != ") && strings.Contains(k, ",ok#0") && onTrue {
					okMis = true
				}
				if strings.Contains(k, " == ") && strings.Contains(k, ",ok#0") && !onTrue {
					okMis = true
				}
			}
		}
		c.Check(okAbsent, x[0]+"."+x[1]+" rejects a missing selector label", c.Pos(fn.Pos()), "", "no `return false` when the pod lacks a selector label: pods of other services are returned as terminating endpoints")
		c.Check(okMis, x[0]+"."+x[1]+" rejects a selector mismatch", c.Pos(fn.Pos()), "", "no `return false` on a missing or different selector label: pods of other services are returned as terminating endpoints")
	}
}

type scopeEntry struct {
	want string // Items | ItemsAdd | ItemsDel | items | itemsAdd | itemsDel
	why  string
}

// key: function name + " / " + container type
var scopeTable = map[string]scopeEntry{
	"(*converters/ingress.converter).syncEndpoints / Backends":          {"Items", "full sync: cookies and server ids of every backend"},
	"(*converters/ingress.converter).syncChangedEndpoints / Backends":   {"ItemsAdd", "partial sync: only the backends re-created by this batch"},
	"(*converters/ingress.converter).fullSyncAnnotations / Hosts":       {"Items", "full sync: annotations of every host"},
	"(*converters/ingress.converter).fullSyncAnnotations / Backends":    {"Items", "full sync: annotations of every backend"},
	"(*converters/ingress.converter).partialSyncAnnotations / Hosts":    {"ItemsAdd", "partial sync: hosts re-created by this batch"},
	"(*converters/ingress.converter).partialSyncAnnotations / Backends": {"ItemsAdd", "partial sync: backends re-created by this batch"},
	"(*converters/ingress.converter).fullSyncTCP / TCPServices":         {"Items", "tcp services keep no add/del sets"},
	"(*haproxy.config).SyncConfig / Hosts":                              {"ItemsAdd", "completes hosts created by this batch (committed hosts were completed when they were created)"},
	"(*haproxy.config).WriteBackendMaps / Backends":                     {"ItemsAdd", "writes the maps of changed backends only; unchanged backends keep their files"},
	"(*haproxy.config).WriteTCPServicesMaps / TCPServices":              {"Items", "all ports are rewritten when any changed"},
	"(*haproxy.dynUpdater).alignSlots / Backends":                       {"Items", "every backend of the state that is about to be loaded must be padded"},
	"(*haproxy.dynUpdater).frontendUpdated / Hosts":                     {"ItemsAdd+ItemsDel", "pairs deleted and added hosts"},
	"(*haproxy.dynUpdater).backendUpdated / Backends":                   {"ItemsAdd+ItemsDel", "pairs deleted and added backends"},
	"(*haproxy.instance).logChanged / Hosts":                            {"ItemsAdd+ItemsDel", "log only"},
	"(*haproxy.instance).logChanged / Backends":                         {"ItemsAdd+ItemsDel", "log only"},
	"(*haproxy.instance).updateCertExpiring / Hosts":                    {"ItemsAdd+ItemsDel", "certificate expiry gauge follows added/deleted hosts"},
	"(*haproxy.instance).writeCrtLists / TCPServices":                   {"Items", "one crt-list per tcp port"},
	"(*converters/ingress/annotations.updater).findBackend / Hosts":     {"Items", "looks a path up in the whole current state"},
	"(*converters/ingress/annotations.updater).setAuthExternal / Hosts": {"Items", "used auth proxies of the whole current state"},
	"(*haproxy/types.Backends).BuildUsedAuthBackends / Backends":        {"items", "used auth proxies of the whole current state"},
	"(*haproxy/types.Backends).FillSourceIPs / Backends":                {"itemsAdd", "source ips of backends created by this batch"},
	"(*haproxy/types.Backends).SortChangedEndpoints / Backends":         {"itemsAdd", "sorts the endpoints of changed backends"},
	"(*haproxy/types.Backends).ShuffleAllEndpoints / Backends":          {"items", "shuffle before a reload covers every backend"},
	"(*haproxy/types.Backends).Shrink / Backends":                       {"itemsAdd+itemsDel", "pairs deleted and added backends"},
	"(*haproxy/types.Hosts).Shrink / Hosts":                             {"itemsDel", "pairs deleted with added hosts (added looked up by name)"},
	"(*haproxy/types.Hosts).BuildSortedItems / Hosts":                   {"items", "renders the whole state"},
	"(*haproxy/types.Hosts).FindTargetRedirect / Hosts":                 {"items", "searches the whole state"},
	"(*haproxy/types.Hosts).HasTLSAuth / Hosts":                         {"items", "predicate over the whole state"},
	"(*haproxy/types.Hosts).HasVarNamespace / Hosts":                    {"items", "predicate over the whole state"},
	"(*haproxy/types.Userlists).BuildSortedItems / Userlists":           {"items", "renders the whole state"},
	"(*haproxy/types.TCPBackends).BuildSortedItems / TCPBackends":       {"items", "renders the whole state"},
	"(*haproxy/types.TCPBackends).RemoveAll / TCPBackends":              {"items", "removes every item"},
	"(*haproxy/types.AcmeStorages).shrink / AcmeStorages":               {"itemsDel", "pairs deleted with added storages"},
	"(*haproxy/types.TCPServices).BuildSortedItems / TCPServices":       {"items", "renders the whole state"},
}

func collectionScope(c *core.Ctx) {
	conts := map[string]bool{"Hosts": true, "Backends": true, "Userlists": true, "TCPBackends": true, "TCPServices": true, "AcmeStorages": true}
	got := map[string]map[string]bool{}
	site := map[string]string{}
	for _, fn := range c.SrcFuncs() {
		pkg := core.PkgOf(fn)
		if !(strings.HasPrefix(pkg, "converters") || strings.HasPrefix(pkg, "haproxy")) || strings.Contains(pkg, "helper_test") {
			continue
		}
		top := fn
		for top.Parent() != nil {
			top = top.Parent()
		}
		for _, b := range fn.Blocks {
			for _, in := range b.Instrs {
				r, ok := in.(*ssa.Range)
				if !ok {
					continue
				}
				if _, isMap := r.X.Type().Underlying().(*types.Map); !isMap {
					continue
				}
				// which accessor / field of which container
				cont, acc := "", ""
				switch x := r.X.(type) {
				case *ssa.Call:
					n := core.CalleeName(&x.Call)
					for k := range conts {
						for _, a := range []string{"Items", "ItemsAdd", "ItemsDel"} {
							if strings.HasSuffix(n, "haproxy/types."+k+")."+a) {
								cont, acc = k, a
							}
						}
					}
				case *ssa.UnOp:
					o, f := core.FieldOf(x.X)
					for k := range conts {
						if strings.HasSuffix(o, "haproxy/types."+k) && (f == "items" || f == "itemsAdd" || f == "itemsDel") {
							cont, acc = k, f
						}
					}
				}
				if cont == "" {
					continue
				}
				key := core.FuncName(top) + " / " + cont
				if got[key] == nil {
					got[key] = map[string]bool{}
				}
				got[key][acc] = true
				site[key] = c.InstrPos(r)
			}
		}
	}
	for _, key := range sortedKeys(got) {
		var accs []string
		for a := range got[key] {
			accs = append(accs, a)
		}
		sort.Strings(accs)
		have := strings.Join(accs, "+")
		want, listed := scopeTable[key]
		if !listed {
			c.Undecided(key, site[key], "a pass over the model collection `"+have+"` that is not in the reviewed scope table: decide whether it must see the whole state or only this batch's changes and add it with its reason")
			continue
		}
		c.Check(have == want.want, key, site[key], "ranges over "+have+": "+want.why, "ranges over "+have+" but must range over "+want.want+" ("+want.why+"): objects outside that collection are skipped, or unchanged objects are processed again")
	}
}

func init() {
	addRule("C14", &core.Rule{ID: "C14.add-del-lists", Floor: 10, Run: c14AddDel,
		Doc: "Every typed watcher handler records a created object in the list whose name ends in Add and a deleted one in the list ending in Del (the element types make a wrong kind a compile error; a wrong direction is not), appending the object it was given and keeping the list (the append result is stored back into the same field)."})
}

func c14AddDel(c *core.Ctx) {
	for _, hn := range []string{"watchers.handlersCore", "watchers.handlersIngress", "watchers.handlersGatewayv1alpha2", "watchers.handlersGatewayv1beta1", "watchers.handlersGatewayv1", "watchers.handlersTCPRoutev1alpha2"} {
		fn := c.Env.Func("controller/reconciler", hn)
		if fn == nil {
			continue
		}
		c.Touch(fn)
		for _, b := range fn.Blocks {
			for _, in := range b.Instrs {
				st, ok := in.(*ssa.Store)
				if !ok {
					continue
				}
				mc, ok := st.Val.(*ssa.MakeClosure)
				if !ok {
					continue
				}
				o, f := core.FieldOf(st.Addr)
				if !strings.HasSuffix(o, "controller/reconciler.hdlr") || f != "add" && f != "del" {
					continue
				}
				cl := mc.Fn.(*ssa.Function)
				c.Touch(cl)
				want := map[string]string{"add": "Add", "del": "Del"}[f]
				n := 0
				for _, cb := range cl.Blocks {
					for _, cin := range cb.Instrs {
						cs, ok := cin.(*ssa.Store)
						if !ok {
							continue
						}
						co, cf := core.FieldOf(cs.Addr)
						if !strings.HasSuffix(co, "converters/types.ChangedObjects") {
							continue
						}
						n++
						key := hn[9:] + " " + f + " handler: " + cf
						l := sliceLeaves(c.Env, cs.Val, 0)
						okv := strings.HasSuffix(cf, want) && leavesContain(l, "param:o") && strings.Contains(core.Key(cs.Val), cf)
						c.Check(okv, key, at(c, cs), "appends the object to "+cf, "a "+map[string]string{"add": "created", "del": "deleted"}[f]+" object is recorded in `"+cf+"` with value "+leavesList(l)+": the converter sees the wrong direction or loses the event")
					}
				}
				if n == 0 {
					c.Violated(hn[9:]+" "+f+" handler "+core.FuncName(cl)+" records the object", c.Pos(cl.Pos()), "the handler stores nothing into the changed-objects lists")
				}
			}
		}
	}
}

func init() {
	addRule("C14", &core.Rule{ID: "C14.compose", Floor: 6, Run: c14Compose,
		Doc: "hdlr.compose records the changed object's link name under the handler's resource kind: the name is the handler's name function of the object when it has one (EndpointSlice -> service name) else the object name, prefixed with `namespace/` exactly when the object is namespaced; the kind's list is extended (deduplicated) and stored back under the same kind. notify raises NeedFullSync exactly for `full` handlers and enqueues with that flag."})
	addRule("C01", &core.Rule{ID: "C01.compose", Floor: 6, Run: c14Compose, Doc: "Shared with C14: the names in ChangedObjects.Links are the keys QueryLinks starts from."})
}

func c14Compose(c *core.Ctx) {
	fn := c.Fn("controller/reconciler", "hdlr.compose")
	if fn == nil {
		return
	}
	n := 0
	for _, b := range fn.Blocks {
		for _, in := range b.Instrs {
			mu, ok := in.(*ssa.MapUpdate)
			if !ok || !strings.HasSuffix(core.Key(mu.Map), ".Links") {
				continue
			}
			n++
			c.Check(strings.HasSuffix(core.Key(mu.Key), "h.res"), "compose stores the link list under the handler's kind", at(c, mu), "", "key is "+core.Key(mu.Key))
			call, isCall := mu.Value.(*ssa.Call)
			if !isCall || !strings.HasSuffix(core.CalleeName(&call.Call), "reconciler.appenddedup") {
				c.Violated("compose extends the kind's list without duplicates", at(c, mu), "stored value is "+core.Key(mu.Value))
				continue
			}
			a := call.Call.Args
			c.Check(strings.Contains(core.Key(a[0]), ".Links[") && strings.HasSuffix(core.Key(a[0]), "h.res]"), "compose extends the list of the same kind", at(c, call), "", "extended list is "+core.Key(a[0]))
			// the name: phi{ns + "/" + base, base} with base = phi{h.name(obj), obj.GetName()}
			name, isPhi := a[1].(*ssa.Phi)
			okNS, okBase := false, false
			if isPhi {
				for i, e := range name.Edges {
					k := core.Key(e)
					if strings.Contains(k, `GetNamespace() + "/")`) || strings.Contains(k, `.GetNamespace() + "/"`) {
						// on the ns != "" branch
						for _, g := range core.ControllingEdges(name.Block().Preds[i]) {
							if strings.Contains(core.Key(g.If.Cond), `GetNamespace() != "")`) && g.Branch {
								okNS = true
							}
						}
						if name.Block().Preds[i] != nil && !okNS {
							// the then-block itself is the predecessor
							for _, g := range core.ControllingEdges(name.Block().Preds[i]) {
								_ = g
							}
						}
					}
					if bp, isB := e.(*ssa.Phi); isB {
						var ks []string
						for j, be := range bp.Edges {
							bk := core.Key(be)
							ks = append(ks, bk)
							if strings.Contains(bk, "h.name(obj)") {
								for _, g := range core.ControllingEdges(bp.Block().Preds[j]) {
									if strings.Contains(core.Key(g.If.Cond), "h.name != nil)") && g.Branch {
										okBase = true
									}
								}
							}
						}
						if !strings.Contains(strings.Join(ks, "|"), "GetName()") {
							okBase = false
						}
					}
				}
			}
			c.Check(okBase, "compose names the object by the handler's name function, else by its name", at(c, call), "", "base name is not `h.name != nil ? h.name(obj) : obj.GetName()`: "+core.Key(a[1]))
			c.Check(okNS, "compose prefixes the namespace of namespaced objects", at(c, call), "", "the `ns/` prefix is not applied exactly under ns != \"\": "+core.Key(a[1]))
		}
	}
	c.Check(n == 1, "compose records one link", c.Pos(fn.Pos()), "", fmt.Sprint(n))
	if nf := c.Fn("controller/reconciler", "hdlr.notify"); nf != nil {
		for _, st := range fieldStores(nf, false, "converters/types.ChangedObjects", "NeedFullSync") {
			c.Check(core.IsConstBool(st.Val, true) && guardedBy(st, has("h.full"), true), "notify raises NeedFullSync exactly for full handlers", at(c, st), "", "NeedFullSync is stored as "+core.Key(st.Val)+" outside the h.full branch")
		}
		ok := false
		for _, s := range core.Calls(nf, false) {
			if s.Common().IsInvoke() && s.Common().Method.Name() == "AddRateLimited" {
				l := sliceLeaves(c.Env, s.Common().Args[0], 0)
				ok = leavesContain(l, "h.full") && len(guardsOf(s.Instr)) == 0
			}
		}
		c.Check(ok, "notify always enqueues, with the handler's full flag", c.Pos(nf.Pos()), "", "AddRateLimited is conditional or does not carry h.full")
	}
}

func init() {
	doc := "Every watcher of a Gateway API kind (Gateway, GatewayClass, HTTPRoute, TCPRoute, all served versions) is a `full` handler: the gateway converter only runs on a full sync and its own NeedFullSync only sees resources already linked to the gateway pseudo-object, so an event on a new route or gateway reaches the configuration only through the handler's full flag."
	for _, p := range []string{"C01", "C10", "C14"} {
		addRule(p, &core.Rule{ID: p + ".gateway-events-full", Floor: 4, Run: gatewayEventsFull, Doc: doc})
	}
}

func gatewayEventsFull(c *core.Ctx) {
	m := handlerFullByResource(c)
	if m == nil {
		return
	}
	for _, r := range []string{"ResourceGateway", "ResourceGatewayClass", "ResourceHTTPRoute", "ResourceTCPRoute"} {
		full, ok := m[r]
		if !ok {
			c.Violated("watcher of "+r+" forces a full sync", "", "no handler for this kind")
			continue
		}
		c.Check(full, "watcher of "+r+" forces a full sync", "pkg/controller/reconciler/watchers.go", "every handler of the kind has full: true", "a handler of this kind is not `full`: a created/changed object of the kind never reaches the gateway converter (it runs only on full syncs and its NeedFullSync sees only already linked resources)")
	}
	// and the converter's side of the argument: Sync returns early unless full
	if fn := c.Fn("converters/gateway", "converter.Sync"); fn != nil {
		ok := false
		for _, s := range core.Calls(fn, false) {
			if strings.HasSuffix(core.CalleeName(s.Common()), "converter).syncHTTPRoutes") {
				ok = guardedBy(s.Instr, func(k string) bool { return k == "full" }, true)
			}
		}
		c.Check(ok, "the gateway converter converts only on a full sync", c.Pos(fn.Pos()), "", "syncHTTPRoutes is not on the `full` branch")
	}
}
