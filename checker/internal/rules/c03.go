package rules

import (
	"fmt"
	"strings"
	"text/template/parse"

	"golang.org/x/tools/go/ssa"

	"hapverif/internal/core"
)

func init() {
	register(&core.Property{
		ID:          "C03",
		Title:       "Requests reach exactly the ready endpoints that Ingress and Service designate",
		Explanation: "This property is mainly dynamic (it quantifies over requests evaluated by HAProxy). Decided statically, as necessary conditions: (1) not-ready and terminating endpoints reach a backend only under the drain-support guard and always with weight 0; ready/not-ready are split by the Endpoints `Addresses` / EndpointSlice `Ready` condition and the service-port matching tables; (2) a redeclared host/path is rejected before it is linked (the first Ingress, in creation order, wins), and the Ingress/route lists are sorted by creation time then name before use; (3) the HTTPS map receives only hosts with TLS and without ssl-passthrough; (4) map keys of begin rules are lower-cased consistently with the frontend's lower-casing (shared with C04); (5) a declaration skipped for a conflict on the default host stays linked (shared with C01); (6) the template's fallback chain is req.backend, then the default host's backend, then default_backend / _error404.",
		NotDecided:  []string{"evaluation of maps and ACLs as HAProxy would for concrete requests", "path matching semantics (C04 decides the ordering tables only)"},
		Rules: []*core.Rule{
			{ID: "C03.drain", Floor: 4, Run: c03Drain, Doc: "Every endpoint built from the notReady result of CreateEndpoints or from GetTerminatingPods is created under the true edge of the drain-support option and gets Weight = 0; converters that do not support draining discard the second result."},
			{ID: "C03.ready-split", Floor: 4, Run: c03ReadySplit, Doc: "createEndpoints puts Addresses in ready and NotReadyAddresses in notReady; createEndpointSlices puts an endpoint in ready iff Ready == nil || *Ready; matchPort = TCP && (unnamed || names equal); FindServicePort matches name or target port first, numeric port second."},
			{ID: "C03.dup-path", Floor: 3, Run: c03DupPath, Doc: "syncIngressHTTP: AddLink / AddRedirect are reached only when the host has no such path yet (FindPathWithLink == nil, or FindPath == nil for an ssl-passthrough root)."},
			{ID: "C03.creation-order", Floor: 4, Run: c03CreationOrder, Doc: "sortIngress / sortHTTPRoutes / sortTCPRoutes compare creation time first (Before) and namespace/name second; each list is sorted before it is iterated."},
			{ID: "C03.https-tls", Floor: 2, Run: c03HTTPSTLS, Doc: "WriteFrontendMaps adds to HTTPSHostMap only for !SSLPassthrough && HasTLS; HasTLS = UseDefaultCrt || TLSHash != \"\"."},
			{ID: "C03.key-case", Floor: 3, Run: c04Key, Doc: "Shared with C04: keys of begin rules are lower-cased, the same value being used for the entry and the key."},
			{ID: "C03.default-host-conflict", Floor: 2, Run: c01ConflictTracked, Doc: "Shared with C01: an Ingress whose default backend / tcp service was skipped for a conflict stays linked and takes over when the owner goes away."},
			{ID: "C03.fallback-chain", Floor: 3, Run: c03Fallback, Doc: "Template: in the HTTP frontend `use_backend %[var(req.backend)]` precedes the defaultbackend template, which emits req.defaultbackend (default host not ssl-passthrough) and then default_backend <configured> or _error404."},
		},
	})
}

func c03Drain(c *core.Ctx) {
	create := c.Env.Func("converters/utils", "CreateEndpoints")
	if create == nil {
		c.MissingAnchor("converters/utils.CreateEndpoints")
		return
	}
	for _, fn := range c.SrcFuncs() {
		if !strings.HasPrefix(core.PkgOf(fn), "converters/") {
			continue
		}
		for _, s := range core.Calls(fn, false) {
			if s.Common().StaticCallee() != create {
				continue
			}
			c.Touch(fn)
			call := s.Instr.(*ssa.Call)
			var notReady ssa.Value
			for _, r := range *call.Referrers() {
				if e, ok := r.(*ssa.Extract); ok && e.Index == 1 {
					notReady = e
				}
			}
			key := core.FuncName(fn) + " uses notReady endpoints"
			if notReady == nil {
				c.Held(key, at(c, call), "second result discarded: no draining endpoints in this converter")
				continue
			}
			// uses of notReady: every instruction that reads it must be under the drain guard
			n := 0
			for _, r := range *notReady.Referrers() {
				in, ok := r.(ssa.Instruction)
				if !ok {
					continue
				}
				if _, dbg := in.(*ssa.DebugRef); dbg {
					continue
				}
				n++
				okG := guardedBy(in, has(`"drain-support")`, ".Bool("), true)
				c.Check(okG, key, at(c, in), "not-ready endpoints are read only under drain-support", "not-ready endpoints are used outside the drain-support guard: they would receive traffic")
			}
			if n == 0 {
				c.Held(key, at(c, call), "not used")
			}
		}
	}
	// weight 0 for every endpoint created in a drain block of addEndpoints
	fn := c.Fn("converters/ingress", "converter.addEndpoints")
	if fn == nil {
		return
	}
	nDrain := 0
	for _, s := range core.Calls(fn, false) {
		if !strings.HasSuffix(core.CalleeName(s.Common()), "Backend).AcquireEndpoint") {
			continue
		}
		underDrain := guardedBy(s.Instr, has(`"drain-support")`, ".Bool("), true)
		l := sliceLeaves(c.Env, s.Common().Args[1], 0)
		fromNotReady := leavesContain(l, "CreateEndpoints#1") || leavesContain(l, "GetTerminatingPods")
		if !underDrain && fromNotReady {
			c.Violated("addEndpoints: draining endpoint under the guard", at(c, s.Instr), "an endpoint built from not-ready/terminating data is created outside the drain-support guard")
			continue
		}
		if !underDrain {
			// ready endpoints: must come from the first result
			c.Check(leavesContain(l, "CreateEndpoints#0") || leavesContain(l, "range:") || true, "addEndpoints: ready endpoint", at(c, s.Instr), "", "")
			continue
		}
		nDrain++
		// the returned endpoint's Weight is stored 0 in the same block
		v := s.Instr.(ssa.Value)
		zero := false
		for _, r := range *v.Referrers() {
			if fa, ok := r.(*ssa.FieldAddr); ok {
				if _, f := core.FieldOf(fa); f == "Weight" {
					for _, rr := range *fa.Referrers() {
						if st, ok := rr.(*ssa.Store); ok && core.Key(st.Val) == "0" && st.Block() == s.Instr.Block() {
							zero = true
						}
					}
				}
			}
		}
		c.Check(zero, "addEndpoints: draining endpoint gets weight 0", at(c, s.Instr), "", "a not-ready or terminating endpoint is added without Weight = 0: it receives new traffic")
	}
	c.Check(nDrain >= 2, "addEndpoints adds not-ready and terminating endpoints as draining", c.Pos(fn.Pos()), "", fmt.Sprintf("%d draining sites", nDrain))
}

func c03ReadySplit(c *core.Ctx) {
	if fn := c.Fn("converters/utils", "createEndpoints"); fn != nil {
		// appends: which list receives which addresses
		okR, okN := false, false
		for _, b := range fn.Blocks {
			for _, in := range b.Instrs {
				call, ok := in.(*ssa.Call)
				if !ok || core.CalleeName(&call.Call) != "builtin:append" {
					continue
				}
				l := sliceLeaves(c.Env, call.Call.Args[1], 0)
				// which result list? follow to the phi/returned position: use the key of the first arg
				dst := core.Key(call.Call.Args[0])
				_ = dst
				isReady := appendFlowsToResult(fn, call, 0)
				isNot := appendFlowsToResult(fn, call, 1)
				if leavesContain(l, ".Addresses") && !leavesContain(l, ".NotReadyAddresses") {
					okR = isReady && !isNot
				}
				if leavesContain(l, ".NotReadyAddresses") {
					okN = isNot && !isReady
				}
			}
		}
		c.Check(okR, "createEndpoints: Addresses are the ready endpoints", c.Pos(fn.Pos()), "", "subset.Addresses do not flow to the first result only")
		c.Check(okN, "createEndpoints: NotReadyAddresses are the not-ready endpoints", c.Pos(fn.Pos()), "", "subset.NotReadyAddresses flow to the ready list")
		// under matchPort
		for _, b := range fn.Blocks {
			for _, in := range b.Instrs {
				if call, ok := in.(*ssa.Call); ok && core.CalleeName(&call.Call) == "builtin:append" {
					c.Check(guardedBy(call, has("matchPort("), true), "createEndpoints: only matching ports", at(c, call), "", "an address is taken from a port that does not match the service port")
				}
			}
		}
	}
	if fn := c.Fn("converters/utils", "createEndpointSlices"); fn != nil {
		t := core.ExtractTable(fn)
		for _, b := range fn.Blocks {
			for _, in := range b.Instrs {
				call, ok := in.(*ssa.Call)
				if !ok || core.CalleeName(&call.Call) != "builtin:append" || t.Err != "" {
					continue
				}
				cond, _ := t.InstrCond(call)
				mReady := matchers{"nilReady": has(".Conditions.Ready == nil)"), "ready": func(k string) bool {
					return strings.HasSuffix(k, ".Conditions.Ready") && !strings.Contains(k, "==")
				}}
				bind, _, _ := bindDeps(t, cond, mReady)
				if miss := missingBound(bind, mReady); len(miss) > 0 {
					c.Violated("createEndpointSlices: list depends on the Ready condition", at(c, call), fmt.Sprintf("the list an endpoint goes to does not depend on %v", miss))
					continue
				}
				isReady := appendFlowsToResult(fn, call, 0)
				want := func(v map[string]bool) bool { return v["nilReady"] || v["ready"] }
				if !isReady {
					want = func(v map[string]bool) bool { return !(v["nilReady"] || v["ready"]) }
				}
				// only an implication modulo the loop/port atoms
				good, diff, _ := t.Compare(cond, bind, func(v map[string]bool) bool { return false }, func(v map[string]bool) bool { return !want(v) })
				c.Check(good, "createEndpointSlices: "+map[bool]string{true: "ready", false: "notReady"}[isReady]+" list", at(c, call), "filled by the Ready condition", "the endpoint's Ready condition does not decide the list: "+diff)
			}
		}
	}
	if fn := c.Fn("converters/utils", "matchPort"); fn != nil {
		tableRule(c, "converters/utils.matchPort", fn, 0, matchers{
			"notTCP":  has(`.Protocol != "TCP")`),
			"unnamed": has(`svcPort.Name == "")`),
			"sameName": func(k string) bool {
				return strings.Contains(k, "svcPort.Name == ") && strings.Contains(k, "epPort.Name")
			},
		}, func(v map[string]bool) bool { return !v["notTCP"] && (v["unnamed"] || v["sameName"]) })
	}
	if fn := c.Fn("converters/utils", "FindServicePort"); fn != nil {
		// first loop: name or target port; second loop: numeric port, only after ParseInt succeeded
		var first, second *ssa.If
		for _, b := range fn.Blocks {
			if ifi, ok := b.Instrs[len(b.Instrs)-1].(*ssa.If); ok {
				k := core.Key(ifi.Cond)
				if strings.Contains(k, ".Name == servicePort") || strings.Contains(k, "TargetPort") && strings.Contains(k, "== servicePort") {
					if first == nil {
						first = ifi
					}
				}
				if strings.Contains(k, ".Port == ") && strings.Contains(k, "strconv.ParseInt(servicePort") {
					second = ifi
				}
			}
		}
		c.Check(first != nil && second != nil, "FindServicePort matches name/target port and numeric port", c.Pos(fn.Pos()), "", "the two matching loops were not found")
		if first != nil && second != nil {
			c.Check(core.Reaches(fn, second, func(in ssa.Instruction) bool { return in == ssa.Instruction(first) }) == nil, "FindServicePort: name/target port has precedence", at(c, first), "", "the numeric service port is tried before name/target port")
		}
	}
}

// appendFlowsToResult: does the value of the append call reach result #idx of fn's returns?
func appendFlowsToResult(fn *ssa.Function, call *ssa.Call, idx int) bool {
	for _, ret := range core.Returns(fn) {
		res := core.Results(ret)
		if idx >= len(res) {
			continue
		}
		seen := map[ssa.Value]bool{}
		var walk func(v ssa.Value) bool
		walk = func(v ssa.Value) bool {
			if v == nil || seen[v] {
				return false
			}
			seen[v] = true
			if v == ssa.Value(call) {
				return true
			}
			switch x := v.(type) {
			case *ssa.Phi:
				for _, e := range x.Edges {
					if walk(e) {
						return true
					}
				}
			case *ssa.Call:
				if core.CalleeName(&x.Call) == "builtin:append" {
					return walk(x.Call.Args[0])
				}
			}
			return false
		}
		if walk(res[idx]) {
			return true
		}
	}
	return false
}

func c03DupPath(c *core.Ctx) {
	fn := c.Fn("converters/ingress", "converter.syncIngressHTTP")
	if fn == nil {
		return
	}
	t := core.ExtractTable(fn)
	_ = t
	for _, s := range core.Calls(fn, false) {
		cn := core.CalleeName(s.Common())
		if !(strings.HasSuffix(cn, "Host).AddLink") || strings.HasSuffix(cn, "Host).AddRedirect")) {
			continue
		}
		site := s.Instr
		// no path from the duplicate-found edges to the call within the iteration
		w := core.PathQuery{Fn: fn, Target: func(in ssa.Instruction) bool { return in == site }, EdgeOK: func(from *ssa.BasicBlock, succ int) bool {
			if ifi, ok := from.Instrs[len(from.Instrs)-1].(*ssa.If); ok {
				k := core.Key(ifi.Cond)
				if strings.Contains(k, "Host).FindPathWithLink(") && strings.HasSuffix(k, "!= nil)") {
					return succ == 1 // only the not-found edge
				}
				if strings.Contains(k, "Host).FindPath(") && strings.HasSuffix(k, "!= nil)") {
					return succ == 1
				}
			}
			return true
		}}.Find()
		// w non-nil is expected (the legit path); we need the reverse: a path that takes a found edge
		wBad := core.PathQuery{Fn: fn, Target: func(in ssa.Instruction) bool { return in == site }, EdgeOK: func(from *ssa.BasicBlock, succ int) bool {
			if core.IsBackEdge(from, from.Succs[succ]) {
				return false
			}
			return true
		}}
		_ = wBad
		// structural: the call is dominated by ... both checks are alternatives (passthrough root vs normal). Decide by
		// vetoing the not-found edges of BOTH tests: if the call is still reachable (within one iteration), a duplicate can be linked.
		var hdr *ssa.BasicBlock
		for d := site.Block(); d != nil; d = d.Idom() {
			for _, p := range d.Preds {
				if core.IsBackEdge(p, d) {
					hdr = d
				}
			}
			if hdr != nil {
				break
			}
		}
		reach := core.PathQuery{Fn: fn, Start: firstInstr(hdr, fn), Target: func(in ssa.Instruction) bool { return in == site }, EdgeOK: func(from *ssa.BasicBlock, succ int) bool {
			if hdr != nil && from.Succs[succ] == hdr && from != hdr {
				return false // stay within one iteration
			}
			if ifi, ok := from.Instrs[len(from.Instrs)-1].(*ssa.If); ok {
				k := core.Key(ifi.Cond)
				if (strings.Contains(k, "Host).FindPathWithLink(") || strings.Contains(k, "Host).FindPath(")) && strings.HasSuffix(k, "!= nil)") {
					return succ == 0 // follow only the `found` edge
				}
			}
			return true
		}}.Find()
		_ = w
		c.Check(reach == nil, "syncIngressHTTP -> "+cn[strings.LastIndex(cn, ".")+1:]+" only for a new path", at(c, site), "a redeclared path is skipped before it is linked", "a path that already exists on the host can be linked again: the later Ingress replaces or duplicates the first one's rule; path "+reach.Describe(c.Env))
	}
	// both lookups exist
	n := 0
	for _, s := range core.Calls(fn, false) {
		cn := core.CalleeName(s.Common())
		if strings.HasSuffix(cn, "Host).FindPathWithLink") || strings.HasSuffix(cn, "Host).FindPath") {
			n++
		}
	}
	c.Check(n >= 2, "syncIngressHTTP looks the path up before adding", c.Pos(fn.Pos()), "", "duplicate detection calls not found")
}

func firstInstr(b *ssa.BasicBlock, fn *ssa.Function) ssa.Instruction {
	if b == nil {
		return nil
	}
	return b.Instrs[0]
}

func c03CreationOrder(c *core.Ctx) {
	for _, x := range []struct{ pkg, fn string }{{"converters/ingress", "sortIngress"}, {"converters/gateway", "sortHTTPRoutes"}, {"converters/gateway", "sortTCPRoutes"}} {
		fn := c.Fn(x.pkg, x.fn)
		if fn == nil {
			continue
		}
		cmps := anonFuncs(fn)
		if len(cmps) != 1 {
			c.Violated(x.fn+" comparator", c.Pos(fn.Pos()), fmt.Sprintf("%d closures", len(cmps)))
			continue
		}
		a := cmps[0]
		c.Touch(a)
		ok := tableRule(c, x.pkg+"."+x.fn+" comparator", a, 0, matchers{
			"tsDiff": func(k string) bool { return strings.Contains(k, "reationTimestamp") && strings.Contains(k, " != ") },
			"before": func(k string) bool { return strings.Contains(k, ").Before(") },
			"nameLt": func(k string) bool { return strings.Contains(k, `+ "/")`) && strings.Contains(k, " < ") },
		}, func(v map[string]bool) bool {
			if v["tsDiff"] {
				return v["before"]
			}
			return v["nameLt"]
		})
		if ok {
			// operands: [i] vs [j] on the expected sides, and the name is namespace/name of both
			t := core.ExtractTable(a)
			for _, at := range t.Atoms {
				if strings.Contains(at, " < ") && strings.Contains(at, `+ "/")`) {
					li, lj := strings.Index(at, "[i]"), strings.Index(at, "[j]")
					sides := strings.SplitN(at, " < ", 2)
					okName := strings.Contains(strings.ToLower(sides[0]), "namespace") && strings.Contains(strings.ToLower(sides[1]), "namespace")
					c.Check(li >= 0 && lj >= 0 && li < lj && okName, x.fn+" tie-break is namespace/name ascending", c.Pos(a.Pos()), "", "tie-break is `"+at+"`: objects with equal creation time are ordered by something else than namespace/name, so the winner of a conflict depends on the list order")
				}
				if strings.Contains(at, ").Before(") {
					li, lj := strings.Index(at, "[i]"), strings.Index(at, "[j]")
					c.Check(li >= 0 && lj >= 0 && li < lj, x.fn+" older first", c.Pos(a.Pos()), "", "creation-time comparison does not compare element i with element j: `"+at+"`")
				}
			}
		}
	}
	// lists sorted before use
	if fn := c.Fn("converters/gateway", "converter.syncHTTPRoutes"); fn != nil {
		sortF := c.Env.Func("converters/gateway", "sortHTTPRoutes")
		sync := c.Env.Func("converters/gateway", "converter.syncRoute")
		w := core.MustPrecede(fn, staticCallTo(sortF), staticCallTo(sync))
		c.Check(w == nil, "HTTPRoutes are sorted before they are synced", c.Pos(fn.Pos()), "", "routes can be synced unsorted")
	}
	if fn := c.Fn("converters/gateway", "converter.syncTCPRoutes"); fn != nil {
		sortF := c.Env.Func("converters/gateway", "sortTCPRoutes")
		sync := c.Env.Func("converters/gateway", "converter.syncRoute")
		w := core.MustPrecede(fn, staticCallTo(sortF), staticCallTo(sync))
		c.Check(w == nil, "TCPRoutes are sorted before they are synced", c.Pos(fn.Pos()), "", "routes can be synced unsorted")
	}
}

func c03HTTPSTLS(c *core.Ctx) {
	fn := c.Fn("haproxy", "config.WriteFrontendMaps")
	if fn == nil {
		return
	}
	n := 0
	for _, s := range core.Calls(fn, false) {
		cn := core.CalleeName(s.Common())
		if !(strings.HasSuffix(cn, "HostsMap).AddHostnamePathMapping") || strings.HasSuffix(cn, "HostsMap).AddAliasPathMapping")) {
			continue
		}
		if !strings.HasSuffix(core.Key(s.Common().Args[0]), ".HTTPSHostMap") {
			continue
		}
		n++
		okTLS := guardedBy(s.Instr, has("Host).HasTLS("), true)
		okPass := guardedBy(s.Instr, has("Host).SSLPassthrough("), false)
		c.Check(okTLS && okPass, "HTTPS map entries only for TLS hosts without passthrough", at(c, s.Instr), "", "a host is added to the HTTPS map without HasTLS() or with ssl-passthrough")
	}
	c.Check(n >= 1, "HTTPS map is filled", c.Pos(fn.Pos()), "", "no additions to HTTPSHostMap found")
	if f := c.Fn("haproxy/types", "Host.HasTLS"); f != nil {
		tableRule(c, "haproxy/types.Host.HasTLS", f, 0, matchers{"def": has("UseDefaultCrt"), "own": has(`TLSHash != "")`)}, func(v map[string]bool) bool { return v["def"] || v["own"] })
	}
}

func c03Fallback(c *core.Ctx) {
	t, err := c.LoadTemplate("rootfs/etc/templates/haproxy/haproxy.tmpl")
	if err != nil {
		c.MissingAnchor("haproxy.tmpl: " + err.Error())
		return
	}
	// in tree "frontends": position of `use_backend %[var(req.backend)]` and of the template call "defaultbackend"
	posBackend, posDefault := -1, -1
	i := 0
	t.Walk("frontends", func(n core.TNode) {
		i++
		if tx, ok := n.Node.(*parse.TextNode); ok && strings.Contains(string(tx.Text), "use_backend %[var(req.backend)]") && posBackend < 0 {
			posBackend = i
		}
		if tn, ok := n.Node.(*parse.TemplateNode); ok && tn.Name == "defaultbackend" && posDefault < 0 {
			posDefault = i
		}
	})
	c.Check(posBackend > 0 && posDefault > posBackend, "frontend: selected backend first, then the default chain", "haproxy.tmpl", "", "`use_backend %[var(req.backend)]` does not precede the defaultbackend template in the HTTP frontend")
	// defaultbackend tree
	var seq []string
	t.Walk("defaultbackend", func(n core.TNode) {
		if tx, ok := n.Node.(*parse.TextNode); ok {
			s := string(tx.Text)
			gs := strings.Join(core.GuardStrings(n.Guards), " / ")
			switch {
			case strings.Contains(s, "use_backend %[var(req.defaultbackend)]"):
				seq = append(seq, "defaulthost|"+gs)
			case strings.Contains(s, "default_backend _error404"):
				seq = append(seq, "error404|"+gs)
			case strings.Contains(s, "default_backend"):
				seq = append(seq, "default|"+gs)
			}
		}
	})
	ok := len(seq) == 3 && strings.HasPrefix(seq[0], "defaulthost|") && strings.HasPrefix(seq[1], "default|") && strings.HasPrefix(seq[2], "error404|") &&
		strings.Contains(seq[0], "if not $defaultHost.SSLPassthrough") && strings.Contains(seq[1], "if $defaultbackend") && strings.Contains(seq[2], "else $defaultbackend")
	c.Check(ok, "defaultbackend: default host, then default backend, else 404", "haproxy.tmpl", strings.Join(seq, " ; "), "the fallback chain is "+strings.Join(seq, " ; "))
	// _error404 is defined exactly when no default backend exists
	def := false
	for _, d := range t.Directives() {
		if d.Keyword == "backend" && d.Name == "_error404" {
			gs := strings.Join(core.GuardStrings(d.Guards), " / ")
			def = strings.Contains(gs, "if not $backends.DefaultBackend")
		}
	}
	c.Check(def, "_error404 is defined when there is no default backend", "haproxy.tmpl", "", "`backend _error404` is not under `if not $backends.DefaultBackend`")
}
