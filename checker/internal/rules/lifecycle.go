package rules

import (
	"fmt"
	"go/types"
	"strings"

	"golang.org/x/tools/go/ssa"

	"hapverif/internal/core"
)

// Model life-cycle rules shared by the properties that rely on the add/del
// bookkeeping being reset exactly once per applied update (C02, C05, C11, C12, C17).

func init() {
	doc := "Commit is total and unconditional: every Commit method of a model container stores a fresh empty value into each of its delta fields (itemsAdd, itemsDel, changedShards, changed) on every path, and config.Commit calls every container's Commit on every path; config.Clear carries nothing over from the old state but the backends container (whose own Clear keeps only the shard bookkeeping)."
	for _, p := range []string{"C05", "C11", "C12", "C17"} {
		addRule(p, &core.Rule{ID: p + ".commit-total", Floor: 20, Run: commitTotal, Doc: doc})
	}
	addRule("C01", &core.Rule{ID: "C01.remove-clears-alias", Floor: 2, Run: removeClearsAlias,
		Doc: "A container field that aliases one of its items (Backends.DefaultBackend) is cleared when that item is removed, so a partial sync that deletes it ends in the state a fresh full sync computes."})
	addRule("C07", &core.Rule{ID: "C07.remove-clears-alias", Floor: 2, Run: removeClearsAlias,
		Doc: "Shared with C01: the default backend named by the model is always one of the model's backends."})
}

// unconditional reports whether every path from the entry to a return executes
// the instruction (paths that end in a panic do not count).
func unconditional(_ *core.Table, in ssa.Instruction) bool {
	fn := in.Parent()
	w := core.PathQuery{Fn: fn, Target: func(x ssa.Instruction) bool {
		r, ok := x.(*ssa.Return)
		return ok && !core.IsRecoverBlock(r.Block())
	}, Barrier: func(x ssa.Instruction) bool { return x == in }}.Find()
	return w == nil
}

func isFreshEmpty(v ssa.Value) bool {
	switch x := v.(type) {
	case *ssa.MakeMap:
		return true
	case *ssa.Const:
		return x.Value == nil || x.Value.String() == "false"
	}
	return false
}

func commitTotal(c *core.Ctx) {
	p := c.ByPath[core.P("haproxy/types")]
	if p == nil {
		c.MissingAnchor("haproxy/types")
		return
	}
	deltas := map[string]bool{"itemsAdd": true, "itemsDel": true, "changedShards": true, "changed": true}
	scope := p.Types.Scope()
	for _, name := range scope.Names() {
		tn, ok := scope.Lookup(name).(*types.TypeName)
		if !ok {
			continue
		}
		nt, ok := tn.Type().(*types.Named)
		if !ok {
			continue
		}
		st := structOf(nt)
		if st == nil {
			continue
		}
		var have []string
		for i := 0; i < st.NumFields(); i++ {
			if deltas[st.Field(i).Name()] {
				have = append(have, st.Field(i).Name())
			}
		}
		if len(have) == 0 {
			continue
		}
		fn := c.Env.Func("haproxy/types", name+".Commit")
		if fn == nil {
			c.Violated(name+" has a Commit", c.Pos(tn.Pos()), "the container keeps "+strings.Join(have, ", ")+" but has no Commit method: its pending-change markers are never reset")
			continue
		}
		c.Touch(fn)
		t := core.ExtractTable(fn)
		for _, f := range have {
			ok := false
			var site ssa.Instruction
			for _, s := range fieldStores(fn, false, "haproxy/types."+name, f) {
				site = s
				if isFreshEmpty(s.Val) && unconditional(t, s) {
					ok = true
				}
			}
			pos := c.Pos(fn.Pos())
			if site != nil {
				pos = at(c, site)
			}
			c.Check(ok, name+".Commit resets "+f, pos, "", "Commit does not store a fresh empty value into "+f+" on every path: a change already applied stays pending (every later update reloads / re-enqueues) or, if dropped early, is never applied")
		}
	}
	if fn := c.Fn("haproxy", "config.Commit"); fn != nil {
		t := core.ExtractTable(fn)
		n := 0
		for _, s := range core.Calls(fn, false) {
			nm := core.CalleeName(s.Common())
			if !strings.HasSuffix(nm, ").Commit") {
				continue
			}
			n++
			short := nm[strings.LastIndex(nm, "types.")+6:]
			c.Check(unconditional(t, s.Instr), "config.Commit calls "+short+" unconditionally", at(c, s.Instr), "", "the container's Commit runs only on some paths: its pending changes survive an applied update")
		}
		c.Check(n >= 7, "config.Commit container count", c.Pos(fn.Pos()), "", "fewer than 7 container commits")
	}
	if fn := c.Fn("haproxy", "config.Clear"); fn != nil {
		// *c = *fresh where fresh = createConfig(...); only .backends may be copied from c
		var carried []string
		for _, b := range fn.Blocks {
			for _, in := range b.Instrs {
				st, ok := in.(*ssa.Store)
				if !ok {
					continue
				}
				o, f := core.FieldOf(st.Addr)
				if !strings.HasSuffix(o, "haproxy.config") {
					continue
				}
				l := sliceLeaves(c.Env, st.Val, 0)
				if leavesContain(l, "c.") || leavesContain(l, "param:c") {
					carried = append(carried, f)
				}
			}
		}
		c.Check(len(carried) == 1 && carried[0] == "backends", "config.Clear carries over only the backends container", c.Pos(fn.Pos()), "", "config.Clear copies "+strings.Join(carried, ", ")+" from the old state: a full resync no longer starts from `nothing committed` (hasCommittedData stays true, files of removed objects are not rewritten)")
		fresh := false
		for _, s := range core.Calls(fn, false) {
			if strings.HasSuffix(core.CalleeName(s.Common()), "haproxy.createConfig") {
				fresh = true
			}
		}
		c.Check(fresh, "config.Clear builds a fresh config", c.Pos(fn.Pos()), "", "config.Clear does not start from createConfig")
	}
}

func removeClearsAlias(c *core.Ctx) {
	fn := c.Fn("haproxy/types", "Backends.RemoveAll")
	if fn == nil {
		return
	}
	// the delete(b.items, id) and a guarded `b.DefaultBackend = nil` under `item == b.DefaultBackend`
	var del ssa.Instruction
	for _, s := range core.Calls(fn, false) {
		if core.CalleeName(s.Common()) == "builtin:delete" && isLoadOfField(s.Common().Args[0], "haproxy/types.Backends", "items") {
			del = s.Instr
		}
	}
	if del == nil {
		c.Violated("Backends.RemoveAll deletes from items", c.Pos(fn.Pos()), "no delete(b.items, …)")
		return
	}
	c.Held("Backends.RemoveAll deletes from items", at(c, del), "")
	ok := false
	for _, st := range fieldStores(fn, false, "haproxy/types.Backends", "DefaultBackend") {
		if core.IsNilConst(st.Val) && guardedBy(st, has("b.DefaultBackend", " == "), true) {
			// same loop iteration as the delete: the store's block reaches the delete without leaving the loop body
			ok = true
		}
	}
	c.Check(ok, "Backends.RemoveAll clears DefaultBackend when it removes that backend", at(c, del), "", "the removed backend may stay referenced by DefaultBackend: the model names a default backend that is not among its backends (differs from a fresh full sync; the template renders `default_backend` of a missing section)")
}

func init() {
	doc := "Discipline of the model containers (Hosts, Backends, TCPBackends, Userlists, AcmeStorages), the reverse direction of dirty-bit: every insert into itemsAdd is paired with an insert into items under the same key (outside Shrink), every insert into itemsDel with a delete from items; items entries are deleted only for keys that were found; an acquire function returns the existing object when the lookup found one and otherwise stores and returns the object it created."
	for _, p := range []string{"C01", "C05", "C07"} {
		addRule(p, &core.Rule{ID: p + ".container-ops", Floor: 12, Run: containerOps, Doc: doc})
	}
}

func containerOps(c *core.Ctx) {
	for _, ct := range tripleContainers(c) {
		for _, fn := range c.SrcFuncs() {
			if core.PkgOf(fn) != "haproxy/types" {
				continue
			}
			ops := mapOpsOn(fn, ct.full)
			if len(ops) == 0 {
				continue
			}
			name := core.FuncName(fn)
			if strings.HasSuffix(name, ").Shrink") || strings.HasSuffix(name, ").shrink") {
				continue
			}
			c.Touch(fn)
			short := name[strings.LastIndex(name, "types.")+6:]
			for _, op := range ops {
				if !op.insert || op.field != "itemsAdd" && op.field != "itemsDel" {
					continue
				}
				wantInsert := op.field == "itemsAdd"
				paired := false
				for _, o2 := range ops {
					if o2.field == "items" && o2.insert == wantInsert && core.Key(o2.key) == core.Key(op.key) {
						paired = true
					}
				}
				verb := map[bool]string{true: "added", false: "removed"}[wantInsert]
				c.Check(paired, short+" records as "+verb+" only what it "+map[bool]string{true: "adds to", false: "removes from"}[wantInsert]+" the current state", at(c, op.in), "", "an object is recorded in "+op.field+" but the current state (items) is not changed under the same key: the model lists it as "+verb+" while lookups disagree")
			}
			for _, op := range ops {
				if op.field != "items" || op.insert {
					continue
				}
				// deletes only found keys
				ok := guardedBy(op.in, func(k string) bool { return strings.HasSuffix(k, ",ok#1") && strings.Contains(k, ".items[") }, true)
				if kk := core.Key(op.key); strings.Contains(kk, "next(range(") && strings.Contains(kk, ".items") {
					ok = true // the key comes from ranging over items itself
				}
				c.Check(ok, short+" deletes only keys it found", at(c, op.in), "", "delete(items, key) is not on the found branch of the lookup of that key: the deleted-object record holds a nil object or a present object is skipped")
			}
		}
	}
	// acquire functions
	for _, x := range [][2]string{{"Hosts.AcquireHost", "findHost|FindHost"}, {"Backends.AcquireBackend", "FindBackend"}, {"TCPBackends.Acquire", ",ok"}, {"AcmeStorages.Acquire", ",ok"}} {
		fn := c.Fn("haproxy/types", x[0])
		if fn == nil {
			continue
		}
		// creation: the value stored into items is the value returned on that path
		var stored ssa.Value
		for _, op := range mapOpsOn(fn, "haproxy/types."+strings.Split(x[0], ".")[0]) {
			if op.field == "items" && op.insert {
				stored = op.in.(*ssa.MapUpdate).Value
			}
		}
		if stored == nil {
			c.Violated(x[0]+" stores what it creates", c.Pos(fn.Pos()), "no insert into items")
			continue
		}
		retStored, retExisting := false, false
		for _, r := range core.Returns(fn) {
			v := core.Results(r)[0]
			var walk func(v ssa.Value, d int)
			walk = func(v ssa.Value, d int) {
				if d > 4 {
					return
				}
				if v == stored {
					retStored = true
				}
				switch y := v.(type) {
				case *ssa.Phi:
					for _, e := range y.Edges {
						walk(e, d+1)
					}
				case *ssa.Call, *ssa.Extract, *ssa.Lookup:
					k := core.Key(v)
					for _, alt := range strings.Split(x[1], "|") {
						if strings.Contains(k, alt) {
							retExisting = true
						}
					}
				}
			}
			walk(v, 0)
		}
		c.Check(retStored, x[0]+" returns the object it stored", c.Pos(fn.Pos()), "", "the object returned on the creation path is not the one stored into items: later lookups return a different object than the one the caller configured")
		c.Check(retExisting, x[0]+" returns the existing object", c.Pos(fn.Pos()), "", "no return of the looked-up object: an existing object is replaced by a fresh one and loses its configuration")
		// the creation is on the not-found branch
		var mu ssa.Instruction
		for _, op := range mapOpsOn(fn, "haproxy/types."+strings.Split(x[0], ".")[0]) {
			if op.field == "items" && op.insert {
				mu = op.in
			}
		}
		okNF := false
		for _, g := range guardsOf(mu) {
			k := core.StripVersion(g.Key)
			if strings.HasSuffix(k, " != nil)") && !g.Branch || strings.HasSuffix(k, " == nil)") && g.Branch || strings.HasSuffix(k, ",ok#1") && !g.Branch {
				okNF = true
			}
		}
		c.Check(okNF, x[0]+" creates only when nothing was found", at(c, mu), "", "the insert into items is not on the not-found branch of the lookup")
	}
}

func init() {
	addRule("C07", &core.Rule{ID: "C07.counters-and-compaction", Floor: 8, Run: countersCompaction,
		Doc: "Polarity of the small bookkeeping loops C07 depends on: the ssl-passthrough counter is decremented exactly when a passthrough host is released and moves by one only when SetSSLPassthrough changes the flag (up for true, down for false); RemoveAuthBackendByTarget keeps the binds whose target is not in the removed list, RemoveAuthBackendExcept keeps the used ones, both advance the write index with each kept element; the free-port scan advances past a port only when a bind already has it."})
}

func countersCompaction(c *core.Ctx) {
	incdec := func(fn *ssa.Function, field string) map[string][]ssa.Instruction {
		out := map[string][]ssa.Instruction{}
		for _, b := range fn.Blocks {
			for _, in := range b.Instrs {
				st, ok := in.(*ssa.Store)
				if !ok {
					continue
				}
				if _, f := core.FieldOf(st.Addr); f != field {
					continue
				}
				if bo, ok := st.Val.(*ssa.BinOp); ok && core.Key(bo.Y) == "1" {
					out[bo.Op.String()] = append(out[bo.Op.String()], st)
				}
			}
		}
		return out
	}
	if fn := c.Fn("haproxy/types", "Hosts.releaseHost"); fn != nil {
		ops := incdec(fn, "sslPassthroughCount")
		ok := len(ops["-"]) == 1 && len(ops["+"]) == 0 && guardedBy(ops["-"][0], has(".sslPassthrough"), true)
		c.Check(ok, "releasing a passthrough host decrements the counter", c.Pos(fn.Pos()), "", "the counter is not decremented exactly on the `host.sslPassthrough` branch: `backend _redirect_https` is emitted (or omitted) against what the maps reference")
	}
	if fn := c.Fn("haproxy/types", "Host.SetSSLPassthrough"); fn != nil {
		ops := incdec(fn, "sslPassthroughCount")
		okUp := len(ops["+"]) == 1 && guardedBy(ops["+"][0], func(k string) bool { return k == "value" }, true)
		okDn := len(ops["-"]) == 1 && guardedBy(ops["-"][0], func(k string) bool { return k == "value" }, false)
		changed := true
		for _, l := range [][]ssa.Instruction{ops["+"], ops["-"]} {
			for _, in := range l {
				if !guardedBy(in, has("sslPassthrough != value"), true) && !guardedBy(in, has("sslPassthrough == value"), false) {
					changed = false
				}
			}
		}
		c.Check(okUp && okDn && changed, "SetSSLPassthrough moves the counter with the flag", c.Pos(fn.Pos()), "", fmt.Sprintf("increment under value=true: %v, decrement under value=false: %v, only when the flag changes: %v", okUp, okDn, changed))
	}
	for _, x := range []struct {
		name string
		keep func(string) bool
		br   bool
		what string
	}{
		{"Frontend.RemoveAuthBackendByTarget", has("types.hasBackend("), false, "binds whose target is not being removed"},
		{"Frontend.RemoveAuthBackendExcept", func(k string) bool { return strings.HasPrefix(k, "used[") }, true, "binds that are in use"},
	} {
		fn := c.Fn("haproxy/types", x.name)
		if fn == nil {
			continue
		}
		n := 0
		for _, b := range fn.Blocks {
			for _, in := range b.Instrs {
				st, ok := in.(*ssa.Store)
				if !ok {
					continue
				}
				ia, ok := st.Addr.(*ssa.IndexAddr)
				if !ok {
					continue
				}
				n++
				c.Check(guardedBy(st, x.keep, x.br), x.name+" keeps "+x.what, at(c, st), "", "the element is kept on the wrong branch of the test: the binds that should go stay and the live ones are dropped")
				// index advances in the same block
				adv := false
				for _, y := range st.Block().Instrs {
					if bo, ok := y.(*ssa.BinOp); ok && bo.Op.String() == "+" && core.Key(bo.Y) == "1" && bo.X == ia.Index {
						adv = true
					}
				}
				c.Check(adv, x.name+" advances the write index with each kept element", at(c, st), "", "the index used for the kept element is not incremented next to the store: kept elements overwrite each other")
			}
		}
		c.Check(n == 1, x.name+" compaction store", c.Pos(fn.Pos()), "", fmt.Sprint(n))
	}
	if fn := c.Fn("haproxy/types", "Frontend.AcquireAuthBackendName"); fn != nil {
		ok := false
		for _, b := range fn.Blocks {
			for _, in := range b.Instrs {
				bo, isBin := in.(*ssa.BinOp)
				if !isBin || bo.Op.String() != "+" || core.Key(bo.Y) != "1" {
					continue
				}
				if ph, isPhi := bo.X.(*ssa.Phi); isPhi && (ph.Comment == "freePort" || strings.Contains(core.Key(ph), "RangeStart")) {
					ok = guardedBy(bo, has(".LocalPort)", " == "), true)
				}
			}
		}
		c.Check(ok, "the free-port scan skips exactly the ports in use", c.Pos(fn.Pos()), "", "freePort is not advanced on the `freePort == bind.LocalPort` branch: a port in use is handed out again")
	}
}

func init() {
	doc := "HAProxyUpdate commits the model on every successful exit that processed it (every `return nil` after the nil-config guard runs config.Commit, deferred or direct): without it applied changes stay pending, every later update reloads and re-enqueues acme work."
	for _, p := range []string{"C05", "C11", "C17"} {
		addRule(p, &core.Rule{ID: p + ".commit-on-success", Floor: 2, Run: commitOnSuccess, Doc: doc})
	}
}

func commitOnSuccess(c *core.Ctx) {
	fn := c.Fn("haproxy", "instance.HAProxyUpdate")
	if fn == nil {
		return
	}
	isCommit := func(in ssa.Instruction) bool {
		var cc *ssa.CallCommon
		switch x := in.(type) {
		case *ssa.Call:
			cc = &x.Call
		case *ssa.Defer:
			cc = &x.Call
		}
		if cc == nil {
			return false
		}
		n := core.CalleeName(cc)
		return strings.HasSuffix(n, "config).Commit") || cc.IsInvoke() && cc.Method.Name() == "Commit"
	}
	n := 0
	for _, r := range core.Returns(fn) {
		if !core.IsNilConst(core.Results(r)[0]) {
			continue
		}
		if guardedBy(r, has("i.config == nil"), true) {
			c.Held("HAProxyUpdate without a model does nothing", at(c, r), "")
			continue
		}
		n++
		w := core.PathQuery{Fn: fn, Target: func(in ssa.Instruction) bool { return in == ssa.Instruction(r) }, Barrier: isCommit}.Find()
		c.Check(w == nil, "HAProxyUpdate commits before it reports success: "+exitGuardsText(r), at(c, r), "", "a successful exit is reachable without config.Commit: "+w.Describe(c.Env))
	}
	c.Check(n >= 2, "HAProxyUpdate success exits", c.Pos(fn.Pos()), "", fmt.Sprintf("%d `return nil` after the guard (dynamic update and enqueued reload)", n))
}
