package rules

import (
	"fmt"
	"strings"

	"golang.org/x/tools/go/ssa"

	"hapverif/internal/core"
)

func init() {
	register(&core.Property{
		ID:          "C04",
		Title:       "Path precedence in generated maps: exact first, then longest declared path",
		Explanation: "Static decision of the ordering tables the precedence argument rests on: (1) the complete decision table of overlaps(); (2) the comparators of the three per-file sorts and of the per-host pre-sort, which touch their operands only through ==, < and >, so their table over the orderings is finite: inside a host longer paths come first; (3) the map key joins non-empty host and path with `#`; (4) the key and the entry's path used for sorting and overlap detection are the same (lower-cased for begin) value; (5) exact files go first, files with header filters before everything; (6) whenever two entries of a host overlap (or differ in filters) the shorter one records the longer one's file as its upper bound — whether that file was just created or already existed.",
		NotDecided: []string{
			"correctness of the overlap-splitting algorithm (`_upper`/`_elem` bookkeeping) over all rule sets: a wrong algorithm with right tables passes",
			"HAProxy's str/dir/beg/reg lookup semantics",
		},
		Rules: []*core.Rule{
			{ID: "C04.overlaps", Floor: 1, Run: c04Overlaps, Doc: "overlaps(e1,e2) = types differ && paths differ && neither exact && neither regex && HasPrefix(e1.path, e2.path)."},
			{ID: "C04.file-order", Floor: 4, Run: c04FileOrder, Doc: "Comparator tables: exact: key asc then order; regex: longer key first, then key, then order; default: same host -> path descending then order, else key ascending; pre-sort per host: same filters -> path descending, else with-filter first."},
			{ID: "C04.key", Floor: 3, Run: c04Key, Doc: "buildMapKey joins host and path with `#` whenever both are non-empty; addTarget sorts/overlaps on the same (lower-cased for begin) path that is in the key."},
			{ID: "C04.priority", Floor: 3, Run: c04Priority, Doc: "rebuildMatchFiles: exact files are pushed to the front, other files to the back in matchOrder, and the filter files in front of everything afterwards."},
			{ID: "C04.upper-recorded", Floor: 1, Run: c04Upper, Doc: "findOrCreateMatchFileIfOverlaps: e2._upper = file of e1 on every path of the overlap branch; the branch condition is overlaps(e1,e2) || !sameFilter."},
		},
	})
}

func c04Overlaps(c *core.Ctx) {
	fn := c.Fn("haproxy/types", "overlaps")
	if fn == nil {
		return
	}
	tableRule(c, "haproxy/types.overlaps", fn, 0, matchers{
		"mdiff": has("(e1.match != e2.match)"),
		"pdiff": has("(e1.path != e2.path)"),
		"e1x":   has(`(e1.match != "exact")`),
		"e2x":   has(`(e2.match != "exact")`),
		"e1r":   has(`(e1.match != "regex")`),
		"e2r":   has(`(e2.match != "regex")`),
		"pre":   has("strings.HasPrefix(e1.path, e2.path)"),
	}, func(v map[string]bool) bool {
		return v["mdiff"] && v["pdiff"] && v["e1x"] && v["e2x"] && v["e1r"] && v["e2r"] && v["pre"]
	})
}

func c04FileOrder(c *core.Ctx) {
	sortFn := c.Fn("haproxy/types", "hostsMapMatchFile.sort")
	if sortFn == nil {
		return
	}
	found := map[string]bool{}
	for _, a := range anonFuncs(sortFn) {
		t := core.ExtractTable(a)
		if t.Err != "" {
			continue
		}
		joined := strings.Join(t.Atoms, " ; ")
		c.Touch(a)
		switch {
		case strings.Contains(joined, ".hostname == "):
			found["default"] = true
			tableRule(c, "sort default (prefix/begin) files", a, 0, matchers{
				"hostEq":  has(".hostname == "),
				"pathEq":  has(".path == "),
				"orderLt": has(".order < "),
				"pathGt":  has(".path > "),
				"keyLt":   has(".Key < "),
			}, func(v map[string]bool) bool {
				if v["hostEq"] {
					if v["pathEq"] {
						return v["orderLt"]
					}
					return v["pathGt"]
				}
				return v["keyLt"]
			})
			// operand sides: v1 is entries[i], v2 is entries[j]
			for _, at := range t.Atoms {
				if strings.Contains(at, ".path > ") {
					c.Check(strings.Index(at, "[i]") < strings.Index(at, "[j]") && strings.Contains(at, "[i]"), "default sort: path descending", c.Pos(a.Pos()), "entries[i].path > entries[j].path", "longer paths are not sorted first inside a host: `"+at+"` — with `dir`/`beg` matching the shorter path captures requests of the longer one")
				}
			}
		case strings.Contains(joined, "builtin:len("):
			found["regex"] = true
			tableRule(c, "sort regex files", a, 0, matchers{
				"lenNe":   has("builtin:len(", " != builtin:len("),
				"lenGt":   has("builtin:len(", " > builtin:len("),
				"keyEq":   func(k string) bool { return strings.Contains(k, ".Key == ") && !strings.Contains(k, "len(") },
				"orderLt": has(".order < "),
				"keyLt":   func(k string) bool { return strings.Contains(k, ".Key < ") && !strings.Contains(k, "len(") },
			}, func(v map[string]bool) bool {
				if v["lenNe"] {
					return v["lenGt"]
				}
				if v["keyEq"] {
					return v["orderLt"]
				}
				return v["keyLt"]
			})
		case strings.Contains(joined, ".Key == "):
			found["exact"] = true
			tableRule(c, "sort exact files", a, 0, matchers{
				"keyEq":   has(".Key == "),
				"orderLt": has(".order < "),
				"keyLt":   has(".Key < "),
			}, func(v map[string]bool) bool {
				if v["keyEq"] {
					return v["orderLt"]
				}
				return v["keyLt"]
			})
		}
	}
	for _, k := range []string{"default", "regex", "exact"} {
		if !found[k] {
			c.Violated("sort "+k+" files", c.Pos(sortFn.Pos()), "comparator not found")
		}
	}
	// the comparator is selected by the file's match type
	for _, b := range sortFn.Blocks {
		for _, in := range b.Instrs {
			if mc, ok := in.(*ssa.MakeClosure); ok {
				_ = mc
			}
		}
	}
	// pre-sort per host in rebuildMatchFiles
	if fn := c.Fn("haproxy/types", "HostsMap.rebuildMatchFiles"); fn != nil {
		ok := false
		for _, a := range anonFuncs(fn) {
			t := core.ExtractTable(a)
			if t.Err != "" || !strings.Contains(strings.Join(t.Atoms, ";"), ".path > ") {
				continue
			}
			ok = true
			tableRule(c, "pre-sort of a host's entries", a, 0, matchers{
				"sameFilter": has("HTTPHeaderMatch).equals("),
				"pathGt":     has(".path > "),
				"e1filter":   has("hasFilter("),
			}, func(v map[string]bool) bool {
				if v["sameFilter"] {
					return v["pathGt"]
				}
				return v["e1filter"]
			})
		}
		c.Check(ok, "pre-sort exists", c.Pos(fn.Pos()), "", "no per-host pre-sort by descending path")
	}
}

func c04Key(c *core.Ctx) {
	if fn := c.Fn("haproxy/types", "buildMapKey"); fn != nil {
		nSep, nPlain := 0, 0
		for _, ret := range core.Returns(fn) {
			k := core.Key(core.Results(ret)[0])
			if strings.Contains(k, `+ "#")`) {
				nSep++
				okH, okP := false, false
				for _, g := range guardsOf(ret) {
					if strings.HasSuffix(g.Key, `!= "")`) && g.Branch {
						if strings.Contains(g.Key, "path") {
							okP = true
						} else {
							okH = true
						}
					}
				}
				c.Check(okH && okP, "buildMapKey uses the separator for host+path keys", at(c, ret), "", "the `#` key is not exactly under host != \"\" && path != \"\"")
			} else {
				nPlain++
				// the plain return must not be reachable with both non-empty: it is on a false edge of one of the tests
				ok := false
				for _, e := range core.ControllingEdges(ret.Block()) {
					_ = e
				}
				// plain block is the merge of the two false edges: check its preds end with the tests
				for _, p := range ret.Block().Preds {
					if ifi, isIf := p.Instrs[len(p.Instrs)-1].(*ssa.If); isIf && strings.HasSuffix(core.Key(ifi.Cond), `!= "")`) {
						ok = true
					}
				}
				c.Check(ok, "buildMapKey plain key only when host or path is empty", at(c, ret), "", "the key without separator is reachable with host and path both set: `dir` matching of a host's path can be captured by another host")
			}
		}
		c.Check(nSep == 1 && nPlain == 1, "buildMapKey has the two key shapes", c.Pos(fn.Pos()), "", fmt.Sprintf("%d separator returns, %d plain", nSep, nPlain))
	}
	if fn := c.Fn("haproxy/types", "HostsMap.addTarget"); fn != nil {
		var keyCall *ssa.Call
		for _, s := range core.Calls(fn, false) {
			if strings.HasSuffix(core.CalleeName(s.Common()), "types.buildMapKey") {
				keyCall, _ = s.Instr.(*ssa.Call)
			}
		}
		sp := fieldStores(fn, false, "haproxy/types.HostsMapEntry", "path")
		sh := fieldStores(fn, false, "haproxy/types.HostsMapEntry", "hostname")
		if keyCall == nil || len(sp) != 1 || len(sh) != 1 {
			c.Violated("addTarget builds key and entry", c.Pos(fn.Pos()), "buildMapKey call / path / hostname stores not found")
			return
		}
		c.Check(sp[0].Val == keyCall.Call.Args[2], "addTarget: key and entry use the same path value", at(c, sp[0]), "", "entry.path (`"+core.Key(sp[0].Val)+"`) and the path in the key (`"+core.Key(keyCall.Call.Args[2])+"`) are different values: sorting/overlap detection and the emitted key disagree on case")
		c.Check(sh[0].Val == keyCall.Call.Args[1], "addTarget: key and entry use the same hostname value", at(c, sh[0]), "", "entry.hostname and the hostname in the key differ")
		kp := core.Key(sp[0].Val)
		c.Check(strings.HasPrefix(kp, "phi{") && strings.Contains(kp, "strings.ToLower(path)"), "addTarget lower-cases begin paths", at(c, sp[0]), "", "path is `"+kp+"`: the frontend lower-cases the request for `beg` maps, an upper-case key can never match")
		// the ToLower edge is under match == begin
		if ph, ok := sp[0].Val.(*ssa.Phi); ok {
			okG := false
			for i, e := range ph.Edges {
				if strings.HasPrefix(core.Key(e), "strings.ToLower(") {
					okG = blockGuarded(ph.Block().Preds[i], func(g guard) bool { return strings.HasSuffix(g.Key, `(match == "begin")`) && g.Branch })
				}
			}
			c.Check(okG, "lower-casing is for begin only", at(c, sp[0]), "", "the lower-cased path is not selected exactly for match == begin")
		}
		c.Check(strings.HasPrefix(core.Key(sh[0].Val), "strings.ToLower("), "addTarget lower-cases hostnames", at(c, sh[0]), "", "hostname is not lower-cased")
	}
}

func c04Priority(c *core.Ctx) {
	fn := c.Fn("haproxy/types", "HostsMap.rebuildMatchFiles")
	if fn == nil {
		return
	}
	var front, back, frontList ssa.Instruction
	for _, s := range core.Calls(fn, false) {
		n := core.CalleeName(s.Common())
		switch {
		case strings.HasSuffix(n, "list.List).PushFront"):
			front = s.Instr
		case strings.HasSuffix(n, "list.List).PushBack"):
			back = s.Instr
		case strings.HasSuffix(n, "list.List).PushFrontList"):
			frontList = s.Instr
		}
	}
	if front == nil || back == nil || frontList == nil {
		c.Violated("rebuildMatchFiles orders the files", c.Pos(fn.Pos()), "PushFront / PushBack / PushFrontList not all found")
		return
	}
	c.Check(guardedBy(front, has(`.match == "exact")`), true), "exact files go first", at(c, front), "", "PushFront is not under match == exact")
	c.Check(guardedBy(back, has(`.match == "exact")`), false), "other files follow in matchOrder", at(c, back), "", "PushBack is not the non-exact branch")
	c.Check(core.Reaches(fn, frontList, func(in ssa.Instruction) bool { return in == front || in == back }) == nil, "filter files are put in front after the default files", at(c, frontList), "", "a default file can be pushed after the filter files were placed")
	a := frontList.(*ssa.Call).Call.Args
	c.Check(strings.Contains(core.Key(a[1]), "list.New()") && a[1] != a[0], "the filter list is what is put in front", at(c, frontList), "", "")
	// the default files loop ranges over matchOrder
	ok := false
	for _, b := range fn.Blocks {
		for _, in := range b.Instrs {
			if call, isCall := in.(*ssa.Call); isCall && core.CalleeName(&call.Call) == "builtin:len" && strings.HasSuffix(core.Key(call.Call.Args[0]), ".matchOrder") {
				ok = true
			}
		}
	}
	c.Check(ok, "default files follow the configured path-type order", c.Pos(fn.Pos()), "", "no loop over matchOrder")
}

func c04Upper(c *core.Ctx) {
	fn := c.Fn("haproxy/types", "findOrCreateMatchFileIfOverlaps")
	if fn == nil {
		return
	}
	sts := fieldStores(fn, false, "haproxy/types.HostsMapEntry", "_upper")
	if len(sts) != 1 {
		c.Violated("e2._upper is recorded", c.Pos(fn.Pos()), fmt.Sprintf("%d stores", len(sts)))
		return
	}
	st := sts[0]
	t := core.ExtractTable(fn)
	if t.Err != "" {
		c.Undecided("e2._upper is recorded", at(c, st), t.Err)
		return
	}
	cond, _ := t.InstrCond(st)
	mOvl := matchers{"ovl": has("types.overlaps(e1, e2)"), "same": has("hasSameFilter(e1, e2)")}
	b, unbound, dup := bindDeps(t, cond, mOvl)
	if miss := missingBound(b, mOvl); len(miss) > 0 {
		c.Violated("e2._upper is recorded", at(c, st), fmt.Sprintf("recording the upper file does not depend on %v any more", miss))
		return
	}
	if dup != "" || len(unbound) > 0 {
		c.Violated("e2._upper is recorded", at(c, st), fmt.Sprintf("recording the upper file also depends on %v: when e1's file already exists the shorter entry is not bound below it and can land in an earlier file", unbound))
		return
	}
	ok, diff, _ := t.Compare(cond, b, func(v map[string]bool) bool { return v["ovl"] || !v["same"] }, nil)
	c.Check(ok, "e2._upper is recorded", at(c, st), "on every path of the overlap branch", diff)
	k := core.Key(st.Val)
	c.Check(strings.HasPrefix(k, "phi{") && strings.Contains(k, "e1._elem") && strings.Contains(k, "findOrCreateMatchFile("), "the upper bound is e1's file", at(c, st), "", "stored value is `"+k+"`")
	_, f := core.FieldOf(st.Addr)
	base := core.Key(st.Addr.(*ssa.FieldAddr).X)
	c.Check(f == "_upper" && base == "e2", "the bound is recorded on the shorter entry", at(c, st), "", "recorded on `"+base+"`")
}
