package rules

import (
	"fmt"
	"go/types"
	"regexp"
	"strings"
	"text/template/parse"

	"golang.org/x/tools/go/ssa"

	"hapverif/internal/core"
)

// ---------------------------------------------------------------------------------------------
// C13: items of the reconciliation queue are equal per kind; the limiter tests are exact.
// ---------------------------------------------------------------------------------------------

func init() {
	addRule("C13", &core.Rule{ID: "C13.item-identity", Floor: 3, Run: c13ItemIdentity,
		Doc: "The reconciliation queue coalesces requests by item equality and the rate limiter hands one deadline to all of them: the item type (rparam) carries nothing but the kind discriminator `fullsync`, so two pending requests of one kind are one item. A further field (who asked, why) makes requests of one kind distinct items that share a deadline and run back to back."})
	addRule("C13", &core.Rule{ID: "C13.when-atoms", Floor: 2, Run: c13WhenAtoms,
		Doc: "The two tests of both limiters' When are exactly `last.After(now)` and `last.Add(interval).Before(now)` (no slack term): When grants an immediate run only when a whole interval has passed since the recorded run."})
}

func c13ItemIdentity(c *core.Ctx) {
	nt := c.NamedType("controller/reconciler", "rparam")
	if nt == nil {
		c.MissingAnchor("type controller/reconciler.rparam")
		return
	}
	st, ok := nt.Underlying().(*types.Struct)
	if !ok {
		c.Violated("queue item is a plain kind discriminator", "", "rparam is not a struct")
		return
	}
	var fields []string
	for i := 0; i < st.NumFields(); i++ {
		fields = append(fields, st.Field(i).Name()+" "+st.Field(i).Type().String())
	}
	c.Check(len(fields) == 1 && fields[0] == "fullsync bool", "queue item is a plain kind discriminator", "pkg/controller/reconciler/reconciler.go", "rparam{fullsync bool}",
		"rparam has fields ["+strings.Join(fields, ", ")+"]: requests of one kind are no longer equal items, the queue does not coalesce them and the limiter gives them one deadline")
	// every enqueue hands a literal whose only set field is fullsync
	n := 0
	for _, fn := range c.SrcFuncs() {
		if core.PkgOf(fn) != "controller/reconciler" {
			continue
		}
		for _, s := range core.Calls(fn, false) {
			cc := s.Common()
			if !cc.IsInvoke() || !(cc.Method.Name() == "AddRateLimited" || cc.Method.Name() == "Add" || cc.Method.Name() == "AddAfter") || !strings.Contains(cc.Value.Type().String(), "rparam") {
				continue
			}
			n++
			c.Touch(fn)
			t := argText(cc.Args[0])
			c.Check(cc.Method.Name() == "AddRateLimited", core.FuncName(fn)+" enqueues through the limiter", at(c, s.Instr), "", "the request is enqueued with "+cc.Method.Name())
			c.Check(strings.HasPrefix(t, "&reconciler.rparam{fullsync: ") && !strings.Contains(t, ", ") || strings.HasPrefix(t, "new(reconciler.rparam)"), core.FuncName(fn)+" enqueues a bare kind", at(c, s.Instr), t, "the item is `"+t+"`")
		}
	}
	c.Check(n >= 2, "enqueue sites of the reconciliation queue", "", fmt.Sprintf("%d", n), fmt.Sprintf("%d sites", n))
}

var (
	reAfter  = regexp.MustCompile(`^\(time\.Time\)\.After\(\w+\.last, time\.Now\(\)\)$`)
	reBefore = regexp.MustCompile(`^\(time\.Time\)\.Before\(\(time\.Time\)\.Add\(\w+\.last, \w+\.(interval|delta)\), time\.Now\(\)\)$`)
)

func c13WhenAtoms(c *core.Ctx) {
	for _, fn := range limiterWhens(c) {
		name := core.FuncName(fn)
		t := core.ExtractTable(fn)
		if t.Err != "" {
			c.Undecided(name+" tests", c.Pos(fn.Pos()), t.Err)
			continue
		}
		var after, before, other []string
		for _, a := range t.Atoms {
			k := core.StripVersion(a)
			switch {
			case reAfter.MatchString(k):
				after = append(after, k)
			case reBefore.MatchString(k):
				before = append(before, k)
			default:
				other = append(other, k)
			}
		}
		c.Check(len(after) == 1 && len(before) == 1 && len(other) == 0, name+" tests exactly last>now and last+interval<now", c.Pos(fn.Pos()), strings.Join(t.Atoms, " ; "),
			"the tests of the limiter are ["+strings.Join(t.Atoms, " ; ")+"]: expected exactly `last.After(now)` and `last.Add(interval).Before(now)`; a slack term grants runs closer than the interval")
	}
}

// ---------------------------------------------------------------------------------------------
// C14: the accumulator is reached through its holder at the time of the event.
// ---------------------------------------------------------------------------------------------

func init() {
	doc := "Every store into the batch accumulator (fields of ChangedObjects) made by the watchers reaches it through a load of `watchers.ch` in the very function (or closure) that stores, or through a freshly allocated object: the accumulator is replaced at every batch swap, so a pointer captured when the handlers were built keeps writing into a batch that was already delivered."
	addRule("C14", &core.Rule{ID: "C14.accumulator-fresh", Floor: 10, Run: c14AccumulatorFresh, Doc: doc})
}

func c14AccumulatorFresh(c *core.Ctx) {
	n := 0
	for _, fn := range c.SrcFuncs() {
		if core.PkgOf(fn) != "controller/reconciler" {
			continue
		}
		fnN, fnBad := 0, 0
		for _, b := range fn.Blocks {
			for _, in := range b.Instrs {
				var addr ssa.Value
				switch x := in.(type) {
				case *ssa.Store:
					addr = x.Addr
				case *ssa.MapUpdate:
					addr = x.Map
				default:
					continue
				}
				// walk to the base pointer of type *ChangedObjects
				var base ssa.Value
				a := addr
				for i := 0; i < 8 && a != nil; i++ {
					switch y := a.(type) {
					case *ssa.FieldAddr:
						if strings.HasSuffix(y.X.Type().String(), "converters/types.ChangedObjects") {
							base = y.X
						}
						a = y.X
						continue
					case *ssa.IndexAddr:
						a = y.X
						continue
					case *ssa.UnOp:
						a = y.X
						continue
					}
					break
				}
				if base == nil {
					continue
				}
				n++
				fnN++
				c.Touch(fn)
				ok := false
				how := ""
				switch y := base.(type) {
				case *ssa.UnOp:
					if watchersField(y.X, "ch") {
						ok, how = true, "loaded from watchers.ch here"
					}
				case *ssa.Alloc:
					ok, how = true, "fresh object"
				case *ssa.Call:
					if strings.HasSuffix(core.CalleeName(&y.Call), "watchers).getChangedObjects") {
						ok, how = true, "the batch just taken out by getChangedObjects (owned by the reconciliation)"
					}
				}
				if !ok {
					how = argText(base)
				}
				_, f := core.FieldOf(addr)
				if !ok {
					fnBad++
					c.Violated(core.FuncName(fn)+": ChangedObjects."+f+" is written through the current accumulator", at(c, in), "the store goes through `"+how+"` ("+fmt.Sprintf("%T", base)+"), not through a load of watchers.ch in this function: after the next batch swap it writes into a batch that was already handed out")
				}
			}
		}
		if fnN > 0 && fnBad == 0 {
			c.Held(core.FuncName(fn)+": stores into the accumulator go through the current one", c.Pos(fn.Pos()), fmt.Sprintf("%d stores", fnN))
		}
	}
	c.Check(n >= 20, "stores into the accumulator examined", "", fmt.Sprintf("%d stores", n), fmt.Sprintf("only %d stores into ChangedObjects found in controller/reconciler", n))
}

// ---------------------------------------------------------------------------------------------
// C16 / C03 / C02: attributes of the server line of the template.
// ---------------------------------------------------------------------------------------------

var serverLineTable = []string{
	"disabled <- if not $ep.Enabled",
	"weight <- always",
	"cookie <- if and ($backend.CookieAffinity) ($ep.CookieValue)",
	"source <- if $ep.SourceIP",
	"id <- if $ep.PUID",
}

func init() {
	doc := "The `server` line of the backend template prints each attribute under the reviewed condition: `disabled` iff the slot is not enabled, `weight` always (HAProxy's default weight is 1: omitting `weight 0` turns a draining, unmatched or zero-weight server into a serving one), cookie/source/id when set."
	for _, p := range []string{"C16", "C03", "C02", "C11"} {
		addRule(p, &core.Rule{ID: p + ".server-line", Floor: 5, Run: serverLine, Doc: doc})
	}
}

func serverLine(c *core.Ctx) {
	t, err := c.LoadTemplate("rootfs/etc/templates/haproxy/haproxy.tmpl")
	if err != nil {
		c.MissingAnchor("haproxy.tmpl: " + err.Error())
		return
	}
	var nodes []core.TNode
	for _, name := range t.TreeNames() {
		t.Walk(name, func(n core.TNode) { nodes = append(nodes, n) })
	}
	// the text node `server ` inside `range $ep := $backend.Endpoints`
	start := -1
	for i, n := range nodes {
		tx, ok := n.Node.(*parse.TextNode)
		if !ok || !strings.Contains(string(tx.Text), "\n    server ") {
			continue
		}
		if start < 0 && n.Tree == "backends" && strings.Contains(strings.Join(core.GuardStrings(n.Guards), " / "), "range $ep := $backend.Endpoints") {
			start = i
		}
	}
	if start < 0 {
		c.MissingAnchor("server line of the backend template")
		return
	}
	base := len(nodes[start].Guards)
	var got []string
	for i := start + 1; i < len(nodes); i++ {
		n := nodes[i]
		if len(n.Guards) < base {
			break
		}
		if _, isT := n.Node.(*parse.TemplateNode); isT {
			break
		}
		var text string
		switch x := n.Node.(type) {
		case *parse.TextNode:
			text = string(x.Text)
		case *parse.StringNode:
			text = x.Text
		case *parse.ActionNode:
			// {{- "" }} weight  — a string literal in an action
			for _, cmd := range x.Pipe.Cmds {
				for _, a := range cmd.Args {
					if s, ok := a.(*parse.StringNode); ok {
						text += s.Text
					}
				}
			}
		}
		for _, attr := range []string{"disabled", "weight", "cookie", "source", "id"} {
			if strings.Contains(text, " "+attr+" ") || strings.HasSuffix(strings.TrimRight(text, " "), " "+attr) || strings.TrimSpace(text) == attr {
				g := "always"
				if len(n.Guards) > base {
					g = n.Guards[len(n.Guards)-1].String()
				}
				got = append(got, attr+" <- "+g)
			}
		}
	}
	c.Check(strings.Join(got, " | ") == strings.Join(serverLineTable, " | "), "attributes of the server line", "rootfs/etc/templates/haproxy/haproxy.tmpl", strings.Join(got, " | "),
		"the server line prints ["+strings.Join(got, " | ")+"], reviewed ["+strings.Join(serverLineTable, " | ")+"]")
	for i := 0; i < len(serverLineTable); i++ {
		c.Held("server line attribute: "+strings.SplitN(serverLineTable[i], " <- ", 2)[0], "rootfs/etc/templates/haproxy/haproxy.tmpl", "")
	}
}
