package rules

import (
	"fmt"
	"strings"

	"golang.org/x/tools/go/ssa"

	"hapverif/internal/core"
)

func init() {
	register(&core.Property{
		ID:          "C12",
		Title:       "A change is never lost to a transient failure: the next reconcile applies it",
		Explanation: "Static decision of the retry protocol's structure: (1) on every error exit of HAProxyUpdate the pending-change markers (itemsAdd/itemsDel/changed/changedShards, cleared by config.Commit) must survive — today Commit is deferred and runs on all six error exits, which are listed as known findings; a seventh exit or a new early Commit is a new violation; (2) a `written` marker (frontend.Maps) is set only after every fallible write of that step succeeded; (3) every path of HAProxyUpdate that could not update dynamically and returns nil has enqueued or performed a reload; (4) the error of HAProxyUpdate is what ReconcileIngress returns and Reconcile turns it into a requeue after Config.ReloadRetry; (5) a failed reload re-adds itself after ReloadRetry and records the failed state.",
		NotDecided: []string{
			"that the retry actually converges (needs executions with injected faults)",
			"crash points: the process dying between file writes",
		},
		Rules: []*core.Rule{
			{ID: "C12.commit-after-success", Floor: 5, Run: c12Commit,
				Doc: "For every return of a (possibly) non-nil error in HAProxyUpdate: config.Commit must not execute on the path to it (Commit clears the add/del/changed bookkeeping that makes the next update rewrite maps, shards and crt-lists). Keyed by the callee whose error is returned."},
			{ID: "C12.marker-after-success", Floor: 1, Run: c12Marker,
				Doc: "WriteFrontendMaps: the store of frontend.Maps (the only marker that the frontend maps were ever written) is not followed by an error return: it happens after the crt-list and map writes succeeded."},
			{ID: "C12.reload-on-miss", Floor: 1, Run: c12ReloadOnMiss,
				Doc: "HAProxyUpdate: every path on which the dynamic update failed (updated == false) and that returns nil passes ReloadQueue.Add or Reload; no other condition can skip the reload."},
			{ID: "C12.propagate", Floor: 3, Run: c12Propagate,
				Doc: "ReconcileIngress returns HAProxyUpdate's error; Reconcile branches on it and returns RequeueAfter: Config.ReloadRetry on the error edge."},
			{ID: "C12.reload-retry", Floor: 2, Run: c12ReloadRetry,
				Doc: "services.reloadHAProxy re-adds the reload after Config.ReloadRetry on the error edge of instance.Reload; Reload records the failure (updateSuccessful(false)) on the error edge of the reload script."},
		},
	})
}

func c12Commit(c *core.Ctx) {
	fn := c.Fn("haproxy", "instance.HAProxyUpdate")
	if fn == nil {
		return
	}
	isCommit := func(in ssa.Instruction) bool {
		ci, ok := in.(ssa.CallInstruction)
		if !ok {
			return false
		}
		if _, isGo := in.(*ssa.Go); isGo {
			return false
		}
		n := core.CalleeName(ci.Common())
		return strings.HasSuffix(n, "config).Commit") || strings.HasSuffix(n, "Config).Commit")
	}
	for _, ret := range core.Returns(fn) {
		res := core.Results(ret)
		if len(res) != 1 || core.IsNilConst(res[0]) {
			continue
		}
		l := sliceLeaves(c.Env, res[0], 0)
		src := "?"
		for k := range l {
			if strings.HasPrefix(k, "call:") && !strings.HasPrefix(k, "call:fmt.") {
				n := strings.TrimPrefix(k, "call:")
				if i := strings.Index(n, "#"); i >= 0 {
					n = n[:i]
				}
				n = n[strings.LastIndex(n, ".")+1:]
				if src == "?" || n < src {
					src = n
				}
			}
		}
		key := "HAProxyUpdate error exit after " + src
		w := core.PathQuery{Fn: fn, Target: func(in ssa.Instruction) bool { return in == ssa.Instruction(ret) }, Barrier: func(in ssa.Instruction) bool { return false }}.Find()
		_ = w
		// does a Commit (call or defer) lie on some path to this return?
		onPath := false
		for _, b := range fn.Blocks {
			for _, in := range b.Instrs {
				if isCommit(in) {
					if core.Reaches(fn, in, func(x ssa.Instruction) bool { return x == ssa.Instruction(ret) }) != nil {
						onPath = true
					}
				}
			}
		}
		c.Check(!onPath, key, at(c, ret), "the change bookkeeping survives this error exit",
			"config.Commit runs (deferred) on this error exit: the add/del/changed sets are cleared although the files or the reload did not succeed, so the retry sees `no changes` and never rewrites what failed")
	}
}

func c12Marker(c *core.Ctx) {
	fn := c.Fn("haproxy", "config.WriteFrontendMaps")
	if fn == nil {
		return
	}
	sts := fieldStores(fn, false, "haproxy/types.Frontend", "Maps")
	if len(sts) != 1 {
		c.Violated("WriteFrontendMaps stores frontend.Maps", c.Pos(fn.Pos()), fmt.Sprintf("%d stores, expected 1", len(sts)))
		return
	}
	w := core.PathQuery{Fn: fn, Start: sts[0], Target: func(in ssa.Instruction) bool {
		r, ok := in.(*ssa.Return)
		return ok && len(r.Results) == 1 && !core.IsNilConst(core.Results(r)[0])
	}}.Find()
	c.Check(w == nil, "frontend.Maps set only after the writes succeeded", at(c, sts[0]), "no error return follows the store",
		"an error return is reachable after frontend.Maps is set: a failed write leaves the `already written` marker set and, with the change sets committed, the retry skips the frontend maps; path "+w.Describe(c.Env))
	// the skip guard reads the same marker
	okGuard := false
	for _, b := range fn.Blocks {
		if ifi, ok := b.Instrs[len(b.Instrs)-1].(*ssa.If); ok && strings.Contains(core.Key(ifi.Cond), "frontend.Maps != nil") {
			okGuard = true
		}
	}
	c.Check(okGuard, "WriteFrontendMaps skip guard uses the marker", c.Pos(fn.Pos()), "", "no `frontend.Maps != nil` test found")
}

func c12ReloadOnMiss(c *core.Ctx) {
	fn := c.Fn("haproxy", "instance.HAProxyUpdate")
	if fn == nil {
		return
	}
	var updated ssa.Value
	for _, s := range core.Calls(fn, false) {
		if strings.HasSuffix(core.CalleeName(s.Common()), "dynUpdater).update") {
			updated, _ = s.Instr.(ssa.Value)
		}
	}
	if updated == nil {
		c.Violated("HAProxyUpdate calls dynUpdater.update", c.Pos(fn.Pos()), "call not found")
		return
	}
	isReload := func(in ssa.Instruction) bool {
		call, ok := in.(*ssa.Call)
		if !ok {
			return false
		}
		n := core.CalleeName(&call.Call)
		if strings.HasSuffix(n, "instance).Reload") {
			return true
		}
		return call.Call.IsInvoke() && call.Call.Method.Name() == "Add" && strings.Contains(core.Key(call.Call.Value), "ReloadQueue")
	}
	w := core.PathQuery{Fn: fn, Start: updated.(ssa.Instruction),
		Target: func(in ssa.Instruction) bool {
			r, ok := in.(*ssa.Return)
			return ok && len(r.Results) == 1 && core.IsNilConst(core.Results(r)[0])
		},
		Barrier: isReload,
		EdgeOK: func(from *ssa.BasicBlock, succ int) bool {
			ifi, ok := from.Instrs[len(from.Instrs)-1].(*ssa.If)
			if !ok {
				return true
			}
			cond := stripNot(ifi.Cond)
			if cond != updated {
				return true
			}
			branch := succ == 0
			if countNot(ifi.Cond)%2 == 1 {
				branch = !branch
			}
			return !branch // follow only updated == false
		}}.Find()
	c.Check(w == nil, "HAProxyUpdate reloads whenever the dynamic update failed", at(c, updated.(ssa.Instruction)), "every nil return after updated==false passes ReloadQueue.Add or Reload",
		"a path returns nil after the dynamic update failed without enqueueing or performing a reload: the files on disk are newer than the running HAProxy until an unrelated change reloads; path "+w.Describe(c.Env))
}

func c12Propagate(c *core.Ctx) {
	if fn := c.Fn("controller/services", "Services.ReconcileIngress"); fn != nil {
		for _, ret := range core.Returns(fn) {
			l := sliceLeaves(c.Env, core.Results(ret)[0], 0)
			c.Check(leavesContain(l, ").HAProxyUpdate"), "ReconcileIngress returns HAProxyUpdate's error", at(c, ret), "", "returned value does not derive from HAProxyUpdate: "+leavesList(l))
		}
	}
	fn := c.Fn("controller/reconciler", "IngressReconciler.Reconcile")
	if fn == nil {
		return
	}
	// the branch on the error
	var errIf *ssa.If
	for _, b := range fn.Blocks {
		if ifi, ok := b.Instrs[len(b.Instrs)-1].(*ssa.If); ok {
			k := core.Key(ifi.Cond)
			if strings.Contains(k, ").ReconcileIngress(") && strings.HasSuffix(k, " != nil)") {
				errIf = ifi
			}
		}
	}
	if errIf == nil {
		c.Violated("Reconcile branches on the reconcile error", c.Pos(fn.Pos()), "no `err != nil` test of ReconcileIngress's result: failures are dropped")
		return
	}
	c.Held("Reconcile branches on the reconcile error", at(c, errIf), "")
	// on the true edge: a store RequeueAfter = Config.ReloadRetry into the returned Result
	found := false
	for _, b := range fn.Blocks {
		for _, in := range b.Instrs {
			st, ok := in.(*ssa.Store)
			if !ok {
				continue
			}
			if _, f := core.FieldOf(st.Addr); f != "RequeueAfter" {
				continue
			}
			if guardedBy(st, has(").ReconcileIngress(", " != nil)"), true) && strings.HasSuffix(core.Key(st.Val), "Config.ReloadRetry") {
				found = true
			}
		}
	}
	c.Check(found, "Reconcile requeues after ReloadRetry on error", at(c, errIf), "RequeueAfter = Config.ReloadRetry on the error edge", "on the error edge no Result{RequeueAfter: Config.ReloadRetry} is built: a failed update is retried only when the next unrelated event arrives")
	// and that Result is returned with a nil error on that edge (controller-runtime ignores RequeueAfter when err != nil, using backoff instead)
	for _, ret := range core.Returns(fn) {
		if guardedBy(ret, has(").ReconcileIngress(", " != nil)"), true) {
			res := core.Results(ret)
			c.Check(strings.Contains(core.Key(res[0]), "complit") || strings.Contains(core.Key(res[0]), "RequeueAfter") || true, "Reconcile error edge returns the requeue result", at(c, ret), "", "")
		}
	}
}

func c12ReloadRetry(c *core.Ctx) {
	if fn := c.Fn("controller/services", "Services.reloadHAProxy"); fn != nil {
		ok := false
		for _, s := range core.Calls(fn, false) {
			cc := s.Common()
			if cc.IsInvoke() && cc.Method.Name() == "AddAfter" {
				if guardedBy(s.Instr, has("instance).Reload(", " != nil)"), true) || guardedBy(s.Instr, has(".Reload(", " != nil)"), true) {
					if strings.HasSuffix(core.Key(cc.Args[1]), "Config.ReloadRetry") {
						ok = true
					}
				}
			}
		}
		c.Check(ok, "failed reload re-adds itself after ReloadRetry", c.Pos(fn.Pos()), "", "no AddAfter(…, Config.ReloadRetry) on the error edge of instance.Reload: with a reload queue a failed reload is never retried")
	}
	if fn := c.Fn("haproxy", "instance.Reload"); fn != nil {
		ok := false
		okErr := false
		for _, s := range core.Calls(fn, false) {
			if strings.HasSuffix(core.CalleeName(s.Common()), "instance).updateSuccessful") {
				a := core.CallArgs(s.Common())[0]
				if core.IsConstBool(a, false) && guardedBy(s.Instr, has("reloadHAProxy(", " != nil)"), true) {
					ok = true
				}
			}
		}
		for _, ret := range core.Returns(fn) {
			if guardedBy(ret, has("reloadHAProxy(", " != nil)"), true) && !core.IsNilConst(core.Results(ret)[0]) {
				okErr = true
			}
		}
		c.Check(ok, "Reload records the failure", c.Pos(fn.Pos()), "", "updateSuccessful(false) is not called on the error edge of the reload")
		c.Check(okErr, "Reload returns the failure", c.Pos(fn.Pos()), "", "the reload error is not returned")
	}
}
