package rules

import (
	"fmt"
	"go/types"
	"sort"
	"strings"

	"golang.org/x/tools/go/ssa"

	"hapverif/internal/core"
)

// ---------------------------------------------------------------------------------------------
// Skip tables: under which conditions a function, or one iteration of a loop, ends without doing
// the work its other paths do.
//
// A branch is a *skip* when one of its edges reaches the end of the iteration (the loop header) or a
// return without any effect — no store outside locals, no map update, no append, no call into the
// repository — while the other edge leads to such effects. `continue` and early `return` statements
// are skips; so is the implicit else of `if found { … }` at the end of a loop body. The set of skip
// conditions of a function is what decides which elements are processed: an added `if len(x) == 0 {
// continue }` or `if !changed { return }` type-checks, reads like an optimisation, keeps the tests
// green when no test has an element that takes the new edge, and silently drops that element.
// The table (rules/skips_gen.go) is generated from the reviewed tree; conditions are rendered with
// argText (name-independent).
// ---------------------------------------------------------------------------------------------

func isWork(in ssa.Instruction) bool {
	switch x := in.(type) {
	case *ssa.Store:
		a := x.Addr
		for {
			switch y := a.(type) {
			case *ssa.FieldAddr:
				a = y.X
				continue
			case *ssa.IndexAddr:
				a = y.X
				continue
			}
			break
		}
		if al, local := a.(*ssa.Alloc); local {
			// a local: struct literal under construction, varargs array of a log call — unless it is a named
			// variable that lives in memory because a closure captures it or its address is taken: an
			// assignment to it that disappears changes what the closure or the later code sees
			if isSourceVar(al) && (al.Heap && a == x.Addr || isStructVar(al)) {
				return true
			}
			return false
		}
		return true
	case *ssa.MapUpdate, *ssa.Send, *ssa.Go, *ssa.Defer, *ssa.Panic:
		return true
	case *ssa.Call:
		if b, ok := x.Call.Value.(*ssa.Builtin); ok {
			return b.Name() == "append" || b.Name() == "delete" || b.Name() == "copy" || b.Name() == "close"
		}
		if x.Call.IsInvoke() {
			t := x.Call.Value.Type().String()
			if isLoggerName(t) {
				return false
			}
			return true
		}
		cn := core.CalleeName(&x.Call)
		switch cn {
		case "time.Now", "time.Sleep", "time.After", "time.AfterFunc", "time.NewTimer", "time.NewTicker", "time.Tick", "time.Since", "time.Until",
			"(*time.Timer).Reset", "(*time.Timer).Stop", "(*time.Ticker).Reset", "(*time.Ticker).Stop":
			// reading the clock and arming timers are observations and effects: where they stand relative to a
			// lock or to the operation they time is behaviour (a deadline computed before waiting for a mutex is stale)
			return true
		}
		if isLoggerName(cn) || strings.HasPrefix(cn, "fmt.") || strings.HasPrefix(cn, "strings.") || strings.HasPrefix(cn, "strconv.") || strings.HasPrefix(cn, "(*k8s.io/klog") || strings.HasPrefix(cn, "k8s.io/klog") || strings.HasPrefix(cn, "(github.com/go-logr") || strings.HasPrefix(cn, "reflect.") || strings.HasPrefix(cn, "time.") || strings.HasPrefix(cn, "(time.") || strings.HasPrefix(cn, "errors.") || strings.HasPrefix(cn, "sort.Search") {
			return false
		}
		return true
	}
	return false
}

// isSourceVar: the Alloc is a variable of the source (go/ssa names those after the variable; the ones it
// makes up for literals and variadic calls have fixed comments).
func isSourceVar(al *ssa.Alloc) bool {
	switch al.Comment {
	case "", "varargs", "complit", "slicelit", "makeslice", "new", "selectstate", "typeassert,ok", "rangeindex", "rangeiter":
		return false
	}
	return !strings.Contains(al.Comment, ".") // "t0.f" style spills
}

// isStructVar: a named local (or named result) of struct type: it is assigned field by field or as a whole
// through memory, so no phi shows which assignment reaches a use.
func isStructVar(al *ssa.Alloc) bool {
	pt, ok := al.Type().Underlying().(*types.Pointer)
	if !ok {
		return false
	}
	_, isStruct := pt.Elem().Underlying().(*types.Struct)
	return isStruct
}

// SkipRows lists the skip conditions of fn.
func SkipRows(fn *ssa.Function) []string {
	if fn.Blocks == nil {
		return nil
	}
	loops := core.Loops(fn)
	innermost := func(b *ssa.BasicBlock) *core.Loop {
		var best *core.Loop
		for _, l := range loops {
			if l.Blocks[b] && (best == nil || len(l.Blocks) < len(best.Blocks)) {
				best = l
			}
		}
		return best
	}
	hasWork := map[*ssa.BasicBlock]bool{}
	for _, b := range fn.Blocks {
		for _, in := range b.Instrs {
			if isWork(in) {
				hasWork[b] = true
				break
			}
		}
	}
	// does any block reachable from s (not crossing `stop`) contain work? reaches: did we reach stop or a return
	explore := func(s, stop *ssa.BasicBlock, inLoop *core.Loop) (work bool, ends bool) {
		seen := map[*ssa.BasicBlock]bool{}
		stack := []*ssa.BasicBlock{s}
		for len(stack) > 0 {
			b := stack[len(stack)-1]
			stack = stack[:len(stack)-1]
			if b == stop {
				ends = true
				continue
			}
			if seen[b] {
				continue
			}
			seen[b] = true
			if hasWork[b] {
				work = true
			}
			if len(b.Succs) == 0 {
				if _, isRet := b.Instrs[len(b.Instrs)-1].(*ssa.Return); isRet {
					ends = true
				}
			}
			stack = append(stack, b.Succs...)
		}
		return
	}
	var out []string
	for _, b := range fn.Blocks {
		ifi, ok := b.Instrs[len(b.Instrs)-1].(*ssa.If)
		if !ok {
			continue
		}
		isHeader := false
		for _, l := range loops {
			if l.Header == b {
				isHeader = true
			}
		}
		if isHeader {
			continue
		}
		l := innermost(b)
		var stop *ssa.BasicBlock
		if l != nil {
			stop = l.Header
		}
		w0, e0 := explore(b.Succs[0], stop, l)
		w1, e1 := explore(b.Succs[1], stop, l)
		kind := "return"
		if l != nil {
			kind = "next"
		}
		switch {
		case !w0 && e0 && w1:
			out = append(out, kind+" when "+CondText(ifi.Cond, true))
		case !w1 && e1 && w0:
			out = append(out, kind+" when "+CondText(ifi.Cond, false))
		}
	}
	// locals that live in memory (structs, arrays, captured variables) and the loop depth they are declared at:
	// a declaration hoisted out of a loop keeps the value of the previous iteration
	for _, b := range fn.Blocks {
		for _, in := range b.Instrs {
			al, ok := in.(*ssa.Alloc)
			if !ok || al.Comment == "" || al.Comment == "varargs" || al.Comment == "complit" || al.Comment == "slicelit" || al.Comment == "makeslice" {
				continue
			}
			depth := 0
			for _, l := range loops {
				if l.Blocks[b] {
					depth++
				}
			}
			out = append(out, fmt.Sprintf("local %s declared at loop depth %d", shortType(al.Type().(*types.Pointer).Elem()), depth))
		}
	}
	// what flows into every join: each input of every phi (loop headers included) with the effect that
	// precedes the end of the block it arrives from. An assignment that disappears (`x = append(x, …)`
	// turned into `_ = append(x, …)`) changes the value that arrives, not the effects.
	{
		lastEffIn := map[*ssa.BasicBlock]string{}
		for _, b := range fn.Blocks {
			for _, in := range b.Instrs {
				if !isWork(in) {
					continue
				}
				if call, ok := in.(*ssa.Call); ok {
					if bi, isB := call.Call.Value.(*ssa.Builtin); isB {
						lastEffIn[b] = bi.Name()
					} else {
						lastEffIn[b] = shortCallee(&call.Call)
					}
				} else {
					lastEffIn[b] = strings.TrimPrefix(fmt.Sprintf("%T", in), "*ssa.")
				}
			}
		}
		seenJoin := map[string]bool{}
		for _, b := range fn.Blocks {
			for _, in := range b.Instrs {
				ph, ok := in.(*ssa.Phi)
				if !ok {
					break
				}
				for i, e := range ph.Edges {
					if _, nested := e.(*ssa.Phi); nested {
						continue
					}
					if _, isConst := e.(*ssa.Const); isConst {
						continue // constants carry no history; the branch rows list them
					}
					p := b.Preds[i]
					after := "entry"
					for x := p; x != nil; x = x.Idom() {
						if le, ok := lastEffIn[x]; ok {
							after = le
							break
						}
					}
					row := "joins: " + clip(argText(e), 120) + " after " + after
					if !seenJoin[row] {
						seenJoin[row] = true
						out = append(out, row)
					}
				}
			}
		}
	}
	// constants and arithmetic: the string and numeric constants the function uses (other than 0, 1, -1 and
	// text that only ends in a log line or an error message) and every arithmetic operation it performs
	{
		seenConst := map[string]int{}
		note := func(v ssa.Value, user ssa.Instruction) {
			cst, ok := v.(*ssa.Const)
			if !ok || cst.Value == nil {
				return
			}
			k := core.Key(cst)
			if k == "0" || k == "1" || k == "-1" || k == "true" || k == "false" || k == `""` || len(k) > 90 {
				return
			}
			if uv, isVal := user.(ssa.Value); isVal {
				if call, isCall := user.(*ssa.Call); isCall {
					cn := core.CalleeName(&call.Call)
					if call.Call.IsInvoke() {
						cn = call.Call.Value.Type().String()
					}
					if isLoggerName(cn) || cn == "fmt.Errorf" || cn == "errors.New" {
						return
					}
				}
				if _, isMI := user.(*ssa.MakeInterface); isMI && feedsOnlyMessages(uv, map[ssa.Value]bool{}) {
					return
				}
				if bo, isBin := user.(*ssa.BinOp); isBin && bo.Op.String() == "+" && feedsOnlyMessages(uv, map[ssa.Value]bool{}) {
					return
				}
			}
			seenConst[k]++
		}
		for _, b := range fn.Blocks {
			for _, in := range b.Instrs {
				var ops []*ssa.Value
				for _, op := range in.Operands(ops) {
					if op != nil && *op != nil {
						note(*op, in)
					}
				}
				if bo, ok := in.(*ssa.BinOp); ok {
					switch bo.Op.String() {
					case "*", "/", "%", "-", "<<", ">>", "&", "|", "^", "&^":
						out = append(out, "computes: "+clip(argText(bo), 160))
					case "+":
						if bt, isB := bo.Type().Underlying().(*types.Basic); isB && bt.Info()&types.IsNumeric != 0 {
							out = append(out, "computes: "+clip(argText(bo), 160))
						}
					}
				}
			}
		}
		for _, k := range sortedKeys(seenConst) {
			out = append(out, "uses constant "+k) // presence only: the number of SSA operands depends on block structure
		}
	}
	// what each edge of a branch leads to: the effects of the first block with any content on that edge
	// (blocks without effects and with one successor are skipped: block fusing decides whether they exist)
	// and how that block ends. A negated condition, or `&&` turned into `||`, swaps or merges the two sides.
	{
		isHdr := map[*ssa.BasicBlock]bool{}
		for _, l := range loops {
			isHdr[l.Header] = true
		}
		summary := func(from, start *ssa.BasicBlock) string {
			b := start
			prev := from
			phis := ""
			for hops := 0; hops < 6; hops++ {
				// values this edge contributes to the phis of the block it enters
				for i, p := range b.Preds {
					if p != prev {
						continue
					}
					var vs []string
					for _, in := range b.Instrs {
						ph, ok := in.(*ssa.Phi)
						if !ok {
							break
						}
						if inner, nested := ph.Edges[i].(*ssa.Phi); nested {
							if inner == ph {
								vs = append(vs, "unchanged")
							}
							continue
						}
						vs = append(vs, clip(argText(ph.Edges[i]), 50))
					}
					if len(vs) > 0 && phis == "" {
						sort.Strings(vs)
						phis = "φ=" + strings.Join(vs, ",") + " "
					}
					break
				}
				if isHdr[b] {
					return phis + "next"
				}
				var effs []string
				for _, in := range b.Instrs {
					if !isWork(in) {
						continue
					}
					switch x := in.(type) {
					case *ssa.Call:
						if bi, isB := x.Call.Value.(*ssa.Builtin); isB {
							effs = append(effs, bi.Name())
						} else {
							effs = append(effs, shortCallee(&x.Call))
						}
					case *ssa.Store:
						_, f := core.FieldOf(x.Addr)
						effs = append(effs, "."+f+"=")
					default:
						effs = append(effs, strings.TrimPrefix(fmt.Sprintf("%T", in), "*ssa."))
					}
				}
				end := ""
				switch t := b.Instrs[len(b.Instrs)-1].(type) {
				case *ssa.Return:
					end = "return"
				case *ssa.If:
					if isHdr[b] {
						end = "loop"
					} else {
						p, n := CondText(t.Cond, true), CondText(t.Cond, false)
						if n < p {
							p = n
						}
						end = "if " + clip(p, 60)
					}
				case *ssa.Panic:
					end = "panic"
				}
				if len(effs) > 0 || end != "" {
					if len(effs) > 4 {
						effs = append(effs[:4], "…")
					}
					return phis + strings.TrimSpace(strings.Join(effs, ",")+" "+end)
				}
				if len(b.Succs) != 1 {
					return phis + "?"
				}
				prev = b
				b = b.Succs[0]
			}
			return phis + "…"
		}
		// where a loop goes when it is exhausted (a `return` after the loop that disappears lets the code behind
		// the enclosing `if` run for the elements the loop was the whole treatment of)
		for _, l := range loops {
			for k, sx := range l.Header.Succs {
				if !l.Blocks[sx] {
					_ = k
					out = append(out, "loop exit: ["+summary(l.Header, sx)+"]")
				}
			}
		}
		for _, b := range fn.Blocks {
			ifi, ok := b.Instrs[len(b.Instrs)-1].(*ssa.If)
			if !ok || isHdr[b] {
				continue
			}
			out = append(out, "branch: "+clip(argText(ifi.Cond), 120)+" ? ["+summary(b, b.Succs[0])+"] : ["+summary(b, b.Succs[1])+"]")
		}
	}
	// every branch condition of the function, in a polarity-independent form (the smaller of the two
	// renderings): conditions that only select a value (no effect on either edge) are visible here
	for _, b := range fn.Blocks {
		ifi, ok := b.Instrs[len(b.Instrs)-1].(*ssa.If)
		if !ok {
			continue
		}
		p, n := CondText(ifi.Cond, true), CondText(ifi.Cond, false)
		if n < p {
			p = n
		}
		out = append(out, "cond: "+clip(p, 200))
	}
	// exact conditions (decision table of the function over its branch conditions, loops cut): under which
	// combination of conditions each return is taken and each block with effects runs. The innermost guard
	// of the rows below cannot tell `if open { if none { return A }; return B }` from
	// `if none { return A }; if open { return B }`.
	// (loop-free functions only: with back edges cut the table is an approximation that depends on block structure)
	if t := core.ExtractTable(fn); len(loops) == 0 && t.Err == "" && t.N() >= 1 && t.N() <= 16 {
		atomText := make([]string, t.N())
		for i := 0; i < t.N(); i++ {
			if v := t.AtomValue(i); v != nil {
				atomText[i] = clip(argText(v), 100)
			} else {
				atomText[i] = "?"
			}
		}
		sig := func(cond core.TT) string {
			var sup []int
			for i := 0; i < t.N(); i++ {
				if cond.DependsOn(i) {
					sup = append(sup, i)
				}
			}
			if len(sup) == 0 {
				if cond.IsTrue() {
					return "always"
				}
				if cond.IsFalse() {
					return "never"
				}
			}
			if len(sup) > 6 {
				return fmt.Sprintf("a function of %d conditions", len(sup))
			}
			sort.Slice(sup, func(a, b int) bool { return atomText[sup[a]] < atomText[sup[b]] })
			var names []string
			for _, i := range sup {
				names = append(names, atomText[i])
			}
			bits := make([]byte, 1<<uint(len(sup)))
			for r := range bits {
				full := 0
				for k, i := range sup {
					if r>>uint(k)&1 == 1 {
						full |= 1 << uint(i)
					}
				}
				if cond.Row(full) {
					bits[r] = '1'
				} else {
					bits[r] = '0'
				}
			}
			return "[" + strings.Join(names, " ; ") + "] = " + string(bits)
		}
		for _, b := range fn.Blocks {
			cond, ok := t.BlockCond(b)
			if !ok {
				continue
			}
			if r, isRet := b.Instrs[len(b.Instrs)-1].(*ssa.Return); isRet && fn.Signature.Results().Len() > 0 {
				var vs []string
				for _, v := range core.Results(r) {
					vs = append(vs, clip(argText(v), 120))
				}
				out = append(out, "decides: returns "+strings.Join(vs, ", ")+" iff "+sig(cond))
			}
			if !cond.IsTrue() {
				for _, in := range b.Instrs {
					if !isWork(in) {
						continue
					}
					name := ""
					switch x := in.(type) {
					case *ssa.Call:
						if bi, isB := x.Call.Value.(*ssa.Builtin); isB {
							name = "builtin " + bi.Name()
						} else {
							name = shortCallee(&x.Call)
						}
					case *ssa.Store:
						_, f := core.FieldOf(x.Addr)
						name = "store ." + f
					default:
						name = fmt.Sprintf("%T", in)
					}
					out = append(out, "decides: "+name+" runs iff "+sig(cond))
				}
			}
		}
		// which value a variable takes under which condition: every non-phi input of a phi outside loop
		// headers with the exact condition of the edge it arrives on (a set: how phis nest is decided by
		// block fusing, the condition of an assignment reaching its join is not)
		selSeen := map[string]bool{}
		for _, b := range fn.Blocks {
			isHeader := false
			for _, l := range loops {
				if l.Header == b {
					isHeader = true
				}
			}
			if isHeader {
				continue
			}
			for _, in := range b.Instrs {
				ph, ok := in.(*ssa.Phi)
				if !ok {
					break
				}
				texts := map[string]bool{}
				var rows []string
				for i, e := range ph.Edges {
					if _, nested := e.(*ssa.Phi); nested {
						texts["φ"] = true
						continue
					}
					ec, ok := t.EdgeCond(b.Preds[i], b)
					if !ok {
						continue
					}
					tx := clip(argText(e), 100)
					texts[tx] = true
					rows = append(rows, "selects: "+tx+" iff "+sig(ec))
				}
				if len(texts) >= 2 {
					for _, r := range rows {
						if !selSeen[r] {
							selSeen[r] = true
							out = append(out, r)
						}
					}
				}
			}
		}
	}
	// what the function returns, and when (comparators, predicates, error exits, looked-up values)
	if fn.Signature.Results().Len() > 0 {
		for _, r := range core.Returns(fn) {
			res := core.Results(r)
			if len(res) == 0 {
				continue
			}
			g := "always"
			if gs := core.ControllingEdges(r.Block()); len(gs) > 0 {
				g = CondText(gs[0].If.Cond, gs[0].Branch)
			}
			var vs []string
			for _, v := range res {
				vs = append(vs, clip(argText(v), 160))
			}
			out = append(out, "returns "+strings.Join(vs, ", ")+" when "+clip(g, 160))
		}
	}
	// order of the steps: every call into the repository is listed with the step that precedes it on the
	// dominator tree (the previous call of its block, else the last call of the nearest dominating block
	// that has one). Swapping the branches of an if/else leaves these rows alone; moving a call before or
	// behind another call, into or out of a loop or a branch, changes them.
	{
		type stp struct {
			name string
		}
		lastStep := map[*ssa.BasicBlock]string{}
		steps := map[*ssa.BasicBlock][]string{}
		total := 0
		for _, b := range fn.Blocks {
			for _, in := range b.Instrs {
				if !isWork(in) {
					continue
				}
				name := ""
				switch x := in.(type) {
				case *ssa.Call:
					if bi, isB := x.Call.Value.(*ssa.Builtin); isB {
						name = "builtin " + bi.Name()
					} else {
						name = shortCallee(&x.Call)
					}
				case *ssa.Store:
					_, f := core.FieldOf(x.Addr)
					if f == "" {
						f = "[]"
					}
					if al, isAl := x.Addr.(*ssa.Alloc); isAl {
						f = "<local " + shortType(al.Type().(*types.Pointer).Elem()) + ">"
					} else if fa, isFA := x.Addr.(*ssa.FieldAddr); isFA {
						if al, isAl := fa.X.(*ssa.Alloc); isAl {
							f = "<local " + shortType(al.Type().(*types.Pointer).Elem()) + ">." + f
						}
					}
					name = "store ." + f + " = " + clip(argText(x.Val), 140)
				case *ssa.MapUpdate:
					name = "map[" + clip(argText(x.Key), 60) + "] = " + clip(argText(x.Value), 100)
				case *ssa.Defer:
					name = "defer " + shortCallee(&x.Call)
				case *ssa.Go:
					name = "go " + shortCallee(&x.Call)
				case *ssa.Send:
					name = "send"
				case *ssa.Panic:
					name = "panic"
				}
				if name == "" {
					continue
				}
				steps[b] = append(steps[b], name)
				lastStep[b] = name
				total++
			}
		}
		if total >= 1 {
			for _, b := range fn.Blocks {
				prev := ""
				for k, name := range steps[b] {
					guard := ""
					if k == 0 {
						prev = "entry"
						for x := b.Idom(); x != nil; x = x.Idom() {
							if ls, ok := lastStep[x]; ok {
								prev = ls
								break
							}
						}
						if gs := core.ControllingEdges(b); len(gs) > 0 {
							guard = " if " + CondText(gs[0].If.Cond, gs[0].Branch)
						}
					}
					out = append(out, "step: "+name+" after "+prev+guard)
					prev = name
				}
			}
		}
	}
	// when a field is read relative to the effects of the function: for loads of a path whose root object is
	// also the receiver or an argument of a call of this function (which may change it), the effect that
	// precedes the load on the dominator tree. `n := len(x.items)` moved in front of the loop that appends to
	// x.items reads another number.
	{
		rootOfPath := func(v ssa.Value) ssa.Value {
			for i := 0; i < 10; i++ {
				switch y := v.(type) {
				case *ssa.FieldAddr:
					v = y.X
					continue
				case *ssa.IndexAddr:
					v = y.X
					continue
				case *ssa.UnOp:
					if y.Op.String() == "*" {
						v = y.X
						continue
					}
				}
				break
			}
			return v
		}
		touchedRoots := map[ssa.Value]bool{}
		lastEff := map[*ssa.BasicBlock]string{}
		type pos struct {
			b *ssa.BasicBlock
			i int
		}
		effAt := map[pos]string{}
		for _, b := range fn.Blocks {
			for i, in := range b.Instrs {
				if !isWork(in) {
					continue
				}
				name := ""
				if call, ok := in.(*ssa.Call); ok {
					if bi, isB := call.Call.Value.(*ssa.Builtin); isB {
						name = bi.Name()
					} else {
						name = shortCallee(&call.Call)
					}
					if call.Call.IsInvoke() {
						touchedRoots[rootOfPath(call.Call.Value)] = true
					}
					for _, a := range call.Call.Args {
						if _, isPtr := a.Type().Underlying().(*types.Pointer); isPtr {
							touchedRoots[rootOfPath(a)] = true
						}
					}
				} else {
					name = strings.TrimPrefix(fmt.Sprintf("%T", in), "*ssa.")
					if st, ok := in.(*ssa.Store); ok {
						touchedRoots[rootOfPath(st.Addr)] = true
					}
				}
				effAt[pos{b, i}] = name
				lastEff[b] = name
			}
		}
		seenRead := map[string]bool{}
		for _, b := range fn.Blocks {
			prev := ""
			for i, in := range b.Instrs {
				if e, ok := effAt[pos{b, i}]; ok {
					prev = e
					continue
				}
				ld, ok := in.(*ssa.UnOp)
				if !ok || ld.Op.String() != "*" {
					continue
				}
				if _, isField := ld.X.(*ssa.FieldAddr); !isField {
					continue
				}
				root := rootOfPath(ld.X)
				if _, isAlloc := root.(*ssa.Alloc); isAlloc || !touchedRoots[root] {
					continue
				}
				// the effects that may run before the load within the same iteration of the loops that contain it:
				// those earlier in its block and those of every block it is reachable from without a back edge
				set := map[string]bool{}
				for k := 0; k < i; k++ {
					if e, ok := effAt[pos{b, k}]; ok {
						set[e] = true
					}
				}
				seenB := map[*ssa.BasicBlock]bool{b: true}
				stack := []*ssa.BasicBlock{b}
				for len(stack) > 0 {
					x := stack[len(stack)-1]
					stack = stack[:len(stack)-1]
					for _, pr := range x.Preds {
						back := false
						for _, l := range loops {
							if l.Header == x && l.Blocks[pr] && l.Blocks[b] {
								back = true // a back edge of a loop the load is in: the previous iteration
							}
						}
						if back || seenB[pr] {
							continue
						}
						seenB[pr] = true
						for k := range pr.Instrs {
							if e, ok := effAt[pos{pr, k}]; ok {
								set[e] = true
							}
						}
						stack = append(stack, pr)
					}
				}
				_ = prev
				p := strings.Join(sortedKeys(set), ",")
				if p == "" {
					p = "nothing"
				}
				row := "reads " + clip(argText(ld), 100) + " after {" + clip(p, 160) + "}"
				if !seenRead[row] {
					seenRead[row] = true
					out = append(out, row)
				}
			}
		}
	}
	// cleanup coverage: returns that can be reached without having registered a defer
	for _, b := range fn.Blocks {
		for _, in := range b.Instrs {
			d, ok := in.(*ssa.Defer)
			if !ok {
				continue
			}
			for _, r := range core.Returns(fn) {
				if (core.PathQuery{Fn: fn, Target: func(x ssa.Instruction) bool { return x == ssa.Instruction(r) }, Barrier: func(x ssa.Instruction) bool { return x == ssa.Instruction(d) }}).Find() == nil {
					continue
				}
				g := "always"
				if gs := core.ControllingEdges(r.Block()); len(gs) > 0 {
					g = CondText(gs[0].If.Cond, gs[0].Branch)
				}
				out = append(out, "defer "+shortCallee(&d.Call)+" not registered at return when "+g)
			}
		}
	}
	// effects of every completed iteration: work that dominates every back edge of its loop
	for _, l := range loops {
		for _, b := range fn.Blocks {
			if !l.Blocks[b] || innermost(b) == nil || innermost(b).Header != l.Header {
				continue
			}
			dom := true
			for _, la := range l.Latch {
				if !b.Dominates(la) {
					dom = false
				}
			}
			if !dom {
				continue
			}
			for _, in := range b.Instrs {
				if !isWork(in) {
					continue
				}
				switch x := in.(type) {
				case *ssa.Store:
					_, f := core.FieldOf(x.Addr)
					if f == "" {
						f = "[]"
					}
					out = append(out, "every iteration: store ."+f+" = "+argText(x.Val))
				case *ssa.Call:
					if _, isB := x.Call.Value.(*ssa.Builtin); isB {
						continue
					}
					out = append(out, "every iteration: "+shortCallee(&x.Call)+"()")
				case *ssa.MapUpdate:
					out = append(out, "every iteration: map update")
				}
			}
		}
	}
	sort.Strings(out)
	return out
}

var skipScope = []string{"haproxy", "haproxy/types", "haproxy/template", "haproxy/socket", "converters", "converters/ingress", "converters/gateway", "converters/utils", "converters/configmap", "converters/ingress/annotations", "converters/tracker", "acme", "controller/services", "controller/reconciler", "controller/legacy", "utils/workqueue", "utils", "common/net/ssl", "controller/config", "controller/utils", "converters/ingress/utils", "converters/types", "converters/ingress/types", "common/ingress/controller", "types"}

// SkipsAll renders the skip table of the current tree (used by `hapverif genskips`).
var skipsCache = map[*core.Env]map[string][]string{}

func SkipsAll(env *core.Env) map[string][]string {
	if m, ok := skipsCache[env]; ok {
		return m
	}
	out := map[string][]string{}
	defer func() { skipsCache[env] = out }()
	for _, fn := range env.SrcFuncs() {
		in := false
		for _, p := range skipScope {
			if core.PkgOf(fn) == p {
				in = true
			}
		}
		if !in {
			continue
		}
		{
			rows := SkipRows(fn)
			root := fn
			for root.Parent() != nil {
				root = root.Parent()
			}
			if _, ok := out[core.FuncName(root)]; !ok {
				out[core.FuncName(root)] = []string{} // listed even without rows: a function that gains its first row is not a new function
			}
			pre := ""
			if root != fn {
				pre = "closure: " // closures are numbered in source order: their rows are filed under the enclosing function
			}
			for _, r := range rows {
				out[core.FuncName(root)] = append(out[core.FuncName(root)], pre+r)
			}
		}
	}
	for k := range out {
		sort.Strings(out[k])
	}
	return out
}

var _ = fmt.Sprintf

type skipGroup struct {
	suffix string
	props  []string
	pkgs   []string
	what   string
}

var skipGroups = []skipGroup{
	{"skips-model-files", []string{"C05"}, []string{"haproxy", "haproxy/types", "haproxy/template", "haproxy/socket"}, "the model containers, the dynamic updater and the writers of pkg/haproxy"},
	{"skips-model-types", []string{"C01", "C04", "C06", "C07", "C03"}, []string{"haproxy/types"}, "the model containers, map builders and comparators of pkg/haproxy/types (upstream of everything that is written)"},
	{"skips-converter", []string{"C01", "C03", "C06", "C07", "C08", "C11", "C15"}, []string{"converters", "converters/ingress", "converters/utils", "converters/configmap", "converters/tracker"}, "the Ingress converter, its helpers and the tracker"},
	{"skips-gateway", []string{"C10", "C16", "C03", "C01"}, []string{"converters/gateway"}, "the Gateway API converter"},
	{"skips-annotations", []string{"C18", "C19", "C16", "C09", "C15", "C03", "C11", "C02", "C07", "C01", "C17"}, []string{"converters/ingress/annotations"}, "the annotation updater"},
	{"skips-acme", []string{"C17"}, []string{"acme"}, "the acme signer and client"},
	{"skips-cache", []string{"C08", "C09", "C15", "C01", "C12", "C17", "C10", "C13"}, []string{"controller/services", "controller/legacy", "common/net/ssl"}, "the cache facades and the services of both runtimes"},
	{"skips-config", []string{"C08", "C09", "C13", "C19", "C12", "C17", "C03", "C02", "C11"}, []string{"controller/config", "controller/utils", "common/ingress/controller", "converters/types", "converters/ingress/types", "converters/ingress/utils", "types"}, "the command-line options and their translation into the options of the converters, the cache and the instance"},
	{"skips-events", []string{"C14"}, []string{"controller/reconciler"}, "the watchers and the reconciler"},
	{"skips-queue", []string{"C13", "C12"}, []string{"utils/workqueue", "utils"}, "the work queue and its rate limiters"},
}

var allProps = []string{"C01", "C02", "C03", "C04", "C05", "C06", "C07", "C08", "C09", "C10", "C11", "C12", "C13", "C14", "C15", "C16", "C17", "C18", "C19"}

func init() {
	for _, g := range skipGroups {
		g := g
		// every group is registered under every property: what is compared is decided by the anchored
		// scope (the functions the property's own rules are about and their callees), not by this list
		for _, p := range allProps {
			addRule(p, &core.Rule{ID: p + "." + g.suffix, Floor: 1, Late: true, Run: func(c *core.Ctx) { skipTableRule(c, g) },
				Doc: "Structure table of " + g.what + ": for every function in the anchored scope of this property (the functions its other rules touch and what they call, two levels deep), the rows computed from the SSA of the current tree equal the rows generated from the reviewed tree (rules/skips_gen.go). Row kinds: skip conditions (an edge that ends the function or the loop iteration without any effect while the other edge has effects); returns that precede the registration of a `defer`; effects every completed loop iteration performs; every effect (call, non-local store with the value stored, map update, append, defer, go, send, assignment to a captured variable) with its innermost guard and its predecessor on the dominator tree; what each edge of every branch leads to and which values it contributes to the join; where each loop goes when exhausted; what the function returns under which innermost guard; for loop-free functions with at most 16 conditions the exact condition (decision table) of every return, effect and phi input; every branch condition; the constants used (message text excluded) and every arithmetic operation; the loop depth at which memory-resident locals are declared. All renderings are independent of local names, log lines, if/else orientation, guard-clause style and temporary variables (checked by seven whole-tree transformations)."})
		}
	}
}

func skipTableRule(c *core.Ctx, g skipGroup) {
	got := SkipsAll(c.Env)
	inGroup := func(fnName string) bool {
		for _, p := range g.pkgs {
			if strings.HasPrefix(fnName, "(*"+p+".") || strings.HasPrefix(fnName, "("+p+".") || strings.HasPrefix(fnName, p+".") {
				return true
			}
		}
		return false
	}
	byName := map[string]*ssa.Function{}
	for _, f := range c.SrcFuncs() {
		byName[core.FuncName(f)] = f
	}
	// Under the properties the group is registered for, every function of its packages is compared. Under a
	// property that only inherits the rule from an upstream layer, the comparison is limited to the functions
	// that property's own (hand-written) rules anchor: the code that implements it.
	home := false
	for _, p := range g.props {
		if strings.HasPrefix(c.RuleID(), p+".") {
			home = true
		}
	}
	n := 0
	names := map[string]bool{}
	for k := range skipGenTable {
		names[k] = true
	}
	for k := range got {
		names[k] = true
	}
	for _, fnName := range sortedKeys(names) {
		if !inGroup(fnName) {
			continue
		}
		if !c.Anchored(fnName) {
			continue
		}
		want, listed := skipGenTable[fnName]
		recvNote := ""
		if !listed {
			// a method whose receiver changed between pointer and value keeps its callers' rows, but what it
			// stores into the receiver now lands in a copy: compared with the rows reviewed under the other name
			if alt := altRecvName(fnName); alt != "" && byName[alt] == nil {
				if w2, ok := skipGenTable[alt]; ok {
					want, listed = w2, true
					recvNote = " (reviewed as " + alt + ": the receiver kind changed)"
				}
			}
		}
		if !listed {
			continue // a function the reviewed tree did not have: it changes behaviour only through a caller, whose rows change
		}
		have := got[fnName]
		fn := byName[fnName]
		if recvNote != "" && fn != nil {
			// only what the method does to its receiver depends on the receiver kind
			c.Touch(fn)
			n++
			c.Check(!touchesReceiver(fn), fnName+recvNote+": the method does not modify its receiver", c.Pos(fn.Pos()), "no store into the receiver and no call that takes its address",
				"the method stores into its receiver (or hands its address to a call) and the receiver changed between pointer and value: with a value receiver the modification is made on a copy and lost, with a pointer receiver it becomes visible to the caller")
			continue
		}
		site := ""
		if fn != nil {
			c.Touch(fn)
			site = c.Pos(fn.Pos())
		}
		if listed && fn == nil {
			c.MissingAnchor("function " + fnName + " of the skip table")
			continue
		}
		n++
		cnt := map[string]int{}
		for _, r := range want {
			cnt[r]++
		}
		for _, r := range have {
			cnt[r]--
		}
		var missing, extra []string
		for _, r := range sortedKeys(cnt) {
			for i := 0; i < cnt[r]; i++ {
				missing = append(missing, r)
			}
			for i := 0; i < -cnt[r]; i++ {
				extra = append(extra, r)
			}
		}
		c.Check(len(missing) == 0 && len(extra) == 0, fnName+recvNote+": skips, cleanups and per-iteration effects are the reviewed ones", site, fmt.Sprintf("%d rows", len(want)),
			"rows that disappeared: ["+clip(strings.Join(missing, " ; "), 500)+"]; new rows: ["+clip(strings.Join(extra, " ; "), 500)+"] — an element, an iteration or an exit now bypasses (or no longer bypasses) the work of the function")
	}
	_ = home
	c.Held("functions compared with the skip table ("+g.suffix+")", "", fmt.Sprintf("%d functions", n))
}


// ---------------------------------------------------------------------------------------------
// Reviewed anchors: functions that implement a property although no hand-written rule of it needs to
// look inside them. Touching them puts them (and what they call) into the scope of the tables.
// ---------------------------------------------------------------------------------------------

// an entry whose function name starts with "+" is anchored together with what it calls (small model and queue
// functions); the others are anchored alone (functions that wire everything together)
var anchorTable = map[string][][2]string{
	"C08": {{"controller/config", "CreateWithConfig"}, {"controller/config", "Options.AddFlags"}, {"controller/services", "createCacheFacade"}, {"controller/legacy", "createCache"}, {"converters/tracker", "NewTracker"}},
	"C09": {{"controller/config", "CreateWithConfig"}, {"controller/config", "Options.AddFlags"}, {"controller/services", "createCacheFacade"}, {"controller/legacy", "createCache"}},
	"C12": {{"haproxy", "+instance.startHAProxySync"}, {"haproxy", "instance.Shutdown"}, {"controller/legacy", "HAProxyController.startServices"}, {"controller/config", "CreateWithConfig"}, {"controller/config", "Options.AddFlags"}, {"controller/services", "Services.withManager"}, {"utils/workqueue", "+WorkQueue.Start"}, {"haproxy/socket", "+buildProcTable"}, {"haproxy/socket", "+buildProcTable24"}, {"haproxy", "CreateInstance"}, {"haproxy", "newConnections"}, {"haproxy/socket", "+tokenizer.readField"}},
	"C14": {{"controller/legacy", "+listers.RunAsync"}, {"controller/legacy", "+listers.createConfigMapLister"}, {"controller/legacy", "+listers.createEndpointLister"}, {"controller/legacy", "+listers.createEndpointSliceLister"}, {"controller/legacy", "+listers.createGatewayClassLister"}, {"controller/legacy", "+listers.createGatewayLister"}, {"controller/legacy", "+listers.createHTTPRouteLister"}, {"controller/legacy", "+listers.createIngressClassLister"}, {"controller/legacy", "+listers.createIngressLister"}, {"controller/legacy", "+listers.createPodLister"}, {"controller/legacy", "+listers.createSecretLister"}, {"controller/legacy", "+listers.createServiceLister"}, {"controller/legacy", "+k8scache.Notify"}, {"controller/legacy", "+k8scache.SwapChangedObjects"}, {"controller/legacy", "createListers"}, {"controller/legacy", "k8scache.RunAsync"}, {"controller/reconciler", "watchers.getHandlers"}, {"controller/reconciler", "hdlr.getSource"}, {"controller/reconciler", "createWatchers"}, {"controller/reconciler", "IngressReconciler.SetupWithManager"}, {"controller/reconciler", "+hdlr.Generic"}, {"controller/reconciler", "+hdlr.Create"}, {"controller/reconciler", "+hdlr.Update"}, {"controller/reconciler", "+hdlr.Delete"}},
	"C13": {{"controller/config", "CreateWithConfig"}, {"controller/config", "Options.AddFlags"}, {"utils/workqueue", "New"}, {"controller/services", "Services.withManager"},
		{"controller/legacy", "HAProxyController.startServices"}, {"controller/legacy", "HAProxyController.Start"}, {"utils", "+queue.RunWithContext"}, {"utils", "queue.Run"}, {"utils", "queue.Start"}, {"utils", "queue.Clear"}, {"utils", "+queue.Add"}, {"utils", "+queue.AddAfter"}, {"utils", "+queue.Notify"}, {"utils", "+queue.Remove"}, {"utils", "+NewRateLimitingQueue"}, {"utils", "+NewFailureRateLimitingQueue"}, {"utils", "+NewQueue"}, {"utils/workqueue", "+WorkQueue.Start"}, {"utils/workqueue", "WorkQueue.AddAfter"}, {"utils/workqueue", "WorkQueue.Remove"}, {"controller/services", "+svcLeader.onStartedLeading"}, {"controller/services", "+svcLeader.onStoppedLeading"}, {"controller/services", "svcLeader.addRunnable"}, {"controller/services", "svcLeader.Start"}, {"utils/workqueue", "ingressReconciler.Forget"}, {"utils/workqueue", "ingressReconciler.NumRequeues"}, {"utils/workqueue", "reloadHAProxy.Forget"}, {"utils/workqueue", "reloadHAProxy.NumRequeues"}},
	"C17": {{"controller/config", "CreateWithConfig"}, {"controller/config", "Options.AddFlags"}, {"controller/services", "Services.withManager"}, {"utils/workqueue", "+WorkQueue.Start"}, {"utils/workqueue", "WorkQueue.AddAfter"}, {"utils/workqueue", "WorkQueue.Remove"}, {"controller/services", "+svcLeader.onStartedLeading"}, {"controller/services", "+svcLeader.onStoppedLeading"}, {"controller/services", "svcLeader.addRunnable"}, {"controller/services", "svcLeader.Start"}, {"utils/workqueue", "ExponentialFailureRateLimiter"}, {"controller/services", "+svcAcmeClient.Start"}, {"controller/services", "+Services.acmeCheck"}, {"controller/services", "initSvcAcmeClient"}, {"controller/services", "initSvcLeader"}, {"acme", "NewSigner"}, {"acme", "NewClient"}},
	"C19": {{"controller/config", "CreateWithConfig"}, {"controller/config", "Options.AddFlags"}},
	"C02": {{"haproxy", "CreateInstance"}, {"haproxy", "newConnections"}, {"controller/config", "CreateWithConfig"}, {"controller/config", "Options.AddFlags"}, {"controller/services", "Services.withManager"}},
	"C05": {{"controller/config", "CreateWithConfig"}, {"controller/config", "Options.AddFlags"}, {"controller/services", "Services.withManager"}},
	"C01": {{"controller/legacy", "HAProxyController.syncIngress"}, {"controller/services", "createCacheFacade"}, {"controller/legacy", "createCache"}, {"converters/tracker", "NewTracker"}},
	"C15": {{"controller/services", "createCacheFacade"}, {"controller/legacy", "createCache"}, {"controller/services", "+SSL.createFakeCertAndCA"}},
	"C03": {{"controller/config", "CreateWithConfig"}},
	"C11": {{"controller/config", "CreateWithConfig"}, {"converters/ingress/annotations", "updater.buildBackendDynamic"}},
	"C07": {{"converters/ingress/annotations", "updater.buildGlobalPathTypeOrder"}},
	"C04": {{"converters/ingress/annotations", "updater.buildGlobalPathTypeOrder"}, {"converters/ingress", "converter.addHeaderMatch"}, {"haproxy/types", "+PathLink.AddHeadersMatch"}, {"haproxy/types", "+PathLink.WithHeadersMatch"}, {"haproxy/types", "+PathLink.WithHostname"}, {"haproxy/types", "+CreatePathLink"}, {"haproxy/types", "+CreateHostPathLink"}, {"haproxy/types", "+PathLink.Equals"}, {"haproxy/types", "+PathLink.Key"}},
	"C10": {{"controller/config", "CreateWithConfig"}, {"controller/reconciler", "watchers.getHandlers"}},
}

// touchesReceiver: fn (a method) stores into a field of its receiver, or passes the address of its
// receiver (of the local copy, for a value receiver) to a call.
func touchesReceiver(fn *ssa.Function) bool {
	if len(fn.Params) == 0 || fn.Signature.Recv() == nil {
		return false
	}
	recv := fn.Params[0]
	roots := map[ssa.Value]bool{recv: true}
	for _, b := range fn.Blocks {
		for _, in := range b.Instrs {
			if st, ok := in.(*ssa.Store); ok && st.Val == ssa.Value(recv) {
				roots[st.Addr] = true // the spilled copy of a value receiver
			}
		}
	}
	rooted := func(v ssa.Value) bool {
		for i := 0; i < 6; i++ {
			if roots[v] {
				return true
			}
			switch x := v.(type) {
			case *ssa.FieldAddr:
				v = x.X
			case *ssa.IndexAddr:
				v = x.X
			default:
				return false
			}
		}
		return false
	}
	for _, b := range fn.Blocks {
		for _, in := range b.Instrs {
			switch x := in.(type) {
			case *ssa.Store:
				if _, isFA := x.Addr.(*ssa.FieldAddr); isFA && rooted(x.Addr) {
					return true
				}
			case ssa.CallInstruction:
				for _, a := range x.Common().Args {
					if _, isPtr := a.Type().Underlying().(*types.Pointer); isPtr && rooted(a) {
						return true
					}
				}
			}
		}
	}
	return false
}

// altRecvName maps "(*pkg.T).m" to "(pkg.T).m" and back ("" for functions).
func altRecvName(name string) string {
	if strings.HasPrefix(name, "(*") {
		return "(" + name[2:]
	}
	if strings.HasPrefix(name, "(") {
		return "(*" + name[1:]
	}
	return ""
}

func init() {
	// the anchors of a layer's home property are anchors of the properties downstream of the layer
	// (zzz_shared.go: an event that reaches no batch, a file that is not rewritten …)
	own := map[string][][2]string{} // one level: what a home property got from its own upstream is not passed on
	for p, as := range anchorTable {
		own[p] = append([][2]string(nil), as...)
	}
	for _, ls := range layerShares {
		for _, to := range ls.to {
			for _, a := range own[ls.from] {
				if a[0] == "controller/config" || a[1] == "Services.withManager" {
					continue // functions that wire everything: compared where a property names them itself
				}
				dup := false
				for _, b := range anchorTable[to] {
					dup = dup || (b[0] == a[0] && strings.TrimPrefix(b[1], "+") == strings.TrimPrefix(a[1], "+"))
				}
				if !dup {
					anchorTable[to] = append(anchorTable[to], a)
				}
			}
		}
	}
	for _, p := range sortedKeys(anchorTable) {
		p := p
		addRule(p, &core.Rule{ID: p + ".anchors", Floor: 1, Run: func(c *core.Ctx) {
			for _, a := range anchorTable[p] {
				name, deep := a[1], false
				if strings.HasPrefix(name, "+") {
					name, deep = name[1:], true
				}
				if fn := c.Env.Func(a[0], name); fn != nil && fn.Blocks != nil {
					if deep {
						c.Touch(fn)
						c.Held("anchor "+a[0]+"."+name, c.Pos(fn.Pos()), "in the scope of the generated tables of this property, with what it calls")
					} else {
						c.TouchLeaf(fn)
						c.Held("anchor "+a[0]+"."+name, c.Pos(fn.Pos()), "in the scope of the generated tables of this property (the function itself, not what it calls)")
					}
				} else {
					c.MissingAnchor(a[0] + "." + name)
				}
			}
		}, Doc: "Reviewed anchors: functions that implement this property although no other rule of it looks inside them — the binding of the command-line options (Options.AddFlags) and their translation into the configuration of the cache, the converters and the instance (CreateWithConfig), the construction of the work queue, the slot configuration of a backend, the header filter of a path link. Listing them here puts the functions themselves (not what they call) into the scope of the generated tables."})
	}
}
