package rules

import (
	"fmt"
	"sort"
	"strings"

	"golang.org/x/tools/go/ssa"

	"hapverif/internal/core"
)

func init() {
	register(&core.Property{
		ID:          "C02",
		Title:       "Running HAProxy never diverges from the on-disk config after runtime updates",
		Explanation: "Static decision of the conditions under which `no reload` may be concluded: (1) every section of the model held by haproxy.config is compared before the updater reports success; (2) the compare-by-copy sites mask exactly the fields that runtime commands can express (a masked rendered field would change on disk and never in the process); (3) every socket exchange is validated: the error of execCommand and every response line gate the `true` result, and no caller discards an exec/check result; (4) every command sent is counted and files are rewritten iff the update failed or commands were sent; (5) a failed dynamic update always reloads, after padding slots; (6) slots are only filled after the capacity check; an old slot is treated as free only when it is not enabled; the runtime socket is opened per command batch; (7) the model is only touched under the services' model mutex.",
		NotDecided: []string{
			"replaying the commands on HAProxy and comparing with the rendered file",
			"server slot arithmetic (how many slots, which names)",
		},
		Assumptions: []string{"HAProxy runtime API answers as documented for `set server` and `commit ssl cert`"},
		Rules: []*core.Rule{
			{ID: "C02.sections-diffed", Floor: 8, Run: c02Sections,
				Doc: "Every field of haproxy.config other than options/acmeData/globalOld is read on the path checkConfigChange -> frontendUpdated/backendUpdated."},
			{ID: "C02.masks", Floor: 4, Run: c02Masks,
				Doc: "Frozen table (behavioural): fields overwritten on the copy before reflect.DeepEqual are exactly Host{TLS.TLSCommonName,TLS.TLSHash,TLS.TLSNotAfter}, Backend{ID,Dynamic,Endpoints}, Endpoint{SourceIP}, backendsMatch{PathsMap,pathConfig,Endpoints}."},
			{ID: "C02.responses", Floor: 10, Run: c02Responses,
				Doc: "exec{Disable,Enable}Endpoint/execUpdateCert return true only past the nil-error edge of execCommand and after every response was accepted by cmdResponseOK; cmdResponseOK accepts exactly the documented answers; every caller uses the boolean result."},
			{ID: "C02.counted", Floor: 2, Run: c02Counted,
				Doc: "The updater's socket is used only in execCommand, which adds len(cmd) to cmdCnt on all paths."},
			{ID: "C02.write-iff", Floor: 2, Run: c02WriteIff,
				Doc: "HAProxyUpdate calls writeConfig iff !updated || cmdCnt > 0, after update()."},
			{ID: "C02.update-table", Floor: 2, Run: c02UpdateTable,
				Doc: "dynUpdater.update returns hasCommittedData() && checkConfigChange() and calls alignSlots iff that is false; checkConfigChange returns true iff no section differs."},
			{ID: "C02.reload-on-miss", Floor: 1, Run: c12ReloadOnMiss,
				Doc: "Every path on which the dynamic update failed and that returns nil passes ReloadQueue.Add or Reload."},
			{ID: "C02.slots-guard", Floor: 3, Run: c02SlotsGuard,
				Doc: "checkBackendPair: the `more endpoints than slots` test returns false before any endpoint is enabled; an old slot counts as free only when !Enabled; the runtime socket is not kept alive across batches."},
			{ID: "C02.model-lock", Floor: 3, Run: c02ModelLock,
				Doc: "instance.HAProxyUpdate/Reload/AcmeCheck/AcmeUpdate are called from the services only with modelMutex held."},
		},
	})
}

func c02Sections(c *core.Ctx) {
	nt := c.NamedType("haproxy", "config")
	if nt == nil {
		c.MissingAnchor("haproxy.config")
		return
	}
	read := map[string]bool{}
	for _, n := range []string{"dynUpdater.checkConfigChange", "dynUpdater.frontendUpdated", "dynUpdater.backendUpdated"} {
		fn := c.Fn("haproxy", n)
		if fn == nil {
			continue
		}
		for _, b := range fn.Blocks {
			for _, in := range b.Instrs {
				if fa, ok := in.(*ssa.FieldAddr); ok {
					if o, f := core.FieldOf(fa); strings.HasSuffix(o, "haproxy.config") {
						read[f] = true
					}
				}
			}
		}
	}
	exempt := map[string]string{"options": "writer options, not model", "acmeData": "acme queue, not rendered", "globalOld": "the committed copy global is compared against"}
	st := structOf(nt)
	for i := 0; i < st.NumFields(); i++ {
		f := st.Field(i).Name()
		if why, ok := exempt[f]; ok {
			c.Held("config."+f, "", "exempt: "+why)
			continue
		}
		c.Check(read[f], "config."+f+" is compared", "", "read by the change check", "section config."+f+" is never compared by checkConfigChange: a change there is written to disk (or not) but never reloads HAProxy")
	}
	// each difference leads to `false`: checkConfigChange returns false iff len(diff) > 0, and every section test appends to diff
	if fn := c.Fn("haproxy", "dynUpdater.checkConfigChange"); fn != nil {
		t := core.ExtractTable(fn)
		if t.Err != "" {
			c.Undecided("checkConfigChange table", c.Pos(fn.Pos()), t.Err)
			return
		}
		m := matchers{
			"global":   has("reflect.DeepEqual(", "globalOld"),
			"hasOld":   has("globalOld != nil"),
			"tcpback":  has("TCPBackends).Changed("),
			"tcpsvc":   has("TCPServices).Changed("),
			"frontend": has("Frontend).Changed("),
			"users":    has("Userlists).Changed("),
			"hosts":    has("frontendUpdated("),
			"backs":    has("backendUpdated("),
		}
		b, err := t.Bind(m)
		if err != nil {
			c.Undecided("checkConfigChange table", c.Pos(fn.Pos()), err.Error())
			return
		}
		res, _ := t.BoolResult(0)
		// the final test is len(diff) > 0 where diff is a phi chain of appends: go/ssa models it as an atom; so
		// instead require: on every row where some section differs, the block that appends is executed; here we
		// check the weaker but exact structural fact that the result depends on no atom but len(diff) and that
		// each section test guards an append to diff.
		_ = res
		_ = b
		nApp := 0
		seenSec := map[string]bool{}
		for _, bb := range fn.Blocks {
			for _, in := range bb.Instrs {
				call, ok := in.(*ssa.Call)
				if !ok || core.CalleeName(&call.Call) != "builtin:append" {
					continue
				}
				gs := guardsOf(call)
				if len(gs) == 0 {
					continue
				}
				nApp++
				// which section test guards it (innermost guard), and with which polarity
				sec := ""
				for _, n := range sortedKeys(m) {
					if m[n](core.StripVersion(gs[0].Key)) {
						sec = n
					}
				}
				if sec == "" {
					c.Violated("checkConfigChange section test", at(c, call), "a difference is recorded under `"+gs[0].Key+"`, which is none of the reviewed section tests")
					continue
				}
				seenSec[sec] = true
				wantBranch := map[string]bool{"global": false, "tcpback": true, "tcpsvc": true, "frontend": true, "users": true, "hosts": false, "backs": false}[sec]
				c.Check(gs[0].Branch == wantBranch, "checkConfigChange records a difference of section "+sec+" with the right polarity", at(c, call), "", "the difference is recorded on the wrong branch of the section test: a changed section does not reload and an unchanged one does")
				if sec == "global" {
					c.Check(guardedBy(call, m["hasOld"], true), "checkConfigChange compares globals only with a committed copy", at(c, call), "", "missing globalOld != nil guard")
				}
				// the result must become the new diff
				used := false
				for _, r := range *call.Referrers() {
					switch x := r.(type) {
					case *ssa.Phi:
						used = true // the appended list flows on as the (renamed or not) accumulator
					case *ssa.Call:
						used = used || core.CalleeName(&x.Call) == "builtin:len" || core.CalleeName(&x.Call) == "builtin:append"
					}
				}
				c.Check(used, "checkConfigChange keeps the recorded difference of section "+sec, at(c, call), "", "the result of append is discarded: the section's difference never reaches the final test")
			}
		}
		for _, sec := range []string{"global", "tcpback", "tcpsvc", "frontend", "users", "hosts", "backs"} {
			c.Check(seenSec[sec], "checkConfigChange tests section "+sec, c.Pos(fn.Pos()), "", "no recorded difference guarded by the test of this section")
		}
		okTrue := false
		for _, ret := range core.Returns(fn) {
			if core.IsConstBool(core.Results(ret)[0], true) && guardedBy(ret, has("builtin:len(", "> 0)"), false) {
				okTrue = true
			} else if !core.IsConstBool(core.Results(ret)[0], false) {
				c.Violated("checkConfigChange verdict", at(c, ret), "returns `"+core.Key(core.Results(ret)[0])+"`: the verdict is not the constant decided by len(diff) > 0")
			}
		}
		c.Check(okTrue, "checkConfigChange returns true only when nothing differs", c.Pos(fn.Pos()), "", "no `return true` on the false branch of len(diff) > 0")
		c.Check(nApp >= 7, "checkConfigChange records every differing section", c.Pos(fn.Pos()), fmt.Sprintf("%d guarded appends to diff", nApp), fmt.Sprintf("only %d section tests record a difference", nApp))
		// returns false iff len(diff) > 0
		okRet := false
		for _, ret := range core.Returns(fn) {
			if core.IsConstBool(core.Results(ret)[0], false) && guardedBy(ret, has("builtin:len(", "> 0)"), true) {
				okRet = true
			}
		}
		c.Check(okRet, "checkConfigChange returns false when a section differs", c.Pos(fn.Pos()), "", "no `return false` under len(diff) > 0")
	}
}

func c02Masks(c *core.Ctx) {
	type site struct {
		pkg, fn string
		want    []string
	}
	for _, s := range []site{
		{"haproxy", "dynUpdater.checkHostPair", []string{"TLS.TLSConfig.TLSCommonName", "TLS.TLSConfig.TLSHash", "TLS.TLSConfig.TLSNotAfter"}},
		{"haproxy", "dynUpdater.checkBackendPair", []string{"Dynamic", "Endpoints", "ID"}},
		{"haproxy", "dynUpdater.checkEndpointPair", []string{"SourceIP"}},
		{"haproxy/types", "backendsMatch", []string{"Endpoints", "PathsMap", "pathConfig"}},
	} {
		fn := c.Fn(s.pkg, s.fn)
		if fn == nil {
			continue
		}
		// local copies: Allocs that are initialised by a whole-struct store and later passed to DeepEqual
		got := map[string]bool{}
		for _, b := range fn.Blocks {
			for _, in := range b.Instrs {
				st, ok := in.(*ssa.Store)
				if !ok {
					continue
				}
				path := ""
				v := st.Addr
				for {
					fa, ok := v.(*ssa.FieldAddr)
					if !ok {
						break
					}
					_, f := core.FieldOf(fa)
					if path == "" {
						path = f
					} else {
						path = f + "." + path
					}
					v = fa.X
				}
				if al, ok := v.(*ssa.Alloc); ok && path != "" && (al == deepEqualCopy(fn) || strings.Contains(strings.ToLower(al.Comment), "copy")) {
					got[path] = true
				}
			}
		}
		var gl []string
		for k := range got {
			gl = append(gl, k)
		}
		sort.Strings(gl)
		want := append([]string(nil), s.want...)
		sort.Strings(want)
		c.Check(strings.Join(gl, ",") == strings.Join(want, ","), s.fn+" mask set", c.Pos(fn.Pos()), "masked fields: "+strings.Join(gl, ","),
			"masked fields are {"+strings.Join(gl, ",")+"}, expected {"+strings.Join(want, ",")+"}: a field that is rendered in the configuration but masked here changes on disk without a reload (or an unmasked runtime-updatable field forces needless reloads)")
	}
}

func c02Responses(c *core.Ctx) {
	for _, n := range []string{"dynUpdater.execDisableEndpoint", "dynUpdater.execEnableEndpoint", "dynUpdater.execUpdateCert"} {
		fn := c.Fn("haproxy", n)
		if fn == nil {
			continue
		}
		nTrue := 0
		for _, ret := range core.Returns(fn) {
			if !core.IsConstBool(core.Results(ret)[0], true) {
				continue
			}
			nTrue++
			// past the nil-error edge of execCommand
			w := core.PathQuery{Fn: fn, Target: func(in ssa.Instruction) bool { return in == ssa.Instruction(ret) }, EdgeOK: func(from *ssa.BasicBlock, succ int) bool {
				if ifi, ok := from.Instrs[len(from.Instrs)-1].(*ssa.If); ok {
					k := core.Key(ifi.Cond)
					if strings.Contains(k, "execCommand(") && strings.HasSuffix(k, "#1 != nil)") {
						return succ == 0 // forbid the nil-error edge
					}
				}
				return true
			}}.Find()
			c.Check(w == nil, n+" success requires a nil socket error", at(c, ret), "", "`true` is returned on a path that does not pass the nil-error edge of execCommand: a failed socket write counts as applied")
			// and past a cmdResponseOK acceptance: no path to `return true` that takes the !OK edge... the rejecting edge returns false
		}
		if nTrue == 0 {
			c.Violated(n+" returns true", c.Pos(fn.Pos()), "no success return")
		}
		// every cmdResponseOK rejection returns false
		nOK := 0
		for _, s := range core.Calls(fn, false) {
			if !strings.HasSuffix(core.CalleeName(s.Common()), ".cmdResponseOK") {
				continue
			}
			nOK++
			call := s.Instr.(*ssa.Call)
			// find the If on it
			var ifi *ssa.If
			neg := false
			for _, r := range *call.Referrers() {
				switch x := r.(type) {
				case *ssa.If:
					ifi = x
				case *ssa.UnOp:
					for _, r2 := range *x.Referrers() {
						if i2, ok := r2.(*ssa.If); ok {
							ifi = i2
							neg = true
						}
					}
				}
			}
			if ifi == nil {
				c.Violated(n+" checks the response", at(c, call), "result of cmdResponseOK does not feed a branch")
				continue
			}
			rejectSucc := 1
			if neg {
				rejectSucc = 0
			}
			rb := ifi.Block().Succs[rejectSucc]
			// from the rejecting edge no `return true` is reachable before a `return false`
			w := core.PathQuery{Fn: fn, Start: rb.Instrs[0], Target: func(in ssa.Instruction) bool {
				r, ok := in.(*ssa.Return)
				return ok && core.IsConstBool(core.Results(r)[0], true)
			}, Barrier: func(in ssa.Instruction) bool {
				r, ok := in.(*ssa.Return)
				return ok && core.IsConstBool(core.Results(r)[0], false)
			}}.Find()
			firstIsFalse := false
			if r, ok := rb.Instrs[len(rb.Instrs)-1].(*ssa.Return); ok && core.IsConstBool(core.Results(r)[0], false) {
				firstIsFalse = true
			}
			c.Check(w == nil && firstIsFalse, n+" rejects an unexpected response", at(c, call), "the rejecting edge returns false", "an answer not accepted by cmdResponseOK does not make the function return false")
		}
		c.Check(nOK > 0, n+" validates responses", c.Pos(fn.Pos()), "", "no cmdResponseOK call: answers from HAProxy are not validated")
	}
	// cmdResponseOK table
	if fn := c.Fn("haproxy", "cmdResponseOK"); fn != nil {
		t := core.ExtractTable(fn)
		b, err := t.Bind(matchers{
			"setsrv":  has(`(cmd == "set server")`),
			"commit":  has(`(cmd == "commit ssl cert")`),
			"empty":   has(`(response == "")`),
			"ipchg":   has(`strings.HasPrefix(response, "IP changed from ")`),
			"noneed":  has(`strings.HasPrefix(response, "no need to change ")`),
			"success": has(`strings.Contains(response, "Success")`),
		})
		if t.Err != "" || err != nil {
			c.Undecided("cmdResponseOK table", c.Pos(fn.Pos()), fmt.Sprint(t.Err, err))
		} else {
			res, _ := t.BoolResult(0)
			ok, diff, rows := t.Compare(res, b, func(v map[string]bool) bool {
				if v["setsrv"] {
					return v["empty"] || v["ipchg"] || v["noneed"]
				}
				return v["success"]
			}, func(v map[string]bool) bool { return v["setsrv"] != v["commit"] })
			c.Check(ok, "cmdResponseOK table", c.Pos(fn.Pos()), fmt.Sprintf("accepted answers equal the documented ones on %d rows", rows), diff)
		}
	}
	// callers use the results
	names := []string{"execDisableEndpoint", "execEnableEndpoint", "execUpdateCert", "checkEndpointPair", "checkBackendPair", "checkHostPair", "frontendUpdated", "backendUpdated", "checkConfigChange", "update"}
	for _, fn := range c.SrcFuncs() {
		if core.PkgOf(fn) != "haproxy" {
			continue
		}
		for _, s := range core.Calls(fn, false) {
			cn := core.CalleeName(s.Common())
			if !strings.Contains(cn, "dynUpdater).") {
				continue
			}
			base := cn[strings.LastIndex(cn, ".")+1:]
			isOne := false
			for _, n := range names {
				if n == base {
					isOne = true
				}
			}
			if !isOne {
				continue
			}
			call, ok := s.Instr.(*ssa.Call)
			if !ok {
				c.Violated(core.FuncName(fn)+" uses result of "+base, at(c, s.Instr), "called with go/defer: result lost")
				continue
			}
			used := false
			for _, r := range *call.Referrers() {
				if _, dbg := r.(*ssa.DebugRef); !dbg {
					used = true
				}
			}
			c.Sites(1)
			c.Check(used, core.FuncName(fn)+" uses result of "+base, at(c, call), "", "the boolean verdict of "+base+" is discarded: a failed or refused runtime command is treated as applied and no reload follows")
		}
	}
}

func c02Counted(c *core.Ctx) {
	exec := c.Fn("haproxy", "dynUpdater.execCommand")
	if exec == nil {
		return
	}
	// Send on the updater's socket only in execCommand
	for _, fn := range c.SrcFuncs() {
		if core.PkgOf(fn) != "haproxy" {
			continue
		}
		for _, s := range core.Calls(fn, false) {
			cc := s.Common()
			if cc.IsInvoke() && cc.Method.Name() == "Send" && strings.HasSuffix(core.Key(cc.Value), "d.socket") {
				c.Check(fn == exec, "updater socket used in "+core.FuncName(fn), at(c, s.Instr), "only execCommand sends", "a runtime command is sent outside execCommand: it is not counted, so the files are not rewritten after it")
			}
		}
	}
	sts := fieldStores(exec, false, "haproxy.dynUpdater", "cmdCnt")
	ok := len(sts) == 1 && strings.Contains(core.Key(sts[0].Val), "d.cmdCnt + builtin:len(cmd)")
	if ok {
		ok = core.MustPrecede(exec, func(in ssa.Instruction) bool { return in == ssa.Instruction(sts[0]) }, core.IsReturn) == nil
	}
	c.Check(ok, "execCommand counts every command", c.Pos(exec.Pos()), "cmdCnt += len(cmd) on all paths", "commands are sent without being added to cmdCnt on every path")
}

func c02WriteIff(c *core.Ctx) {
	fn := c.Fn("haproxy", "instance.HAProxyUpdate")
	if fn == nil {
		return
	}
	var upd, wr *ssa.Call
	for _, s := range core.Calls(fn, false) {
		n := core.CalleeName(s.Common())
		if strings.HasSuffix(n, "dynUpdater).update") {
			upd, _ = s.Instr.(*ssa.Call)
		}
		if strings.HasSuffix(n, "instance).writeConfig") {
			wr, _ = s.Instr.(*ssa.Call)
		}
	}
	if upd == nil || wr == nil {
		c.Violated("HAProxyUpdate calls update and writeConfig", c.Pos(fn.Pos()), "not found")
		return
	}
	c.Check(core.MustPrecede(fn, func(in ssa.Instruction) bool { return in == ssa.Instruction(upd) }, func(in ssa.Instruction) bool { return in == ssa.Instruction(wr) }) == nil,
		"update() before writeConfig", at(c, wr), "the updater may change the model (slot names, empty slots) before it is rendered", "writeConfig can run before the dynamic updater: the file misses the slot layout the running process has")
	t := core.ExtractTableFrom(fn, upd.Block(), core.DominatedBy(upd.Block()))
	if t.Err != "" {
		c.Undecided("writeConfig condition", at(c, wr), t.Err)
		return
	}
	cond, ok := t.InstrCond(wr)
	if !ok {
		c.Undecided("writeConfig condition", at(c, wr), "not in region")
		return
	}
	bind := &core.Binding{Names: make([]string, len(t.Atoms))}
	bad := ""
	for i, a := range t.Atoms {
		if !cond.DependsOn(i) {
			continue
		}
		switch {
		case strings.Contains(a, "dynUpdater).update((*haproxy.instance).newDynUpdater(") && !strings.Contains(a, "cmdCnt"):
			bind.Names[i] = "updated"
		case strings.Contains(a, ".cmdCnt > 0)"):
			bind.Names[i] = "sent"
		default:
			bad = a
		}
	}
	if bad != "" {
		c.Violated("writeConfig condition", at(c, wr), "writeConfig also depends on `"+bad+"`")
		return
	}
	good, diff, _ := t.Compare(cond, bind, func(v map[string]bool) bool { return !v["updated"] || v["sent"] }, nil)
	c.Check(good, "writeConfig condition", at(c, wr), "files are rewritten iff the update failed or commands were sent", "files are not rewritten exactly when !updated || cmdCnt > 0: "+diff+" — after runtime commands the disk no longer follows the process (or the reverse)")
}

func c02UpdateTable(c *core.Ctx) {
	fn := c.Fn("haproxy", "dynUpdater.update")
	if fn == nil {
		return
	}
	m := matchers{"committed": has("hasCommittedData("), "same": has("checkConfigChange(")}
	tableRule(c, "dynUpdater.update result", fn, 0, m, func(v map[string]bool) bool { return v["committed"] && v["same"] })
	t := core.ExtractTable(fn)
	for _, s := range core.Calls(fn, false) {
		if strings.HasSuffix(core.CalleeName(s.Common()), "dynUpdater).alignSlots") {
			condTable(c, "alignSlots runs iff the update failed", t, s.Instr, m, func(v map[string]bool) bool { return !(v["committed"] && v["same"]) })
		}
	}
}

func c02SlotsGuard(c *core.Ctx) {
	fn := c.Fn("haproxy", "dynUpdater.checkBackendPair")
	if fn == nil {
		return
	}
	// capacity test
	var capIf *ssa.If
	for _, b := range fn.Blocks {
		if ifi, ok := b.Instrs[len(b.Instrs)-1].(*ssa.If); ok {
			k := core.Key(ifi.Cond)
			if strings.Contains(k, "builtin:len(") && strings.Contains(k, "old.Endpoints) < builtin:len(") && strings.Contains(k, "cur.Endpoints)") {
				capIf = ifi
			}
		}
	}
	if capIf == nil {
		c.Violated("checkBackendPair capacity test", c.Pos(fn.Pos()), "no `len(old.Endpoints) < len(cur.Endpoints)` test: more endpoints than slots would index past the free slots")
	} else {
		tb := capIf.Block().Succs[0]
		r, isRet := tb.Instrs[len(tb.Instrs)-1].(*ssa.Return)
		okRet := isRet && core.IsConstBool(core.Results(r)[0], false)
		c.Check(okRet, "checkBackendPair capacity test returns false", at(c, capIf), "", "the capacity test does not return false")
		isEnable := func(in ssa.Instruction) bool {
			call, ok := in.(*ssa.Call)
			return ok && (strings.HasSuffix(core.CalleeName(&call.Call), "execEnableEndpoint") || strings.HasSuffix(core.CalleeName(&call.Call), "checkEndpointPair"))
		}
		w := core.MustPrecede(fn, func(in ssa.Instruction) bool { return in == ssa.Instruction(capIf) }, isEnable)
		c.Check(w == nil, "capacity test precedes every endpoint command", at(c, capIf), "", "an endpoint can be enabled before the capacity test")
	}
	// free-slot partition by Enabled
	okPart := false
	for _, b := range fn.Blocks {
		if ifi, ok := b.Instrs[len(b.Instrs)-1].(*ssa.If); ok {
			k := core.Key(ifi.Cond)
			if strings.HasSuffix(k, ".Enabled") && strings.Contains(k, "old.Endpoints[") {
				// false edge appends to empty
				fb := ifi.Block().Succs[1]
				for _, in := range fb.Instrs {
					if call, ok := in.(*ssa.Call); ok && core.CalleeName(&call.Call) == "builtin:append" {
						okPart = true
					}
				}
			}
		}
	}
	c.Check(okPart, "old slots are free only when not enabled", c.Pos(fn.Pos()), "partition of the old endpoints is by Endpoint.Enabled", "the old endpoints are not partitioned by `Enabled`: a live server can be taken for a free slot, gets no `state maint` command and keeps receiving traffic while the file lists it as disabled")
	// runtime socket: not kept alive
	if f := c.Fn("haproxy", "connections.DynUpdate"); f != nil {
		ok := false
		for _, s := range core.Calls(f, false) {
			if strings.HasSuffix(core.CalleeName(s.Common()), "socket.NewSocket") {
				ok = core.IsConstBool(s.Common().Args[1], false)
			}
		}
		c.Check(ok, "runtime socket is opened per batch", c.Pos(f.Pos()), "NewSocket(adminSock, keepalive=false)", "the updater's socket is kept alive: after a reload it stays connected to the old worker, which answers OK while the new worker never receives the commands")
	}
}

func c02ModelLock(c *core.Ctx) {
	methods := map[string]bool{"HAProxyUpdate": true, "Reload": true, "AcmeCheck": true, "AcmeUpdate": true}
	for _, fn := range c.SrcFuncs() {
		if core.PkgOf(fn) != "controller/services" {
			continue
		}
		for _, s := range core.Calls(fn, false) {
			cc := s.Common()
			if !cc.IsInvoke() || !methods[cc.Method.Name()] || !strings.HasSuffix(cc.Value.Type().String(), "haproxy.Instance") {
				continue
			}
			isLock := func(in ssa.Instruction) bool {
				call, ok := in.(*ssa.Call)
				return ok && core.CalleeName(&call.Call) == "(*sync.Mutex).Lock" && strings.HasSuffix(core.Key(call.Call.Args[0]), ".modelMutex")
			}
			isUnlockDefer := func(in ssa.Instruction) bool {
				d, ok := in.(*ssa.Defer)
				return ok && core.CalleeName(&d.Call) == "(*sync.Mutex).Unlock" && strings.HasSuffix(core.Key(d.Call.Args[0]), ".modelMutex")
			}
			isUnlockCall := func(in ssa.Instruction) bool {
				call, ok := in.(*ssa.Call)
				return ok && core.CalleeName(&call.Call) == "(*sync.Mutex).Unlock"
			}
			site := s.Instr
			locked := core.MustPrecede(fn, isLock, func(in ssa.Instruction) bool { return in == site }) == nil
			deferred := core.MustPrecede(fn, isUnlockDefer, func(in ssa.Instruction) bool { return in == site }) == nil
			early := false
			for _, b := range fn.Blocks {
				for _, in := range b.Instrs {
					if isUnlockCall(in) && core.Reaches(fn, in, func(x ssa.Instruction) bool { return x == site }) != nil {
						early = true
					}
				}
			}
			c.Check(locked && deferred && !early, core.FuncName(fn)+" -> instance."+cc.Method.Name(), at(c, site), "modelMutex held (Lock before, Unlock deferred)", "the model is used without holding modelMutex: a reconciliation and a queued reload/acme check can interleave on the same config")
		}
	}
}
