package rules

import (
	"fmt"
	"go/ast"
	"go/types"
	"sort"
	"strings"

	"golang.org/x/tools/go/ssa"

	"hapverif/internal/core"
)

// has builds an atom matcher: the key contains every given substring; a
// substring prefixed with ~ must NOT occur.
func has(subs ...string) func(string) bool {
	return func(k string) bool {
		for _, s := range subs {
			if strings.HasPrefix(s, "~") {
				if strings.Contains(k, s[1:]) {
					return false
				}
				continue
			}
			if !strings.Contains(k, s) {
				return false
			}
		}
		return true
	}
}

type matchers map[string]func(string) bool

// tableRule extracts the decision table of fn, binds atoms, and compares
// result #idx with spec over all rows.
func tableRule(c *core.Ctx, key string, fn *ssa.Function, idx int, m matchers, spec func(v map[string]bool) bool) bool {
	if fn == nil {
		return false
	}
	t := core.ExtractTable(fn)
	site := c.Pos(fn.Pos())
	if t.Err != "" {
		c.Undecided(key, site, "decision table not extracted: "+t.Err)
		return false
	}
	b, err := t.Bind(m)
	if err != nil {
		c.Undecided(key, site, "cannot bind the specification variables to the conditions of the code (a condition was changed, added or removed): "+err.Error())
		return false
	}
	res, rets := t.BoolResult(idx)
	if !rets.IsTrue() {
		c.Undecided(key, site, "function does not return on every path")
		return false
	}
	ok, diff, rows := t.Compare(res, b, spec, nil)
	if !ok {
		c.Violated(key, site, "decision table differs from the specification: "+diff)
		return false
	}
	c.Held(key, site, fmt.Sprintf("decision table equals the specification on all %d rows over atoms [%s]", rows, strings.Join(t.Atoms, " ; ")))
	return true
}

// condTable compares the condition under which `in` executes with spec.
func condTable(c *core.Ctx, key string, t *core.Table, in ssa.Instruction, m matchers, spec func(v map[string]bool) bool) bool {
	site := c.InstrPos(in)
	if t.Err != "" {
		c.Undecided(key, site, "decision table not extracted: "+t.Err)
		return false
	}
	b, err := t.Bind(m)
	if err != nil {
		c.Undecided(key, site, "cannot bind the specification variables: "+err.Error())
		return false
	}
	cond, ok := t.InstrCond(in)
	if !ok {
		c.Undecided(key, site, "unreachable instruction")
		return false
	}
	good, diff, rows := t.Compare(cond, b, spec, nil)
	if !good {
		c.Violated(key, site, "execution condition differs from the specification: "+diff)
		return false
	}
	c.Held(key, site, fmt.Sprintf("execution condition equals the specification on all %d rows", rows))
	return true
}

// guards lists the branch conditions that dominate instruction in, as
// (key, branch) pairs.
type guard struct {
	Key    string
	Branch bool
	Cond   ssa.Value
}

func guardsOf(in ssa.Instruction) []guard {
	var out []guard
	for _, e := range core.ControllingEdges(in.Block()) {
		out = append(out, guard{core.Key(e.If.Cond), e.Branch, e.If.Cond})
	}
	return out
}

// guardedBy reports whether `in` executes only on the given branch of a
// condition whose key satisfies m. A negated condition (!x on branch b) is
// normalised to x on branch !b.
func guardedBy(in ssa.Instruction, m func(string) bool, branch bool) bool {
	for _, g := range guardsOf(in) {
		k, b := g.Key, g.Branch
		for strings.HasPrefix(k, "!") {
			k = k[1:]
			b = !b
		}
		if b == branch && m(k) {
			return true
		}
	}
	return false
}

// fieldStores lists the Store instructions of fn (and nested closures when
// nested) whose address is field `field` of a struct whose type string ends
// with owner (e.g. "haproxy/types.AuthExternal").
func fieldStores(fn *ssa.Function, nested bool, owner, field string) []*ssa.Store {
	var out []*ssa.Store
	var walk func(f *ssa.Function)
	walk = func(f *ssa.Function) {
		for _, b := range f.Blocks {
			for _, in := range b.Instrs {
				if st, ok := in.(*ssa.Store); ok {
					o, fl := core.FieldOf(st.Addr)
					if fl == field && strings.HasSuffix(o, owner) {
						out = append(out, st)
					}
				}
			}
		}
		if nested {
			for _, a := range f.AnonFuncs {
				walk(a)
			}
		}
	}
	if fn != nil {
		walk(fn)
	}
	return out
}

// writersOf lists the source functions that store to owner.field (directly),
// or update/delete a map / append to a slice held in that field.
func writersOf(env *core.Env, owner, field string) map[string][]ssa.Instruction {
	out := map[string][]ssa.Instruction{}
	for _, fn := range env.SrcFuncs() {
		for _, b := range fn.Blocks {
			for _, in := range b.Instrs {
				switch x := in.(type) {
				case *ssa.Store:
					if o, f := core.FieldOf(x.Addr); f == field && strings.HasSuffix(o, owner) {
						out[core.FuncName(fn)] = append(out[core.FuncName(fn)], in)
					}
				case *ssa.MapUpdate:
					if isLoadOfField(x.Map, owner, field) {
						out[core.FuncName(fn)] = append(out[core.FuncName(fn)], in)
					}
				case *ssa.Call:
					if bi, ok := x.Call.Value.(*ssa.Builtin); ok && bi.Name() == "delete" && len(x.Call.Args) > 0 {
						if isLoadOfField(x.Call.Args[0], owner, field) {
							out[core.FuncName(fn)] = append(out[core.FuncName(fn)], in)
						}
					}
				}
			}
		}
	}
	return out
}

func isLoadOfField(v ssa.Value, owner, field string) bool {
	u, ok := v.(*ssa.UnOp)
	if !ok {
		return false
	}
	o, f := core.FieldOf(u.X)
	return f == field && strings.HasSuffix(o, owner)
}

func sortedKeys[V any](m map[string]V) []string {
	var ks []string
	for k := range m {
		ks = append(ks, k)
	}
	sort.Strings(ks)
	return ks
}

// ifaceMethod resolves a method of an interface (or struct) type of the repository.
func ifaceMethod(c *core.Ctx, short, typ, meth string) *types.Func {
	f := c.MethodObj(short, typ, meth)
	if f == nil {
		c.MissingAnchor(short + "." + typ + "." + meth)
	}
	return f
}

// anonFuncs returns all (transitively) nested anonymous functions of fn.
func anonFuncs(fn *ssa.Function) []*ssa.Function {
	var out []*ssa.Function
	var walk func(f *ssa.Function)
	walk = func(f *ssa.Function) {
		for _, a := range f.AnonFuncs {
			out = append(out, a)
			walk(a)
		}
	}
	if fn != nil {
		walk(fn)
	}
	return out
}

// paramTypeContains reports whether some parameter type of fn contains s.
func paramTypeContains(fn *ssa.Function, s string) bool {
	for _, p := range fn.Params {
		if strings.Contains(p.Type().String(), s) {
			return true
		}
	}
	return false
}

// callsMethodNamed reports whether fn (not nested) has a call whose callee's
// name is name (interface or concrete method).
func callsByName(fn *ssa.Function, name string) []core.Site {
	var out []core.Site
	for _, s := range core.Calls(fn, false) {
		if o := core.CalleeObj(s.Common()); o != nil && o.Name() == name {
			out = append(out, s)
		}
	}
	return out
}

// short renders an instruction's source position.
func at(c *core.Ctx, in ssa.Instruction) string { return c.InstrPos(in) }

// sliceLeaves computes the backward slice of v (DESIGN §2-E4): the set of leaf
// descriptors v is computed from, following phi, extract, field loads, string
// concatenation, conversions, slicing, indexing, and the results of repository
// functions to the given call depth.
func sliceLeaves(env *core.Env, v ssa.Value, depth int) map[string]bool {
	out := map[string]bool{}
	seen := map[ssa.Value]bool{}
	var walk func(v ssa.Value, d int)
	walk = func(v ssa.Value, d int) {
		if v == nil || seen[v] {
			return
		}
		seen[v] = true
		switch x := v.(type) {
		case *ssa.Const:
			out["const:"+core.Key(x)] = true
		case *ssa.Parameter:
			out["param:"+core.ParamName(x)] = true
		case *ssa.FreeVar:
			out["freevar:"+x.Name()] = true
		case *ssa.Global:
			out["global:"+x.Name()] = true
		case *ssa.Phi:
			for _, e := range x.Edges {
				walk(e, d)
			}
		case *ssa.Extract:
			out["extract:"+core.Key(x)] = true
			if call, ok := x.Tuple.(*ssa.Call); ok {
				name := core.CalleeName(&call.Call)
				out[fmt.Sprintf("call:%s#%d", name, x.Index)] = true
				callee := call.Call.StaticCallee()
				if d > 0 && callee != nil && callee.Blocks != nil && callee.Pkg != nil && strings.HasPrefix(callee.Pkg.Pkg.Path(), core.Module) {
					for _, b := range callee.Blocks {
						for _, in := range b.Instrs {
							if r, ok := in.(*ssa.Return); ok && x.Index < len(r.Results) {
								walk(r.Results[x.Index], d-1)
							}
						}
					}
					if call.Call.IsInvoke() {
						walk(call.Call.Value, d)
					}
					for _, a := range call.Call.Args {
						_ = a
					}
					return
				}
			}
			walk(x.Tuple, d)
		case *ssa.UnOp:
			if x.Op.String() == "*" {
				out["load:"+core.Key(x.X)] = true
				// loads of local allocs: follow stores
				walk(x.X, d)
			} else {
				walk(x.X, d)
			}
		case *ssa.FieldAddr:
			out["field:"+core.Key(x)] = true
			if o, f := core.FieldOf(x); o != "" {
				out["ftype:"+o+"."+f] = true
			}
			walk(x.X, d)
		case *ssa.Field:
			out["field:"+core.Key(x)] = true
			walk(x.X, d)
		case *ssa.BinOp:
			walk(x.X, d)
			walk(x.Y, d)
		case *ssa.Convert:
			walk(x.X, d)
		case *ssa.ChangeType:
			walk(x.X, d)
		case *ssa.ChangeInterface:
			walk(x.X, d)
		case *ssa.MakeInterface:
			walk(x.X, d)
		case *ssa.Slice:
			walk(x.X, d)
		case *ssa.Index:
			walk(x.X, d)
		case *ssa.IndexAddr:
			walk(x.X, d)
		case *ssa.Lookup:
			walk(x.X, d)
		case *ssa.TypeAssert:
			walk(x.X, d)
		case *ssa.Next:
			walk(x.Iter, d)
		case *ssa.Range:
			out["range:"+core.Key(x.X)] = true
			walk(x.X, d)
		case *ssa.Alloc:
			out["alloc:"+x.Comment] = true
			// values stored into the allocation, directly or through element/field addresses
			var stores func(addr ssa.Value, depth int)
			stores = func(addr ssa.Value, depth int) {
				if depth > 4 {
					return
				}
				refs := addr.Referrers()
				if refs == nil {
					return
				}
				for _, ref := range *refs {
					switch r := ref.(type) {
					case *ssa.Store:
						if r.Addr == addr {
							walk(r.Val, d)
						}
					case *ssa.IndexAddr:
						if r.X == addr {
							stores(r, depth+1)
						}
					case *ssa.FieldAddr:
						if r.X == addr {
							stores(r, depth+1)
						}
					}
				}
			}
			stores(x, 0)
		case *ssa.Call:
			name := core.CalleeName(&x.Call)
			out["call:"+name] = true
			for _, a := range x.Call.Args {
				walk(a, d)
			}
			if x.Call.IsInvoke() {
				walk(x.Call.Value, d)
			}
			if d > 0 {
				if callee := x.Call.StaticCallee(); callee != nil && callee.Blocks != nil && strings.HasPrefix(core.FuncName(callee), "") && callee.Pkg != nil && strings.HasPrefix(callee.Pkg.Pkg.Path(), core.Module) {
					for _, b := range callee.Blocks {
						for _, in := range b.Instrs {
							if r, ok := in.(*ssa.Return); ok {
								for _, rv := range r.Results {
									walk(rv, d-1)
								}
							}
						}
					}
				}
			}
		default:
			out[fmt.Sprintf("other:%T", v)] = true
		}
	}
	walk(v, depth)
	return out
}

func leavesContain(l map[string]bool, sub string) bool {
	for k := range l {
		if strings.Contains(k, sub) {
			return true
		}
	}
	return false
}

func leavesList(l map[string]bool) string {
	ks := sortedKeys(l)
	if len(ks) > 14 {
		ks = append(ks[:14], "…")
	}
	return strings.Join(ks, ", ")
}

// handlerFullByResource reads the hdlr composite literals of the reconciler's
// watchers (data, decided on the type-checked syntax): resource constant name
// -> whether every handler of that resource sets `full: true`.
func handlerFullByResource(c *core.Ctx) map[string]bool {
	p := c.Pkg("controller/reconciler")
	if p == nil {
		c.MissingAnchor("package controller/reconciler")
		return nil
	}
	out := map[string]bool{}
	n := 0
	for _, f := range p.Syntax {
		ast.Inspect(f, func(nd ast.Node) bool {
			cl, ok := nd.(*ast.CompositeLit)
			if !ok {
				return true
			}
			tv, ok := p.TypesInfo.Types[cl]
			if !ok {
				return true
			}
			t := tv.Type
			if pt, ok := t.(*types.Pointer); ok {
				t = pt.Elem()
			}
			nt, ok := t.(*types.Named)
			if !ok || nt.Obj().Name() != "hdlr" {
				return true
			}
			res, full := "", false
			for _, el := range cl.Elts {
				kv, ok := el.(*ast.KeyValueExpr)
				if !ok {
					continue
				}
				k, _ := kv.Key.(*ast.Ident)
				if k == nil {
					continue
				}
				switch k.Name {
				case "res":
					if se, ok := kv.Value.(*ast.SelectorExpr); ok {
						res = se.Sel.Name
					}
				case "full":
					if tvv, ok := p.TypesInfo.Types[kv.Value]; ok && tvv.Value != nil {
						full = tvv.Value.String() == "true"
					}
				}
			}
			if res != "" {
				n++
				if prev, seen := out[res]; seen {
					out[res] = prev && full
				} else {
					out[res] = full
				}
			}
			return true
		})
	}
	if n == 0 {
		c.MissingAnchor("hdlr composite literals in controller/reconciler")
		return nil
	}
	return out
}

// authHoldersByTypes lists "Struct.Field" for every struct field of
// haproxy/types whose type is AuthExternal or *AuthExternal.
func authHoldersByTypes(c *core.Ctx, _ []string) []string {
	p := c.Pkg("haproxy/types")
	if p == nil {
		return nil
	}
	var out []string
	scope := p.Types.Scope()
	for _, n := range scope.Names() {
		tn, ok := scope.Lookup(n).(*types.TypeName)
		if !ok {
			continue
		}
		st, ok := tn.Type().Underlying().(*types.Struct)
		if !ok {
			continue
		}
		for i := 0; i < st.NumFields(); i++ {
			ft := st.Field(i).Type()
			if pt, ok := ft.(*types.Pointer); ok {
				ft = pt.Elem()
			}
			if nt, ok := ft.(*types.Named); ok && nt.Obj().Name() == "AuthExternal" && nt.Obj().Pkg() == p.Types {
				out = append(out, n+"."+st.Field(i).Name())
			}
		}
	}
	sort.Strings(out)
	return out
}

func structOf(nt *types.Named) *types.Struct {
	st, _ := nt.Underlying().(*types.Struct)
	return st
}

// bindDeps binds only the atoms cond depends on. unbound lists dependent atoms
// no matcher recognised; dup reports an ambiguous match.
func bindDeps(t *core.Table, cond core.TT, m matchers) (b *core.Binding, unbound []string, dup string) {
	b = &core.Binding{Names: make([]string, len(t.Atoms))}
	used := map[string]bool{}
	for i, a := range t.Atoms {
		if !cond.DependsOn(i) {
			continue
		}
		for _, n := range sortedKeys(m) {
			if m[n](a) || m[n](core.StripVersion(a)) {
				if b.Names[i] != "" || used[n] {
					dup = n + " / " + a
				}
				b.Names[i] = n
				used[n] = true
			}
		}
		if b.Names[i] == "" {
			unbound = append(unbound, a)
		}
	}
	return
}

// missingBound lists the specification variables that no condition of the code was bound to:
// a decision that stopped depending on a reviewed test must not pass because the
// specification is then evaluated with that variable constantly false.
func missingBound(b *core.Binding, m matchers) []string {
	have := map[string]bool{}
	if b != nil {
		for _, n := range b.Names {
			have[n] = true
		}
	}
	var out []string
	for _, n := range sortedKeys(m) {
		if !have[n] {
			out = append(out, n)
		}
	}
	return out
}
