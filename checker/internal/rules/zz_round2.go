package rules

import (
	"fmt"
	"go/ast"
	"go/token"
	"go/types"
	"strings"

	"golang.org/x/tools/go/ssa"

	"hapverif/internal/core"
)

// Rules added after the second round of independently seeded changes showed gaps
// (DESIGN §6). File name sorts last so that the properties are registered.

func addRule(prop string, r *core.Rule) {
	p := registry[prop]
	if p == nil {
		panic("unknown property " + prop)
	}
	p.Rules = append(p.Rules, r)
}

func init() {
	addRule("C01", &core.Rule{ID: "C01.update-order", Floor: 5, Run: c11Order,
		Doc: "Shared with C11: SyncConfig (which completes hosts and backends still in the change sets, e.g. the TLS-auth flag of backends) runs before Shrink drops unchanged pairs; otherwise a re-parsed host is shrunk away before its backend is completed and the partial result differs from a full sync."})
	addRule("C01", &core.Rule{ID: "C01.merge-order", Floor: 2, Run: c01MergeOrder,
		Doc: "syncPartial builds the set of Ingresses to re-sync as: dirty names, minus the deleted ones, plus the added ones — in that order, so that an Ingress deleted and re-created in one batch is parsed."})
	addRule("C03", &core.Rule{ID: "C03.merge-order", Floor: 2, Run: c01MergeOrder,
		Doc: "Shared with C01: a deleted-and-recreated Ingress of one batch is re-synced (its hosts were removed)."})
	addRule("C03", &core.Rule{ID: "C03.endpoint-identity", Floor: 1, Run: c11EndpointIdentity,
		Doc: "Shared with C11: Shrink treats a re-parsed backend as unchanged only if its endpoints are equal as whole values (weight, enabled, ...), not just by address — otherwise a server that started draining keeps its weight."})
	addRule("C11", &core.Rule{ID: "C11.endpoint-identity", Floor: 1, Run: c11EndpointIdentity,
		Doc: "backendsMatch compares non-empty endpoints by whole Endpoint value."})
	addRule("C02", &core.Rule{ID: "C02.responses-all", Floor: 2, Run: c02ResponsesAll,
		Doc: "exec{Enable,Disable}Endpoint validate every response of the batch: the argument of cmdResponseOK is the element of a loop over all answers, not a fixed index."})
	addRule("C02", &core.Rule{ID: "C02.verdict-monotone", Floor: 3, Run: c02VerdictMonotone,
		Doc: "The `updated` verdict of check{Backend,Host}Pair / frontendUpdated / backendUpdated starts true and can only be set to false: no assignment of a computed value can overwrite an earlier failure."})
	addRule("C12", &core.Rule{ID: "C12.verdict-monotone", Floor: 3, Run: c02VerdictMonotone,
		Doc: "Shared with C02: a failed socket command is never forgotten by a later success in the same backend, so the fallback reload happens."})
	addRule("C12", &core.Rule{ID: "C12.buffer-reset", Floor: 1, Run: c12BufferReset,
		Doc: "template.Config.WriteOutput resets the render buffer before every execution, on all paths: content left by a failed write must not prefix the next file."})
	addRule("C02", &core.Rule{ID: "C02.shard-flags", Floor: 2, Run: c05ShrinkRecompute,
		Doc: "Shared with C05: shard flags are only un-set by a full recompute from both change sets; a dynamically updated backend's shard file is rewritten."})
	addRule("C04", &core.Rule{ID: "C04.pairs-exhaustive", Floor: 2, Run: c04PairsExhaustive,
		Doc: "rebuildMatchFiles compares every pair of a host's entries: the pair loops have no exit but exhaustion."})
	addRule("C06", &core.Rule{ID: "C06.upper-recorded", Floor: 1, Run: c04Upper,
		Doc: "Shared with C04: the listed exception for iterating hm.rawhosts in map order (only file numbering changes) relies on every shorter entry being bound below the longer entry's file."})
	addRule("C05", &core.Rule{ID: "C05.tcp-port-dirty", Floor: 2, Run: c05TCPPortDirty,
		Doc: "Every mutation of a TCPServicePort's hosts / defaultHost inside TCPServices methods sets `changed` on that path."})
	addRule("C05", &core.Rule{ID: "C05.shard-loop-complete", Floor: 1, Run: c05ShardLoopComplete,
		Doc: "Inside the changed-shards loop of writeConfig the shard file is written on every iteration (no condition but the loop's own and earlier errors): a shard that lost all backends is rewritten empty."})
	addRule("C07", &core.Rule{ID: "C07.passthrough-count", Floor: 2, Run: c07PassthroughCount,
		Doc: "The ssl-passthrough counter that decides whether `backend _redirect_https` is emitted is decremented once per removed host: releaseHost is called from RemoveAll only, and the counter has no other writers than SetSSLPassthrough/releaseHost."})
	addRule("C07", &core.Rule{ID: "C07.default-backend-live", Floor: 1, Run: c07DefaultBackendLive,
		Doc: "Backends.RemoveAll clears DefaultBackend when it removes that backend: `default_backend <id>` never names a removed section."})
	addRule("C09", &core.Rule{ID: "C09.resource-name-table", Floor: 1, Run: c09ResourceNameTable,
		Doc: "ConfigValue.ResourceName returns the declaring object's namespace as default namespace whenever there is a Source (empty only for global configuration)."})
	addRule("C09", &core.Rule{ID: "C09.bits-current", Floor: 2, Run: c09BitsCurrent,
		Doc: "The permission bits are (re)computed from the current global configuration before any Ingress of that sync is parsed: UpdateGlobalConfig precedes the first syncIngress in syncFull."})
	addRule("C10", &core.Rule{ID: "C10.listener-continue", Floor: 2, Run: c10ListenerContinue,
		Doc: "A listener that does not admit the route does not end the iteration over the Gateway's listeners."})
	addRule("C15", &core.Rule{ID: "C15.pem-rewritten", Floor: 1, Run: c15PemRewritten,
		Doc: "ssl.buildCertFromCrtAndKey writes the pem file whenever it computed its content: the write is conditional on nothing but earlier errors."})
	addRule("C16", &core.Rule{ID: "C16.label-present", Floor: 1, Run: c16LabelPresent,
		Doc: "An endpoint joins a blue/green group only if its pod has the label (comma-ok) and the value matches."})
	addRule("C16", &core.Rule{ID: "C16.zero-preserved", Floor: 1, Run: c16ZeroPreserved,
		Doc: "RebalanceWeight assigns the floor value 1 only to clusters whose configured weight is positive; no min/max builtin replaces the guarded floor."})
}

func c01MergeOrder(c *core.Ctx) {
	fn := c.Fn("converters/ingress", "converter.syncPartial")
	if fn == nil {
		return
	}
	var delOp, addOp, dirtyOp ssa.Instruction
	for _, b := range fn.Blocks {
		for _, in := range b.Instrs {
			switch x := in.(type) {
			case *ssa.Call:
				if core.CalleeName(&x.Call) == "builtin:delete" {
					l := sliceLeaves(c.Env, x.Call.Args[1], 0)
					if leavesContain(l, "changed.IngressesDel") {
						delOp = in
					}
				}
			case *ssa.MapUpdate:
				lv := sliceLeaves(c.Env, x.Value, 0)
				lk := sliceLeaves(c.Env, x.Key, 0)
				if leavesContain(lv, "changed.IngressesAdd") {
					addOp = in
				} else if core.IsNilConst(x.Value) && leavesContain(lk, "QueryLinks") {
					dirtyOp = in
				}
			}
		}
	}
	if delOp == nil || addOp == nil || dirtyOp == nil {
		c.Violated("syncPartial merges dirty, deleted and added ingresses", c.Pos(fn.Pos()), fmt.Sprintf("not all three steps found (dirty=%v del=%v add=%v)", dirtyOp != nil, delOp != nil, addOp != nil))
		return
	}
	c.Check(core.Reaches(fn, addOp, func(in ssa.Instruction) bool { return in == delOp }) == nil, "syncPartial removes deleted names before inserting added ingresses", at(c, delOp), "", "the deleted names are removed after the added Ingresses were inserted: an Ingress deleted and re-created in one batch is dropped from the re-sync set while its hosts were already removed")
	c.Check(core.Reaches(fn, delOp, func(in ssa.Instruction) bool { return in == dirtyOp }) == nil, "syncPartial removes deleted names after collecting the dirty ones", at(c, delOp), "", "dirty names are inserted after the deleted ones were removed: a deleted Ingress is looked up again")
}

func c11EndpointIdentity(c *core.Ctx) {
	fn := c.Fn("haproxy/types", "backendsMatch")
	if fn == nil {
		return
	}
	n := 0
	for _, b := range fn.Blocks {
		for _, in := range b.Instrs {
			mm, ok := in.(*ssa.MakeMap)
			if !ok {
				continue
			}
			n++
			mt := mm.Type().Underlying().(*types.Map)
			kt := types.TypeString(mt.Key(), shortQ)
			c.Check(kt == "haproxy/types.Endpoint", "backendsMatch pairs endpoints by whole value", at(c, mm), "map key type is the Endpoint struct", "endpoints are paired by `"+kt+"`: two backends whose endpoints differ in weight, enabled state or cookie are taken as equal and the re-parsed backend is dropped from the update")
		}
	}
	if n == 0 {
		c.Violated("backendsMatch pairs endpoints by whole value", c.Pos(fn.Pos()), "no endpoint map found")
	}
}

func c02ResponsesAll(c *core.Ctx) {
	for _, n := range []string{"dynUpdater.execDisableEndpoint", "dynUpdater.execEnableEndpoint"} {
		fn := c.Fn("haproxy", n)
		if fn == nil {
			continue
		}
		cnt := 0
		for _, s := range core.Calls(fn, false) {
			if !strings.HasSuffix(core.CalleeName(s.Common()), ".cmdResponseOK") {
				continue
			}
			cnt++
			a := s.Common().Args[1]
			// element of a loop over the answers: load of IndexAddr(msg, loop index phi)
			ok := false
			if u, isU := a.(*ssa.UnOp); isU {
				if ia, isIA := u.X.(*ssa.IndexAddr); isIA {
					if strings.Contains(core.Key(ia.X), "execCommand(") {
						if _, isConst := ia.Index.(*ssa.Const); !isConst {
							ok = true
						}
					}
				}
			}
			// a pre-filter on the answer may only skip empty answers
			for _, g := range guardsOf(s.Instr) {
				if bo, isBin := g.Cond.(*ssa.BinOp); isBin && core.IsConstString(bo.Y, "") && core.Key(bo.X) == core.Key(a) {
					nonEmpty := bo.Op.String() == "!=" && g.Branch || bo.Op.String() == "==" && !g.Branch
					c.Check(nonEmpty, n+" validates every non-empty answer", at(c, s.Instr), "", "the validation runs only for empty answers: an error message from haproxy counts as success")
				}
			}
			// a rejected answer makes the command fail, an accepted one does not
			okRej := false
			for _, r := range core.Returns(fn) {
				if core.IsConstBool(core.Results(r)[0], false) {
					for _, g := range guardsOf(r) {
						if g.Cond == ssa.Value(s.Instr.(*ssa.Call)) && !g.Branch {
							okRej = true
						}
					}
				}
				if core.IsConstBool(core.Results(r)[0], true) {
					for _, g := range guardsOf(r) {
						if g.Cond == ssa.Value(s.Instr.(*ssa.Call)) && !g.Branch {
							okRej = false
						}
					}
				}
			}
			c.Check(okRej, n+" fails on a rejected answer", at(c, s.Instr), "", "no `return false` on the false branch of cmdResponseOK")
			c.Check(ok, n+" validates every answer", at(c, s.Instr), "cmdResponseOK is applied to the loop element", "cmdResponseOK is applied to `"+core.Key(a)+"`: answers to the other commands of the batch (state, weight) are not validated, a refused command counts as applied")
		}
		if cnt == 0 {
			c.Violated(n+" validates every answer", c.Pos(fn.Pos()), "no cmdResponseOK call")
		}
		// a transport error fails the command
		okErr := false
		for _, r := range core.Returns(fn) {
			if core.IsConstBool(core.Results(r)[0], false) && guardedBy(r, has("execCommand(", "#1 != nil)"), true) {
				okErr = true
			}
		}
		c.Check(okErr, n+" fails on a socket error", c.Pos(fn.Pos()), "", "no `return false` under err != nil of execCommand")
	}
}

func c02VerdictMonotone(c *core.Ctx) {
	for _, n := range []string{"dynUpdater.checkBackendPair", "dynUpdater.checkHostPair", "dynUpdater.frontendUpdated", "dynUpdater.backendUpdated"} {
		fn := c.Fn("haproxy", n)
		if fn == nil {
			continue
		}
		// the bool phis that are returned
		returned := map[*ssa.Phi]bool{}
		var mark func(v ssa.Value)
		mark = func(v ssa.Value) {
			if ph, ok := v.(*ssa.Phi); ok && !returned[ph] {
				returned[ph] = true
				for _, e := range ph.Edges {
					mark(e)
				}
			}
		}
		for _, r := range core.Returns(fn) {
			for _, v := range core.Results(r) {
				mark(v)
			}
		}
		bad := ""
		nphi := 0
		for ph := range returned {
			if ph.Type().String() != "bool" {
				continue
			}
			nphi++
			for _, e := range ph.Edges {
				switch x := e.(type) {
				case *ssa.Const:
				case *ssa.Phi:
					_ = x
				default:
					bad = core.Key(e)
				}
			}
		}
		// a returned non-phi computed bool is fine only if it is a constant or a direct call result in a function without accumulation
		c.Check(bad == "" && nphi > 0, n+" verdict only turns false", c.Pos(fn.Pos()), fmt.Sprintf("%d merge points, all fed by constants", nphi), "the verdict is assigned the computed value `"+bad+"`: a later success overwrites an earlier failure of the same pass, the caller sees `updated` and no reload follows")
		// and no constant true is assigned after the initial one: phi edges with const true must come from the entry-side
		for ph := range returned {
			for i, e := range ph.Edges {
				if core.IsConstBool(e, true) {
					pred := ph.Block().Preds[i]
					// allowed: the initial value flowing in from before the first loop/branch: pred dominates the phi block
					c.Check(pred.Dominates(ph.Block()), n+" verdict is not reset to true", c.InstrPos(ph), "", "the verdict is set back to true on a path")
				}
			}
		}
	}
}

func c12BufferReset(c *core.Ctx) {
	fn := c.Fn("haproxy/template", "Config.WriteOutput")
	if fn == nil {
		return
	}
	isReset := func(in ssa.Instruction) bool {
		call, ok := in.(*ssa.Call)
		return ok && core.CalleeName(&call.Call) == "(*bytes.Buffer).Reset"
	}
	n := 0
	for _, s := range core.Calls(fn, false) {
		if core.CalleeName(s.Common()) != "(*text/template.Template).Execute" {
			continue
		}
		n++
		exec := s.Instr
		// within the iteration: from the loop body start to Execute, a Reset of the same buffer
		ok := false
		for _, in := range exec.Block().Instrs {
			if in == exec {
				break
			}
			if isReset(in) && core.Key(in.(*ssa.Call).Call.Args[0]) == core.Key(core.Unwrap(s.Common().Args[len(s.Common().Args)-2])) {
				ok = true
			}
		}
		if !ok {
			// or dominating within the loop body
			w := core.MustPrecede(fn, isReset, func(x ssa.Instruction) bool { return x == exec })
			ok = w == nil && false
		}
		c.Check(ok, "WriteOutput resets the buffer before rendering", at(c, exec), "Reset precedes Execute in the same iteration", "the render buffer is not reset right before the template is executed: after a failed write its old content is still there and prefixes the next file (two `global` sections)")
	}
	if n == 0 {
		c.Violated("WriteOutput resets the buffer before rendering", c.Pos(fn.Pos()), "no template execution found")
	}
}

func c04PairsExhaustive(c *core.Ctx) {
	fn := c.Fn("haproxy/types", "HostsMap.rebuildMatchFiles")
	if fn == nil {
		return
	}
	// index loops over entryList: headers whose condition compares with len(entryList...)
	n := 0
	for _, b := range fn.Blocks {
		ifi, ok := b.Instrs[len(b.Instrs)-1].(*ssa.If)
		if !ok {
			continue
		}
		k := core.Key(ifi.Cond)
		if !strings.Contains(k, "< builtin:len(") {
			continue
		}
		// role: the loop bound is the length of (a slice of) the entry list of one host, i.e. of the
		// element of the range over HostsMap.rawhosts
		bo, isBO := ifi.Cond.(*ssa.BinOp)
		if !isBO {
			continue
		}
		if l := sliceLeaves(c.Env, bo.Y, 0); !leavesContain(l, "range:hm.rawhosts") && !leavesContain(l, ".rawhosts") {
			continue
		}
		// natural loop of this header
		body := map[*ssa.BasicBlock]bool{}
		var stack []*ssa.BasicBlock
		for _, p := range b.Preds {
			if b.Dominates(p) && p != b {
				body[p] = true
				stack = append(stack, p)
			}
		}
		if len(stack) == 0 {
			continue
		}
		for len(stack) > 0 {
			x := stack[len(stack)-1]
			stack = stack[:len(stack)-1]
			for _, p := range x.Preds {
				if p != b && !body[p] && b.Dominates(p) {
					body[p] = true
					stack = append(stack, p)
				}
			}
		}
		n++
		exits := 0
		for x := range body {
			for _, s := range x.Succs {
				if !body[s] && s != b {
					exits++
				}
			}
		}
		c.Check(exits == 0, fmt.Sprintf("pair loop at %s is exhaustive", c.InstrPos(ifi)), c.InstrPos(ifi), "the loop is left only through its exhaustion", fmt.Sprintf("%d early exit(s) (break/return) from a loop over a host's entries: some pairs are never compared, so a longer path can stay in a file below its shorter ancestor", exits))
	}
	if n < 2 {
		c.Violated("pair loops found", c.Pos(fn.Pos()), fmt.Sprintf("%d loops over a host's entry list found, expected the outer and the inner one", n))
	}
}

func c05TCPPortDirty(c *core.Ctx) {
	for _, fn := range c.SrcFuncs() {
		if core.PkgOf(fn) != "haproxy/types" || fn.Signature.Recv() == nil || !strings.HasSuffix(fn.Signature.Recv().Type().String(), "types.TCPServices") {
			continue
		}
		isSet := func(in ssa.Instruction) bool {
			st, ok := in.(*ssa.Store)
			if !ok {
				return false
			}
			o, f := core.FieldOf(st.Addr)
			return f == "changed" && strings.HasSuffix(o, "types.TCPServices") && core.IsConstBool(st.Val, true)
		}
		for _, b := range fn.Blocks {
			for _, in := range b.Instrs {
				mut := ""
				switch x := in.(type) {
				case *ssa.Store:
					if o, f := core.FieldOf(x.Addr); strings.HasSuffix(o, "types.TCPServicePort") && (f == "defaultHost" || f == "hosts") {
						if _, fresh := rootOf(x.Addr).(*ssa.Alloc); !fresh {
							mut = f
						}
					}
				case *ssa.MapUpdate:
					if u, ok := x.Map.(*ssa.UnOp); ok {
						if o, f := core.FieldOf(u.X); strings.HasSuffix(o, "types.TCPServicePort") && f == "hosts" {
							mut = "hosts[]"
						}
					}
				case *ssa.Call:
					if core.CalleeName(&x.Call) == "builtin:delete" {
						if u, ok := x.Call.Args[0].(*ssa.UnOp); ok {
							if o, f := core.FieldOf(u.X); strings.HasSuffix(o, "types.TCPServicePort") && f == "hosts" {
								mut = "delete hosts[]"
							}
						}
					}
				}
				if mut == "" {
					continue
				}
				c.Touch(fn)
				sameBlock := false
				for _, i2 := range in.Block().Instrs {
					if isSet(i2) {
						sameBlock = true
					}
				}
				ok := sameBlock || core.MustFollow(fn, in, isSet) == nil || core.MustPrecede(fn, isSet, func(x ssa.Instruction) bool { return x == in }) == nil
				c.Check(ok, core.FuncName(fn)+" mutates a tcp port ("+mut+")", at(c, in), "sets changed on that path", "a TCP service port is mutated ("+mut+") without setting `changed`: the update is taken for a no-op and the stale service stays in haproxy.cfg")
			}
		}
	}
}

func c05ShardLoopComplete(c *core.Ctx) {
	fn := c.Fn("haproxy", "instance.writeConfig")
	if fn == nil {
		return
	}
	for _, s := range core.Calls(fn, false) {
		n := core.CalleeName(s.Common())
		if !(strings.HasSuffix(n, "template.Config).WriteOutput") && strings.Contains(core.Key(s.Common().Args[0]), "haproxyTmpl")) {
			continue
		}
		bad := ""
		for _, g := range guardsOf(s.Instr) {
			k := g.Key
			switch {
			case strings.HasSuffix(k, "!= nil)") && !g.Branch: // earlier error checks
			case strings.Contains(k, "< builtin:len("): // loop conditions
			case strings.HasSuffix(k, ".BackendShards > 0)") && g.Branch:
			case strings.Contains(k, "builtin:len(") && strings.Contains(k, "ChangedShards") && strings.HasSuffix(k, "> 0)") && g.Branch:
			default:
				bad = k
			}
		}
		c.Check(bad == "", "every changed shard's file is written", at(c, s.Instr), "", "the shard file write is conditional on `"+bad+"`: a changed shard (e.g. one that lost all backends) keeps its old file")
	}
}

func c07PassthroughCount(c *core.Ctx) {
	rel := c.Fn("haproxy/types", "Hosts.releaseHost")
	if rel == nil {
		return
	}
	n := 0
	for _, f := range c.SrcFuncs() {
		for _, s := range core.Calls(f, false) {
			if s.Common().StaticCallee() == rel {
				n++
				c.Check(strings.HasSuffix(core.FuncName(f), "Hosts).RemoveAll"), "releaseHost caller "+core.FuncName(f), at(c, s.Instr), "", "releaseHost is also called here: a host removed once is released twice and the ssl-passthrough counter drops below the number of passthrough hosts, so `backend _redirect_https` is not emitted while maps still reference it")
			}
		}
	}
	c.Check(n >= 1, "releaseHost is called on removal", c.Pos(rel.Pos()), "", "releaseHost has no caller")
	ws := writersOf(c.Env, "haproxy/types.Hosts", "sslPassthroughCount")
	var bad []string
	for f := range ws {
		if !strings.HasSuffix(f, "Host).SetSSLPassthrough") && !strings.HasSuffix(f, "Hosts).releaseHost") {
			bad = append(bad, f)
		}
	}
	c.Check(len(bad) == 0, "writers of the ssl-passthrough counter", "", "", "unexpected writers: "+strings.Join(bad, ", "))
}

func c07DefaultBackendLive(c *core.Ctx) {
	fn := c.Fn("haproxy/types", "Backends.RemoveAll")
	if fn == nil {
		return
	}
	ok := false
	for _, st := range fieldStores(fn, false, "haproxy/types.Backends", "DefaultBackend") {
		if core.IsNilConst(st.Val) && guardedBy(st, has(" == b.DefaultBackend)"), true) {
			ok = true
		}
	}
	c.Check(ok, "RemoveAll clears a removed default backend", c.Pos(fn.Pos()), "", "Backends.DefaultBackend keeps pointing to a backend that was removed from items: `default_backend <id>` names a section that is not rendered")
}

func c09ResourceNameTable(c *core.Ctx) {
	fn := c.Fn("converters/ingress/annotations", "ConfigValue.ResourceName")
	if fn == nil {
		return
	}
	t := core.ExtractTable(fn)
	b, err := t.Bind(matchers{
		"tooMany": has("builtin:len(strings.Split(", "> 2)"),
		"hasSrc":  has("cv.Source != nil)"),
		"two":     has("builtin:len(strings.Split(", "== 2)"),
	})
	if t.Err != "" || err != nil {
		c.Undecided("ConfigValue.ResourceName", c.Pos(fn.Pos()), fmt.Sprint(t.Err, err))
		return
	}
	cl := t.ReturnClasses(func(r *ssa.Return) string {
		res := core.Results(r)
		if !core.IsNilConst(res[2]) {
			return "error"
		}
		k := core.Key(res[0])
		switch {
		case strings.HasSuffix(k, ".Namespace"):
			return "source-ns"
		case k == `""`:
			return "none"
		}
		return "?" + k
	})
	ok, diff, rows := t.CompareClasses(cl, b, func(v map[string]bool) string {
		if v["tooMany"] && v["two"] {
			return "" // infeasible
		}
		if v["tooMany"] {
			return "error"
		}
		if v["hasSrc"] {
			return "source-ns"
		}
		if v["two"] {
			return "none"
		}
		return "error"
	})
	c.Check(ok, "ConfigValue.ResourceName", c.Pos(fn.Pos()), fmt.Sprintf("default namespace is the source's whenever a source exists (%d rows)", rows), "an annotation value can be resolved without the reader's namespace, so the cross-namespace check is skipped: "+diff)
}

func c09BitsCurrent(c *core.Ctx) {
	fn := c.Fn("converters/ingress", "converter.syncFull")
	if fn == nil {
		return
	}
	upd := callNamed("annotations.Updater.UpdateGlobalConfig")
	sync := staticCallTo(c.Env.Func("converters/ingress", "converter.syncIngress"))
	c.Check(core.Reaches(fn, nil, upd) != nil, "syncFull updates the global configuration", c.Pos(fn.Pos()), "", "UpdateGlobalConfig is not called")
	w := core.MustPrecede(fn, upd, sync)
	c.Check(w == nil, "permission bits are current before ingresses are parsed", c.Pos(fn.Pos()), "UpdateGlobalConfig < syncIngress", "an Ingress can be parsed before UpdateGlobalConfig recomputed the cross-namespace bits: a key just changed to deny still lets foreign secrets/services in for this sync")
	// and buildGlobalDynamic is part of UpdateGlobalConfig
	if u := c.Fn("converters/ingress/annotations", "updater.UpdateGlobalConfig"); u != nil {
		dyn := c.Env.Func("converters/ingress/annotations", "updater.buildGlobalDynamic")
		c.Check(core.MustPrecede(u, staticCallTo(dyn), core.IsReturn) == nil, "UpdateGlobalConfig recomputes the bits", c.Pos(u.Pos()), "", "buildGlobalDynamic is not called on every path")
	}
}

func c10ListenerContinue(c *core.Ctx) {
	for _, n := range []string{"converter.syncHTTPRouteGateway", "converter.syncTCPRouteGateway"} {
		fn := c.Fn("converters/gateway", n)
		if fn == nil {
			continue
		}
		found := false
		for _, b := range fn.Blocks {
			ifi, ok := b.Instrs[len(b.Instrs)-1].(*ssa.If)
			if !ok {
				continue
			}
			k := core.Key(ifi.Cond)
			isDeny := strings.Contains(k, "checkListenerAllowed(") && strings.HasSuffix(k, "!= nil)")
			isSection := strings.Contains(k, "sectionName != ") && strings.HasSuffix(k, ".Name)")
			if !isDeny && !isSection {
				continue
			}
			found = true
			// from the rejecting (true) edge: the next loop header reached must be the listeners' loop (a back edge), not the loop's exit
			tb := b.Succs[0]
			x := tb
			steps := 0
			okBack := false
			for x != nil && steps < 6 {
				if len(x.Succs) == 1 {
					if core.IsBackEdge(x, x.Succs[0]) {
						okBack = true
						break
					}
					x = x.Succs[0]
				} else if len(x.Succs) == 0 {
					break
				} else {
					// a block ending in a branch: if it is a loop header (we arrived by a back edge) we are fine
					break
				}
				steps++
			}
			if !okBack && core.IsBackEdge(b, tb) {
				okBack = true
			}
			what := "a listener that does not admit the route"
			if isSection {
				what = "a listener whose name differs from sectionName"
			}
			c.Check(okBack, n+": "+what+" is skipped, not the rest", at(c, ifi), "the rejecting edge continues with the next listener", what+" ends the iteration: later listeners of the Gateway that admit the route produce no configuration")
		}
		if !found {
			c.Violated(n+" listener filter", c.Pos(fn.Pos()), "no admission test found")
		}
	}
}

func c15PemRewritten(c *core.Ctx) {
	fn := c.Fn("controller/services", "SSL.buildCertFromCrtAndKey")
	if fn == nil {
		return
	}
	n := 0
	for _, s := range core.Calls(fn, false) {
		if core.CalleeName(s.Common()) != "os.WriteFile" {
			continue
		}
		n++
		bad := ""
		for _, g := range guardsOf(s.Instr) {
			if strings.Contains(g.Key, "os.Stat(") || strings.Contains(g.Key, ".Size()") || strings.Contains(g.Key, "ModTime") {
				bad = g.Key
			}
		}
		c.Check(bad == "", "the pem file is written whenever its content was computed", at(c, s.Instr), "", "the pem write is skipped depending on the file already on disk (`"+bad+"`): a rotated certificate of the same size keeps the old file while the model reports the new hash")
	}
	c.Check(n > 0, "buildCertFromCrtAndKey writes the pem file", c.Pos(fn.Pos()), "", "no os.WriteFile call")
}

func c16LabelPresent(c *core.Ctx) {
	fn := c.Fn("converters/ingress/annotations", "updater.buildBackendBlueGreenBalance")
	if fn == nil {
		return
	}
	n := 0
	for _, st := range fieldStores(fn, false, "haproxy/types.Endpoint", "Weight") {
		k := core.Key(st.Val)
		if !strings.HasSuffix(k, ".cl.Weight") || strings.Contains(k, "makeslice") {
			continue
		}
		n++
		okFound := guardedBy(st, has(".Labels[", ",ok#1"), true)
		okEq := guardedBy(st, has(".Labels[", ",ok#0 == ", ".labelValue)"), true)
		c.Check(okFound && okEq, "an endpoint joins a group only with the label present and equal", at(c, st), "", "the group weight is assigned without the `found` test of the label lookup: a pod without the label matches a group declared with an empty value")
	}
	c.Check(n > 0, "blue/green label match found", c.Pos(fn.Pos()), "", "no assignment of a group weight to an endpoint")
}

func c16ZeroPreserved(c *core.Ctx) {
	fn := c.Fn("converters/utils", "RebalanceWeight")
	if fn == nil {
		return
	}
	n := 0
	for _, st := range fieldStores(fn, false, "converters/utils.WeightCluster", "Weight") {
		n++
		// leaves of the stored value
		bad := ""
		var walk func(v ssa.Value, from *ssa.BasicBlock, d int)
		walk = func(v ssa.Value, from *ssa.BasicBlock, d int) {
			if d > 6 || v == nil {
				return
			}
			switch x := v.(type) {
			case *ssa.Phi:
				for i, e := range x.Edges {
					walk(e, x.Block().Preds[i], d+1)
				}
			case *ssa.Const:
				if core.Key(x) == "1" {
					if !blockGuarded(from, func(g guard) bool {
						bo, ok := g.Cond.(*ssa.BinOp)
						return ok && bo.Op == token.GTR && strings.HasSuffix(core.Key(bo.X), ".Weight") && core.Key(bo.Y) == "0" && g.Branch
					}) {
						bad = "the floor value 1 is assigned without the `cl.Weight > 0` guard"
					}
				}
			case *ssa.Call:
				nme := core.CalleeName(&x.Call)
				if nme == "builtin:max" || nme == "builtin:min" {
					bad = "the weight is computed with " + nme + ": a cluster configured with weight 0 can be raised to a positive weight"
				}
			case *ssa.Convert:
				walk(x.X, from, d+1)
			}
		}
		walk(st.Val, st.Block(), 0)
		c.Check(bad == "", "RebalanceWeight keeps a zero weight at zero", at(c, st), "", bad)
	}
	c.Check(n > 0, "RebalanceWeight stores weights", c.Pos(fn.Pos()), "", "no store to WeightCluster.Weight")
}

func init() {
	addRule("C18", &core.Rule{ID: "C18.name-from-successful-acquire", Floor: 1, Run: c18NameFromSuccess,
		Doc: "Per acquire call A whose first result can be the stored AuthBackendName: every path from A to the point where A's result is selected (the store, or the phi edge that carries it) passes the nil-error edge of A's own error check. A retry whose result is assigned to a shadowed variable leaves the failed acquire's empty name in place."})
	addRule("C18", &core.Rule{ID: "C18.declaration-not-dropped", Floor: 1, Run: c18DeclarationNotDropped,
		Doc: "The keys that declare external authentication (auth-url, oauth) have no annotation validator: a validator that rejects a malformed value makes the mapper drop the annotation, the `declared` test turns false and the path is served without the deny that a malformed declaration must produce."})
	addRule("C15", &core.Rule{ID: "C15.pem-always-written", Floor: 1, Run: c15PemAlwaysWritten,
		Doc: "buildCertFromCrtAndKey: every successful return is preceded by the write of the pem file on all paths."})
}

func c18NameFromSuccess(c *core.Ctx) {
	fn := c.Fn("converters/ingress/annotations", "updater.setAuthExternal")
	if fn == nil {
		return
	}
	type src struct {
		call   *ssa.Call
		anchor ssa.Instruction // the store, or the first instruction of the phi block
		via    *ssa.BasicBlock // for a phi edge: the predecessor the value comes through
		into   *ssa.BasicBlock
	}
	n := 0
	for _, st := range fieldStores(fn, false, "haproxy/types.AuthExternal", "AuthBackendName") {
		var srcs []src
		seen := map[ssa.Value]bool{}
		var walk func(v ssa.Value, anchor ssa.Instruction, via, into *ssa.BasicBlock)
		walk = func(v ssa.Value, anchor ssa.Instruction, via, into *ssa.BasicBlock) {
			if v == nil {
				return
			}
			switch x := v.(type) {
			case *ssa.Extract:
				if call, ok := x.Tuple.(*ssa.Call); ok && x.Index == 0 {
					srcs = append(srcs, src{call, anchor, via, into})
				}
			case *ssa.Phi:
				if seen[x] {
					return
				}
				seen[x] = true
				for i, e := range x.Edges {
					walk(e, x.Block().Instrs[0], x.Block().Preds[i], x.Block())
				}
			}
		}
		walk(st.Val, st, nil, nil)
		if len(srcs) == 0 {
			c.Violated("setAuthExternal AuthBackendName source", at(c, st), "the stored name is not the result of an acquire: "+core.Key(st.Val))
			continue
		}
		for _, s := range srcs {
			n++
			a := s.call
			s := s
			w := core.PathQuery{Fn: fn, Start: a, Target: func(in ssa.Instruction) bool { return in == s.anchor }, EdgeOK: func(from *ssa.BasicBlock, succ int) bool {
				if s.into != nil && from.Succs[succ] == s.into && from != s.via {
					return false // the value is selected only when the phi block is entered through `via`
				}
				ifi, ok := from.Instrs[len(from.Instrs)-1].(*ssa.If)
				if !ok {
					return true
				}
				bo, ok := ifi.Cond.(*ssa.BinOp)
				if !ok {
					return true
				}
				ex, ok := bo.X.(*ssa.Extract)
				if !ok || ex.Tuple != ssa.Value(a) || ex.Index != 1 {
					return true
				}
				// err != nil: forbid the false (success) edge; err == nil: forbid the true edge
				if bo.Op == token.NEQ {
					return succ == 0
				}
				return succ == 1
			}}.Find()
			// the anchor may be the terminator of the block that holds A itself (phi edge from A's block): then the
			// query trivially finds it; that is the failure edge only if the If is A's own error check
			c.Check(w == nil, "AuthBackendName comes from an acquire that succeeded", at(c, a), "the result of this acquire is used only past its own nil-error edge",
				"the name returned by this AcquireAuthBackendName call can be stored although the call failed (its error edge leads to the store, e.g. a retry assigned to a shadowed variable): AlwaysDeny=false with an empty auth backend serves the path unauthenticated; path "+w.Describe(c.Env))
		}
	}
	if n == 0 {
		c.Violated("setAuthExternal AuthBackendName source", c.Pos(fn.Pos()), "no acquire result reaches AuthBackendName")
	}
}

func c18DeclarationNotDropped(c *core.Ctx) {
	p := c.Pkg("converters/ingress/annotations")
	if p == nil {
		c.MissingAnchor("package annotations")
		return
	}
	found := false
	declKeys := map[string]bool{"auth-url": true, "oauth": true, "auth-external-placement": false}
	for _, f := range p.Syntax {
		ast.Inspect(f, func(n ast.Node) bool {
			vs, ok := n.(*ast.ValueSpec)
			if !ok || len(vs.Names) != 1 || vs.Names[0].Name != "validators" || len(vs.Values) != 1 {
				return true
			}
			cl, ok := vs.Values[0].(*ast.CompositeLit)
			if !ok {
				return true
			}
			found = true
			var bad []string
			for _, el := range cl.Elts {
				kv, ok := el.(*ast.KeyValueExpr)
				if !ok {
					continue
				}
				if tv, ok := p.TypesInfo.Types[kv.Key]; ok && tv.Value != nil {
					k := strings.Trim(tv.Value.ExactString(), "\"")
					if declKeys[k] {
						bad = append(bad, k)
					}
				}
			}
			c.Check(len(bad) == 0, "declaration keys have no dropping validator", c.Pos(vs.Pos()), fmt.Sprintf("%d validated keys, none of auth-url/oauth", len(cl.Elts)), "a validator is registered for "+strings.Join(bad, ", ")+": an invalid value is dropped by the mapper before setAuthExternal can turn it into a deny")
			return false
		})
	}
	if !found {
		// the registry was renamed or restructured: look for any map literal keyed by annotation keys with func values
		c.Undecided("declaration keys have no dropping validator", "", "the validators registry was not found")
	}
	// and the mapper is the only consumer that drops on validation failure
	if fn := c.Env.Func("converters/ingress/annotations", "Mapper.addAnnotation"); fn != nil {
		c.Touch(fn)
	}
}

func c15PemAlwaysWritten(c *core.Ctx) {
	fn := c.Fn("controller/services", "SSL.buildCertFromCrtAndKey")
	if fn == nil {
		return
	}
	isWrite := func(in ssa.Instruction) bool {
		call, ok := in.(*ssa.Call)
		return ok && core.CalleeName(&call.Call) == "os.WriteFile"
	}
	n := 0
	for _, ret := range core.Returns(fn) {
		res := core.Results(ret)
		if core.IsNilConst(res[0]) {
			continue
		}
		n++
		w := core.MustPrecede(fn, isWrite, func(in ssa.Instruction) bool { return in == ssa.Instruction(ret) })
		c.Check(w == nil, "a certificate is returned only after its pem file was written", at(c, ret), "", "a path returns the certificate (with the hash of the new content) without writing the pem file: HAProxy keeps loading the previous content; path "+w.Describe(c.Env))
	}
	c.Check(n > 0, "buildCertFromCrtAndKey returns a certificate", c.Pos(fn.Pos()), "", "no successful return found")
}
