package rules

import (
	"fmt"

	"hapverif/internal/core"
)

// Debug prints callee info for a function.
func Debug(env *core.Env, short, name string) {
	fn := env.Func(short, name)
	for _, s := range core.Calls(fn, false) {
		cc := s.Common()
		fmt.Println(core.CalleeName(cc), cc.IsInvoke(), cc.Value.Type().String())
	}
	n := 0
	for _, f := range env.SrcFuncs() {
		if core.FuncName(f) == core.FuncName(fn) {
			n++
		}
	}
	fmt.Println("in SrcFuncs:", n, core.FuncName(fn))
}
