package rules

import (
	"fmt"
	"sort"
	"strings"

	"golang.org/x/tools/go/ssa"

	"hapverif/internal/core"
)

func init() {
	addRule("C12", &core.Rule{ID: "C12.conn-dropped-on-error", Floor: 2, Run: c12ConnDropped,
		Doc: "In sock.Send every return of a (possibly) non-nil error that follows a send attempt passes through s.close(): a connection whose request/response state is unknown is never reused (after a reload it belongs to the old process, which would acknowledge updates the running process never sees)."})
	addRule("C12", &core.Rule{ID: "C12.early-returns", Floor: 4, Run: skipGuards,
		Doc: "Writers of the update path may skip their work only under the reviewed `nothing changed` guards (WriteTCPServicesMaps: tcpservices.Changed; WriteFrontendMaps: Maps != nil && hosts.Changed; WriteBackendMaps: backends.Changed; writeCrtLists, writeConfig, writeBackendsShards-loop: none/shard flags). A new early `return nil` is a write that a retry after a failure can skip."})
	addRule("C05", &core.Rule{ID: "C05.early-returns", Floor: 4, Run: skipGuards, Doc: "Shared with C12: the reviewed table of early returns of the file writers."})
	addRule("C13", &core.Rule{ID: "C13.limiter-state-writers", Floor: 2, Run: c13LimiterWriters,
		Doc: "The `last` deadline of both rate limiters is written only by their When method (Forget / NumRequeues are pure): a granted slot cannot be overwritten by the end of a run."})
	addRule("C13", &core.Rule{ID: "C13.reload-only-queued", Floor: 2, Run: c13ReloadOnlyQueued,
		Doc: "In HAProxyUpdate the direct call of Reload executes only when no reload queue is configured, and the enqueue executes under no other condition than `a queue is configured` (besides the reload decision itself): no reload bypasses the limiter."})
}

func c12ConnDropped(c *core.Ctx) {
	fn := c.Fn("haproxy/socket", "sock.Send")
	if fn == nil {
		return
	}
	isClose := func(in ssa.Instruction) bool {
		if call, ok := in.(*ssa.Call); ok {
			return strings.HasSuffix(core.CalleeName(&call.Call), "socket.sock).close")
		}
		return false
	}
	n := 0
	for _, s := range core.Calls(fn, false) {
		if !strings.HasSuffix(core.CalleeName(s.Common()), "socket.sock).send") {
			continue
		}
		n++
		// the error of this send
		w := core.PathQuery{Fn: fn, Start: s.Instr,
			Target: func(in ssa.Instruction) bool {
				r, ok := in.(*ssa.Return)
				if !ok || core.IsRecoverBlock(r.Block()) {
					return false
				}
				res := core.Results(r)
				return len(res) == 2 && !core.IsNilConst(res[1])
			},
			Barrier: func(in ssa.Instruction) bool {
				if isClose(in) {
					return true
				}
				// another send starts a new obligation
				if call, ok := in.(*ssa.Call); ok && in != s.Instr {
					return strings.HasSuffix(core.CalleeName(&call.Call), "socket.sock).send")
				}
				return false
			}}.Find()
		key := "sock.Send: failed `" + strings.Trim(core.Key(s.Common().Args[1]), `"`) + "` drops the connection"
		if w != nil {
			c.Violated(key, at(c, s.Instr), "an error return is reachable without s.close(): "+w.Describe(c.Env))
		} else {
			c.Held(key, at(c, s.Instr), "")
		}
	}
	c.Check(n >= 2, "sock.Send send sites", c.Pos(fn.Pos()), "", "fewer than 2 send sites")
}

// skipTable: function -> sorted guard keys under which it returns nil early.
var skipTable = map[string][]string{
	"(*haproxy.config).WriteTCPServicesMaps": {"!TCPServices.Changed"},
	"(*haproxy.config).WriteFrontendMaps":    {"!Hosts.Changed && frontend.Maps != nil"},
	"(*haproxy.config).WriteBackendMaps":     {"!Backends.Changed"},
	"(*haproxy.instance).writeCrtLists":      {},
	"(*haproxy.instance).writeConfig":        {},
}

func skipGuards(c *core.Ctx) {
	for _, name := range sortedKeys(skipTable) {
		short := strings.TrimSuffix(strings.TrimPrefix(name, "(*haproxy."), "")
		short = strings.Replace(short, ").", ".", 1)
		fn := c.Fn("haproxy", short)
		if fn == nil {
			continue
		}
		// early returns of a nil error: returns of const nil that are not dominated by any call that can fail
		// (a file write or template execution) — i.e. the function returns nil before doing its work
		var got []string
		for _, r := range core.Returns(fn) {
			res := core.Results(r)
			if len(res) != 1 || !core.IsNilConst(res[0]) {
				continue
			}
			// work before this return on every path? find a path entry -> r that crosses no call returning error
			w := core.PathQuery{Fn: fn, Target: func(in ssa.Instruction) bool { return in == ssa.Instruction(r) },
				Barrier: func(in ssa.Instruction) bool {
					call, ok := in.(*ssa.Call)
					if !ok {
						return false
					}
					sig := call.Call.Signature()
					if sig.Results().Len() == 0 {
						return false
					}
					last := sig.Results().At(sig.Results().Len() - 1).Type().String()
					return last == "error"
				}}.Find()
			if w == nil {
				continue // every path to this return performed a fallible step: the normal end of the writer
			}
			// guards of the early return
			var gs []string
			for _, g := range guardsOf(r) {
				k := g.Key
				if strings.Contains(k, "next(range(") || strings.Contains(k, "phi{") {
					continue // loop conditions: the loop ran zero times or ended
				}
				k = normGuard(k)
				if !g.Branch {
					k = "!" + k
				}
				k = strings.TrimPrefix(k, "!!")
				gs = append(gs, k)
			}
			sort.Strings(gs)
			if len(gs) == 0 {
				// loops that may run zero times reach the final return without work: not an early return
				continue
			}
			got = append(got, strings.Join(gs, " && "))
		}
		sort.Strings(got)
		want := skipTable[name]
		c.Check(strings.Join(got, " | ") == strings.Join(want, " | "), name+" skips only under the reviewed guards", c.Pos(fn.Pos()),
			fmt.Sprintf("early returns: %q", got),
			fmt.Sprintf("the writer returns nil before doing its work under %q, reviewed: %q — an update (or the retry of a failed one) can skip rewriting this file", got, want))
	}
}

func c13LimiterWriters(c *core.Ctx) {
	for _, typ := range []string{"ingressReconciler", "reloadHAProxy"} {
		writers := map[string]bool{}
		for _, fn := range c.SrcFuncs() {
			if core.PkgOf(fn) != "utils/workqueue" {
				continue
			}
			for _, b := range fn.Blocks {
				for _, in := range b.Instrs {
					st, ok := in.(*ssa.Store)
					if !ok {
						continue
					}
					o, f := core.FieldOf(st.Addr)
					if f == "last" && strings.Contains(o, "workqueue."+typ) {
						if _, fresh := rootOf(st.Addr).(*ssa.Alloc); !fresh {
							writers[core.FuncName(fn)] = true
							c.Touch(fn)
						}
					}
				}
			}
		}
		var bad []string
		n := 0
		for w := range writers {
			n++
			if !strings.HasSuffix(w, ").When") {
				bad = append(bad, w)
			}
		}
		sort.Strings(bad)
		c.Check(n > 0 && len(bad) == 0, typ+".last is written only by When", "", "", "also written by "+strings.Join(bad, ", ")+fmt.Sprintf(" (%d writers): a slot already granted to a queued item is overwritten, the next item is released too early", n))
	}
}

func c13ReloadOnlyQueued(c *core.Ctx) {
	fn := c.Fn("haproxy", "instance.HAProxyUpdate")
	if fn == nil {
		return
	}
	allowed := func(k string) bool {
		k = strings.TrimLeft(k, "!")
		switch {
		case strings.Contains(k, "ReloadQueue != nil"), strings.Contains(k, "ReloadQueue == nil"):
			return true
		case strings.Contains(k, "dynUpdater).update("):
			return true
		case strings.Contains(k, "cmdCnt"):
			return true
		case strings.HasSuffix(k, " != nil)") || strings.HasSuffix(k, " == nil)"): // error checks of the writers
			return !strings.Contains(k, "i.") || strings.Contains(k, "(")
		case strings.Contains(k, "SortEndpointsBy"), strings.Contains(k, "options.fake"):
			return true
		}
		return false
	}
	var add, direct ssa.Instruction
	for _, s := range core.Calls(fn, false) {
		n := core.CalleeName(s.Common())
		if s.Common().IsInvoke() && s.Common().Method.Name() == "Add" && strings.Contains(core.Key(s.Common().Value), "ReloadQueue") {
			add = s.Instr
		}
		if strings.HasSuffix(n, "haproxy.instance).Reload") {
			direct = s.Instr
		}
	}
	if add == nil {
		c.Violated("HAProxyUpdate enqueues the reload", c.Pos(fn.Pos()), "no ReloadQueue.Add call")
		return
	}
	var extra []string
	queued := false
	for _, g := range guardsOf(add) {
		if strings.Contains(g.Key, "ReloadQueue != nil") && g.Branch {
			queued = true
		}
		if !allowed(g.Key) {
			extra = append(extra, g.Key)
		}
	}
	c.Check(queued && len(extra) == 0, "HAProxyUpdate enqueues the reload whenever a queue is configured", at(c, add), "", "the enqueue is additionally conditioned on "+strings.Join(extra, ", ")+": when that does not hold the reload runs directly, outside the limiter")
	if direct != nil {
		c.Check(guardedBy(direct, has("ReloadQueue != nil"), false) || guardedBy(direct, has("ReloadQueue == nil"), true), "HAProxyUpdate reloads directly only without a queue", at(c, direct), "", "the direct Reload call is reachable while a reload queue is configured")
	} else {
		c.Held("HAProxyUpdate reloads directly only without a queue", c.Pos(fn.Pos()), "no direct reload")
	}
}

// normGuard shortens a guard key: `(*pkg.T).M(recv…)` -> `T.M`, `(&c.x.y != nil)` -> `x.y != nil`.
func normGuard(k string) string {
	if strings.HasPrefix(k, "(*") {
		if i := strings.Index(k, ")."); i > 0 {
			typ := k[2:i]
			if j := strings.LastIndex(typ, "."); j >= 0 {
				typ = typ[j+1:]
			}
			rest := k[i+2:]
			if j := strings.Index(rest, "("); j >= 0 {
				return typ + "." + rest[:j]
			}
		}
	}
	k = strings.TrimSuffix(strings.TrimPrefix(k, "("), ")")
	k = strings.TrimPrefix(k, "&")
	for _, p := range []string{"c.", "i."} {
		k = strings.TrimPrefix(k, p)
	}
	return k
}

func init() {
	doc := "backendsMatch (used by Backends.Shrink to drop a deleted+added pair as unchanged) is exact: equal pointers' DeepEqual returns true; otherwise only PathsMap, pathConfig and Endpoints are masked before the struct comparison; the endpoint multiset comparison keys its map by the whole Endpoint value (no field is blanked), skips only empty slots, rejects an endpoint of the second list missing from the first and one of the first never seen in the second. Hosts.Shrink compares with reflect.DeepEqual of the whole host."
	for _, p := range []string{"C02", "C05", "C16"} {
		addRule(p, &core.Rule{ID: p + ".shrink-match", Floor: 8, Run: shrinkMatch, Doc: doc})
	}
}

func shrinkMatch(c *core.Ctx) {
	fn := c.Fn("haproxy/types", "backendsMatch")
	if fn == nil {
		return
	}
	mf := maskedFields(fn, "b1copy")
	c.Check(strings.Join(mf, ",") == "Endpoints,PathsMap,pathConfig", "backendsMatch masks only PathsMap, pathConfig and Endpoints", c.Pos(fn.Pos()), "", "fields masked before the comparison: "+strings.Join(mf, ",")+" — a change of a masked field is treated as `unchanged`, the new value is never written")
	// map operations on the endpoint set
	wholeEndpoint := func(v ssa.Value) bool {
		u, ok := v.(*ssa.UnOp)
		if !ok || u.Op.String() != "*" {
			return false
		}
		k := core.Key(u.X)
		return strings.Contains(k, ".Endpoints[") && strings.HasSuffix(u.Type().String(), "haproxy/types.Endpoint")
	}
	nUpd, nLook := 0, 0
	for _, b := range fn.Blocks {
		for _, in := range b.Instrs {
			switch x := in.(type) {
			case *ssa.MapUpdate:
				if !strings.Contains(x.Map.Type().String(), "Endpoint]bool") {
					continue
				}
				nUpd++
				side := "first"
				if strings.Contains(core.Key(x.Key), "back2.") {
					side = "second"
				}
				c.Check(wholeEndpoint(x.Key), "backendsMatch records the whole endpoint ("+side+" list)", at(c, x), "", "the set is keyed by `"+core.Key(x.Key)+"`, not by the whole Endpoint value: endpoints that differ in a dropped field (weight, name, cookie…) are taken as equal")
				c.Check(guardedBy(x, has("Endpoint).IsEmpty("), false), "backendsMatch skips only empty slots ("+side+" list)", at(c, x), "", "the endpoint is recorded without the !IsEmpty guard")
				want := side == "second"
				c.Check(core.IsConstBool(x.Value, want), "backendsMatch marks "+side+"-list endpoints "+fmt.Sprint(want), at(c, x), "", "stored mark is "+core.Key(x.Value))
			case *ssa.Lookup:
				if !strings.Contains(x.X.Type().String(), "Endpoint]bool") {
					continue
				}
				nLook++
				c.Check(wholeEndpoint(x.Index), "backendsMatch looks the whole endpoint up", at(c, x), "", "the lookup key is `"+core.Key(x.Index)+"`")
				// not found -> return false
				ok := false
				for _, r := range core.Returns(fn) {
					if core.IsConstBool(core.Results(r)[0], false) && guardedBy(r, func(k string) bool { return strings.HasSuffix(k, ",ok#1") }, false) {
						ok = true
					}
				}
				c.Check(ok, "backendsMatch rejects an endpoint missing from the first list", at(c, x), "", "no `return false` when the lookup fails")
			}
		}
	}
	c.Check(nUpd == 2 && nLook == 1, "backendsMatch endpoint set operations", c.Pos(fn.Pos()), "", fmt.Sprintf("%d map updates, %d lookups (expected 2 and 1)", nUpd, nLook))
	// every return true/false table of the straight-line prefix
	okEq, okNe, okUnseen := false, false, false
	for _, r := range core.Returns(fn) {
		v := core.Results(r)[0]
		switch {
		case core.IsConstBool(v, true) && guardedBy(r, has("reflect.DeepEqual(back1, back2)"), true):
			okEq = true
		case core.IsConstBool(v, false) && guardedBy(r, has("reflect.DeepEqual(&", ", back2)"), false):
			okNe = true
		case core.IsConstBool(v, false) && guardedBy(r, has("next(range(", "#2"), false):
			okUnseen = true
		}
	}
	c.Check(okEq, "backendsMatch: deep-equal backends match", c.Pos(fn.Pos()), "", "missing `return true` under DeepEqual(back1, back2)")
	c.Check(okNe, "backendsMatch: a difference outside the masked fields does not match", c.Pos(fn.Pos()), "", "missing `return false` under !DeepEqual(&b1copy, back2)")
	c.Check(okUnseen, "backendsMatch: an endpoint of the first list never seen in the second does not match", c.Pos(fn.Pos()), "", "missing `return false` for an unmarked endpoint")
	// Shrink conditions
	if sh := c.Fn("haproxy/types", "Backends.Shrink"); sh != nil {
		for _, s := range core.CallsNamed(sh, false, "haproxy/types.backendsMatch") {
			c.Check(guardedBy(s.Instr, has("builtin:len(", ".Endpoints) <= builtin:len("), true), "Backends.Shrink compares only when the added backend does not have more slots", at(c, s.Instr), "", "backendsMatch is evaluated without the `len(add.Endpoints) <= len(del.Endpoints)` guard")
		}
		for _, s := range core.Calls(sh, false) {
			if core.CalleeName(s.Common()) == "builtin:delete" {
				c.Check(guardedBy(s.Instr, has("backendsMatch("), true), "Backends.Shrink drops a pair only when it matches: "+core.Key(s.Common().Args[0]), at(c, s.Instr), "", "the tracker entry is deleted without a successful backendsMatch")
			}
		}
	}
	if sh := c.Fn("haproxy/types", "Hosts.Shrink"); sh != nil {
		for _, s := range core.Calls(sh, false) {
			if core.CalleeName(s.Common()) == "builtin:delete" {
				c.Check(guardedBy(s.Instr, has("reflect.DeepEqual(", "#2"), true) || guardedBy(s.Instr, has("reflect.DeepEqual("), true), "Hosts.Shrink drops a pair only when it is deep-equal: "+core.Key(s.Common().Args[0]), at(c, s.Instr), "", "the tracker entry is deleted without a successful DeepEqual of the whole host")
			}
		}
	}
}

// ---------------------------------------------------------------------------
// reviewed error exits of readers

// exitGuardText renders a controlling edge in a short stable form.
func exitGuardText(g guard) string {
	neg := !g.Branch
	v := g.Cond
	for {
		u, ok := v.(*ssa.UnOp)
		if !ok || u.Op.String() != "!" {
			break
		}
		neg = !neg
		v = u.X
	}
	short := func(x ssa.Value) string {
		if e, ok := x.(*ssa.Extract); ok {
			x = e.Tuple
		}
		switch y := x.(type) {
		case *ssa.Call:
			if y.Call.IsInvoke() {
				return y.Call.Method.Name()
			}
			n := core.CalleeName(&y.Call)
			if i := strings.LastIndex(n, "."); i >= 0 {
				n = n[i+1:]
			}
			return n
		case *ssa.Lookup:
			return "lookup " + core.Key(y.Index)
		}
		return core.Key(x)
	}
	if bo, ok := v.(*ssa.BinOp); ok && core.IsNilConst(bo.Y) {
		isNe := bo.Op.String() == "!="
		failed := isNe != neg
		if failed {
			return short(bo.X) + " != nil"
		}
		return short(bo.X) + " == nil"
	}
	if e, ok := v.(*ssa.Extract); ok {
		if _, isLk := e.Tuple.(*ssa.Lookup); isLk && e.Index == 1 {
			if neg {
				return "missing " + short(e)
			}
			return "found " + short(e)
		}
	}
	if bo, ok := v.(*ssa.BinOp); ok {
		op := bo.Op.String()
		if neg {
			op = map[string]string{"==": "!=", "!=": "==", "<": ">=", ">=": "<", ">": "<=", "<=": ">"}[op]
		}
		return shortVal(bo.X) + " " + op + " " + shortVal(bo.Y)
	}
	k := shortVal(v)
	if neg {
		return "!" + k
	}
	return k
}

// shortVal renders a value compactly and stably: calls by their short callee name.
func shortVal(v ssa.Value) string {
	switch x := v.(type) {
	case *ssa.Const:
		return core.Key(x)
	case *ssa.Extract:
		return shortVal(x.Tuple) + fmt.Sprintf("#%d", x.Index)
	case *ssa.Call:
		if x.Call.IsInvoke() {
			return x.Call.Method.Name()
		}
		n := core.CalleeName(&x.Call)
		if n == "builtin:len" {
			return "len(" + shortVal(x.Call.Args[0]) + ")"
		}
		if i := strings.LastIndex(n, "."); i >= 0 {
			n = n[i+1:]
		}
		return n
	case *ssa.UnOp:
		if x.Op.String() == "*" {
			return shortVal(x.X)
		}
		return x.Op.String() + shortVal(x.X)
	case *ssa.FieldAddr:
		_, f := core.FieldOf(x)
		return shortVal(x.X) + "." + f
	case *ssa.Field:
		return shortVal(x.X) + ".field"
	case *ssa.Parameter:
		return core.ParamName(x)
	case *ssa.Lookup:
		return "lookup " + core.Key(x.Index)
	}
	return normGuard(core.Key(v))
}

// ErrorExits is errorExits for the debug subcommand.
func ErrorExits(fn *ssa.Function, errIdx int) []string { return errorExits(fn, errIdx) }

// errorExits lists, for every return of a non-nil error, the innermost guard.
func errorExits(fn *ssa.Function, errIdx int) []string {
	var out []string
	for _, r := range core.Returns(fn) {
		res := core.Results(r)
		if errIdx >= len(res) || core.IsNilConst(res[errIdx]) {
			continue
		}
		src := errSource(res[errIdx])
		gs := guardsOf(r)
		if len(gs) == 0 {
			out = append(out, src+" always")
			continue
		}
		t := exitGuardText(gs[0])
		if strings.Contains(t, "next(range(") || strings.Contains(t, "phi{") {
			t = "after the loop"
		}
		out = append(out, src+" when "+t)
	}
	sort.Strings(out)
	return out
}

var errorExitTable = []struct {
	prop, pkg, fn string
	idx           int
	want          []string
	why           string
}{
	{"C17", "controller/services", "c.GetTLSSecretContent", 1, []string{`Errorf when checkValidCertPEM != nil`, `Errorf when missing lookup "tls.crt"`, `get when get != nil`}, "any other error makes the signer take a valid certificate as missing and request it again on every check"},
	{"C15", "converters/gateway", "converter.readCertRef", 1, []string{`Errorf when certRef.Group != "core"`, `Errorf when certRef.Kind != "Secret"`, `GetTLSSecretPath always`}, "a certificate reference of a foreign group or kind must be refused, everything else is the verdict of the cache read"},
	{"C15", "controller/services", "c.GetTLSSecretPath", 1, []string{`Errorf when getCertificate == nil`, `Errorf when getContentProtocol#0 != "secret"`, `Stat when Stat != nil`, `buildResourceName when buildResourceName != nil`, `getCertificate when getCertificate != nil`}, "a dropped or inverted test lets a missing, foreign or malformed object through (or rejects a good one, which falls back to the default certificate / drops the declaration)"},
	{"C15", "controller/legacy", "k8scache.GetTLSSecretPath", 1, []string{`Errorf when GetCertificate == nil`, `Errorf when getContentProtocol#0 != "secret"`, `GetCertificate when GetCertificate != nil`, `Stat when Stat != nil`, `buildResourceName when buildResourceName != nil`}, "a dropped or inverted test lets a missing, foreign or malformed object through (or rejects a good one, which falls back to the default certificate / drops the declaration)"},
	{"C15", "controller/services", "c.GetCASecretPath", 2, []string{`Errorf when getCertificate#0.CAFileName == ""`, `Errorf when getContentProtocol#0 != "secret"`, `Errorf when getContentProtocol#1 == ""`, `Errorf when len(Split) > 2`, `Stat when Stat != nil`, `Stat when Stat != nil`, `buildResourceName when buildResourceName != nil`, `getCertificate when getCertificate != nil`}, "a dropped or inverted test lets a missing, foreign or malformed object through (or rejects a good one, which falls back to the default certificate / drops the declaration)"},
	{"C15", "controller/legacy", "k8scache.GetCASecretPath", 2, []string{`Errorf when GetCertificate#0.CAFileName == ""`, `Errorf when getContentProtocol#0 != "secret"`, `Errorf when getContentProtocol#1 == ""`, `Errorf when len(Split) > 2`, `GetCertificate when GetCertificate != nil`, `Stat when Stat != nil`, `Stat when Stat != nil`, `buildResourceName when buildResourceName != nil`}, "a dropped or inverted test lets a missing, foreign or malformed object through (or rejects a good one, which falls back to the default certificate / drops the declaration)"},
	{"C15", "controller/services", "c.GetPasswdSecretContent", 1, []string{`Errorf when getContentProtocol#0 != "secret"`, `Errorf when missing lookup "auth"`, `Get when Get != nil`, `ReadFile when getContentProtocol#0 == "file"`, `buildResourceName when buildResourceName != nil`}, "a dropped or inverted test lets a missing, foreign or malformed object through (or rejects a good one, which falls back to the default certificate / drops the declaration)"},
	{"C15", "controller/legacy", "k8scache.GetPasswdSecretContent", 1, []string{`Errorf when getContentProtocol#0 != "secret"`, `Errorf when missing lookup "auth"`, `Get when Get != nil`, `ReadFile when getContentProtocol#0 == "file"`, `buildResourceName when buildResourceName != nil`}, "a dropped or inverted test lets a missing, foreign or malformed object through (or rejects a good one, which falls back to the default certificate / drops the declaration)"},
	{"C15", "controller/services", "c.GetDHSecretPath", 1, []string{`Errorf when getContentProtocol#0 != "secret"`, `Errorf when getDHParam != nil`, `Get when Get != nil`, `Stat when Stat != nil`, `buildResourceName when buildResourceName != nil`}, "a dropped or inverted test lets a missing, foreign or malformed object through (or rejects a good one, which falls back to the default certificate / drops the declaration)"},
	{"C15", "controller/legacy", "k8scache.GetDHSecretPath", 1, []string{`Errorf when AddOrUpdateDHParam != nil`, `Errorf when getContentProtocol#0 != "secret"`, `Errorf when missing lookup "dhparam.pem"`, `Get when Get != nil`, `Stat when Stat != nil`, `buildResourceName when buildResourceName != nil`}, "a dropped or inverted test lets a missing, foreign or malformed object through (or rejects a good one, which falls back to the default certificate / drops the declaration)"},
	{"C15", "controller/services", "c.GetService", 1, []string{`Get when buildResourceName == nil`, `buildResourceName when buildResourceName != nil`}, "a dropped or inverted test lets a missing, foreign or malformed object through (or rejects a good one, which falls back to the default certificate / drops the declaration)"},
	{"C15", "controller/legacy", "k8scache.GetService", 1, []string{`Get when buildResourceName == nil`, `buildResourceName when buildResourceName != nil`}, "a dropped or inverted test lets a missing, foreign or malformed object through (or rejects a good one, which falls back to the default certificate / drops the declaration)"},
	{"C15", "controller/services", "c.GetTerminatingPods", 1, []string{`List when List != nil`, `buildLabelSelector when buildLabelSelector != nil`}, "a dropped or inverted test lets a missing, foreign or malformed object through (or rejects a good one, which falls back to the default certificate / drops the declaration)"},
	{"C15", "controller/legacy", "k8scache.GetTerminatingPods", 1, []string{`Errorf when !c.listers.hasPodLister`, `List when List != nil`, `buildLabelSelector when buildLabelSelector != nil`}, "a dropped or inverted test lets a missing, foreign or malformed object through (or rejects a good one, which falls back to the default certificate / drops the declaration)"},
	{"C12", "haproxy", "instance.HAProxyUpdate", 0, []string{`Errorf when WriteBackendMaps != nil`, `Errorf when WriteFrontendMaps != nil`, `Errorf when WriteTCPServicesMaps != nil`, `Errorf when writeConfig != nil`, `Errorf when writeCrtLists != nil`, `Reload when &i.options.ReloadQueue == nil`}, "a failed step that is not reported is never retried: the files on disk and the running process stay behind the model"},
	{"C12", "haproxy", "instance.Reload", 0, []string{`Errorf when reloadHAProxy != nil`}, "a failed step that is not reported is never retried: the files on disk and the running process stay behind the model"},
	{"C12", "haproxy", "instance.writeConfig", 0, []string{`Write when Write != nil`, `Write when Write != nil`, `Write when Write != nil`, `Write/WriteOutput when Write == nil`, `WriteOutput when WriteOutput != nil`, `WriteOutput when WriteOutput != nil`}, "a failed step that is not reported is never retried: the files on disk and the running process stay behind the model"},
	{"C12", "haproxy", "instance.writeCrtLists", 0, []string{`WriteOutput when WriteOutput != nil`}, "a failed step that is not reported is never retried: the files on disk and the running process stay behind the model"},
	{"C12", "haproxy", "config.WriteFrontendMaps", 0, []string{`WriteOutput when WriteOutput != nil`, `writeMaps when writeMaps != nil`}, "a failed step that is not reported is never retried: the files on disk and the running process stay behind the model"},
	{"C12", "haproxy", "config.WriteBackendMaps", 0, []string{`writeMaps when after the loop`}, "a failed step that is not reported is never retried: the files on disk and the running process stay behind the model"},
	{"C12", "haproxy", "config.WriteTCPServicesMaps", 0, []string{`writeMaps when after the loop`}, "a failed step that is not reported is never retried: the files on disk and the running process stay behind the model"},
	{"C12", "haproxy", "writeMaps", 0, []string{`WriteOutput when WriteOutput != nil`}, "a failed step that is not reported is never retried: the files on disk and the running process stay behind the model"},
	{"C17", "controller/legacy", "k8scache.GetTLSSecretContent", 1, []string{`Errorf when Decode == nil`, `Errorf when ParseCertificate != nil`, `Errorf when missing lookup "tls.crt"`, `GetSecret when GetSecret != nil`}, "any other error makes the signer take a valid certificate as missing and request it again on every check"},
}

func init() {
	addRule("C12", &core.Rule{ID: "C12.error-exits", Floor: 8, Run: func(c *core.Ctx) { errorExitRule(c, "C12") },
		Doc: "The update path reports a failure exactly where a step failed: HAProxyUpdate, Reload, writeConfig, writeCrtLists and the three map writers return an error under the reviewed tests (each fallible step's `err != nil`) and nowhere else; an inverted or dropped test turns a failed write into success (no retry) or a good one into an endless retry."})
	addRule("C15", &core.Rule{ID: "C15.reader-exits", Floor: 13, Run: func(c *core.Ctx) { errorExitRule(c, "C15") },
		Doc: "The readers of the cache facades (both runtimes) fail exactly for the reviewed reasons: unsupported protocol, file missing, name not resolvable / not permitted, object not found, key missing, content not parseable. A test that is dropped or inverted changes the list."})
	addRule("C17", &core.Rule{ID: "C17.reader-exits", Floor: 2, Run: func(c *core.Ctx) { errorExitRule(c, "C17") },
		Doc: "The certificate reader used by the signer reports `unreadable` only for the reviewed reasons (secret not found, crt key missing, PEM/x509 not parseable): a new rejection makes verify() re-request valid certificates."})
}

func errorExitRule(c *core.Ctx, prop string) {
	for _, e := range errorExitTable {
		if e.prop != prop {
			continue
		}
		fn := c.Fn(e.pkg, e.fn)
		if fn == nil {
			continue
		}
		// every success return carries a value that was read (not the untouched zero value)
		for _, r := range core.Returns(fn) {
			res := core.Results(r)
			if e.idx >= len(res) || !core.IsNilConst(res[e.idx]) || e.idx == 0 {
				continue
			}
			if strings.HasPrefix(res[0].Type().String(), "[]*") {
				continue // filtered lists are checked by their own rules
			}
			l := sliceLeaves(c.Env, res[0], 0)
			real := false
			for k := range l {
				if strings.HasPrefix(k, "field:") || strings.HasPrefix(k, "call:") || strings.HasPrefix(k, "extract:") || strings.HasPrefix(k, "param:") {
					real = true
				}
			}
			// a named result kept in a local: it must be assigned on every path to this return
			if u, isLoad := res[0].(*ssa.UnOp); isLoad && real {
				if al, isAlloc := u.X.(*ssa.Alloc); isAlloc {
					isStore := func(in ssa.Instruction) bool {
						st, ok := in.(*ssa.Store)
						if !ok || rootOf(st.Addr) != ssa.Value(al) {
							return false
						}
						// `return ca, …` with named results stores the result onto itself
						if ld, isLd := st.Val.(*ssa.UnOp); isLd && ld.X == ssa.Value(al) {
							return false
						}
						return true
					}
					q := core.PathQuery{Fn: fn, Target: func(in ssa.Instruction) bool { return in == ssa.Instruction(r) }, Barrier: isStore}
					if w := q.Find(); w != nil {
						real = false
					}
				}
			}
			c.Check(real, e.pkg+"."+e.fn+" success returns what it read: "+exitGuardsText(r), at(c, r), "", "a nil error is returned together with a value that is not assigned on every path to this return (or derives from nothing): the caller takes an empty result for a successful read; value sources: "+leavesList(l))
		}
		got := errorExits(fn, e.idx)
		c.Check(strings.Join(got, " | ") == strings.Join(e.want, " | "), e.pkg+"."+e.fn+" fails only for the reviewed reasons", c.Pos(fn.Pos()),
			strings.Join(got, " | "), fmt.Sprintf("error exits are [%s], reviewed [%s]: %s", strings.Join(got, " | "), strings.Join(e.want, " | "), e.why))
	}
}

func init() {
	addRule("C01", &core.Rule{ID: "C01.carry", Floor: 4, Run: c14Carry,
		Doc: "Shared with C14: the ConfigMap baseline the next batch is compared with is the content of the last batch that carried one (New if set, else the previous Cur), for the global and the TCP ConfigMap; a stale baseline makes a partial sync parse with old defaults and an edit back to the old content trigger no full sync."})
}

func init() {
	addRule("C18", &core.Rule{ID: "C18.auth-ports", Floor: 5, Run: c07AuthPorts,
		Doc: "Shared with C07: an auth-proxy port (and so the `_auth_<port>` name a path's interception refers to) is never handed to two targets: the bind list stays sorted because the free-port scan assumes ascending ports."})
}

func init() {
	addRule("C19", &core.Rule{ID: "C19.line-split", Floor: 3, Run: c19LineSplit,
		Doc: "The snippet reaches the keyword filter split at every line feed: buildBackendCustomConfig obtains its lines from utils.LineToSlice(config.Value) and LineToSlice splits on the constant \"\\n\" (HAProxy ends a configuration line at every LF, so any other separator lets a second line ride behind a checked first token). The operator's keyword list is built by utils.Split(…, \",\") whose items are passed through strings.TrimSpace."})
}

func c19LineSplit(c *core.Ctx) {
	if fn := c.Fn("utils", "LineToSlice"); fn != nil {
		n := 0
		for _, s := range core.CallsNamed(fn, false, "strings.Split") {
			n++
			sep := s.Common().Args[1]
			c.Check(core.IsConstString(sep, "\n"), "LineToSlice splits on every line feed", at(c, s.Instr), "", "the separator is `"+core.Key(sep)+"`, not the constant \"\\n\": a value can carry a line feed inside one item, and only the first token of the item is checked")
		}
		c.Check(n == 1, "LineToSlice uses strings.Split", c.Pos(fn.Pos()), "", fmt.Sprintf("%d strings.Split calls", n))
	}
	if fn := c.Fn("utils", "Split"); fn != nil {
		ok := false
		for _, b := range fn.Blocks {
			for _, in := range b.Instrs {
				if st, isSt := in.(*ssa.Store); isSt {
					if _, isIdx := st.Addr.(*ssa.IndexAddr); isIdx {
						if call, isCall := st.Val.(*ssa.Call); isCall && core.CalleeName(&call.Call) == "strings.TrimSpace" {
							ok = true
						} else {
							ok = false
							c.Violated("utils.Split trims every item of all white space", at(c, st), "items are stored as `"+core.Key(st.Val)+"`, not strings.TrimSpace(item): a keyword written with a tab or line break next to it never matches a first token")
							return
						}
					}
				}
			}
		}
		c.Check(ok, "utils.Split trims every item of all white space", c.Pos(fn.Pos()), "", "no strings.TrimSpace of the items")
	}
	// wiring: the deny list is built by utils.Split(..., ",")
	n := 0
	for _, x := range [][2]string{{"controller/config", "CreateWithConfig"}, {"controller/legacy", "hc.createDefaultConverterOptions"}} {
		_ = x
	}
	for _, fn := range c.SrcFuncs() {
		pk := core.PkgOf(fn)
		if pk != "controller/config" && pk != "controller/legacy" {
			continue
		}
		for _, s := range core.CallsNamed(fn, false, core.Module+"/pkg/utils.Split", "utils.Split") {
			if strings.Contains(core.Key(s.Common().Args[0]), "DisableConfigKeywords") {
				n++
				c.Touch(fn)
				c.Check(core.IsConstString(s.Common().Args[1], ","), "the keyword list is split at commas in "+core.FuncName(fn), at(c, s.Instr), "", "separator is "+core.Key(s.Common().Args[1]))
			}
		}
	}
	c.Check(n >= 1, "the keyword list is built by utils.Split", "", fmt.Sprintf("%d sites", n), "no utils.Split(…DisableConfigKeywords…) found: the deny list is built some other way")
}

func init() {
	addRule("C07", &core.Rule{ID: "C07.server-ids", Floor: 4, Run: c07ServerIDs,
		Doc: "syncBackendEndpointHashes: the id written to Endpoint.PUID is the very value that was probed for uniqueness and recorded in the used set (same SSA value up to the int32 conversion), the probe leaves the loop only for a non-zero unused value, and the used set lives for the whole backend (allocated outside the endpoint loop)."})
}

func c07ServerIDs(c *core.Ctx) {
	fn := c.Fn("converters/ingress", "converter.syncBackendEndpointHashes")
	if fn == nil {
		return
	}
	strip := func(v ssa.Value) ssa.Value {
		for {
			switch x := v.(type) {
			case *ssa.Convert:
				v = x.X
			case *ssa.ChangeType:
				v = x.X
			default:
				return v
			}
		}
	}
	var recorded, probed ssa.Value
	var setMap ssa.Value
	for _, b := range fn.Blocks {
		for _, in := range b.Instrs {
			switch x := in.(type) {
			case *ssa.MapUpdate:
				if strings.Contains(x.Map.Type().String(), "map[uint32]struct{}") {
					recorded, setMap = x.Key, x.Map
				}
			case *ssa.Lookup:
				if strings.Contains(x.X.Type().String(), "map[uint32]struct{}") && x.CommaOk {
					probed = x.Index
				}
			}
		}
	}
	if recorded == nil || probed == nil {
		c.Violated("server ids are probed and recorded", c.Pos(fn.Pos()), "the used-id set (map[uint32]struct{}) is not both probed and updated")
		return
	}
	c.Check(strip(recorded) == strip(probed), "the recorded id is the probed id", c.Pos(recorded.Pos()), "", "the used set records `"+core.Key(recorded)+"` but the probe tests `"+core.Key(probed)+"`")
	n := 0
	for _, st := range fieldStores(fn, false, "haproxy/types.Endpoint", "PUID") {
		n++
		c.Check(strip(st.Val) == strip(recorded), "the id written to the server is the recorded id", at(c, st), "", "Endpoint.PUID receives `"+core.Key(st.Val)+"` while the used set records `"+core.Key(recorded)+"`: uniqueness is established on a different number than the one written, two servers of a backend can get the same id")
	}
	c.Check(n == 1, "one PUID assignment", c.Pos(fn.Pos()), "", fmt.Sprintf("%d stores to Endpoint.PUID", n))
	// the probe loop exits only when hash != 0 && !exists
	if lk, ok := probed.(ssa.Value); ok && lk != nil {
		exitOK := false
		for _, b := range fn.Blocks {
			for _, in := range b.Instrs {
				mu, isMU := in.(*ssa.MapUpdate)
				if !isMU || mu.Key != recorded {
					continue
				}
				t := core.ExtractTableFrom(fn, nil, nil)
				_ = t
				// guards of the block that records: both `hash != 0` true and `exists` false dominate it
				exitOK = guardedBy(mu, has(" != 0)"), true) && guardedBy(mu, func(k string) bool { return strings.HasSuffix(k, ",ok#1") }, false)
			}
		}
		c.Check(exitOK, "the probe ends only at a non-zero unused id", c.Pos(recorded.Pos()), "", "the id is recorded without `hash != 0 && !exists` on the path")
	}
	// every value that enters the probe is a 31-bit value (haproxy ids are non-negative int32)
	{
		bad := ""
		seen := map[ssa.Value]bool{}
		var walk func(v ssa.Value)
		walk = func(v ssa.Value) {
			v = strip(v)
			if seen[v] {
				return
			}
			seen[v] = true
			switch x := v.(type) {
			case *ssa.Phi:
				for _, e := range x.Edges {
					walk(e)
				}
			case *ssa.Const:
			case *ssa.BinOp:
				if x.Op.String() == "&" && core.Key(x.Y) == "2147483647" {
					return
				}
				bad = core.Key(x)
			default:
				bad = core.Key(v)
			}
		}
		walk(recorded)
		c.Check(bad == "", "server ids are 31-bit values", c.Pos(recorded.Pos()), "", "`"+bad+"` reaches the id without `& 0x7fffffff`: the int32 written can be negative, which haproxy refuses")
	}
	// the used set is allocated outside the endpoint loop
	if mm, ok := setMap.(*ssa.MakeMap); ok {
		c.Check(core.InnermostLoop(fn, mm.Block()) == nil, "the used-id set covers the whole backend", at(c, mm), "", "the set is re-created inside a loop: ids are unique per iteration only")
	} else {
		c.Held("the used-id set covers the whole backend", c.Pos(fn.Pos()), "set value: "+core.Key(setMap))
	}
}

func init() {
	addRule("C07", &core.Rule{ID: "C07.strict-host-fallback", Floor: 2, Run: c07StrictHost,
		Doc: "SyncConfig, strict-host: the backend given to the synthetic `/` path is the default host's root backend only when that lookup found one; a nil lookup result falls back to the configured default backend (the nil test is on the looked-up value), so the path never names the `_error404` placeholder while a default backend section exists instead."})
}

func c07StrictHost(c *core.Ctx) {
	fn := c.Fn("haproxy", "config.SyncConfig")
	if fn == nil {
		return
	}
	n := 0
	for _, s := range core.CallsNamed(fn, false, "(*haproxy/types.Host).AddPath") {
		if !guardedBy(s.Instr, has("StrictHost"), true) {
			continue
		}
		n++
		arg := s.Common().Args[1]
		ph, ok := arg.(*ssa.Phi)
		if !ok {
			c.Violated("strict-host path backend falls back to the default backend", at(c, s.Instr), "the backend argument is `"+core.Key(arg)+"`, not a choice between the looked-up backend and the default backend")
			continue
		}
		good := false
		for i, e := range ph.Edges {
			if !strings.HasSuffix(core.Key(e), "backends.DefaultBackend") {
				continue
			}
			pred := ph.Block().Preds[i]
			for _, g := range core.ControllingEdges(pred) {
				bo, isBin := g.If.Cond.(*ssa.BinOp)
				if !isBin || !core.IsNilConst(bo.Y) {
					continue
				}
				isNilBranch := bo.Op.String() == "==" && g.Branch || bo.Op.String() == "!=" && !g.Branch
				if !isNilBranch {
					continue
				}
				// the tested value includes the FindBackend result
				found := false
				seen := map[ssa.Value]bool{}
				var walk func(v ssa.Value)
				walk = func(v ssa.Value) {
					if seen[v] {
						return
					}
					seen[v] = true
					switch x := v.(type) {
					case *ssa.Phi:
						for _, e := range x.Edges {
							walk(e)
						}
					case *ssa.Call:
						if strings.HasSuffix(core.CalleeName(&x.Call), "Backends).FindBackend") {
							found = true
						}
					}
				}
				walk(bo.X)
				if found {
					good = true
				}
			}
		}
		c.Check(good, "strict-host path backend falls back to the default backend", at(c, s.Instr), "", "no `if back == nil { back = DefaultBackend }` on the looked-up value: when the default host's root path has no backend (redirect) the synthetic path names `_error404`, which has no section while a default backend is configured")
	}
	c.Check(n == 1, "strict-host synthetic path", c.Pos(fn.Pos()), "", fmt.Sprintf("%d AddPath calls under StrictHost", n))
}

func init() {
	addRule("C14", &core.Rule{ID: "C14.predicates", Floor: 5, Run: c08WatchTable,
		Doc: "Shared with C08: the event predicates of the Ingress watcher let an update through when the old OR the new object is valid (a transition out of the class must reach the handler to be recorded as a delete), creates/deletes when the object is valid."})
}

func init() {
	addRule("C06", &core.Rule{ID: "C06.merge-order", Floor: 2, Run: c01MergeOrder,
		Doc: "Shared with C01: the batch merge of syncPartial removes deleted names before it inserts added ingresses, so the outcome does not depend on how the events of one batch were grouped."})
	addRule("C06", &core.Rule{ID: "C06.shared-acquire-monotone", Floor: 2, Run: c06SharedAcquire,
		Doc: "Objects shared by several declarations and visited in map order (the auth backend acquired by ip:port:hostname in setAuthExternal) are written order-independently: every store into the acquired object either stores a value determined by the acquire key, or is a one-way latch (a flag stored only on its own true branch)."})
}

func c06SharedAcquire(c *core.Ctx) {
	fn := c.Fn("converters/ingress/annotations", "updater.setAuthExternal")
	if fn == nil {
		return
	}
	for _, s := range core.CallsNamed(fn, false, "(*haproxy/types.Backends).AcquireAuthBackend") {
		call, ok := s.Instr.(*ssa.Call)
		if !ok {
			continue
		}
		keyLeaves := map[string]bool{}
		for _, a := range s.Common().Args[1:] {
			for l := range sliceLeaves(c.Env, a, 0) {
				keyLeaves[l] = true
			}
		}
		n := 0
		for _, b := range fn.Blocks {
			for _, in := range b.Instrs {
				st, isSt := in.(*ssa.Store)
				if !isSt {
					continue
				}
				root := rootOf(st.Addr)
				if u, isLoad := root.(*ssa.UnOp); isLoad {
					root = u.X
				}
				// the acquired pointer flows through the `backend` phi
				reaches := false
				seen := map[ssa.Value]bool{}
				var walk func(v ssa.Value)
				walk = func(v ssa.Value) {
					if seen[v] {
						return
					}
					seen[v] = true
					if v == ssa.Value(call) {
						reaches = true
					}
					if ph, isPhi := v.(*ssa.Phi); isPhi {
						for _, e := range ph.Edges {
							walk(e)
						}
					}
				}
				walk(rootOf(st.Addr))
				if !reaches || !call.Block().Dominates(st.Block()) {
					continue
				}
				n++
				_, f := core.FieldOf(st.Addr)
				key := "setAuthExternal: store into the shared auth backend: " + f
				// latch: bool value stored on its own true branch
				latch := false
				for _, g := range guardsOf(st) {
					if g.Cond == st.Val && g.Branch {
						latch = true
					}
				}
				if latch || core.IsConstBool(st.Val, true) {
					c.Held(key, at(c, st), "one-way latch")
					continue
				}
				det := true
				var extra []string
				for l := range sliceLeaves(c.Env, st.Val, 0) {
					if keyLeaves[l] || strings.HasPrefix(l, "const:") || strings.HasPrefix(l, "alloc:") || strings.HasPrefix(l, "call:fmt.Sprintf") || strings.HasPrefix(l, "call:") && !strings.Contains(l, "ParseURL") {
						continue
					}
					det = false
					extra = append(extra, l)
				}
				sort.Strings(extra)
				c.Check(det, key, at(c, st), "value is determined by the acquire key", "the stored value depends on "+strings.Join(extra, ", ")+", which is not part of the key the object is shared by: two declarations sharing the object leave whatever the last visitor stored, and visitors come in map order")
			}
		}
		c.Check(n >= 2, "setAuthExternal configures the acquired auth backend", at(c, s.Instr), "", fmt.Sprintf("%d stores into the acquired object", n))
	}
}

func exitGuardsText(r *ssa.Return) string {
	gs := guardsOf(r)
	if len(gs) == 0 {
		return "always"
	}
	t := exitGuardText(gs[0])
	if len(t) > 90 {
		t = "after the last test"
	}
	return t
}

func init() {
	addRule("C15", &core.Rule{ID: "C15.reader-dispatch", Floor: 16, Run: readerDispatch,
		Doc: "Protocol dispatch of the cache readers (both runtimes): a local file is read only for `file://` values and the cluster object only for `secret://` (or no protocol): the os.Stat/os.ReadFile calls are on the `proto == \"file\"` branch, name resolution (buildResourceName) on the branch where the protocol is neither file nor unknown. An inverted dispatch reads an arbitrary local path for a secret name."})
	addRule("C09", &core.Rule{ID: "C09.reader-dispatch", Floor: 16, Run: readerDispatch, Doc: "Shared with C15: the permission-checking name resolution is on the path of every cluster read."})
}

func readerDispatch(c *core.Ctx) {
	for _, pk := range [][2]string{{"controller/services", "c."}, {"controller/legacy", "k8scache."}} {
		for _, name := range []string{"GetTLSSecretPath", "GetCASecretPath", "GetDHSecretPath", "GetPasswdSecretContent"} {
			fn := c.Fn(pk[0], pk[1]+name)
			if fn == nil {
				continue
			}
			isFile := has("getContentProtocol(", `#0 == "file")`)
			notSecret := has("getContentProtocol(", `#0 != "secret")`)
			nFile, nRes := 0, 0
			for _, s := range core.Calls(fn, false) {
				cn := core.CalleeName(s.Common())
				switch {
				case cn == "os.Stat" || cn == "os.ReadFile":
					nFile++
					c.Check(guardedBy(s.Instr, isFile, true), pk[0]+"."+name+" touches the local file system only for file://", at(c, s.Instr), "", cn+" is reachable outside the `proto == \"file\"` branch")
				case strings.HasSuffix(cn, "buildResourceName"):
					nRes++
					c.Check(guardedBy(s.Instr, isFile, false) && guardedBy(s.Instr, notSecret, false), pk[0]+"."+name+" resolves a cluster name only for secret values", at(c, s.Instr), "", "buildResourceName is not on the `not file, is secret` branch")
				}
			}
			c.Check(nFile >= 1 && nRes == 1, pk[0]+"."+name+" has both branches", c.Pos(fn.Pos()), "", fmt.Sprintf("%d file reads, %d name resolutions", nFile, nRes))
		}
	}
}

// errSource names where a returned error value comes from (the call that produced it).
func errSource(v ssa.Value) string { return errSourceSeen(v, map[ssa.Value]bool{}) }

func errSourceSeen(v ssa.Value, visiting map[ssa.Value]bool) string {
	switch x := v.(type) {
	case *ssa.Extract:
		return errSourceSeen(x.Tuple, visiting)
	case *ssa.Call:
		return shortVal(x)
	case *ssa.Phi:
		if visiting[x] {
			return "" // loop-carried: the value of an earlier iteration
		}
		visiting[x] = true
		defer delete(visiting, x)
		var parts []string
		seen := map[string]bool{}
		for _, e := range x.Edges {
			p := errSourceSeen(e, visiting)
			if p == "" {
				p = "carried"
			}
			for _, q := range strings.Split(p, "/") {
				if !seen[q] {
					seen[q] = true
					parts = append(parts, q)
				}
			}
		}
		sort.Strings(parts)
		return strings.Join(parts, "/")
	case *ssa.MakeInterface:
		return errSourceSeen(x.X, visiting)
	case *ssa.UnOp:
		return errSourceSeen(x.X, visiting)
	case *ssa.Global:
		return x.Name()
	case *ssa.Const:
		return "nil"
	case *ssa.Alloc:
		return "err"
	}
	return "err"
}

func init() {
	addRule("C13", &core.Rule{ID: "C13.when-table", Floor: 2, Run: c13WhenTable,
		Doc: "Exact decision of both rate limiters' When: inside a granted frame (last is in the future) the remaining time to `last` is returned; otherwise, when the next allowed instant last+interval is already past, the item runs now (0 for reloads, the short wait for reconciliations); otherwise the time to that instant is returned. An inverted test grants immediate runs inside the interval."})
}

func c13WhenTable(c *core.Ctx) {
	for _, fn := range limiterWhens(c) {
		name := core.FuncName(fn)
		t := core.ExtractTable(fn)
		if t.Err != "" {
			c.Undecided(name+" decision", c.Pos(fn.Pos()), t.Err)
			continue
		}
		b, err := t.Bind(matchers{
			"scheduled": has("(time.Time).After(", ".last", "time.Now()"),
			"past":      has("(time.Time).Before(", "(time.Time).Add(", "time.Now()"),
		})
		if err != nil {
			c.Undecided(name+" decision", c.Pos(fn.Pos()), err.Error())
			continue
		}
		cls := t.ReturnClasses(func(r *ssa.Return) string {
			k := core.Key(core.Results(r)[0])
			switch {
			case strings.HasPrefix(k, "(time.Time).Sub(") && strings.Contains(k, ".last, time.Now()") && !strings.Contains(k, "Add("):
				return "remaining"
			case strings.HasPrefix(k, "(time.Time).Sub((time.Time).Add("):
				return "until-next"
			case k == "0" || strings.HasSuffix(k, ".wait"):
				return "now"
			}
			return "other:" + k
		})
		ok, diff, _ := t.CompareClasses(cls, b, func(v map[string]bool) string {
			switch {
			case v["scheduled"]:
				return "remaining"
			case v["past"]:
				return "now"
			}
			return "until-next"
		})
		c.Check(ok, name+" decision", c.Pos(fn.Pos()), "remaining | now | until-next by (last in future, last+interval in past)", diff)
	}
}

func init() {
	doc := "WorkQueue.process tells its worker loop to stop only at shutdown: it returns false exactly when queue.Get reports shutdown and true after every processed item, failed or not (a false after a failed sync would end the worker: nothing queued, including the retry, is processed any more)."
	addRule("C12", &core.Rule{ID: "C12.worker-continues", Floor: 1, Run: workerContinues, Doc: doc})
	addRule("C13", &core.Rule{ID: "C13.worker-continues", Floor: 1, Run: workerContinues, Doc: doc})
}

func workerContinues(c *core.Ctx) {
	fn := c.Fn("utils/workqueue", "WorkQueue.process")
	if fn == nil {
		return
	}
	tableRule(c, "WorkQueue.process continues unless shut down", fn, 0, matchers{
		"shutdown": func(k string) bool { return strings.Contains(k, ".Get(") && strings.HasSuffix(k, "#1") },
		"failed":   has("w.sync(", "!= nil)"),
	}, func(v map[string]bool) bool { return !v["shutdown"] })
}

func init() {
	doc := "Protocol of sock.Send: the interactive `prompt` is sent exactly for a multi-command batch on a non persistent socket; every command's answer is appended to the result (one answer per command, in order: the callers validate each by position); a command error returns what was collected together with the error; the connection is closed at the end exactly when the socket is not persistent; the mutex is released on every exit."
	addRule("C02", &core.Rule{ID: "C02.socket-protocol", Floor: 5, Run: socketProtocol, Doc: doc})
	addRule("C12", &core.Rule{ID: "C12.socket-protocol", Floor: 5, Run: socketProtocol, Doc: doc})
}

func socketProtocol(c *core.Ctx) {
	fn := c.Fn("haproxy/socket", "sock.Send")
	if fn == nil {
		return
	}
	keep := has("s.keepalive")
	multi := has("builtin:len(command) > 1")
	for _, s := range core.CallsNamed(fn, false, "(*haproxy/socket.sock).send") {
		if core.IsConstString(s.Common().Args[1], "prompt") {
			c.Check(guardedBy(s.Instr, keep, false) && guardedBy(s.Instr, multi, true), "prompt is sent for a multi-command batch on a non persistent socket", at(c, s.Instr), "", "the `prompt` command is not on the branch `!keepalive && len(command) > 1`: a batch is answered only for its first command, or a persistent master socket is switched to prompt mode")
			continue
		}
		// per-command send: inside the loop over the commands
		l := core.InnermostLoop(fn, s.Instr.Block())
		c.Check(l != nil && strings.Contains(core.Key(s.Common().Args[1]), "command["), "every command of the batch is sent", at(c, s.Instr), "", "send is not called per element of `command`: "+core.Key(s.Common().Args[1]))
		// its answer is appended on the success branch, unconditionally otherwise
		okApp := false
		for _, b := range fn.Blocks {
			for _, in := range b.Instrs {
				call, ok := in.(*ssa.Call)
				if !ok || core.CalleeName(&call.Call) != "builtin:append" || call.Type().String() != "[]string" {
					continue
				}
				la := sliceLeaves(c.Env, call.Call.Args[1], 0)
				if !leavesContain(la, "sock).send") {
					continue
				}
				used := false
				for _, r := range *call.Referrers() {
					if _, isPhi := r.(*ssa.Phi); isPhi {
						used = true
					}
				}
				var extra []string
				for _, g := range guardsOf(call) {
					k := core.StripVersion(g.Key)
					if strings.Contains(k, "sock).send(") && strings.HasSuffix(k, "#1 != nil)") && !g.Branch {
						continue
					}
					if strings.Contains(k, "phi{") || strings.Contains(k, "next(range(") || strings.Contains(k, "builtin:len(command)") && !strings.Contains(k, "> 1") {
						continue // loop condition
					}
					if strings.Contains(k, "observer") {
						extra = append(extra, k)
						continue
					}
					extra = append(extra, k)
				}
				okApp = used && len(extra) == 0
				c.Check(okApp, "every answer is collected", at(c, call), "", fmt.Sprintf("the answer is appended under %v (or the result of append is dropped: %v): answers shift against the commands they belong to", extra, !used))
			}
		}
		if !okApp {
			c.Check(false, "answers are collected", at(c, s.Instr), "", "no `msg = append(msg, response)` for the command's answer")
		}
	}
	// final close iff !keepalive
	nFinal := 0
	for _, s := range core.CallsNamed(fn, false, "(*haproxy/socket.sock).close") {
		if guardedBy(s.Instr, func(k string) bool { return strings.Contains(k, "sock).send(") && strings.HasSuffix(k, "!= nil)") }, true) {
			continue // error paths (C12.conn-dropped-on-error)
		}
		nFinal++
		c.Check(guardedBy(s.Instr, keep, false), "a non persistent socket is closed after the batch", at(c, s.Instr), "", "the final close is not on the `!keepalive` branch: the dynamic-update socket stays connected to a process that a reload replaces, or the master socket is reconnected for every command")
	}
	c.Check(nFinal == 1, "final close", c.Pos(fn.Pos()), "", fmt.Sprint(nFinal))
	// unlock deferred
	okUnlock := false
	for _, b := range fn.Blocks {
		for _, in := range b.Instrs {
			if d, ok := in.(*ssa.Defer); ok && strings.HasSuffix(core.CalleeName(&d.Call), "sock).unlock") && b == fn.Blocks[0] {
				okUnlock = true
			}
		}
	}
	c.Check(okUnlock, "the socket mutex is released on every exit", c.Pos(fn.Pos()), "", "no deferred unlock in the entry block")
}

func init() {
	addRule("C13", &core.Rule{ID: "C13.reload-queue-wiring", Floor: 3, Run: reloadQueueWiring,
		Doc: "Services.setup creates the reload queue exactly when a reload interval is configured (ReloadInterval > 0), with reloadHAProxy as worker and the reload limiter, keeps it in the Services object (it is started with the other runnables) and hands the same queue to the HAProxy instance as InstanceOptions.ReloadQueue."})
	addRule("C12", &core.Rule{ID: "C12.reconcile-returns-error", Floor: 2, Run: reconcileReturnsError,
		Doc: "Services.ReconcileIngress returns the very error of Instance.HAProxyUpdate (the reconciler requeues on it); the converters run before the update and the model mutex is held and released (deferred) around both."})
}

func reloadQueueWiring(c *core.Ctx) {
	fn := c.Fn("controller/services", "Services.setup")
	if fn == nil {
		return
	}
	var mk *ssa.Call
	for _, s := range core.Calls(fn, false) {
		if strings.HasSuffix(core.CalleeName(s.Common()), "utils/workqueue.New[any]") || strings.Contains(core.CalleeName(s.Common()), "utils/workqueue.New") {
			if strings.Contains(core.Key(s.Common().Args[1]), "ReloadHAProxyRateLimiter(") {
				mk = s.Instr.(*ssa.Call)
			}
		}
	}
	if mk == nil {
		c.Violated("the reload queue is created with the reload limiter", c.Pos(fn.Pos()), "no workqueue.New(…, ReloadHAProxyRateLimiter(…)) in Services.setup")
		return
	}
	c.Check(guardedBy(mk, has("ReloadInterval > 0)"), true), "the reload queue exists exactly when an interval is configured", at(c, mk), "", "the queue is not created on the `ReloadInterval > 0` branch: with an interval configured reloads run unthrottled (no queue), or a zero interval gets a queue")
	c.Check(strings.Contains(core.Key(mk.Call.Args[0]), "reloadHAProxy"), "the reload queue runs Services.reloadHAProxy", at(c, mk), "", "worker is "+core.Key(mk.Call.Args[0]))
	c.Check(strings.HasSuffix(core.Key(mk.Call.Args[1]), "ReloadInterval)"), "the reload limiter is built from the configured interval", at(c, mk), "", core.Key(mk.Call.Args[1]))
	// flows to s.reloadQueue and InstanceOptions.ReloadQueue
	flows := func(v ssa.Value) bool {
		seen := map[ssa.Value]bool{}
		var walk func(x ssa.Value) bool
		walk = func(x ssa.Value) bool {
			if x == ssa.Value(mk) {
				return true
			}
			if seen[x] {
				return false
			}
			seen[x] = true
			switch y := x.(type) {
			case *ssa.Phi:
				for _, e := range y.Edges {
					if walk(e) {
						return true
					}
				}
			case *ssa.MakeInterface:
				return walk(y.X)
			case *ssa.ChangeInterface:
				return walk(y.X)
			}
			return false
		}
		return walk(v)
	}
	okField, okOpt := false, false
	for _, b := range fn.Blocks {
		for _, in := range b.Instrs {
			st, ok := in.(*ssa.Store)
			if !ok {
				continue
			}
			o, f := core.FieldOf(st.Addr)
			if f == "reloadQueue" && strings.HasSuffix(o, "services.Services") && flows(st.Val) {
				okField = true
			}
			if f == "ReloadQueue" && strings.HasSuffix(o, "haproxy.InstanceOptions") && flows(st.Val) {
				okOpt = true
			}
		}
	}
	c.Check(okField, "the reload queue is kept (and started) by Services", c.Pos(fn.Pos()), "", "s.reloadQueue does not receive the created queue: nothing runs it")
	c.Check(okOpt, "the instance enqueues its reloads on that queue", c.Pos(fn.Pos()), "", "InstanceOptions.ReloadQueue does not receive the created queue: HAProxyUpdate reloads directly")
}

func reconcileReturnsError(c *core.Ctx) {
	fn := c.Fn("controller/services", "Services.ReconcileIngress")
	if fn == nil {
		return
	}
	var upd, conv ssa.Instruction
	for _, s := range core.Calls(fn, false) {
		cc := s.Common()
		if cc.IsInvoke() && cc.Method.Name() == "HAProxyUpdate" {
			upd = s.Instr
		}
		if cc.IsInvoke() && cc.Method.Name() == "Sync" {
			conv = s.Instr
		}
	}
	if upd == nil || conv == nil {
		c.Violated("ReconcileIngress converts then updates", c.Pos(fn.Pos()), "Sync or HAProxyUpdate call missing")
		return
	}
	n := 0
	for _, r := range core.Returns(fn) {
		n++
		v := core.Results(r)[0]
		c.Check(v == ssa.Value(upd.(*ssa.Call)), "ReconcileIngress returns the error of HAProxyUpdate", at(c, r), "", "returns `"+core.Key(v)+"`: a failed update is not reported, the reconciler does not requeue it")
	}
	c.Check(n == 1, "ReconcileIngress single exit", c.Pos(fn.Pos()), "", fmt.Sprint(n))
	w := core.MustPrecede(fn, func(in ssa.Instruction) bool { return in == conv }, func(in ssa.Instruction) bool { return in == upd })
	c.Check(w == nil, "the model is converted before it is applied", at(c, upd), "", "HAProxyUpdate can run before the converters")
}

func init() {
	addRule("C12", &core.Rule{ID: "C12.legacy-retry", Floor: 4, Run: legacyRetry,
		Doc: "The legacy runtime has the same retry protocol: syncIngress re-enqueues itself on the error branch of HAProxyUpdate, reloadHAProxy on the error branch of Reload; both hold the model mutex with a deferred unlock; the converters run before the update."})
}

func legacyRetry(c *core.Ctx) {
	for _, x := range []struct{ fn, call, queue string }{
		{"HAProxyController.syncIngress", "HAProxyUpdate", "ingressQueue"},
		{"HAProxyController.reloadHAProxy", "Reload", "reloadQueue"},
	} {
		fn := c.Fn("controller/legacy", x.fn)
		if fn == nil {
			continue
		}
		var step ssa.Instruction
		for _, s := range core.Calls(fn, false) {
			if s.Common().IsInvoke() && s.Common().Method.Name() == x.call {
				step = s.Instr
			}
		}
		if step == nil {
			c.Violated(x.fn+" calls "+x.call, c.Pos(fn.Pos()), "call missing")
			continue
		}
		ok := false
		for _, s := range core.Calls(fn, false) {
			cc := s.Common()
			if cc.IsInvoke() && cc.Method.Name() == "AddAfter" && strings.HasSuffix(core.Key(cc.Value), "."+x.queue) {
				ok = guardedBy(s.Instr, func(k string) bool { return strings.Contains(k, "."+x.call+"(") && strings.HasSuffix(k, " != nil)") }, true)
			}
		}
		c.Check(ok, x.fn+" retries a failed "+x.call, at(c, step), "", "no "+x.queue+".AddAfter on the error branch of "+x.call+": a failed update is never retried in the legacy runtime")
		c.Check(lockedAtEntryNamed(fn, "writeModelMutex"), x.fn+" holds the model mutex", c.Pos(fn.Pos()), "", "writeModelMutex is not locked (with deferred unlock) before the model is touched")
	}
}

// lockedAtEntryNamed: the named mutex field is locked and its unlock deferred before the first call into the module.
func lockedAtEntryNamed(fn *ssa.Function, field string) bool {
	locked, deferred := false, false
	for _, b := range fn.Blocks {
		for _, in := range b.Instrs {
			switch x := in.(type) {
			case *ssa.Call:
				n := core.CalleeName(&x.Call)
				if n == "(*sync.Mutex).Lock" {
					if _, f := core.FieldOf(x.Call.Args[0]); f == field {
						locked = true
						continue
					}
				}
				if !locked && x.Call.IsInvoke() && strings.Contains(x.Call.Value.Type().String(), core.Module) {
					name := x.Call.Method.Name()
					if name == "HAProxyUpdate" || name == "Reload" || name == "Sync" || name == "AcmeUpdate" {
						return false
					}
				}
			case *ssa.Defer:
				if core.CalleeName(&x.Call) == "(*sync.Mutex).Unlock" && locked {
					if _, f := core.FieldOf(x.Call.Args[0]); f == field {
						deferred = true
					}
				}
			}
		}
	}
	return locked && deferred
}
