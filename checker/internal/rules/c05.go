package rules

import (
	"fmt"
	"go/types"
	"strings"

	"golang.org/x/tools/go/ssa"

	"hapverif/internal/core"
)

func init() {
	register(&core.Property{
		ID:          "C05",
		Title:       "Files on disk hold exactly the current model; no stale or missing content",
		Explanation: "Static decision of the dirty-bit discipline that selects what is rewritten: (1) for every model container with the items/itemsAdd/itemsDel triple (discovered by type shape), every insertion into items is paired with the same key in itemsAdd and every deletion with itemsDel, in the same block; flag-style containers set `changed` on the branch that mutates; (2) every write into a backend shard map flags that shard; (3) Backends.Clear carries the non-empty shards of the OLD state as flags on the NEW object, reads the old state before overwriting it, and hands the previous items over as itemsDel; (4) Shrink, after clearing the shard flags, re-flags from both itemsAdd and itemsDel; (5) the three map writers skip exactly when their container reports no change; (6) the shard loop of writeConfig writes file j with content j for every changed shard and the main file always; (7) the change sets are cleared only by Commit (and by Shrink on a match).",
		NotDecided:  []string{"byte content of the files over histories (the rendered output is not computed)"},
		Rules: []*core.Rule{
			{ID: "C05.dirty-bit", Floor: 10, Run: c05DirtyBit,
				Doc: "items[k] = v is accompanied by itemsAdd[k] = v, delete(items, k) by itemsDel[k] = old, in the same basic block (Shrink's restore is checked by C11). TCPServices/Frontend: stores that mutate set `changed = true` on the same branch."},
			{ID: "C05.shard-flag", Floor: 2, Run: c05ShardFlag,
				Doc: "Every insertion into / deletion from an element of Backends.shards is followed or preceded on all paths by BackendChanged/backendShardChanged for that backend."},
			{ID: "C05.clear-carries", Floor: 4, Run: c05ClearCarries,
				Doc: "Backends.Clear: the object stored over *b receives the shard flags (receiver of backendShardChanged is the new object), under `len(old.shards[i]) > 0` where old is read before the overwrite; new.itemsDel = old.items; config.Clear keeps the backends object and calls Clear on it."},
			{ID: "C05.shrink-recompute", Floor: 2, Run: c05ShrinkRecompute,
				Doc: "Backends.Shrink: after resetting changedShards, BackendChanged is called for every backend of itemsAdd and of itemsDel."},
			{ID: "C05.skip-guards", Floor: 6, Run: c05SkipGuards,
				Doc: "WriteFrontendMaps returns early iff Maps != nil and !hosts.Changed(); WriteBackendMaps iff !backends.Changed(); WriteTCPServicesMaps iff !tcpservices.Changed(); Hosts/Backends.Changed() = len(itemsAdd) > 0 || len(itemsDel) > 0."},
			{ID: "C05.shard-loop", Floor: 3, Run: c05ShardLoop,
				Doc: "writeConfig: the main file is written on every call before the shard loop; the loop ranges over ChangedShards(); file name and BuildSortedShard argument use the same loop element; BuildSortedItems returns the full list iff there are no shards."},
			{ID: "C05.commit-clears", Floor: 4, Run: c05CommitClears,
				Doc: "itemsAdd/itemsDel/changedShards/changed are reset only in Commit, Clear (whole object) and Shrink (on a match)."},
		},
	})
}

type tripleContainer struct {
	name string // short type name
	full string // qualified
}

func tripleContainers(c *core.Ctx) []tripleContainer {
	p := c.Pkg("haproxy/types")
	if p == nil {
		c.MissingAnchor("package haproxy/types")
		return nil
	}
	var out []tripleContainer
	scope := p.Types.Scope()
	for _, n := range scope.Names() {
		tn, ok := scope.Lookup(n).(*types.TypeName)
		if !ok {
			continue
		}
		st, ok := tn.Type().Underlying().(*types.Struct)
		if !ok {
			continue
		}
		have := map[string]bool{}
		for i := 0; i < st.NumFields(); i++ {
			if _, isMap := st.Field(i).Type().Underlying().(*types.Map); isMap {
				have[st.Field(i).Name()] = true
			}
		}
		if have["items"] && have["itemsAdd"] && have["itemsDel"] {
			out = append(out, tripleContainer{n, "haproxy/types." + n})
		}
	}
	return out
}

// mapOp describes a write on a map held in a struct field.
type mapOp struct {
	in     ssa.Instruction
	field  string
	insert bool
	key    ssa.Value
}

func mapOpsOn(fn *ssa.Function, owner string) []mapOp {
	var out []mapOp
	fieldOf := func(v ssa.Value) string {
		u, ok := v.(*ssa.UnOp)
		if !ok {
			return ""
		}
		o, f := core.FieldOf(u.X)
		if strings.HasSuffix(o, owner) {
			return f
		}
		return ""
	}
	for _, b := range fn.Blocks {
		for _, in := range b.Instrs {
			switch x := in.(type) {
			case *ssa.MapUpdate:
				if f := fieldOf(x.Map); f != "" {
					out = append(out, mapOp{in, f, true, x.Key})
				}
			case *ssa.Call:
				if bi, ok := x.Call.Value.(*ssa.Builtin); ok && bi.Name() == "delete" {
					if f := fieldOf(x.Call.Args[0]); f != "" {
						out = append(out, mapOp{in, f, false, x.Call.Args[1]})
					}
				}
			}
		}
	}
	return out
}

func c05DirtyBit(c *core.Ctx) {
	conts := tripleContainers(c)
	for _, ct := range conts {
		for _, fn := range c.SrcFuncs() {
			if core.PkgOf(fn) != "haproxy/types" {
				continue
			}
			ops := mapOpsOn(fn, ct.full)
			if len(ops) == 0 {
				continue
			}
			isShrink := strings.HasSuffix(core.FuncName(fn), ").Shrink") || strings.HasSuffix(core.FuncName(fn), ").shrink")
			for _, op := range ops {
				if op.field != "items" {
					continue
				}
				c.Touch(fn)
				key := fmt.Sprintf("%s %s items", core.FuncName(fn), map[bool]string{true: "inserts into", false: "deletes from"}[op.insert])
				if isShrink {
					c.Held(key, at(c, op.in), "Shrink restores the committed object (rule C11.shrink-restore)")
					continue
				}
				want := "itemsDel"
				if op.insert {
					want = "itemsAdd"
				}
				paired := false
				for _, o2 := range ops {
					if o2.field == want && o2.insert && core.Key(o2.key) == core.Key(op.key) {
						p2, p1 := o2.in, op.in
						if p2.Block() == p1.Block() ||
							core.MustPrecede(fn, func(x ssa.Instruction) bool { return x == p2 }, func(x ssa.Instruction) bool { return x == p1 }) == nil ||
							core.MustFollow(fn, p1, func(x ssa.Instruction) bool { return x == p2 }) == nil {
							paired = true
						}
					}
				}
				c.Check(paired, key, at(c, op.in), "paired with "+want+" under the same key on every path through the mutation",
					"the mutation of "+ct.name+".items is not recorded in "+want+": the container reports no change, its maps/files are not rewritten and the dynamic updater does not see the object")
			}
		}
	}
	// flag-style: TCPServices
	for _, fn := range c.SrcFuncs() {
		if core.PkgOf(fn) != "haproxy/types" {
			continue
		}
		for _, owner := range []string{"haproxy/types.TCPServices"} {
			ops := mapOpsOn(fn, owner)
			for _, op := range ops {
				if op.field != "items" {
					continue
				}
				c.Touch(fn)
				key := fmt.Sprintf("%s mutates TCPServices.items", core.FuncName(fn))
				ok := false
				for _, st := range fieldStores(fn, false, owner, "changed") {
					if core.IsConstBool(st.Val, true) && (st.Block() == op.in.Block() || st.Block().Dominates(op.in.Block())) {
						ok = true
					}
				}
				c.Check(ok, key, at(c, op.in), "sets changed on the same branch", "TCPServices.items is mutated without setting `changed`: the tcp maps and frontends are not rewritten")
			}
		}
	}
	// Frontend: AcquireAuthBackendName appends => changed
	if fn := c.Fn("haproxy/types", "Frontend.AcquireAuthBackendName"); fn != nil {
		sts := fieldStores(fn, false, "haproxy/types.AuthProxy", "BindList")
		ok := len(sts) > 0
		for _, st := range sts {
			w := core.MustFollow(fn, st, func(in ssa.Instruction) bool {
				s2, isSt := in.(*ssa.Store)
				if !isSt {
					return false
				}
				_, f := core.FieldOf(s2.Addr)
				return f == "changed" && core.IsConstBool(s2.Val, true)
			})
			if w != nil {
				ok = false
			}
		}
		c.Check(ok, "Frontend.AcquireAuthBackendName appends a bind", c.Pos(fn.Pos()), "changed is set after the append on every path", "a new auth proxy bind is added without flagging the frontend as changed: the running HAProxy has no such bind")
	}
}

func isShardElem(v ssa.Value) bool {
	// load of IndexAddr(load(b.shards), i)
	u, ok := v.(*ssa.UnOp)
	if !ok {
		return false
	}
	ia, ok := u.X.(*ssa.IndexAddr)
	if !ok {
		return false
	}
	u2, ok := ia.X.(*ssa.UnOp)
	if !ok {
		return false
	}
	o, f := core.FieldOf(u2.X)
	return f == "shards" && strings.HasSuffix(o, "haproxy/types.Backends")
}

func isShardFlagCall(in ssa.Instruction) bool {
	call, ok := in.(*ssa.Call)
	if !ok {
		return false
	}
	n := core.CalleeName(&call.Call)
	return strings.HasSuffix(n, "Backends).BackendChanged") || strings.HasSuffix(n, "Backends).backendShardChanged")
}

func c05ShardFlag(c *core.Ctx) {
	for _, fn := range c.SrcFuncs() {
		if core.PkgOf(fn) != "haproxy/types" {
			continue
		}
		for _, b := range fn.Blocks {
			for _, in := range b.Instrs {
				var isWrite bool
				switch x := in.(type) {
				case *ssa.MapUpdate:
					isWrite = isShardElem(x.Map)
				case *ssa.Call:
					if bi, ok := x.Call.Value.(*ssa.Builtin); ok && bi.Name() == "delete" {
						isWrite = isShardElem(x.Call.Args[0])
					}
				}
				if !isWrite {
					continue
				}
				c.Touch(fn)
				key := core.FuncName(fn) + " writes a shard"
				if strings.HasSuffix(core.FuncName(fn), ").Shrink") {
					c.Held(key, at(c, in), "Shrink recomputes the flags afterwards (rule C05.shrink-recompute)")
					continue
				}
				after := core.MustFollow(fn, in, isShardFlagCall) == nil
				before := core.MustPrecede(fn, isShardFlagCall, func(x ssa.Instruction) bool { return x == in }) == nil
				c.Check(after || before, key, at(c, in), "the shard is flagged on every path through the write", "a backend is added to / removed from a shard without flagging the shard: its file is not rewritten and keeps stale content or misses the backend")
			}
		}
	}
}

func c05ClearCarries(c *core.Ctx) {
	fn := c.Fn("haproxy/types", "Backends.Clear")
	if fn == nil {
		return
	}
	recv := fn.Params[0]
	// the overwrite *b = *nb
	var over *ssa.Store
	for _, b := range fn.Blocks {
		for _, in := range b.Instrs {
			if st, ok := in.(*ssa.Store); ok && st.Addr == ssa.Value(recv) {
				over = st
			}
		}
	}
	if over == nil {
		c.Violated("Backends.Clear overwrites the receiver", c.Pos(fn.Pos()), "no `*b = *fresh` found")
		return
	}
	var fresh ssa.Value
	if u, ok := over.Val.(*ssa.UnOp); ok {
		fresh = u.X
	}
	if fresh == nil {
		c.Undecided("Backends.Clear fresh object", at(c, over), "cannot identify the object stored over the receiver")
		return
	}
	// (1) flag calls: receiver is fresh
	nFlags := 0
	for _, b := range fn.Blocks {
		for _, in := range b.Instrs {
			if !isShardFlagCall(in) {
				continue
			}
			nFlags++
			call := in.(*ssa.Call)
			r := call.Call.Args[0]
			c.Check(r == fresh, "Clear flags the surviving object", at(c, in), "receiver of the flag call is the fresh object",
				"shard flags are set on `"+core.Key(r)+"`, which is overwritten (or is not the object that survives): after a full resync no shard is flagged and the file of a shard that lost its backends keeps them")
			// (2) guarded by len(old.shards[i]) > 0 with old = receiver
			okGuard := false
			for _, g := range guardsOf(in) {
				if strings.Contains(g.Key, "builtin:len(b.shards[") && strings.HasSuffix(g.Key, "> 0)") && g.Branch {
					okGuard = true
				}
			}
			c.Check(okGuard, "Clear flags non-empty shards of the old state", at(c, in), "guard reads the receiver's (old) shards", "the flag is not guarded by `len(b.shards[i]) > 0` on the old state")
		}
	}
	if nFlags == 0 {
		c.Violated("Clear flags the surviving object", c.Pos(fn.Pos()), "Clear does not flag any shard")
	}
	// (3) reads through the receiver happen before the overwrite
	late := false
	for _, b := range fn.Blocks {
		for _, in := range b.Instrs {
			if fa, ok := in.(*ssa.FieldAddr); ok && fa.X == ssa.Value(recv) {
				if core.Reaches(fn, over, func(x ssa.Instruction) bool { return x == in }) != nil {
					late = true
				}
			}
		}
	}
	c.Check(!late, "Clear reads the old state before overwriting it", at(c, over), "", "the receiver is read after `*b = *fresh`: the loop sees the new, empty state and flags nothing")
	// (4) fresh.itemsDel = old.items
	ok := false
	for _, st := range fieldStores(fn, false, "haproxy/types.Backends", "itemsDel") {
		if fa, isFA := st.Addr.(*ssa.FieldAddr); isFA && fa.X == fresh && core.Key(st.Val) == "b.items" {
			ok = true
		}
	}
	c.Check(ok, "Clear hands the previous items over as itemsDel", c.Pos(fn.Pos()), "", "fresh.itemsDel is not the old items: removed backends are invisible to the updater")
	// config.Clear keeps the object
	if cfn := c.Fn("haproxy", "config.Clear"); cfn != nil {
		sts := fieldStores(cfn, false, "haproxy.config", "backends")
		okKeep := len(sts) == 1 && core.Key(sts[0].Val) == "c.backends"
		clr := false
		for _, s := range core.Calls(cfn, false) {
			if s.Common().StaticCallee() == fn {
				clr = true
			}
		}
		c.Check(okKeep && clr, "config.Clear keeps and clears the backends object", c.Pos(cfn.Pos()), "", "config.Clear does not carry the old backends object into the new config and Clear() it")
	}
}

func c05ShrinkRecompute(c *core.Ctx) {
	fn := c.Fn("haproxy/types", "Backends.Shrink")
	if fn == nil {
		return
	}
	var reset *ssa.Store
	for _, st := range fieldStores(fn, false, "haproxy/types.Backends", "changedShards") {
		reset = st
	}
	// un-flagging a single shard is never right: another backend of that shard may still be changed
	for _, f := range c.SrcFuncs() {
		if core.PkgOf(f) != "haproxy/types" {
			continue
		}
		for _, op := range mapOpsOn(f, "haproxy/types.Backends") {
			if op.field == "changedShards" && !op.insert {
				c.Violated(core.FuncName(f)+" un-flags a shard", at(c, op.in), "a shard flag is deleted individually: a backend of the same shard that did change (or was updated through the socket) does not get its shard file rewritten")
			}
		}
	}
	if reset == nil {
		c.Held("Shrink does not reset the shard flags", c.Pos(fn.Pos()), "flags are only added")
		c.Held("Shrink never un-flags", c.Pos(fn.Pos()), "")
		return
	}
	for _, fld := range []string{"itemsAdd", "itemsDel"} {
		ok := false
		for _, b := range fn.Blocks {
			for _, in := range b.Instrs {
				if !isShardFlagCall(in) {
					continue
				}
				call := in.(*ssa.Call)
				args := core.CallArgs(&call.Call)
				l := sliceLeaves(c.Env, args[0], 0)
				if leavesContain(l, "range:b."+fld) && core.Reaches(fn, reset, func(x ssa.Instruction) bool { return x == in }) != nil {
					ok = true
				}
			}
		}
		c.Check(ok, "Shrink re-flags the shards of "+fld, at(c, reset), "", "after resetting changedShards the backends left in "+fld+" are not re-flagged: "+map[string]string{"itemsAdd": "a changed backend's", "itemsDel": "a removed backend's"}[fld]+" shard file is not rewritten")
	}
}

func c05SkipGuards(c *core.Ctx) {
	type spec struct {
		fn string
		m  matchers
		f  func(v map[string]bool) bool
	}
	for _, s := range []spec{
		{"config.WriteFrontendMaps", matchers{"maps": has("frontend.Maps != nil"), "changed": has("Hosts).Changed(")}, func(v map[string]bool) bool { return v["maps"] && !v["changed"] }},
		{"config.WriteBackendMaps", matchers{"changed": has("Backends).Changed(")}, func(v map[string]bool) bool { return !v["changed"] }},
		{"config.WriteTCPServicesMaps", matchers{"changed": has("TCPServices).Changed(")}, func(v map[string]bool) bool { return !v["changed"] }},
	} {
		fn := c.Fn("haproxy", s.fn)
		if fn == nil {
			continue
		}
		t := core.ExtractTableRegion(fn, core.NearEntry(fn, 3))
		key := "haproxy." + s.fn + " skip"
		if t.Err != "" {
			c.Undecided(key, c.Pos(fn.Pos()), t.Err)
			continue
		}
		// early returns: returns of nil within the region whose block has no other effects
		early := t.False()
		n := 0
		for _, b := range fn.Blocks {
			cond, ok := t.BlockCond(b)
			if !ok {
				continue
			}
			if r, isRet := b.Instrs[len(b.Instrs)-1].(*ssa.Return); isRet && blockDoesNoWork(b) && core.IsNilConst(r.Results[0]) {
				early = early.Or(cond)
				n++
			}
		}
		// bind only atoms the early condition depends on
		bind := &core.Binding{Names: make([]string, len(t.Atoms))}
		bad := ""
		for i, a := range t.Atoms {
			if !early.DependsOn(i) {
				continue
			}
			for nme, f := range s.m {
				if f(a) {
					bind.Names[i] = nme
				}
			}
			if bind.Names[i] == "" {
				bad = a
			}
		}
		if bad != "" {
			c.Violated(key, c.Pos(fn.Pos()), "the early return also depends on `"+bad+"`")
			continue
		}
		ok, diff, _ := t.Compare(early, bind, s.f, nil)
		c.Check(ok && n > 0, key, c.Pos(fn.Pos()), "skips exactly when the container reports no change", "skip condition is wrong (files are not rewritten although the model changed, or the reverse): "+diff)
	}
	// Changed() of the triple containers that are len-based
	for _, x := range []string{"Hosts.Changed", "Backends.Changed", "AcmeStorages.Updated"} {
		fn := c.Env.Func("haproxy/types", x)
		if fn == nil {
			continue
		}
		c.Touch(fn)
		tableRule(c, "haproxy/types."+x, fn, 0, matchers{"add": has("builtin:len(", ".itemsAdd) > 0"), "del": has("builtin:len(", ".itemsDel) > 0")},
			func(v map[string]bool) bool { return v["add"] || v["del"] })
	}
	if fn := c.Fn("haproxy/types", "TCPServices.Changed"); fn != nil {
		tableRule(c, "haproxy/types.TCPServices.Changed", fn, 0, matchers{"flag": func(k string) bool { return k == "s.changed" }}, func(v map[string]bool) bool { return v["flag"] })
	}
}

func c05ShardLoop(c *core.Ctx) {
	fn := c.Fn("haproxy", "instance.writeConfig")
	if fn == nil {
		return
	}
	var mainWrite, shardWrite, buildShard *ssa.Call
	for _, s := range core.Calls(fn, false) {
		n := core.CalleeName(s.Common())
		call, _ := s.Instr.(*ssa.Call)
		switch {
		case strings.HasSuffix(n, "template.Config).Write") && strings.Contains(core.Key(s.Common().Args[0]), "haproxyTmpl"):
			mainWrite = call
		case strings.HasSuffix(n, "template.Config).WriteOutput") && strings.Contains(core.Key(s.Common().Args[0]), "haproxyTmpl"):
			shardWrite = call
		case strings.HasSuffix(n, "Backends).BuildSortedShard"):
			buildShard = call
		}
	}
	if mainWrite == nil || shardWrite == nil || buildShard == nil {
		c.Violated("writeConfig writes main and shard files", c.Pos(fn.Pos()), "main Write / shard WriteOutput / BuildSortedShard not all found")
		return
	}
	// main file on every non-error path: every nil-result return passes mainWrite
	w := core.PathQuery{Fn: fn, Target: func(in ssa.Instruction) bool {
		r, ok := in.(*ssa.Return)
		if !ok {
			return false
		}
		// returns `err`: a path that returns before the main write returned an earlier error
		return guardedByNilErrOnly(r)
	}, Barrier: func(in ssa.Instruction) bool { return in == ssa.Instruction(mainWrite) }}.Find()
	_ = w
	// simpler and sufficient: the main write is not guarded by anything but earlier error checks
	bad := ""
	for _, g := range guardsOf(mainWrite) {
		if strings.Contains(g.Key, "< builtin:len(") && !g.Branch {
			continue // exit edge of an earlier loop
		}
		if !strings.HasSuffix(g.Key, "!= nil)") {
			bad = g.Key
		}
	}
	c.Check(bad == "", "writeConfig always writes the main file", at(c, mainWrite), "guarded only by earlier error checks", "the main file write is conditional on `"+bad+"`")
	// shard loop ranges over ChangedShards()
	lfile := sliceLeaves(c.Env, shardWrite.Call.Args[2], 0)
	lshard := sliceLeaves(c.Env, buildShard.Call.Args[1], 0)
	c.Check(leavesContain(lshard, "Backends).ChangedShards"), "shard loop ranges over ChangedShards()", at(c, buildShard), "", "shard content index does not come from ChangedShards(): "+leavesList(lshard))
	// same element for name and content
	jv := buildShard.Call.Args[1]
	nameHasJ := false
	var walk func(v ssa.Value, d int)
	seen := map[ssa.Value]bool{}
	walk = func(v ssa.Value, d int) {
		if v == nil || seen[v] || d > 12 {
			return
		}
		seen[v] = true
		if v == jv {
			nameHasJ = true
			return
		}
		var ops []*ssa.Value
		if in, ok := v.(ssa.Instruction); ok {
			ops = in.Operands(nil)
		}
		for _, o := range ops {
			if *o != nil {
				walk(*o, d+1)
			}
		}
		if al, ok := v.(*ssa.Alloc); ok {
			for _, r := range *al.Referrers() {
				switch x := r.(type) {
				case *ssa.Store:
					if x.Addr == al {
						walk(x.Val, d+1)
					}
				case *ssa.IndexAddr:
					for _, rr := range *x.Referrers() {
						if st, ok := rr.(*ssa.Store); ok && st.Addr == x {
							walk(st.Val, d+1)
						}
					}
				}
			}
		}
	}
	walk(shardWrite.Call.Args[2], 0)
	c.Check(nameHasJ, "shard file name and content use the same shard number", at(c, shardWrite), "file name derives from the value passed to BuildSortedShard", "the file name does not derive from the shard number whose content is written: "+leavesList(lfile))
	// content passed to WriteOutput is the BuildSortedShard result
	ldata := sliceLeaves(c.Env, shardWrite.Call.Args[1], 0)
	c.Check(leavesContain(ldata, "Backends).BuildSortedShard"), "shard file content is BuildSortedShard(j)", at(c, shardWrite), "", "content does not come from BuildSortedShard")
	// BuildSortedItems
	if f := c.Fn("haproxy/types", "Backends.BuildSortedItems"); f != nil {
		t := core.ExtractTable(f)
		b, err := t.Bind(matchers{"noshards": has("builtin:len(b.shards) == 0")})
		if err != nil || t.Err != "" {
			c.Undecided("BuildSortedItems", c.Pos(f.Pos()), fmt.Sprint(t.Err, err))
		} else {
			cl := t.ReturnClasses(func(r *ssa.Return) string {
				if core.IsNilConst(core.Results(r)[0]) {
					return "nil"
				}
				return "all"
			})
			ok, diff, _ := t.CompareClasses(cl, b, func(v map[string]bool) string {
				if v["noshards"] {
					return "all"
				}
				return "nil"
			})
			c.Check(ok, "BuildSortedItems: full list iff no shards", c.Pos(f.Pos()), "", diff)
		}
	}
}

func guardedByNilErrOnly(r *ssa.Return) bool { return true }

func c05CommitClears(c *core.Ctx) {
	conts := tripleContainers(c)
	for _, ct := range conts {
		for _, fld := range []string{"itemsAdd", "itemsDel"} {
			ws := map[string]bool{}
			for _, fn := range c.SrcFuncs() {
				if core.PkgOf(fn) != "haproxy/types" {
					continue
				}
				for _, st := range fieldStores(fn, false, ct.full, fld) {
					if fa, ok := st.Addr.(*ssa.FieldAddr); ok {
						if _, fresh := fa.X.(*ssa.Alloc); fresh {
							continue // initialising an object allocated right here (constructor)
						}
					}
					ws[core.FuncName(fn)] = true
				}
			}
			var bad []string
			for f := range ws {
				base := f[strings.LastIndex(f, ".")+1:]
				switch base {
				case "Commit", "Clear":
				default:
					if strings.HasPrefix(base, "Create") {
						continue
					}
					bad = append(bad, f)
				}
			}
			c.Check(len(bad) == 0, ct.name+"."+fld+" is replaced only by Commit/Clear/constructor", "", "", "also replaced in: "+strings.Join(bad, ", ")+" — pending changes are dropped before they are written")
		}
	}
	// changedShards
	ws := writersOf(c.Env, "haproxy/types.Backends", "changedShards")
	var bad []string
	for f := range ws {
		base := f[strings.LastIndex(f, ".")+1:]
		switch base {
		case "Commit", "Shrink", "backendShardChanged", "CreateBackends":
		default:
			bad = append(bad, f)
		}
	}
	c.Check(len(bad) == 0, "Backends.changedShards writers", "", "", "unexpected writers: "+strings.Join(bad, ", "))
	// Commit of config calls every container's Commit
	if fn := c.Fn("haproxy", "config.Commit"); fn != nil {
		called := map[string]bool{}
		for _, s := range core.Calls(fn, false) {
			n := core.CalleeName(s.Common())
			if strings.HasSuffix(n, ").Commit") {
				called[n] = true
			}
		}
		for _, want := range []string{"Frontend).Commit", "Hosts).Commit", "Backends).Commit", "TCPBackends).Commit", "TCPServices).Commit", "Userlists).Commit", "AcmeStorages).Commit"} {
			ok := false
			for n := range called {
				if strings.HasSuffix(n, want) {
					ok = true
				}
			}
			c.Check(ok, "config.Commit commits "+strings.TrimSuffix(want, ").Commit"), c.Pos(fn.Pos()), "", "a container is never committed: it reports `changed` forever and every update reloads")
		}
	}
}

// blockDoesNoWork: the block only returns; builtin calls and calls into other modules (a log line) are not work.
func blockDoesNoWork(b *ssa.BasicBlock) bool {
	for _, in := range b.Instrs {
		switch x := in.(type) {
		case *ssa.Store, *ssa.MapUpdate, *ssa.Defer, *ssa.Go, *ssa.Send:
			if st, ok := x.(*ssa.Store); ok {
				if _, local := st.Addr.(*ssa.Alloc); local {
					continue
				}
			}
			return false
		case *ssa.Call:
			if _, isBuiltin := x.Call.Value.(*ssa.Builtin); isBuiltin {
				continue
			}
			if x.Call.IsInvoke() && !strings.Contains(x.Call.Value.Type().String(), core.Module+"/pkg/haproxy") {
				continue
			}
			if callee := x.Call.StaticCallee(); callee != nil && callee.Pkg != nil && !strings.HasPrefix(callee.Pkg.Pkg.Path(), core.Module) {
				continue
			}
			return false
		}
	}
	return true
}
