package rules

import (
	"fmt"
	"strings"
	"text/template/parse"

	"golang.org/x/tools/go/ssa"

	"hapverif/internal/core"
)

func init() {
	register(&core.Property{
		ID:          "C18",
		Title:       "External authentication fails closed",
		Explanation: "Typestate of hatypes.AuthExternal decided by a forward dataflow over the CFG of its only two writers (setAuthExternal, the per-path body of buildBackendOAuth): on every path from the point where authentication is declared to every exit (return, next iteration) the object is either `AlwaysDeny=true`, or `AlwaysDeny=false` together with a non-empty AuthBackendName that derives from a successful AcquireAuthBackendName / a found backend. Plus: nobody else writes these fields; a declaration always reaches the configuration call (per path, backend and frontend placement); oauth runs after auth-url and leaves its state alone; the `used` set that protects auth proxies from being recycled covers every holder of an AuthExternal; the template renders the deny / intercept pair with the path's own condition.",
		NotDecided: []string{
			"that HAProxy evaluates the rendered rule for exactly that path (rendered text is not interpreted)",
			"behaviour of auth-request.lua",
		},
		Assumptions: []string{"one AuthExternal object per function call / loop iteration (bases are not distinguished inside one iteration)"},
		Rules: []*core.Rule{
			{ID: "C18.typestate", Floor: 2, Run: c18Typestate,
				Doc: "Forward typestate analysis: states (deny: untouched/true/false) x (backend name stored) x (excused by a not-declared edge). At every exit the state must be deny=true, or deny=false with a name stored, or untouched on a path that crossed a `not declared for this path` edge (oauth: no oauth annotation; the path's own auth-url has precedence)."},
			{ID: "C18.name-valid", Floor: 2, Run: c18NameValid,
				Doc: "The value stored into AuthBackendName derives from AcquireAuthBackendName's first result (reachable only through a nil-error edge of an acquire) or from the ID of a backend found non-nil."},
			{ID: "C18.writers", Floor: 2, Run: c18Writers,
				Doc: "AlwaysDeny and AuthBackendName are written only by setAuthExternal and buildBackendOAuth."},
			{ID: "C18.declared-configured", Floor: 6, Run: c18Declared,
				Doc: "buildBackendAuthExternal calls setAuthExternal for every path iff placement is backend and the path's url is non-empty; buildHostAuthExternal for every path iff placement is frontend and url non-empty, on a freshly allocated AuthExt; both and buildBackendOAuth are called unconditionally from UpdateBackendConfig/UpdateHostConfig, oauth after auth-url."},
			{ID: "C18.used-holders", Floor: 3, Run: c18UsedHolders,
				Doc: "Before auth proxies are recycled (RemoveAuthBackendExcept) the used set is collected from every struct field that holds an AuthExternal (BackendPath.AuthExternal, HostPath.AuthExt), over the complete current model (items, not only the added ones)."},
			{ID: "C18.template", Floor: 4, Run: c18Template,
				Doc: "Template `auth-external` renders `http-request deny` under AlwaysDeny and otherwise the lua intercept plus a deny/redirect unless the auth succeeded, every rule carrying the caller's condition; backend callers pass the path-id condition, frontend callers the req.base condition."},
		},
	})
}

const (
	dU = 0
	dT = 1
	dF = 2
)

func c18enc(deny int, name, exc bool) int {
	s := deny
	if name {
		s += 3
	}
	if exc {
		s += 6
	}
	return s
}
func c18dec(s int) (deny int, name, exc bool) { return s % 3, s/3%2 == 1, s/6 == 1 }

func authField(v ssa.Value, field string) bool {
	o, f := core.FieldOf(v)
	return f == field && strings.HasSuffix(o, "haproxy/types.AuthExternal")
}

func c18Typestate(c *core.Ctx) {
	type target struct {
		name   string
		excuse func(k string, branch bool) bool
	}
	targets := []target{
		{"updater.setAuthExternal", nil},
		{"updater.buildBackendOAuth", func(k string, branch bool) bool {
			// the path does not declare oauth
			if strings.Contains(k, `"oauth").Source == nil)`) && branch {
				return true
			}
			if strings.Contains(k, `"oauth").Source != nil)`) && !branch {
				return true
			}
			// the path's own auth-url has precedence (read through the path's config, not the backend-wide mapper)
			if strings.Contains(k, `KeyConfig).Get(`) && strings.Contains(k, `"auth-url").Value != "")`) && branch {
				return true
			}
			return false
		}},
	}
	for _, tg := range targets {
		fn := c.Fn("converters/ingress/annotations", tg.name)
		if fn == nil {
			continue
		}
		key := "converters/ingress/annotations.(*" + strings.Replace(tg.name, ".", ").", 1)
		// outer loop header: back-edge target dominating all AlwaysDeny stores
		var stores []*ssa.Store
		for _, b := range fn.Blocks {
			for _, in := range b.Instrs {
				if st, ok := in.(*ssa.Store); ok && authField(st.Addr, "AlwaysDeny") {
					stores = append(stores, st)
				}
			}
		}
		if len(stores) == 0 {
			c.Violated(key, c.Pos(fn.Pos()), "no store to AlwaysDeny found: a failed configuration leaves the path open")
			continue
		}
		var header *ssa.BasicBlock
		for _, b := range fn.Blocks {
			for _, s := range b.Succs {
				if core.IsBackEdge(b, s) {
					all := true
					for _, st := range stores {
						if !s.Dominates(st.Block()) {
							all = false
						}
					}
					if all && (header == nil || header.Dominates(s)) {
						header = s
					}
				}
			}
		}
		fw := core.Forward{Fn: fn, Init: 1 << uint(c18enc(dU, false, false)),
			Instr: func(in ssa.Instruction, s int) int {
				st, ok := in.(*ssa.Store)
				if !ok {
					return s
				}
				deny, name, exc := c18dec(s)
				switch {
				case authField(st.Addr, "AlwaysDeny"):
					if core.IsConstBool(st.Val, true) {
						deny = dT
					} else {
						deny = dF
					}
				case authField(st.Addr, "AuthBackendName"):
					name = !core.IsConstString(st.Val, "")
				}
				return c18enc(deny, name, exc)
			},
			Edge: func(from *ssa.BasicBlock, succ int, s int) (int, bool) {
				if header != nil && from.Succs[succ] == header && core.IsBackEdge(from, header) {
					return s, false // iteration exit: checked below, next iteration starts fresh
				}
				if tg.excuse != nil {
					if ifi, ok := from.Instrs[len(from.Instrs)-1].(*ssa.If); ok {
						if tg.excuse(core.Key(ifi.Cond), succ == 0) {
							d, n, _ := c18dec(s)
							return c18enc(d, n, true), true
						}
					}
				}
				return s, true
			}}
		// when there is an outer loop the fresh state enters at the header on each iteration
		blockIn, before, blockOut := fw.Run()
		_ = blockIn
		bad := 0
		nExits := 0
		checkExit := func(states core.StateSet, site ssa.Instruction, what string) {
			nExits++
			for _, s := range states.States() {
				deny, name, exc := c18dec(s)
				ok := deny == dT || deny == dF && name || deny == dU && exc && tg.excuse != nil
				if !ok {
					bad++
					desc := map[int]string{dU: "AlwaysDeny never set", dT: "deny", dF: "AlwaysDeny=false"}[deny]
					if deny == dF && !name {
						desc += " with no AuthBackendName stored"
					}
					c.Violated(key+" exit "+what, at(c, site), "an exit is reachable in state ["+desc+"]: the path is served without authentication")
				}
			}
		}
		for _, b := range fn.Blocks {
			if core.IsRecoverBlock(b) {
				continue
			}
			last := b.Instrs[len(b.Instrs)-1]
			if _, ok := last.(*ssa.Return); ok {
				if st, reach := before[last]; reach && st != 0 {
					// returns of the outer function after the loop carry the state of the loop entry (U): only
					// meaningful when there is no loop
					if header == nil {
						checkExit(st, last, fmt.Sprintf("return@%s", at(c, last)))
					}
				}
			}
			for k, s := range b.Succs {
				if header != nil && s == header && core.IsBackEdge(b, header) {
					if out, ok := blockOut[b]; ok && out != 0 {
						// apply the excusing edge, if this very edge is one
						var adj core.StateSet
						for _, st := range out.States() {
							d, n, e := c18dec(st)
							if ifi, ok := last.(*ssa.If); ok && tg.excuse != nil && tg.excuse(core.Key(ifi.Cond), k == 0) {
								e = true
							}
							adj |= 1 << uint(c18enc(d, n, e))
						}
						checkExit(adj, last, fmt.Sprintf("next-iteration@%s", at(c, last)))
					}
				}
			}
		}
		if nExits == 0 {
			c.Undecided(key, c.Pos(fn.Pos()), "no exit found")
		} else if bad == 0 {
			c.Held(key, c.Pos(fn.Pos()), fmt.Sprintf("%d exits, all in state deny or (allow with auth backend) or excused not-declared", nExits))
		}
	}
}

func c18NameValid(c *core.Ctx) {
	for _, name := range []string{"updater.setAuthExternal", "updater.buildBackendOAuth"} {
		fn := c.Fn("converters/ingress/annotations", name)
		if fn == nil {
			continue
		}
		for _, b := range fn.Blocks {
			for _, in := range b.Instrs {
				st, ok := in.(*ssa.Store)
				if !ok || !authField(st.Addr, "AuthBackendName") {
					continue
				}
				key := name + " AuthBackendName <- " + core.Key(st.Val)
				l := sliceLeaves(c.Env, st.Val, 0)
				switch {
				case leavesContain(l, "AcquireAuthBackendName#0"):
					// reachable only through a nil-error edge of an acquire
					w := core.PathQuery{Fn: fn, Target: func(x ssa.Instruction) bool { return x == in }, EdgeOK: func(from *ssa.BasicBlock, succ int) bool {
						if ifi, ok := from.Instrs[len(from.Instrs)-1].(*ssa.If); ok {
							k := core.Key(ifi.Cond)
							if strings.Contains(k, "AcquireAuthBackendName(") && strings.HasSuffix(k, "#1 != nil)") {
								// the phi of the two acquire errors shows as phi{...}: accept any
								return succ == 0 // forbid the success edge
							}
							if strings.Contains(k, "AcquireAuthBackendName(") && strings.Contains(k, "#1") && strings.HasSuffix(k, "!= nil)") {
								return succ == 0
							}
						}
						return true
					}}.Find()
					c.Check(w == nil, key, at(c, st), "name comes from AcquireAuthBackendName and is stored only after an acquire succeeded", "the name is stored on a path where no acquire succeeded (empty name): "+w.Describe(c.Env))
				case leavesContain(l, "field:") && strings.HasSuffix(core.Key(st.Val), ".ID"):
					// ID of a backend found non-nil
					c.Check(guardedBy(st, has("findBackend(", " == nil"), false) || guardedBy(st, has("findBackend(", " != nil"), true), key, at(c, st), "ID of a backend that was found", "the backend the ID is read from is not checked for nil")
				default:
					c.Violated(key, at(c, st), "AuthBackendName does not derive from an acquired auth proxy or a found backend: "+leavesList(l))
				}
			}
		}
	}
}

func c18Writers(c *core.Ctx) {
	for _, f := range []string{"AlwaysDeny", "AuthBackendName"} {
		ws := writersOf(c.Env, "haproxy/types.AuthExternal", f)
		var bad []string
		for fn := range ws {
			if strings.Contains(fn, "helper_test") {
				continue
			}
			if !strings.HasSuffix(fn, ").setAuthExternal") && !strings.HasSuffix(fn, ").buildBackendOAuth") {
				bad = append(bad, fn)
			}
		}
		c.Check(len(bad) == 0 && len(ws) >= 2, "writers of AuthExternal."+f, "", "only setAuthExternal and buildBackendOAuth", "unexpected writers: "+strings.Join(bad, ", "))
	}
}

func c18Declared(c *core.Ctx) {
	set := c.Env.Func("converters/ingress/annotations", "updater.setAuthExternal")
	if set == nil {
		c.MissingAnchor("updater.setAuthExternal")
		return
	}
	for _, x := range []struct{ fn, place, getter string }{
		{"updater.buildBackendAuthExternal", "backend", "KeyConfig).Get("},
		{"updater.buildHostAuthExternal", "frontend", "Mapper).Get("},
	} {
		fn := c.Fn("converters/ingress/annotations", x.fn)
		if fn == nil {
			continue
		}
		var calls []*ssa.Call
		for _, s := range core.Calls(fn, false) {
			if s.Common().StaticCallee() == set {
				calls = append(calls, s.Instr.(*ssa.Call))
			}
		}
		if len(calls) != 1 {
			c.Violated(x.fn+" calls setAuthExternal", c.Pos(fn.Pos()), fmt.Sprintf("%d calls, expected 1", len(calls)))
			continue
		}
		call := calls[0]
		t := core.ExtractTable(fn)
		m := matchers{
			"place": has(`"auth-external-placement"`, `== "`+x.place+`")`, "ToLower("),
			"url":   has(`"auth-url").Value != "")`),
		}
		// atoms of the range loop are extra: bind only place/url, others must be loop atoms
		b, err := t.Bind(m)
		if t.Err != "" || err != nil {
			c.Undecided(x.fn+" condition", at(c, call), fmt.Sprintf("%s %v", t.Err, err))
		} else {
			cond, _ := t.InstrCond(call)
			// ignoring loop atoms: cond restricted to (place,url) must be place&&url given the loop runs
			ok := true
			diff := ""
			for i, a := range t.Atoms {
				if b.Names[i] == "" && !strings.Contains(a, "len(") && !strings.HasPrefix(a, "loopphi") && !strings.Contains(a, "phi{") {
					if cond.DependsOn(i) {
						ok = false
						diff = "the call additionally depends on `" + a + "`"
					}
				}
			}
			if ok {
				good, d, _ := t.Compare(cond, b, func(v map[string]bool) bool { return v["place"] && v["url"] }, func(v map[string]bool) bool { return true })
				// loop atoms make the comparison fail on rows where the loop does not run; check implication both ways modulo loop atoms
				if !good {
					// cond must imply place&&url, and place&&url&&(loop runs) must imply cond: approximate by independence check
					imp, d2, _ := t.Compare(cond.And(t.True()), b, func(v map[string]bool) bool { return false }, func(v map[string]bool) bool { return !(v["place"] && v["url"]) })
					if !imp {
						ok = false
						diff = d2
					} else {
						_ = d
					}
				}
			}
			c.Check(ok, x.fn+" condition", at(c, call), "setAuthExternal is called iff placement is "+x.place+" and url is non-empty", "call condition is wrong: "+diff)
		}
		// called inside a loop over all paths
		inLoop := core.Reaches(fn, call, func(in ssa.Instruction) bool { return in == ssa.Instruction(call) }) != nil
		c.Check(inLoop, x.fn+" per path", at(c, call), "inside the loop over the paths", "setAuthExternal is not called per path")
		// the object passed
		arg := call.Call.Args[2]
		k := core.Key(arg)
		if x.place == "backend" {
			c.Check(strings.HasSuffix(k, ".AuthExternal") && strings.Contains(k, ".Paths["), x.fn+" object", at(c, call), "configures the AuthExternal of the iterated path", "configures `"+k+"`")
		} else {
			// AuthExt freshly allocated and stored in the path before the call
			fresh := false
			for _, bb := range fn.Blocks {
				for _, in := range bb.Instrs {
					if st, ok := in.(*ssa.Store); ok {
						if _, f := core.FieldOf(st.Addr); f == "AuthExt" {
							if _, isAlloc := st.Val.(*ssa.Alloc); isAlloc {
								fresh = true
							}
						}
					}
				}
			}
			c.Check(fresh && strings.HasSuffix(k, ".AuthExt"), x.fn+" object", at(c, call), "configures a freshly allocated AuthExt of the iterated path", "AuthExt is not freshly allocated per path or another object is configured: "+k)
		}
		// url passed is the one tested
		urlArg := core.Key(call.Call.Args[3])
		c.Check(strings.Contains(urlArg, `"auth-url")`), x.fn+" url", at(c, call), "", "url argument is "+urlArg)
	}
	// unconditional calls and order
	if fn := c.Fn("converters/ingress/annotations", "updater.UpdateBackendConfig"); fn != nil {
		ext := c.Env.Func("converters/ingress/annotations", "updater.buildBackendAuthExternal")
		oa := c.Env.Func("converters/ingress/annotations", "updater.buildBackendOAuth")
		isExt := func(in ssa.Instruction) bool {
			call, ok := in.(*ssa.Call)
			return ok && call.Call.StaticCallee() == ext
		}
		isOA := func(in ssa.Instruction) bool { call, ok := in.(*ssa.Call); return ok && call.Call.StaticCallee() == oa }
		c.Check(core.MustPrecede(fn, isExt, core.IsReturn) == nil, "UpdateBackendConfig calls buildBackendAuthExternal", c.Pos(fn.Pos()), "on all paths", "not called on every path")
		c.Check(core.MustPrecede(fn, isOA, core.IsReturn) == nil, "UpdateBackendConfig calls buildBackendOAuth", c.Pos(fn.Pos()), "on all paths", "not called on every path")
		c.Check(core.MustPrecede(fn, isExt, isOA) == nil, "auth-url configured before oauth", c.Pos(fn.Pos()), "oauth's precedence rule relies on the state left by auth-url", "buildBackendOAuth can run before buildBackendAuthExternal: a later auth-url configuration overwrites or is overwritten")
	}
	if fn := c.Fn("converters/ingress/annotations", "updater.UpdateHostConfig"); fn != nil {
		ext := c.Env.Func("converters/ingress/annotations", "updater.buildHostAuthExternal")
		isExt := func(in ssa.Instruction) bool {
			call, ok := in.(*ssa.Call)
			return ok && call.Call.StaticCallee() == ext
		}
		c.Check(core.MustPrecede(fn, isExt, core.IsReturn) == nil, "UpdateHostConfig calls buildHostAuthExternal", c.Pos(fn.Pos()), "on all paths", "not called on every path")
	}
}

func c18UsedHolders(c *core.Ctx) {
	set := c.Fn("converters/ingress/annotations", "updater.setAuthExternal")
	used := c.Fn("haproxy/types", "Backends.BuildUsedAuthBackends")
	if set == nil || used == nil {
		return
	}
	// holders: struct fields of type AuthExternal / *AuthExternal in haproxy/types
	holders := authExternalHolders(c)
	if len(holders) < 2 {
		c.Violated("holders of AuthExternal", "", fmt.Sprintf("found %v, expected at least BackendPath.AuthExternal and HostPath.AuthExt", holders))
		return
	}
	// the function that recycles
	recycles := false
	for _, s := range core.Calls(set, false) {
		if strings.HasSuffix(core.CalleeName(s.Common()), ".RemoveAuthBackendExcept") {
			recycles = true
			// reads of AuthBackendName through each holder in setAuthExternal ∪ BuildUsedAuthBackends
			reads := map[string]bool{}
			ranges := map[string]string{}
			for _, f := range []*ssa.Function{set, used} {
				for _, b := range f.Blocks {
					for _, in := range b.Instrs {
						if fa, ok := in.(*ssa.FieldAddr); ok && authField(fa, "AuthBackendName") {
							k := core.Key(fa)
							for _, h := range holders {
								if strings.Contains(k, "."+h[strings.Index(h, ".")+1:]+".AuthBackendName") {
									reads[h] = true
									ranges[h] = k
								}
							}
						}
					}
				}
			}
			for _, h := range holders {
				c.Check(reads[h], "used set covers "+h, at(c, s.Instr), "AuthBackendName is collected through "+h, "the used set is not collected through "+h+": an auth proxy referenced only there is recycled and re-pointed to another auth service")
			}
		}
	}
	c.Check(recycles, "setAuthExternal recycles through RemoveAuthBackendExcept", c.Pos(set.Pos()), "", "call not found")
	// the names that are read are recorded: used[name] = true on the non-empty branch
	for _, f := range []*ssa.Function{set, used} {
		n := 0
		for _, b := range f.Blocks {
			for _, in := range b.Instrs {
				mu, ok := in.(*ssa.MapUpdate)
				if !ok || !strings.Contains(mu.Map.Type().String(), "map[string]bool") {
					continue
				}
				k := core.Key(mu.Key)
				if !strings.Contains(k, "AuthBackendName") && !strings.Contains(k, "AuthExternal") && k != "name" && !strings.HasSuffix(k, ".name") {
					continue
				}
				n++
				who := f.Name()
				nonEmpty := guardedBy(mu, has(`!= "")`), true) || guardedBy(mu, has(`== "")`), false)
				c.Check(core.IsConstBool(mu.Value, true) && nonEmpty, who+" marks a referenced auth proxy as used", at(c, mu), "", "the name `"+k+"` is stored as "+core.Key(mu.Value)+" (or outside the non-empty test): a proxy in use is recycled and handed to another auth service")
			}
		}
		c.Check(n == 1, f.Name()+" records the names it reads", c.Pos(f.Pos()), "", fmt.Sprintf("%d stores into the used set", n))
	}
	// complete model: ranges over items / Items()
	for _, b := range used.Blocks {
		for _, in := range b.Instrs {
			if r, ok := in.(*ssa.Range); ok {
				k := core.Key(r.X)
				c.Check(strings.HasSuffix(k, ".items"), "BuildUsedAuthBackends ranges over the complete model", at(c, r), "", "ranges over `"+k+"`: backends committed earlier are not counted as users")
			}
		}
	}
	for _, b := range set.Blocks {
		for _, in := range b.Instrs {
			if r, ok := in.(*ssa.Range); ok && strings.Contains(core.Key(r.X), "Hosts") {
				k := core.Key(r.X)
				c.Check(strings.Contains(k, ").Items("), "setAuthExternal ranges over all hosts", at(c, r), "", "ranges over `"+k+"`")
			}
		}
	}
}

func authExternalHolders(c *core.Ctx) []string { return authHoldersByTypes(c, nil) }

func c18Template(c *core.Ctx) {
	t, err := c.LoadTemplate("rootfs/etc/templates/haproxy/haproxy.tmpl")
	if err != nil {
		c.MissingAnchor("haproxy.tmpl: " + err.Error())
		return
	}
	if t.Trees["authExternal"] == nil {
		c.MissingAnchor("template authExternal")
		return
	}
	type line struct {
		text   string
		guards []core.Guard
		ln     int
	}
	var denyUnderAlways, intercept, denyUnlessOK, redirectUnlessOK bool
	var condEverywhere = true
	var detail []string
	// collect text nodes and whether the text that follows, within the same rule, prints $condition
	var nodes []core.TNode
	t.Walk("authExternal", func(n core.TNode) { nodes = append(nodes, n) })
	ruleStarts := 0
	for i, n := range nodes {
		tx, ok := n.Node.(*parse.TextNode)
		if !ok {
			continue
		}
		s := string(tx.Text)
		if !strings.Contains(s, "http-request") {
			continue
		}
		ruleStarts++
		gs := strings.Join(core.GuardStrings(n.Guards), " / ")
		underAlways := strings.Contains(gs, "if $auth.AlwaysDeny") && !strings.Contains(gs, "else $auth.AlwaysDeny")
		underElse := strings.Contains(gs, "else $auth.AlwaysDeny")
		// does a `{{ $condition }}` action follow before the next http-request text?
		hasCond := false
		for j := i + 1; j < len(nodes); j++ {
			if tx2, ok := nodes[j].Node.(*parse.TextNode); ok && strings.Contains(string(tx2.Text), "http-request") {
				if alternativeBranch(n.Guards, nodes[j].Guards) {
					continue // the else-branch twin of this rule: both are completed by the text that follows the if/else
				}
				break
			}
			if an, ok := nodes[j].Node.(*parse.ActionNode); ok && strings.TrimSpace(an.Pipe.String()) == "$condition" {
				hasCond = true
			}
		}
		if !hasCond {
			condEverywhere = false
			detail = append(detail, fmt.Sprintf("rule at line %d does not print the caller's condition", n.Line))
		}
		switch {
		case strings.Contains(s, "http-request deny") && underAlways:
			denyUnderAlways = true
		case strings.Contains(s, "lua.auth-intercept") && underElse:
			intercept = true
		case strings.Contains(s, "http-request deny") && underElse:
			denyUnlessOK = true
		case strings.Contains(s, "http-request redirect") && underElse:
			redirectUnlessOK = true
		}
	}
	// the deny/redirect pair is followed by the "unless successful" text
	unless := false
	for _, n := range nodes {
		if tx, ok := n.Node.(*parse.StringNode); ok && strings.Contains(tx.Text, "!{ var(txn.auth_response_successful) -m bool }") {
			unless = true
		}
		if tx, ok := n.Node.(*parse.TextNode); ok && strings.Contains(string(tx.Text), "!{ var(txn.auth_response_successful) -m bool }") {
			unless = true
		}
	}
	c.Check(denyUnderAlways, "authExternal: deny under AlwaysDeny", "rootfs/etc/templates/haproxy/haproxy.tmpl", "", "no `http-request deny` under `if $auth.AlwaysDeny`")
	c.Check(intercept, "authExternal: intercept otherwise", "rootfs/etc/templates/haproxy/haproxy.tmpl", "", "no lua.auth-intercept in the else branch")
	c.Check(denyUnlessOK && redirectUnlessOK && unless, "authExternal: deny/redirect unless successful", "rootfs/etc/templates/haproxy/haproxy.tmpl", "", "the else branch does not deny (or redirect) unless txn.auth_response_successful")
	c.Check(condEverywhere && ruleStarts >= 4, "authExternal: every rule carries the condition", "rootfs/etc/templates/haproxy/haproxy.tmpl", fmt.Sprintf("%d rules", ruleStarts), strings.Join(detail, "; "))
	// callers
	nCallers := 0
	for _, name := range t.TreeNames() {
		t.Walk(name, func(n core.TNode) {
			tn, ok := n.Node.(*parse.TemplateNode)
			if !ok || tn.Name != "authExternal" {
				return
			}
			nCallers++
			p := tn.Pipe.String()
			switch name {
			case "authExternalFrontend":
				c.Check(strings.Contains(p, "$path.AuthExt") && strings.Contains(p, "var(req.base) -m str %s '%s'") && strings.Contains(p, "$path.Link.HAMatch $path.Link.Key"), "authExternal caller: frontend", fmt.Sprintf("haproxy.tmpl:%d", n.Line), "scoped by the path's req.base condition", "frontend caller passes `"+p+"`")
			default:
				c.Check(strings.Contains(p, "var(txn.pathID) -m str %s") && strings.Contains(p, "$pathIDs") && strings.Contains(p, "$auth"), "authExternal caller: "+name, fmt.Sprintf("haproxy.tmpl:%d", n.Line), "scoped by the path ids of that auth config", "backend caller passes `"+p+"`")
			}
		})
	}
	c.Check(nCallers >= 2, "authExternal has backend and frontend callers", "", "", fmt.Sprintf("%d callers", nCallers))
	// The condition handed to authExternal selects the declared paths and nothing else: every term it is
	// built from is reviewed. Any further term (a method exemption, a header test) ANDed into the
	// condition lets the requests that do not satisfy it through unauthenticated.
	allowed := map[string]map[string]bool{
		"authExternalFrontend": {`str:{ var(req.base) -m str %s '%s' }`: true, "fn:printf": true, "fn:map": true, "var:$path.AuthExt": true, "var:$path.Link.HAMatch": true, "var:$path.Link.Key": true},
		"*": {`str:`: true, `str:{ var(txn.pathID) -m str %s }`: true, "fn:printf": true, "fn:iif": true, "fn:eq": true, "fn:map": true, "var:$auth": true, "var:$pathIDs": true},
	}
	for _, name := range t.TreeNames() {
		t.Walk(name, func(n core.TNode) {
			tn, ok := n.Node.(*parse.TemplateNode)
			if !ok || tn.Name != "authExternal" || tn.Pipe == nil {
				return
			}
			al := allowed[name]
			if al == nil {
				al = allowed["*"]
			}
			var extra []string
			var walk func(nd parse.Node)
			walk = func(nd parse.Node) {
				switch x := nd.(type) {
				case *parse.PipeNode:
					for _, cmd := range x.Cmds {
						walk(cmd)
					}
				case *parse.CommandNode:
					for _, a := range x.Args {
						walk(a)
					}
				case *parse.StringNode:
					if !al["str:"+x.Text] {
						extra = append(extra, "string `"+x.Text+"`")
					}
				case *parse.IdentifierNode:
					if !al["fn:"+x.Ident] {
						extra = append(extra, "function "+x.Ident)
					}
				case *parse.VariableNode:
					if !al["var:"+strings.Join(x.Ident, ".")] {
						extra = append(extra, "variable "+strings.Join(x.Ident, "."))
					}
				case *parse.FieldNode, *parse.ChainNode, *parse.DotNode, *parse.BoolNode, *parse.NumberNode:
					extra = append(extra, "term `"+nd.String()+"`")
				}
			}
			walk(tn.Pipe)
			c.Check(len(extra) == 0, "authExternal caller passes only the path selection: "+name, fmt.Sprintf("haproxy.tmpl:%d", n.Line), "", "the condition handed to authExternal is built from terms outside the reviewed path selection ("+strings.Join(extra, ", ")+"): requests that fail the extra term are served without the authentication call")
		})
	}
}

// alternativeBranch: b is the else-branch sibling of a (same guards, last one if<->else of the same pipeline).
func alternativeBranch(a, b []core.Guard) bool {
	if len(a) != len(b) || len(a) == 0 {
		return false
	}
	for i := 0; i < len(a)-1; i++ {
		if a[i] != b[i] {
			return false
		}
	}
	x, y := a[len(a)-1], b[len(b)-1]
	return x.Pipe == y.Pipe && x.Kind != y.Kind
}
