package rules

import (
	"fmt"
	"go/token"
	"strings"

	"golang.org/x/tools/go/ssa"

	"hapverif/internal/core"
)

func init() {
	register(&core.Property{
		ID:          "C09",
		Title:       "Cross-namespace isolation: foreign Secrets/Services cannot influence a config",
		Explanation: "Static decision of the permission mechanism: (1) the complete decision table of buildResourceName (new and legacy controller) equals `error iff a default namespace is given, the reference names another namespace and the kind's bit is off`; (2) each getter passes its own permission bit, and fetches and tracks exactly the namespace/name the resolver returned, on its nil-error edge; (3) at every call site in the converters the default namespace handed to a getter is the namespace of the object carrying the reference (or empty for operator-level configuration) and never derives from the reference value itself; (4) a namespace or name parsed out of an annotation value reaches a model lookup that can stand in for a checked read (Backends.FindBackend/AcquireBackend, Userlists.Find) only past a comparison with the reader's namespace whose `differs` edge is closed unless the matching permission bit is on; (5) the four bits are assigned from their own configuration keys, `allow` only, and the command-line override reaches the three secret bits only.",
		NotDecided: []string{
			"two-world non-interference on concrete clusters (equality of written configurations)",
			"file:// references: they read the controller's own file system, not another namespace",
		},
		Assumptions: []string{
			"k8s.io/client-go cache.SplitMetaNamespaceKey splits `ns/name` as documented",
			"value-flow slices follow phi, extract, field loads, conversions, concatenation and repository calls to depth 2; heap aliasing beyond field paths is not modelled",
		},
		Rules: []*core.Rule{
			{ID: "C09.resolver", Floor: 2, Run: c09Resolver,
				Doc: "buildResourceName returns an error iff the key does not split, or defaultNamespace != \"\" and ns != \"\" and !allow and ns != defaultNamespace; returns defaultNamespace iff defaultNamespace != \"\" and ns == \"\"; else the parsed namespace. All rows compared, both controllers."},
			{ID: "C09.bit-wiring", Floor: 8, Run: c09BitWiring,
				Doc: "Each getter passes its own permission bit to the resolver: services -> CrossNamespaceServices, certificates -> ...SecretCertificate, CA -> ...SecretCA, passwd -> ...SecretPasswd; constant true only for the operator-level DH param. A swapped bit opens one kind with another kind's key and is invisible unless the two keys differ."},
			{ID: "C09.fetch-checked", Floor: 4, Run: c09FetchChecked,
				Doc: "The namespace/name a getter reads (and tracks) are the resolver's results, and the read happens only on the resolver's nil-error edge."},
			{ID: "C09.reader-ns", Floor: 8, Run: c09ReaderNS,
				Doc: "At every converter call site of GetService/GetTLSSecretPath/GetCASecretPath/GetPasswdSecretContent the first argument (default namespace) derives from the namespace of the object carrying the reference, or is empty for operator-level input, and never from the referenced value (a namespace parsed from the value makes the resolver see a same-namespace read)."},
			{ID: "C09.model-lookup", Floor: 2, Run: c09ModelLookup,
				Doc: "A namespace/name parsed from an annotation value may key a model lookup that can stand in for a permission-checked read (Backends.FindBackend, Userlists.Find) only if every path from the parse to the lookup passes a comparison with the reader's namespace, and the `differs` side of that comparison reaches the lookup only through the true edge of the matching permission bit (or for global configuration without a source)."},
			{ID: "C09.allow-table", Floor: 5, Run: c09AllowTable,
				Doc: "validateAllowDeny is true iff the lowered value equals \"allow\"; buildGlobalDynamic assigns each bit from its own key; StaticCrossNamespaceSecrets is ORed into the three secret bits and not into the services bit."},
		},
	})
}

func c09Resolver(c *core.Ctx) {
	for _, x := range [][2]string{{"controller/services", "buildResourceName"}, {"controller/legacy", "k8scache.buildResourceName"}} {
		fn := c.Fn(x[0], x[1])
		if fn == nil {
			continue
		}
		key := x[0] + "." + x[1]
		t := core.ExtractTable(fn)
		if t.Err != "" {
			c.Undecided(key, c.Pos(fn.Pos()), t.Err)
			continue
		}
		b, err := t.Bind(matchers{
			"splitErr": has("SplitMetaNamespaceKey(resourceName)#2 != nil"),
			"defEmpty": has(`(defaultNamespace == "")`),
			"nsEmpty":  has(`SplitMetaNamespaceKey(resourceName)#0 == "")`),
			"allow":    func(k string) bool { return k == "allowCrossNamespace" },
			"nsEq":     has("SplitMetaNamespaceKey(resourceName)#0 == defaultNamespace)"),
		})
		if err != nil {
			c.Undecided(key, c.Pos(fn.Pos()), "cannot bind: "+err.Error())
			continue
		}
		classes := t.ReturnClasses(func(r *ssa.Return) string {
			if len(r.Results) != 3 {
				return "?"
			}
			if !core.IsNilConst(r.Results[2]) {
				return "error"
			}
			ns, name := core.Key(r.Results[0]), core.Key(r.Results[1])
			if !strings.Contains(name, "SplitMetaNamespaceKey(resourceName)#1") {
				return "?name:" + name
			}
			switch {
			case ns == "defaultNamespace":
				return "default"
			case strings.Contains(ns, "SplitMetaNamespaceKey(resourceName)#0"):
				return "parsed"
			}
			return "?ns:" + ns
		})
		ok, diff, rows := t.CompareClasses(classes, b, func(v map[string]bool) string {
			switch {
			case v["splitErr"]:
				return "error"
			case v["defEmpty"]:
				return "parsed"
			case v["nsEmpty"]:
				return "default"
			case v["allow"] || v["nsEq"]:
				return "parsed"
			}
			return "error"
		})
		c.Check(ok, key, c.Pos(fn.Pos()), fmt.Sprintf("resolver decision equals the specification on all %d rows", rows), "resolver decision differs from the specification: "+diff)
	}
}

type getterSpec struct {
	pkg, fn, bit string // bit "" = constant true expected
}

var c09Getters = []getterSpec{
	{"controller/services", "c.GetService", "CrossNamespaceServices"},
	{"controller/services", "c.GetTLSSecretPath", "CrossNamespaceSecretCertificate"},
	{"controller/services", "c.GetCASecretPath", "CrossNamespaceSecretCA"},
	{"controller/services", "c.GetPasswdSecretContent", "CrossNamespaceSecretPasswd"},
	{"controller/services", "c.GetDHSecretPath", ""},
	{"controller/legacy", "k8scache.GetService", "CrossNamespaceServices"},
	{"controller/legacy", "k8scache.GetTLSSecretPath", "CrossNamespaceSecretCertificate"},
	{"controller/legacy", "k8scache.GetCASecretPath", "CrossNamespaceSecretCA"},
	{"controller/legacy", "k8scache.GetPasswdSecretContent", "CrossNamespaceSecretPasswd"},
	{"controller/legacy", "k8scache.GetDHSecretPath", ""},
}

func resolverCalls(fn *ssa.Function) []*ssa.Call {
	var out []*ssa.Call
	for _, s := range core.Calls(fn, false) {
		if o := core.CalleeObj(s.Common()); o != nil && o.Name() == "buildResourceName" {
			if call, ok := s.Instr.(*ssa.Call); ok {
				out = append(out, call)
			}
		}
	}
	return out
}

func c09BitWiring(c *core.Ctx) {
	for _, g := range c09Getters {
		fn := c.Fn(g.pkg, g.fn)
		if fn == nil {
			continue
		}
		key := g.pkg + "." + g.fn
		calls := resolverCalls(fn)
		if len(calls) != 1 {
			c.Violated(key, c.Pos(fn.Pos()), fmt.Sprintf("%d calls of buildResourceName, expected exactly 1: the reference is not resolved through the permission check", len(calls)))
			continue
		}
		args := core.CallArgs(&calls[0].Call)
		bit := args[len(args)-1]
		k := core.Key(bit)
		if g.bit == "" {
			ok := core.IsConstBool(bit, true)
			// all callers pass "" as the default namespace
			c.Check(ok, key, at(c, calls[0]), "operator-level DH param: constant allow", "permission argument is "+k)
			continue
		}
		ok := strings.HasSuffix(k, "."+g.bit) && !strings.Contains(k, "(")
		c.Check(ok, key, at(c, calls[0]), "permission argument is the field "+g.bit, "permission argument is `"+k+"`, expected the field "+g.bit+": another kind's key would open this kind")
		// default namespace argument is the getter's own first parameter
		dn := core.Key(args[0])
		c.Check(dn == "defaultNamespace", key+"#default-ns", at(c, calls[0]), "resolver receives the caller's default namespace", "resolver's default namespace is `"+dn+"`, not the getter's parameter")
	}
	// GetDHSecretPath callers pass "" (operator-level)
	if m := ifaceMethod(c, "converters/types", "Cache", "GetDHSecretPath"); m != nil {
		for _, fn := range c.SrcFuncs() {
			if !strings.HasPrefix(core.PkgOf(fn), "converters/") {
				continue
			}
			for _, s := range core.CallsTo(fn, false, m) {
				a := core.CallArgs(s.Common())[0]
				c.Check(core.IsConstString(a, ""), "GetDHSecretPath caller "+core.FuncName(fn), at(c, s.Instr), "operator-level read with empty default namespace", "GetDHSecretPath is called with a default namespace: it always allows cross-namespace reads")
			}
		}
	}
}

func c09FetchChecked(c *core.Ctx) {
	for _, g := range c09Getters {
		if g.pkg != "controller/services" {
			continue
		}
		fn := c.Fn(g.pkg, g.fn)
		if fn == nil {
			continue
		}
		key := g.pkg + "." + g.fn
		rc := resolverCalls(fn)
		if len(rc) != 1 {
			continue // reported by bit-wiring
		}
		n := 0
		for _, s := range core.Calls(fn, false) {
			name := core.CalleeName(s.Common())
			isRead := strings.HasSuffix(name, ".getCertificate") || (s.Common().IsInvoke() && s.Common().Method.Name() == "Get")
			isTrack := strings.HasSuffix(name, ".TrackRefName")
			if !isRead && !isTrack {
				continue
			}
			n++
			what := "read"
			if isTrack {
				what = "track"
			}
			call := s.Instr
			// guarded by the nil-error edge of the resolver
			g1 := guardedBy(call, has("buildResourceName(", "#2 != nil"), false)
			c.Check(g1, key+"#"+what+"-guard", at(c, call), what+" happens only on the resolver's nil-error edge", what+" is reachable without passing the resolver's error check")
			// namespace and name derive from the resolver's results
			var leaves = map[string]bool{}
			for _, a := range s.Common().Args {
				for l := range sliceLeaves(c.Env, a, 0) {
					leaves[l] = true
				}
			}
			hasNS := leavesContain(leaves, "buildResourceName#0")
			hasName := leavesContain(leaves, "buildResourceName#1")
			bad := leavesContain(leaves, "param:defaultNamespace") && !hasNS
			c.Check(hasNS && hasName && !bad, key+"#"+what+"-key", at(c, call), what+" uses the resolver's namespace and name", what+" key does not derive from both results of the resolver: "+leavesList(leaves))
		}
		if n == 0 {
			c.Undecided(key, c.Pos(fn.Pos()), "no API read found in the getter")
		}
	}
}

// the converter call sites of the permission-checking getters
func c09ReaderNS(c *core.Ctx) {
	var objs = map[string]bool{}
	for _, m := range []string{"GetService", "GetTLSSecretPath", "GetCASecretPath", "GetPasswdSecretContent"} {
		if o := ifaceMethod(c, "converters/types", "Cache", m); o != nil {
			objs[o.Name()] = true
		}
	}
	for _, fn := range c.SrcFuncs() {
		name := core.FuncName(fn)
		if !strings.HasPrefix(core.PkgOf(fn), "converters/") || strings.HasPrefix(core.PkgOf(fn), "converters/helper_test") {
			continue
		}
		for _, s := range core.Calls(fn, false) {
			cc := s.Common()
			if !cc.IsInvoke() || !objs[cc.Method.Name()] || !strings.HasSuffix(cc.Value.Type().String(), "converters/types.Cache") {
				continue
			}
			c.Touch(fn)
			c.Sites(1)
			key := name + " -> " + cc.Method.Name()
			arg0, arg1 := cc.Args[0], cc.Args[1]
			l0 := sliceLeaves(c.Env, arg0, 2)
			_ = arg1
			tainted := taintLeaves(l0)
			nsField := false
			for l := range l0 {
				if strings.HasPrefix(l, "field:") && strings.HasSuffix(l, ".Namespace") || strings.HasPrefix(l, "field:") && strings.HasSuffix(l, ".namespace") {
					nsField = true
				}
			}
			emptyConst := core.IsConstString(arg0, "")
			switch {
			case len(tainted) > 0:
				c.Violated(key, at(c, s.Instr), "default namespace derives from the referenced value ("+strings.Join(tainted, ", ")+"): the cross-namespace check is bypassed")
			case emptyConst:
				// no cross-namespace check happens: the name must be operator-level input (options, global
				// ConfigMap, TCP ConfigMap) or be qualified with the reader's own namespace
				if paramTypeContains(fn, "annotations.globalData") {
					c.Held(key, at(c, s.Instr), "operator-level read: the value comes from the global ConfigMap (function takes *globalData)")
					continue
				}
				if ownNamespaceConcat(arg1) {
					c.Held(key, at(c, s.Instr), "name is qualified with the reader's own namespace: "+core.Key(arg1))
					continue
				}
				ok, why := operatorLevelName(c, fn, arg1, 2)
				c.Check(ok, key, at(c, s.Instr), "empty default namespace with an operator-level name: "+why, "the read passes an empty default namespace (no cross-namespace check) with a name that comes from a namespaced object: "+why)
			case nsField:
				c.Held(key, at(c, s.Instr), "default namespace is the namespace of the object carrying the reference: "+core.Key(arg0))
			default:
				// a parameter of the enclosing function: decide at its callers
				if p, ok := arg0.(*ssa.Parameter); ok {
					ok2, detail := paramIsOwnNamespace(c, fn, p, 2)
					if ok2 {
						c.Held(key, at(c, s.Instr), "default namespace is a parameter that every caller fills with the namespace of the object carrying the reference: "+detail)
					} else {
						c.Violated(key, at(c, s.Instr), "default namespace is a parameter and a caller passes something else than the carrying object's namespace: "+detail)
					}
					continue
				}
				c.Undecided(key, at(c, s.Instr), "cannot establish where the default namespace comes from: "+leavesList(l0))
			}
		}
	}
	// ConfigValue.ResourceName: first result is the source's namespace or "" and never parsed from the value
	if fn := c.Env.Func("converters/ingress/annotations", "ConfigValue.ResourceName"); fn != nil {
		c.Touch(fn)
		for _, b := range fn.Blocks {
			if r, ok := b.Instrs[len(b.Instrs)-1].(*ssa.Return); ok {
				l := sliceLeaves(c.Env, r.Results[0], 0)
				c.Check(len(taintLeaves(l)) == 0, "ConfigValue.ResourceName#namespace", at(c, r), "returned default namespace does not derive from the value", "returned default namespace derives from the value: "+leavesList(l))
			}
		}
	}
}

// taintLeaves lists leaves that derive from an annotation/config value.
func taintLeaves(l map[string]bool) []string {
	var out []string
	for k := range l {
		switch {
		case strings.HasSuffix(k, ".Value") && strings.HasPrefix(k, "field:"),
			// the namespace member of a reference (SecretObjectReference, BackendObjectReference,
			// ParentReference…) is part of the referenced name, not the namespace of the object that declares it
			strings.HasPrefix(k, "ftype:") && strings.HasSuffix(k, ".Namespace") && strings.Contains(k, "Reference"),
			strings.HasPrefix(k, "call:strings.Split"),
			strings.HasPrefix(k, "call:converters/ingress/utils.ParseURL"),
			strings.HasPrefix(k, "call:strings.Cut"),
			strings.HasPrefix(k, "call:strings.TrimPrefix"),
			strings.HasPrefix(k, "call:strings.Index"):
			out = append(out, k)
		}
	}
	return out
}

// ownNamespaceConcat recognises `X.namespace + "/" + name` / `X.Namespace + "/" + ...`.
func ownNamespaceConcat(v ssa.Value) bool {
	k := core.Key(v)
	return strings.Contains(k, `amespace + "/")`) || strings.Contains(k, `amespace + "/") +`)
}

type lookupSink struct {
	callee string // suffix of rendered callee
	bit    string
}

func c09ModelLookup(c *core.Ctx) {
	sinks := []lookupSink{
		{"haproxy/types.Backends).FindBackend", "CrossNamespaceServices"},
		{"haproxy/types.Backends).AcquireBackend", "CrossNamespaceServices"},
		{"haproxy/types.Userlists).Find", "CrossNamespaceSecretPasswd"},
	}
	for _, fn := range c.SrcFuncs() {
		name := core.FuncName(fn)
		if core.PkgOf(fn) != "converters/ingress/annotations" {
			continue
		}
		for _, s := range core.Calls(fn, false) {
			cn := core.CalleeName(s.Common())
			var sink *lookupSink
			for i := range sinks {
				if strings.HasSuffix(cn, sinks[i].callee) {
					sink = &sinks[i]
				}
			}
			if sink == nil {
				continue
			}
			args := core.CallArgs(s.Common())
			// the argument that selects the namespace: the namespace of a backend,
			// the whole `ns_name` key of a userlist
			taintDefs := taintDefInstrs(args[0])
			if len(taintDefs) == 0 {
				continue
			}
			c.Touch(fn)
			c.Sites(1)
			key := name + " -> " + cn[strings.LastIndex(cn, ")")+2:] + " [value-derived namespace]"
			call := s.Instr
			edgeOK := func(from *ssa.BasicBlock, succ int) bool {
				ifi, isIf := from.Instrs[len(from.Instrs)-1].(*ssa.If)
				if !isIf {
					return true
				}
				cond := stripNot(ifi.Cond)
				neg := cond != ifi.Cond && countNot(ifi.Cond)%2 == 1
				branch := succ == 0
				if neg {
					branch = !branch
				}
				k := core.Key(cond)
				if in, isIn := cond.(ssa.Instruction); isIn && isReaderNamespaceCompare(in) {
					// same-namespace edge of a comparison with the reader's namespace: safe
					return branch != sameNamespaceBranch(in)
				}
				if strings.HasSuffix(k, ".DynamicConfig."+sink.bit) {
					// allow edge of the matching permission bit: safe
					return !branch
				}
				if strings.HasSuffix(k, ".Source != nil)") {
					// global configuration (no source) has no reader namespace: safe
					return branch
				}
				if call, isCall := cond.(*ssa.Call); isCall && core.CalleeName(&call.Call) == "strings.Contains" && core.IsConstString(call.Call.Args[1], "/") && len(taintDefInstrs(call.Call.Args[0])) > 0 {
					// unqualified name (no "/"): resolved in the reader's namespace: safe
					return branch
				}
				return true
			}
			var witness *core.PathWitness
			var from ssa.Instruction
			for _, d := range taintDefs {
				if w := (core.PathQuery{Fn: fn, Start: d, Target: func(in ssa.Instruction) bool { return in == call }, EdgeOK: edgeOK}).Find(); w != nil {
					witness, from = w, d
					break
				}
			}
			if witness != nil {
				c.Violated(key, at(c, call), "a namespace parsed from the value ("+core.Key(from.(ssa.Value))+") reaches the model lookup on a path that neither finds it equal to the reader's namespace nor passes the allow edge of "+sink.bit+": an object that another namespace's own Ingress put in the model is handed out without the permission check; path "+witness.Describe(c.Env))
			} else {
				c.Held(key, at(c, call), "every path from the parse of the value to the lookup crosses the same-namespace edge of a comparison with the reader's namespace, the allow edge of "+sink.bit+", the no-source edge, or the unqualified-name edge")
			}
		}
	}
}

func countNot(v ssa.Value) int {
	n := 0
	for {
		u, ok := v.(*ssa.UnOp)
		if !ok || u.Op != token.NOT {
			return n
		}
		n++
		v = u.X
	}
}

func min(a, b int) int {
	if a < b {
		return a
	}
	return b
}

func stripNot(v ssa.Value) ssa.Value {
	for {
		u, ok := v.(*ssa.UnOp)
		if !ok || u.Op != token.NOT {
			return v
		}
		v = u.X
	}
}

// isReaderNamespaceCompare recognises `x != S.Namespace`, `x == S.Namespace`
// and strings.HasPrefix(x, S.Namespace + "/") where S is a Source.
func isReaderNamespaceCompare(in ssa.Instruction) bool {
	switch x := in.(type) {
	case *ssa.BinOp:
		if x.Op != token.EQL && x.Op != token.NEQ {
			return false
		}
		kx, ky := core.Key(x.X), core.Key(x.Y)
		if strings.HasSuffix(kx, ".Source.Namespace") == strings.HasSuffix(ky, ".Source.Namespace") {
			return false
		}
		other := x.X
		if strings.HasSuffix(kx, ".Source.Namespace") {
			other = x.Y
		}
		return len(taintDefInstrs(other)) > 0
	case *ssa.Call:
		if core.CalleeName(&x.Call) != "strings.HasPrefix" {
			return false
		}
		return strings.HasSuffix(core.Key(x.Call.Args[1]), `.Source.Namespace + "/")`) && len(taintDefInstrs(x.Call.Args[0])) > 0
	}
	return false
}

// sameNamespaceBranch: which branch of the comparison means "same namespace".
func sameNamespaceBranch(in ssa.Instruction) bool {
	if b, ok := in.(*ssa.BinOp); ok {
		return b.Op == token.EQL
	}
	return true // HasPrefix true = same namespace
}

// taintDefInstrs returns the instructions inside the current function that
// parse a namespace/name out of a config value and flow into v.
func taintDefInstrs(v ssa.Value) []ssa.Instruction {
	var out []ssa.Instruction
	seen := map[ssa.Value]bool{}
	var walk func(v ssa.Value)
	walk = func(v ssa.Value) {
		if v == nil || seen[v] {
			return
		}
		seen[v] = true
		switch x := v.(type) {
		case *ssa.Phi:
			for _, e := range x.Edges {
				walk(e)
			}
		case *ssa.UnOp:
			if x.Op == token.MUL {
				// load: x.f where f is Value of a ConfigValue => tainted source
				if fa, ok := x.X.(*ssa.FieldAddr); ok {
					_, f := core.FieldOf(fa)
					if f == "Value" {
						out = append(out, x)
						return
					}
				}
				if ia, ok := x.X.(*ssa.IndexAddr); ok {
					// element of a slice: tainted if the slice comes from a split
					if isSplitCall(ia.X) {
						out = append(out, x)
						return
					}
					walk(ia.X)
					return
				}
			}
			walk(x.X)
		case *ssa.Extract:
			if call, ok := x.Tuple.(*ssa.Call); ok && strings.HasSuffix(core.CalleeName(&call.Call), "ParseURL") {
				out = append(out, x)
				return
			}
			walk(x.Tuple)
		case *ssa.Call:
			n := core.CalleeName(&x.Call)
			if strings.HasPrefix(n, "strings.") {
				for _, a := range x.Call.Args {
					walk(a)
				}
			}
		case *ssa.BinOp:
			walk(x.X)
			walk(x.Y)
		case *ssa.Convert:
			walk(x.X)
		case *ssa.Slice:
			walk(x.X)
		case *ssa.Index:
			walk(x.X)
		}
	}
	walk(v)
	return out
}

func isSplitCall(v ssa.Value) bool {
	call, ok := v.(*ssa.Call)
	return ok && strings.HasPrefix(core.CalleeName(&call.Call), "strings.Split")
}

func c09AllowTable(c *core.Ctx) {
	if fn := c.Fn("converters/ingress/annotations", "updater.validateAllowDeny"); fn != nil {
		t := core.ExtractTable(fn)
		key := "converters/ingress/annotations.(*updater).validateAllowDeny"
		if t.Err != "" {
			c.Undecided(key, c.Pos(fn.Pos()), t.Err)
		} else {
			b, err := t.Bind(matchers{"isAllow": has("strings.ToLower(", `== "allow")`)})
			if err != nil {
				c.Undecided(key, c.Pos(fn.Pos()), err.Error())
			} else {
				res, _ := t.BoolResult(0)
				ok, diff, rows := t.Compare(res, b, func(v map[string]bool) bool { return v["isAllow"] }, nil)
				c.Check(ok, key, c.Pos(fn.Pos()), fmt.Sprintf("true iff the lowered value equals \"allow\" (%d rows)", rows), diff)
			}
		}
	}
	fn := c.Fn("converters/ingress/annotations", "updater.buildGlobalDynamic")
	if fn == nil {
		return
	}
	want := map[string]struct {
		key    string
		static bool
	}{
		"CrossNamespaceSecretCA":          {"cross-namespace-secrets-ca", true},
		"CrossNamespaceSecretCertificate": {"cross-namespace-secrets-crt", true},
		"CrossNamespaceSecretPasswd":      {"cross-namespace-secrets-passwd", true},
		"CrossNamespaceServices":          {"cross-namespace-services", false},
	}
	for _, field := range sortedKeys(want) {
		w := want[field]
		sts := fieldStores(fn, false, "converters/types.DynamicConfig", field)
		key := "buildGlobalDynamic: " + field
		if len(sts) != 1 {
			c.Violated(key, c.Pos(fn.Pos()), fmt.Sprintf("%d stores, expected 1", len(sts)))
			continue
		}
		st := sts[0]
		t := core.ExtractTable(fn)
		if t.Err != "" {
			c.Undecided(key, at(c, st), t.Err)
			continue
		}
		m := matchers{"own": has("validateAllowDeny(", `"`+w.key+`"`)}
		if w.static {
			m["static"] = has("StaticCrossNamespaceSecrets")
		}
		// bind only the atoms this value depends on
		val := t.ValueTT(st.Val)
		bind := &core.Binding{Names: make([]string, len(t.Atoms))}
		okBind := true
		for i, a := range t.Atoms {
			if !val.DependsOn(i) {
				continue
			}
			matched := ""
			for nme, f := range m {
				if f(a) {
					matched = nme
				}
			}
			if matched == "" {
				c.Violated(key, at(c, st), "the bit depends on `"+a+"`, which is neither its own key nor the command-line override")
				okBind = false
				break
			}
			bind.Names[i] = matched
		}
		if !okBind {
			continue
		}
		ok, diff, _ := t.Compare(val, bind, func(v map[string]bool) bool { return v["own"] || (w.static && v["static"]) }, nil)
		c.Check(ok, key, at(c, st), "assigned from its own key"+map[bool]string{true: " or the command-line override", false: " only"}[w.static], "wrong assignment: "+diff)
	}
	// all writers of the bits
	for _, field := range sortedKeys(want) {
		ws := writersOf(c.Env, "converters/types.DynamicConfig", field)
		var names []string
		for f := range ws {
			if !strings.Contains(f, "helper_test") {
				names = append(names, f)
			}
		}
		c.Check(len(names) == 1 && strings.HasSuffix(names[0], "buildGlobalDynamic"), "writers of DynamicConfig."+field, "", "only buildGlobalDynamic writes the bit", "unexpected writers: "+strings.Join(names, ", "))
	}
}

// paramIsOwnNamespace checks, at every static caller of fn, that the argument
// bound to parameter p is a `.Namespace` field (not value-derived).
func paramIsOwnNamespace(c *core.Ctx, fn *ssa.Function, p *ssa.Parameter, depth int) (bool, string) {
	idx := -1
	for i, q := range fn.Params {
		if q == p {
			idx = i
		}
	}
	if idx < 0 {
		return false, "parameter not found"
	}
	n := 0
	var descs []string
	for _, caller := range c.SrcFuncs() {
		for _, s := range core.Calls(caller, false) {
			if s.Common().StaticCallee() != fn {
				continue
			}
			n++
			a := s.Common().Args[idx]
			l := sliceLeaves(c.Env, a, 1)
			if t := taintLeaves(l); len(t) > 0 {
				return false, core.FuncName(caller) + " passes a value-derived namespace: " + strings.Join(t, ", ")
			}
			ok := false
			for k := range l {
				if strings.HasPrefix(k, "field:") && (strings.HasSuffix(k, ".Namespace") || strings.HasSuffix(k, ".namespace")) {
					ok = true
				}
			}
			if !ok {
				if q, isP := a.(*ssa.Parameter); isP && depth > 0 {
					ok2, d := paramIsOwnNamespace(c, caller, q, depth-1)
					if !ok2 {
						return false, d
					}
					descs = append(descs, core.FuncName(caller)+"<-"+d)
					continue
				}
				return false, core.FuncName(caller) + " passes " + core.Key(a)
			}
			descs = append(descs, core.FuncName(caller)+": "+core.Key(a))
		}
	}
	if n == 0 {
		return false, "no static caller found"
	}
	return true, strings.Join(descs, "; ")
}

// operatorLevelName: every source of v is a constant, a field of the converter options, the TCP
// ConfigMap data, or a parameter that every caller fills that way.
func operatorLevelName(c *core.Ctx, fn *ssa.Function, v ssa.Value, depth int) (bool, string) {
	l := sliceLeaves(c.Env, v, 0)
	var why []string
	for k := range l {
		switch {
		case strings.HasPrefix(k, "const:"), strings.HasPrefix(k, "call:"), strings.HasPrefix(k, "extract:"), strings.HasPrefix(k, "alloc:"), strings.HasPrefix(k, "range:"), strings.HasPrefix(k, "other:"):
		case strings.HasPrefix(k, "load:"):
		case strings.HasPrefix(k, "freevar:"):
		case strings.HasPrefix(k, "field:"):
			f := strings.TrimPrefix(k, "field:")
			if strings.Contains(f, ".options.") || strings.HasSuffix(f, ".options") || strings.Contains(f, "TCPConfigMapData") || strings.HasSuffix(f, ".changed") || strings.HasSuffix(f, ".cache") || strings.HasSuffix(f, ".logger") {
				continue
			}
			return false, "derives from " + f
		case strings.HasPrefix(k, "param:"):
			pn := strings.TrimPrefix(k, "param:")
			var p *ssa.Parameter
			for _, q := range fn.Params {
				if q.Name() == pn {
					p = q
				}
			}
			if p == nil || fn.Signature.Recv() != nil && p == fn.Params[0] {
				continue // the receiver
			}
			if depth == 0 {
				return false, "parameter " + pn + " (call chain too deep)"
			}
			idx := 0
			for i, q := range fn.Params {
				if q == p {
					idx = i
				}
			}
			n := 0
			for _, caller := range c.SrcFuncs() {
				for _, s := range core.Calls(caller, false) {
					if s.Common().StaticCallee() != fn {
						continue
					}
					n++
					ok, w := operatorLevelName(c, caller, s.Common().Args[idx], depth-1)
					if !ok {
						return false, "caller " + core.FuncName(caller) + " passes a name that " + w
					}
				}
			}
			if n == 0 {
				return false, "parameter " + pn + " has no static caller"
			}
			why = append(why, "parameter "+pn+" is operator-level at every caller")
		}
	}
	if len(why) == 0 {
		return true, "constants / options / ConfigMap data only"
	}
	return true, strings.Join(why, "; ")
}
