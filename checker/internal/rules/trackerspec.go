package rules

import (
	"fmt"
	"strings"

	"golang.org/x/tools/go/ssa"

	"hapverif/internal/core"
)

// The tracker is the data structure every C01/C14/C15/C17 argument rests on:
// a symmetric relation with a transitive query that also unlinks what it returns.

func init() {
	doc := "The tracker implements a symmetric relation and a transitive, unlinking query: TrackRefs records both directions unless a side is empty; track stores source under tracking[dest.Context][dest.UniqueName]; TrackNames/TrackRefName pass (context,name) pairs through unswapped; QueryLinks visits every input name, adds each linked reference once and recurses on it, lists every collected id and calls removeRef for each iff removeMatches; removeRef deletes the entry before it recurses into the entry's references."
	for _, p := range []string{"C01", "C14"} {
		addRule(p, &core.Rule{ID: p + ".tracker", Floor: 18, Run: trackerSpec, Doc: doc})
	}
}

func trackerSpec(c *core.Ctx) {
	// ---- TrackRefs
	if fn := c.Fn("converters/tracker", "tracker.TrackRefs"); fn != nil {
		var pairs []string
		for _, s := range core.CallsNamed(fn, false, "(*converters/tracker.tracker).track") {
			a := s.Common().Args
			pairs = append(pairs, core.Key(a[1])+">"+core.Key(a[2]))
			good := true
			var why []string
			for _, g := range guardsOf(s.Instr) {
				k := core.StripVersion(g.Key)
				emptyTest := strings.Contains(k, "emptyRef") && strings.Contains(k, " == ")
				if !(emptyTest && !g.Branch) {
					good = false
					why = append(why, g.Key+"="+fmt.Sprint(g.Branch))
				}
			}
			c.Check(good, "TrackRefs links unless a side is empty: "+core.Key(a[1]), at(c, s.Instr), "", "the link is recorded under "+strings.Join(why, ", "))
		}
		c.Check(len(pairs) == 2 && contains(pairs, "&left>&right") && contains(pairs, "&right>&left"), "TrackRefs records both directions", c.Pos(fn.Pos()), strings.Join(pairs, " ; "), "track calls are ["+strings.Join(pairs, " ; ")+"]: the relation is not symmetric, a change of one side does not reach the other")
	}
	// ---- track
	if fn := c.Fn("converters/tracker", "tracker.track"); fn != nil {
		var ups []string
		for _, b := range fn.Blocks {
			for _, in := range b.Instrs {
				mu, ok := in.(*ssa.MapUpdate)
				if !ok {
					continue
				}
				k := core.Key(mu.Key)
				ups = append(ups, k)
				switch {
				case strings.HasSuffix(k, "dest.Context"):
					c.Check(guardedBy(mu, has(",ok#1"), false), "track creates the context map when missing", at(c, mu), "", "stored outside !found")
				case strings.HasSuffix(k, "dest.UniqueName"):
					c.Check(guardedBy(mu, has(",ok#1"), false), "track creates the name map when missing", at(c, mu), "", "stored outside !found")
				case k == "source":
					c.Check(len(guardsOf(mu)) == 0, "track records the source under the destination", at(c, mu), "", "the reference is recorded only under a condition")
				default:
					c.Violated("track map updates", at(c, mu), "unexpected key "+k)
				}
			}
		}
		c.Check(len(ups) == 3, "track updates three levels", c.Pos(fn.Pos()), strings.Join(ups, " ; "), "map updates: "+strings.Join(ups, " ; "))
	}
	// ---- TrackNames / TrackRefName keep sides
	if fn := c.Fn("converters/tracker", "tracker.TrackNames"); fn != nil {
		for _, s := range core.CallsNamed(fn, false, "(*converters/tracker.tracker).TrackRefs") {
			l1 := sliceLeaves(c.Env, s.Common().Args[1], 0)
			l2 := sliceLeaves(c.Env, s.Common().Args[2], 0)
			ok := leavesContain(l1, "param:leftContext") && leavesContain(l1, "param:leftName") && !leavesContain(l1, "param:right") &&
				leavesContain(l2, "param:rightContext") && leavesContain(l2, "param:rightName") && !leavesContain(l2, "param:left")
			c.Check(ok, "TrackNames pairs each context with its own name", at(c, s.Instr), "", "left = "+leavesList(l1)+"; right = "+leavesList(l2))
		}
	}
	if fn := c.Fn("converters/tracker", "tracker.TrackRefName"); fn != nil {
		n := 0
		for _, s := range core.CallsNamed(fn, false, "(*converters/tracker.tracker).TrackRefs") {
			n++
			l2 := sliceLeaves(c.Env, s.Common().Args[2], 0)
			c.Check(leavesContain(l2, "param:rightContext") && leavesContain(l2, "param:rightName"), "TrackRefName links every left reference to the right name", at(c, s.Instr), "", "right = "+leavesList(l2))
			c.Check(core.InnermostLoop(fn, s.Instr.Block()) != nil, "TrackRefName visits every left reference", at(c, s.Instr), "", "TrackRefs is not called inside the loop over the left references")
		}
		c.Check(n == 1, "TrackRefName delegates to TrackRefs", c.Pos(fn.Pos()), "", fmt.Sprint(n))
	}
	// ---- QueryLinks
	if fn := c.Fn("converters/tracker", "tracker.QueryLinks"); fn != nil {
		var rec *ssa.Function
		for _, a := range anonFuncs(fn) {
			rec = a
		}
		if rec == nil {
			c.Violated("QueryLinks has its recursive visitor", c.Pos(fn.Pos()), "no closure")
		} else {
			c.Touch(rec)
			found := func(k string) bool { return strings.HasSuffix(k, ",ok#1") }
			nrec := 0
			for _, s := range core.Calls(rec, false) {
				if core.CalleeName(s.Common()) != "dynamic" {
					continue
				}
				nrec++
				a := s.Common().Args
				l := sliceLeaves(c.Env, a[1], 0)
				c.Check(strings.HasSuffix(core.Key(a[0]), ".Context") && leavesContain(l, ".UniqueName"), "the visitor recurses on the linked reference", at(c, s.Instr), "", "recursion arguments: "+core.Key(a[0])+" / "+leavesList(l))
				// under: not yet collected
				ok := false
				for _, g := range guardsOf(s.Instr) {
					if found(g.Key) && !g.Branch && strings.Contains(g.Key, "UniqueName") {
						ok = true
					}
				}
				c.Check(ok, "the visitor recurses exactly on first sight", at(c, s.Instr), "", "the recursion is not on the !found branch of the collected set: it either never follows links (no transitive closure) or never terminates on cycles")
			}
			c.Check(nrec == 1, "the visitor recurses", c.Pos(rec.Pos()), "", fmt.Sprintf("%d recursive calls", nrec))
			// collected set update
			nset := 0
			for _, b := range rec.Blocks {
				for _, in := range b.Instrs {
					mu, ok := in.(*ssa.MapUpdate)
					if !ok {
						continue
					}
					k := core.Key(mu.Key)
					if strings.HasSuffix(k, ".UniqueName") && !strings.Contains(k, "dest.") {
						nset++
						ph, isPhi := mu.Map.(*ssa.Phi)
						_ = ph
						c.Check(isPhi && strings.Contains(core.Key(mu.Map), "outputrefs"), "a linked reference is collected under its own context", at(c, mu), "", "collected into "+core.Key(mu.Map))
					}
				}
			}
			c.Check(nset == 1, "the visitor collects the linked reference", c.Pos(rec.Pos()), "", fmt.Sprint(nset))
			// every name of the list and every reference of the name: two nested loops around the recursion
			depth := 0
			for _, s := range core.Calls(rec, false) {
				if core.CalleeName(s.Common()) == "dynamic" {
					for _, l := range core.Loops(rec) {
						if l.Blocks[s.Instr.Block()] {
							depth++
						}
					}
				}
			}
			c.Check(depth == 2, "the visitor walks every name and every reference of it", c.Pos(rec.Pos()), "", fmt.Sprintf("recursion nested in %d loops (expected 2)", depth))
		}
		// driver
		nIn, nRm, nOut := 0, 0, 0
		for _, s := range core.Calls(fn, false) {
			switch {
			case core.CalleeName(s.Common()) == "dynamic":
				nIn++
				c.Check(core.InnermostLoop(fn, s.Instr.Block()) != nil && strings.Contains(core.Key(s.Common().Args[0]), "range(input)"), "QueryLinks starts from every input entry", at(c, s.Instr), "", "the visitor is not called for each entry of input: "+core.Key(s.Common().Args[0]))
			case strings.HasSuffix(core.CalleeName(s.Common()), "tracker).removeRef"):
				nRm++
				c.Check(guardedBy(s.Instr, func(k string) bool { return k == "removeMatches" }, true), "QueryLinks unlinks iff asked to", at(c, s.Instr), "", "removeRef is not on the true branch of removeMatches")
				c.Check(strings.Contains(core.Key(s.Common().Args[1]), "range(*outputrefs)") || strings.Contains(core.Key(s.Common().Args[1]), "outputrefs"), "QueryLinks unlinks the collected ids", at(c, s.Instr), "", core.Key(s.Common().Args[1]))
			}
		}
		for _, b := range fn.Blocks {
			for _, in := range b.Instrs {
				if mu, ok := in.(*ssa.MapUpdate); ok && strings.Contains(mu.Map.Type().String(), "[]string") {
					nOut++
					extra := 0
					for _, g := range guardsOf(mu) {
						if !strings.Contains(g.Key, "next(range(") {
							extra++
						}
					}
					c.Check(extra == 0, "QueryLinks returns every collected context", at(c, mu), "", "output entry stored under extra conditions")
				}
			}
		}
		c.Check(nIn == 1 && nRm == 1 && nOut == 1, "QueryLinks driver shape", c.Pos(fn.Pos()), "", fmt.Sprintf("visitor calls %d, removeRef %d, output stores %d", nIn, nRm, nOut))
	}
	// ---- removeRef
	if fn := c.Fn("converters/tracker", "tracker.removeRef"); fn != nil {
		var del, rec ssa.Instruction
		for _, s := range core.Calls(fn, false) {
			switch {
			case core.CalleeName(s.Common()) == "builtin:delete":
				del = s.Instr
			case strings.HasSuffix(core.CalleeName(s.Common()), "tracker).removeRef"):
				rec = s.Instr
				a := s.Common().Args
				c.Check(strings.HasSuffix(core.Key(a[1]), ".Context"), "removeRef follows the references of the removed entry", at(c, rec), "", "recursion on "+core.Key(a[1])+" / "+core.Key(a[2]))
			}
		}
		c.Check(del != nil && rec != nil, "removeRef deletes and recurses", c.Pos(fn.Pos()), "", "delete or recursion missing")
		if del != nil && rec != nil {
			w := core.MustPrecede(fn, func(in ssa.Instruction) bool { return in == del }, func(in ssa.Instruction) bool { return in == rec })
			c.Check(w == nil, "removeRef deletes the entry before it recurses", at(c, del), "", "the recursion can run before the entry is deleted: a cycle of links recurses forever")
		}
	}
}

func contains(l []string, s string) bool {
	for _, x := range l {
		if x == s {
			return true
		}
	}
	return false
}
