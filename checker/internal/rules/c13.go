package rules

import (
	"fmt"
	"strings"

	"golang.org/x/tools/go/ssa"

	"hapverif/internal/core"
)

func init() {
	register(&core.Property{
		ID:          "C13",
		Title:       "Rate limits hold: reloads and reconciliations keep min spacing, none is dropped",
		Explanation: "Static decision of the bookkeeping the spacing argument rests on: (1) every deadline a limiter's When() hands out is recorded in its `last` field on the path to that return (a deadline handed out but not recorded lets the next request be granted closer than the interval); (2) while a recorded deadline is still pending, When() returns the remaining time to that same deadline and does not move it (otherwise a burst pushes the deadline away and the notification is served late); (3) `last` is touched only under the limiter's mutex; (4) every enqueue on the reconcile and reload queues goes through the rate limiter, the only direct AddAfter is the failed-reload retry; (5) the worker pairs Get with Done and re-adds a failed item; (6) the limiters are built from the configured options.",
		NotDecided: []string{
			"wall-clock spacing of actual runs",
			"coalescing inside k8s.io/client-go's delaying queue (earliest deadline of a de-duplicated item is kept)",
		},
		Assumptions: []string{"client-go workqueue: AddRateLimited(item) == AddAfter(item, When(item)); a pending item is de-duplicated keeping the earliest deadline"},
		Rules: []*core.Rule{
			{ID: "C13.deadline-recorded", Floor: 4, Run: c13DeadlineRecorded,
				Doc: "For every return of a limiter's When(): returned 0 => `last` was stored with now on the path; returned X.Sub(now)/time.Until(X) => `last` holds X at the return (stored on the path, or X is a load of `last` with no store before); returned duration field d => `last` stored with now.Add(d)."},
			{ID: "C13.pending-idempotent", Floor: 2, Run: c13Pending,
				Doc: "The first decision of When() is `last.After(now)`; on its true edge the function returns last.Sub(now) without storing `last`."},
			{ID: "C13.guarded", Floor: 2, Run: c13Guarded,
				Doc: "Every function touching a limiter's `last` locks the limiter's mutex at entry and defers the unlock."},
			{ID: "C13.through-limiter", Floor: 4, Run: c13ThroughLimiter,
				Doc: "Every enqueue (Add/AddAfter/AddRateLimited on a client-go rate-limiting queue) in the reconciler, the services and the work queue wrapper is AddRateLimited, except the listed direct AddAfter sites (failed-reload retry and the wrapper that serves it)."},
			{ID: "C13.get-done", Floor: 3, Run: c13GetDone,
				Doc: "WorkQueue.process: after a non-shutdown Get the item is Done on every path (deferred), and a failed sync re-adds it rate-limited."},
			{ID: "C13.wiring", Floor: 3, Run: c13Wiring,
				Doc: "The reconcile limiter is built from Config.RateLimitUpdate and Config.WaitBeforeUpdate, the reload limiter from Config.ReloadInterval, and the constructors store them in the fields When() reads."},
		},
	})
}

func limiterWhens(c *core.Ctx) []*ssa.Function {
	var out []*ssa.Function
	for _, n := range []string{"ingressReconciler.When", "reloadHAProxy.When"} {
		if fn := c.Fn("utils/workqueue", n); fn != nil {
			out = append(out, fn)
		}
	}
	return out
}

func isLastStore(in ssa.Instruction) bool {
	st, ok := in.(*ssa.Store)
	if !ok {
		return false
	}
	_, f := core.FieldOf(st.Addr)
	return f == "last"
}

func c13DeadlineRecorded(c *core.Ctx) {
	for _, fn := range limiterWhens(c) {
		name := core.FuncName(fn)
		for _, ret := range core.Returns(fn) {
			if len(ret.Results) != 1 {
				continue
			}
			v := core.Results(ret)[0]
			key := fmt.Sprintf("%s return %s", name, core.Key(v))
			// stores to `last` that reach this return with no later store in between
			var reaching []*ssa.Store
			for _, bb := range fn.Blocks {
				for _, in := range bb.Instrs {
					if isLastStore(in) {
						st := in.(*ssa.Store)
						w := core.PathQuery{Fn: fn, Start: st, Target: func(x ssa.Instruction) bool { return x == ret }, Barrier: isLastStore}.Find()
						if w != nil {
							reaching = append(reaching, st)
						}
					}
				}
			}
			noStorePath := core.PathQuery{Fn: fn, Target: func(x ssa.Instruction) bool { return x == ret }, Barrier: isLastStore}.Find()
			kv := core.Key(v)
			switch {
			case kv == "0":
				if noStorePath != nil {
					c.Violated(key, at(c, ret), "returns 0 (run now) on a path that does not record the run in `last`: "+noStorePath.Describe(c.Env))
					continue
				}
				ok := len(reaching) > 0
				for _, st := range reaching {
					if core.Key(st.Val) != "time.Now()" {
						ok = false
					}
				}
				c.Check(ok, key, at(c, ret), "run-now is recorded with the current time", "run-now exit records something else than now in `last`")
			case strings.HasPrefix(kv, "(time.Time).Sub(") || strings.HasPrefix(kv, "time.Until("):
				call := v.(*ssa.Call)
				x := call.Call.Args[0]
				kx := core.Key(x)
				if strings.HasSuffix(kx, ".last") && !strings.Contains(kx, "(") {
					// X is a load of last: fine if no store to last precedes on any path
					c.Check(len(reaching) == 0, key, at(c, ret), "returns the time remaining to the recorded deadline", "returns the time to an old `last` after storing a different one")
					continue
				}
				if noStorePath != nil {
					c.Violated(key, at(c, ret), "hands out the deadline "+kx+" on a path that does not record it in `last`: a later request past that deadline is granted at once, closer than the interval to the run just scheduled; path "+noStorePath.Describe(c.Env))
					continue
				}
				ok := len(reaching) > 0
				for _, st := range reaching {
					if st.Val != x && core.Key(st.Val) != kx {
						ok = false
					}
				}
				c.Check(ok, key, at(c, ret), "the deadline handed out is the one recorded in `last`", "the deadline handed out ("+kx+") differs from the one recorded in `last`")
			case !strings.Contains(kv, "(") && strings.Contains(kv, "."):
				// a duration field d: last must be now.Add(d)
				if noStorePath != nil {
					c.Violated(key, at(c, ret), "hands out the wait "+kv+" on a path that does not record the deadline in `last`: "+noStorePath.Describe(c.Env))
					continue
				}
				ok := len(reaching) > 0
				for _, st := range reaching {
					if core.Key(st.Val) != "(time.Time).Add(time.Now(), "+kv+")" {
						ok = false
					}
				}
				c.Check(ok, key, at(c, ret), "the deadline now+"+kv+" is recorded in `last`", "the recorded deadline is not now + the wait handed out")
			default:
				c.Undecided(key, at(c, ret), "unrecognised shape of the returned duration")
			}
		}
	}
}

func c13Pending(c *core.Ctx) {
	for _, fn := range limiterWhens(c) {
		name := core.FuncName(fn)
		key := name + " pending deadline"
		// the first If of the function
		var first *ssa.If
		for b := fn.Blocks[0]; b != nil; {
			if ifi, ok := b.Instrs[len(b.Instrs)-1].(*ssa.If); ok {
				first = ifi
				break
			}
			if len(b.Succs) != 1 {
				break
			}
			b = b.Succs[0]
		}
		if first == nil {
			c.Violated(key, c.Pos(fn.Pos()), "no decision found in When()")
			continue
		}
		k := core.Key(first.Cond)
		if !(strings.HasPrefix(k, "(time.Time).After(") && strings.Contains(k, ".last, time.Now())")) {
			c.Violated(key, at(c, first), "the first decision of When() is `"+k+"`, not `last.After(now)`: a request arriving while a deadline is pending moves the deadline instead of joining it")
			continue
		}
		// no store to last before it
		pre := core.PathQuery{Fn: fn, Target: func(x ssa.Instruction) bool { return x == ssa.Instruction(first) }, Barrier: func(x ssa.Instruction) bool { return false }}.Find()
		_ = pre
		stBefore := false
		for _, in := range first.Block().Instrs {
			if isLastStore(in) {
				stBefore = true
			}
		}
		tb := first.Block().Succs[0]
		ret, _ := tb.Instrs[len(tb.Instrs)-1].(*ssa.Return)
		okRet := false
		if ret != nil && len(ret.Results) == 1 {
			kr := core.Key(core.Results(ret)[0])
			okRet = strings.HasPrefix(kr, "(time.Time).Sub(") && strings.Contains(kr, ".last, time.Now())") || strings.HasPrefix(kr, "time.Until(") && strings.HasSuffix(kr, ".last)")
		}
		stIn := false
		for _, in := range tb.Instrs {
			if isLastStore(in) {
				stIn = true
			}
		}
		c.Check(okRet && !stBefore && !stIn, key, at(c, first), "pending deadline is returned unchanged", "on the pending edge the function does not simply return the remaining time to `last`")
	}
}

// lockedAtEntry reports whether fn locks mutex field `mu` of its receiver chain in its entry block and defers
// the unlock before anything that can touch the state the mutex guards: before the lock only reads, stores
// to locals and calls that cannot reach that state (builtins, functions of other packages such as loggers)
// are accepted; a call to a function of the same package, a store to the heap or a map update is not.
func lockedAtEntry(fn *ssa.Function, muOwnerSuffix string) bool {
	if fn == nil || len(fn.Blocks) == 0 {
		return false
	}
	locked, deferred := false, false
	for _, in := range fn.Blocks[0].Instrs {
		switch x := in.(type) {
		case *ssa.Call:
			n := core.CalleeName(&x.Call)
			if n == "(*sync.Mutex).Lock" && isMuField(x.Call.Args[0], muOwnerSuffix) {
				locked = true
				continue
			}
			if !locked {
				if _, isBuiltin := x.Call.Value.(*ssa.Builtin); isBuiltin {
					continue
				}
				if callee := x.Call.StaticCallee(); callee != nil && callee.Pkg != nil && fn.Pkg != nil && callee.Pkg != fn.Pkg {
					continue // another package cannot reach unexported guarded fields
				}
				if x.Call.IsInvoke() && !strings.Contains(x.Call.Value.Type().String(), core.Module) {
					continue // interface of another module (logr.Logger, …)
				}
				return false
			}
		case *ssa.Defer:
			n := core.CalleeName(&x.Call)
			if n == "(*sync.Mutex).Unlock" && isMuField(x.Call.Args[0], muOwnerSuffix) && locked {
				deferred = true
			}
		case *ssa.Store:
			if _, local := x.Addr.(*ssa.Alloc); !locked && !local {
				return false
			}
		case *ssa.MapUpdate:
			if !locked {
				return false
			}
		}
		if locked && deferred {
			return true
		}
	}
	return locked && deferred
}

func isMuField(v ssa.Value, ownerSuffix string) bool {
	o, f := core.FieldOf(v)
	return f == "mu" && (ownerSuffix == "" || strings.Contains(o, ownerSuffix))
}

func c13Guarded(c *core.Ctx) {
	n := 0
	for _, fn := range c.SrcFuncs() {
		if core.PkgOf(fn) != "utils/workqueue" {
			continue
		}
		touches := false
		for _, b := range fn.Blocks {
			for _, in := range b.Instrs {
				if fa, ok := in.(*ssa.FieldAddr); ok {
					o, f := core.FieldOf(fa)
					if f == "last" && (strings.Contains(o, "ingressReconciler") || strings.Contains(o, "reloadHAProxy")) {
						touches = true
					}
				}
			}
		}
		if !touches {
			continue
		}
		n++
		c.Touch(fn)
		c.Check(lockedAtEntry(fn, ""), core.FuncName(fn)+" accesses last", c.Pos(fn.Pos()), "mutex locked at entry, unlock deferred", "`last` is accessed in a function that does not hold the limiter's mutex from entry to exit")
	}
}

func c13ThroughLimiter(c *core.Ctx) {
	allowedAddAfter := map[string]string{
		"(*controller/services.Services).reloadHAProxy": "failed reload retries after ReloadRetry, overriding the rate limit on purpose (C12.reload-retry)",
		"(*utils/workqueue.WorkQueue[T]).AddAfter":      "wrapper used by the failed-reload retry and the acme queue",
		"(*controller/services.svcAcmeClient).AddAfter": "acme queue, not rate limited by these limiters",
	}
	for _, fn := range c.SrcFuncs() {
		pkg := core.PkgOf(fn)
		if pkg != "controller/reconciler" && pkg != "controller/services" && pkg != "utils/workqueue" {
			continue
		}
		if fn.Origin() != nil && fn.Origin() != fn {
			continue
		}
		for _, s := range core.Calls(fn, false) {
			cc := s.Common()
			if !cc.IsInvoke() {
				continue
			}
			m := cc.Method.Name()
			if m != "Add" && m != "AddAfter" && m != "AddRateLimited" {
				continue
			}
			recvT := cc.Value.Type().String()
			if !strings.Contains(recvT, "workqueue.TypedRateLimitingInterface") && !strings.Contains(recvT, "utils.QueueFacade") {
				continue
			}
			c.Sites(1)
			name := core.FuncName(fn)
			key := name + " -> " + m + " on " + recvT[strings.LastIndex(recvT, "/")+1:]
			switch {
			case strings.Contains(recvT, "utils.QueueFacade"):
				// facade: Add is rate limited by WorkQueue.Add (checked below); AddAfter listed
				if m == "AddAfter" {
					_, ok := allowedAddAfter[name]
					c.Check(ok, key, at(c, s.Instr), "listed direct AddAfter: "+allowedAddAfter[name], "direct AddAfter bypasses the rate limiter and is not a listed site")
				} else {
					c.Held(key, at(c, s.Instr), "facade Add: rate limited by the wrapper")
				}
			case m == "AddRateLimited":
				c.Held(key, at(c, s.Instr), "enqueue goes through the rate limiter")
			case m == "AddAfter":
				_, ok := allowedAddAfter[name]
				c.Check(ok, key, at(c, s.Instr), "listed direct AddAfter: "+allowedAddAfter[name], "direct AddAfter bypasses the rate limiter and is not a listed site")
			default:
				c.Violated(key, at(c, s.Instr), "plain Add on a rate-limiting queue bypasses the limiter: the run is not spaced")
			}
		}
	}
	// the facade's Add is the rate limited one
	if fn := c.Fn("utils/workqueue", "WorkQueue.Add"); fn != nil {
		ok := false
		for _, s := range core.Calls(fn, false) {
			if s.Common().IsInvoke() && s.Common().Method.Name() == "AddRateLimited" {
				ok = true
			}
		}
		c.Check(ok, "WorkQueue.Add is rate limited", c.Pos(fn.Pos()), "", "WorkQueue.Add does not call AddRateLimited")
	}
}

func c13GetDone(c *core.Ctx) {
	fn := c.Fn("utils/workqueue", "WorkQueue.process")
	if fn == nil {
		return
	}
	var get ssa.Instruction
	for _, s := range core.Calls(fn, false) {
		if s.Common().IsInvoke() && s.Common().Method.Name() == "Get" {
			get = s.Instr
		}
	}
	if get == nil {
		c.Violated("process: Get", c.Pos(fn.Pos()), "no Get call")
		return
	}
	isDone := func(in ssa.Instruction) bool {
		ci, ok := in.(ssa.CallInstruction)
		return ok && ci.Common().IsInvoke() && ci.Common().Method.Name() == "Done"
	}
	// from Get to any return without Done (call or defer), not passing the shutdown edge
	w := core.PathQuery{Fn: fn, Start: get, Target: core.IsReturn, Barrier: isDone, EdgeOK: func(from *ssa.BasicBlock, succ int) bool {
		if ifi, ok := from.Instrs[len(from.Instrs)-1].(*ssa.If); ok && strings.Contains(core.Key(ifi.Cond), ".Get()#1") {
			return succ == 1 // only the not-shutdown edge
		}
		return true
	}}.Find()
	c.Check(w == nil, "process: Done after Get", at(c, get), "every non-shutdown path marks the item Done", "a path leaves process() without Done: the item can never be processed again")
	// failed sync re-adds rate limited
	okErr := false
	for _, s := range core.Calls(fn, false) {
		if s.Common().IsInvoke() && s.Common().Method.Name() == "AddRateLimited" {
			if guardedBy(s.Instr, has(" != nil"), true) {
				okErr = true
			}
		}
	}
	c.Check(okErr, "process: failed item re-added", c.Pos(fn.Pos()), "on the error edge of sync the item is re-added rate limited", "a failed item is not re-added")
	// Forget only on success
	for _, s := range core.Calls(fn, false) {
		if s.Common().IsInvoke() && s.Common().Method.Name() == "Forget" {
			c.Check(!guardedBy(s.Instr, has(" != nil"), true), "process: Forget on success", at(c, s.Instr), "", "Forget on the error edge")
		}
	}
}

func c13Wiring(c *core.Ctx) {
	// constructors store parameters into the fields read by When
	if fn := c.Fn("utils/workqueue", "ReloadHAProxyRateLimiter"); fn != nil {
		sts := fieldStores(fn, false, "reloadHAProxy", "interval")
		c.Check(len(sts) == 1 && core.Key(sts[0].Val) == "reloadInterval", "ReloadHAProxyRateLimiter: interval", c.Pos(fn.Pos()), "interval field is the parameter", "interval is not initialised from the parameter")
	}
	if fn := c.Fn("utils/workqueue", "IngressReconcilerRateLimiter"); fn != nil {
		d := fieldStores(fn, false, "ingressReconciler[T]", "delta")
		w := fieldStores(fn, false, "ingressReconciler[T]", "wait")
		// the division happens in floating point on one second expressed in nanoseconds, the conversion to Duration last
		okd := len(d) == 1 && (core.Key(d[0].Val) == "(1e+09 / rateLimitUpdate)" || core.Key(d[0].Val) == "(1000000000 / rateLimitUpdate)")
		okw := len(w) == 1 && core.Key(w[0].Val) == "waitBeforeUpdate"
		c.Check(okd, "IngressReconcilerRateLimiter: delta", c.Pos(fn.Pos()), "delta = 1s / rate", "delta is `"+func() string {
			if len(d) == 1 {
				return core.Key(d[0].Val)
			}
			return "?"
		}()+"`, not float64(time.Second)/rate converted last: truncating 1/rate to whole seconds makes the spacing 0 for rates above 1")
		c.Check(okw, "IngressReconcilerRateLimiter: wait", c.Pos(fn.Pos()), "wait = waitBeforeUpdate", "wait is not initialised from the parameter")
	}
	// call sites pass the configured options
	if fn := c.Fn("controller/reconciler", "IngressReconciler.SetupWithManager"); fn != nil {
		ok := false
		for _, s := range core.Calls(fn, true) {
			if strings.Contains(core.CalleeName(s.Common()), "IngressReconcilerRateLimiter") {
				a := s.Common().Args
				ok = len(a) == 2 && strings.HasSuffix(core.Key(a[0]), "Config.RateLimitUpdate") && strings.HasSuffix(core.Key(a[1]), "Config.WaitBeforeUpdate")
			}
		}
		c.Check(ok, "reconciler: limiter options", c.Pos(fn.Pos()), "built from Config.RateLimitUpdate / WaitBeforeUpdate", "reconcile limiter is not built from the configured options")
	}
	if fn := c.Fn("controller/services", "Services.setup"); fn != nil {
		ok := false
		for _, s := range core.Calls(fn, false) {
			if strings.Contains(core.CalleeName(s.Common()), "ReloadHAProxyRateLimiter") {
				a := s.Common().Args
				ok = len(a) == 1 && strings.HasSuffix(core.Key(a[0]), ".ReloadInterval")
			}
		}
		c.Check(ok, "services: reload limiter option", c.Pos(fn.Pos()), "built from Config.ReloadInterval", "reload limiter is not built from Config.ReloadInterval")
	}
}
