package rules

import (
	"fmt"
	"sort"
	"strings"

	"golang.org/x/tools/go/ssa"

	"hapverif/internal/core"
)

func init() {
	register(&core.Property{
		ID:          "C01",
		Title:       "Incremental (partial) resync converges to the same config as a full sync",
		Explanation: "Static decision of the completeness of the dependency tracking the partial sync rests on: (1) every read of a watched, mutable cluster resource in the converters is paired with a tracker link of the matching kind that exists even when the read fails — by the `track` argument, or by a Track* call that dominates or post-dominates the read; listed exemptions are operator-level inputs re-read at every converter construction; (2) the cache implementations link before the read and before its error returns; (3) every acquisition of a shared model object (host, backend, tcp service, acme storage) by the Ingress converter links the acquiring Ingress to it on all paths, including the exits that skip a conflicting declaration; (4) every derived kind that is ever tracked is consumed by syncPartial (removed and re-created), and the pure input kinds are exactly the watched kinds; (5) pre-tracking covers added and updated Ingresses; (6) the partial pipeline is ordered pre-track < query < remove < re-sync (sorted by creation) < annotations < endpoints; (7) the full-sync fallback is the OR of the batch flag, the gateway link test and the global-config/default-certificate tests, and clears links and model before any converter runs; (8) the gateway converter does nothing unless full.",
		NotDecided: []string{
			"equality of the files produced by a partial and a full pipeline for concrete histories",
			"Pod/Namespace object content: only deletion-timestamp transitions of Pods are delivered by the watchers (stated limitation)",
		},
		Assumptions: []string{"the tracker's QueryLinks is transitive and symmetric as implemented in pkg/converters/tracker (its unit tests cover it)"},
		Rules: []*core.Rule{
			{ID: "C01.read-tracked", Floor: 14, Run: c01ReadTracked,
				Doc: "Every converter call site of a Cache getter that reads a watched resource: tracked by argument (non-nil track slice with constant contexts), tracked by a Track* call of the matching kind that dominates or post-dominates the read on all paths (so the link exists when the object is missing), covered by the caller's link, or a listed exemption with its reason."},
			{ID: "C01.cache-honours", Floor: 4, Run: c01CacheHonours,
				Doc: "In the cache facade, Get*SecretPath / GetPasswdSecretContent / GetTerminatingPods call TrackRefName(track, ...) before the API read and before every error return that follows name resolution: a secret created later must dirty its reader."},
			{ID: "C01.acquire-tracked", Floor: 5, Run: c01AcquireTracked,
				Doc: "In the Ingress converter every AcquireHost / AcquireBackend / AcquireTCPService / Storages().Acquire is followed or preceded on all paths to the function's exits by a Track* call linking the source to that object's kind (HAHostname / HABackend / HATCPService / AcmeData)."},
			{ID: "C01.conflict-tracked", Floor: 2, Run: c01ConflictTracked,
				Doc: "A declaration skipped because another Ingress owns the object (returns `already defined/assigned`) still links the skipped Ingress to that object, so that removing the owner re-syncs the loser."},
			{ID: "C01.kinds-consumed", Floor: 6, Run: c01KindsConsumed,
				Doc: "T = resource kinds used as context in any Track* call of the converters/cache; K = kinds syncPartial reads out of QueryLinks (plus Gateway, read by the gateway's NeedFullSync). T \\ K must be exactly the watched input kinds."},
			{ID: "C01.partial-order", Floor: 8, Run: c01PartialOrder,
				Doc: "syncPartial: trackAddedIngress < QueryLinks < RemoveAll* < sortIngress < syncIngress loop < partialSyncAnnotations < syncChangedEndpoints; syncFull: sortIngress < UpdateGlobalConfig < syncIngress loop < fullSyncAnnotations < syncEndpoints."},
			{ID: "C01.pretrack-covers", Floor: 3, Run: c01Pretrack,
				Doc: "trackAddedIngress ranges over IngressesAdd and IngressesUpd and links each to its rule hosts (or tcp services) and to the backends of its paths and default backend."},
			{ID: "C01.full-fallback", Floor: 5, Run: c01FullFallback,
				Doc: "converters.Sync: needFullSync = changed.NeedFullSync || gateway.NeedFullSync() || ingress.NeedFullSync(); under it ClearLinks and haproxy.Clear run before any converter Sync; the same value is passed to every converter. ingress.NeedFullSync = defaultCrt changed || (new global config != nil && differs)."},
			{ID: "C01.gateway-full", Floor: 2, Run: c01GatewayFull,
				Doc: "gateway.Sync has no effect unless full; gateway.NeedFullSync is true iff ResourceGateway is among the links of the changed objects."},
		},
	})
}

var resourceKinds = []string{"Ingress", "IngressClass", "Gateway", "GatewayClass", "HTTPRoute", "TCPRoute", "ConfigMap", "Service", "Endpoints", "Secret", "Pod", "HATCPService", "HAHostname", "HABackend", "HAUserlist", "AcmeData"}

func isTrackCall(in ssa.Instruction) bool {
	call, ok := in.(*ssa.Call)
	if !ok {
		return false
	}
	if !call.Call.IsInvoke() {
		n := core.CalleeName(&call.Call)
		return strings.HasSuffix(n, "tracker).TrackNames") || strings.HasSuffix(n, "tracker).TrackRefName") || strings.HasSuffix(n, "tracker).TrackRefs")
	}
	m := call.Call.Method.Name()
	return (m == "TrackNames" || m == "TrackRefName" || m == "TrackRefs") && strings.HasSuffix(call.Call.Value.Type().String(), "converters/types.Tracker")
}

// trackKinds lists the resource kinds (constants, or "<dyn>" for source.Type) a Track* call mentions.
func trackKinds(env *core.Env, in ssa.Instruction) map[string]bool {
	call := in.(*ssa.Call)
	out := map[string]bool{}
	for _, a := range call.Call.Args {
		for l := range sliceLeaves(env, a, 0) {
			if strings.HasPrefix(l, "const:\"") {
				k := strings.Trim(strings.TrimPrefix(l, "const:"), "\"")
				for _, rk := range resourceKinds {
					if k == rk {
						out[k] = true
					}
				}
			}
			if strings.HasPrefix(l, "field:") && (strings.HasSuffix(l, ".Type") || strings.HasSuffix(l, ".resourceType")) {
				out["<source.Type>"] = true
			}
		}
	}
	return out
}

type readSpec struct {
	kind   string // resource kind a by-call link must mention
	byArg  int    // index of the track argument, -1 if none
	exempt map[string]string
}

func c01ReadTracked(c *core.Ctx) {
	specs := map[string]readSpec{
		"GetService":             {kind: "Service", byArg: -1},
		"GetIngressClass":        {kind: "IngressClass", byArg: -1},
		"GetConfigMap":           {kind: "ConfigMap", byArg: -1},
		"GetEndpoints":           {kind: "Endpoints", byArg: -1},
		"GetEndpointSlices":      {kind: "Endpoints", byArg: -1},
		"GetTLSSecretPath":       {kind: "Secret", byArg: 2},
		"GetCASecretPath":        {kind: "Secret", byArg: 2},
		"GetPasswdSecretContent": {kind: "Secret", byArg: 2},
		"GetTerminatingPods":     {kind: "Pod", byArg: 1},
		"GetPod":                 {kind: "Pod", byArg: -1},
		"GetNamespace":           {kind: "Namespace", byArg: -1},
		"GetDHSecretPath":        {kind: "Secret", byArg: -1},
	}
	exempt := map[string]string{
		"(*converters/ingress.converter).findBackend -> GetService":                         "lookup of an existing backend while pre-tracking; the backend's own creation tracked the service",
		"(*converters/ingress.converter).readDefaultCertificate -> GetTLSSecretPath":        "operator-level default certificate: re-read at every converter construction, compared by NeedFullSync (C01.full-fallback)",
		"(*converters/ingress/annotations.updater).buildGlobalStats -> GetTLSSecretPath":    "operator-level (global ConfigMap): evaluated on full sync only; a secret change alone is not picked up — accepted limitation of global config",
		"(*converters/ingress/annotations.updater).buildGlobalSSL -> GetDHSecretPath":       "operator-level (global ConfigMap): evaluated on full sync only",
		"(*converters/configmap.tcpSvcConverter).Sync -> GetService":                        "the TCP ConfigMap converter is re-run unconditionally on every sync (converters.Sync)",
		"(*converters/configmap.tcpSvcConverter).Sync -> GetTLSSecretPath":                  "the TCP ConfigMap converter is re-run unconditionally on every sync",
		"(*converters/configmap.tcpSvcConverter).Sync -> GetCASecretPath":                   "the TCP ConfigMap converter is re-run unconditionally on every sync",
		"(*converters/ingress.converter).syncBackendEndpointCookies -> GetPod":              "Pod content is not delivered by the watchers (only deletion transitions): stated limitation",
		"(*converters/ingress.converter).syncBackendEndpointHashes -> GetPod":               "Pod content is not delivered by the watchers: stated limitation",
		"converters/utils.FindContainerPort -> GetPod":                                      "Pod content is not delivered by the watchers: stated limitation",
		"(*converters/gateway.converter).checkListenerAllowedNamespace -> GetNamespace":     "Namespaces are not watched; gateway is full-sync only: stated limitation",
		"(*converters/ingress/annotations.updater).buildBackendBlueGreenBalance -> GetPod":  "Pod labels are read for blue/green; Pod content is not delivered by the watchers (a new pod arrives with its Endpoints event): stated limitation",
		"(*converters/ingress/annotations.updater).buildBackendBlueGreenSelector -> GetPod": "Pod labels are read for blue/green; Pod content is not delivered by the watchers: stated limitation",
	}
	c01ReuseTracked(c)
	for _, fn := range c.SrcFuncs() {
		pkg := core.PkgOf(fn)
		if !strings.HasPrefix(pkg, "converters/") || strings.HasPrefix(pkg, "converters/helper_test") || pkg == "converters/tracker" {
			continue
		}
		name := core.FuncName(fn)
		for _, s := range core.Calls(fn, false) {
			cc := s.Common()
			if !cc.IsInvoke() || !strings.HasSuffix(cc.Value.Type().String(), "converters/types.Cache") {
				continue
			}
			sp, ok := specs[cc.Method.Name()]
			if !ok {
				continue
			}
			c.Touch(fn)
			c.Sites(1)
			key := name + " -> " + cc.Method.Name()
			site := at(c, s.Instr)
			if why, ok := exempt[key]; ok {
				c.Held(key, site, "exempt: "+why)
				continue
			}
			if sp.byArg >= 0 {
				arg := cc.Args[sp.byArg]
				if core.IsNilConst(arg) {
					c.Violated(key, site, "the read passes a nil `track`: nothing is dirtied when the "+sp.kind+" changes")
					continue
				}
				// each element carries a context and a name
				l := sliceLeaves(c.Env, arg, 0)
				hasCtx := false
				for k := range l {
					if strings.HasPrefix(k, "const:\"") {
						for _, rk := range resourceKinds {
							if k == "const:\""+rk+"\"" {
								hasCtx = true
							}
						}
					}
					if strings.HasPrefix(k, "field:") && strings.HasSuffix(k, ".Type") {
						hasCtx = true
					}
				}
				if p, isParam := arg.(*ssa.Parameter); isParam {
					c.Held(key, site, "track argument is the caller's (parameter "+p.Name()+")")
					continue
				}
				c.Check(hasCtx, key, site, "tracked by argument: "+core.Key(arg), "the track argument carries no resource context: "+leavesList(l))
				continue
			}
			// by-call in the same function
			call := s.Instr
			matches := func(in ssa.Instruction) bool {
				if !isTrackCall(in) {
					return false
				}
				return trackKinds(c.Env, in)[sp.kind]
			}
			pre := core.MustPrecede(fn, matches, func(x ssa.Instruction) bool { return x == call }) == nil
			post := core.MustFollow(fn, call, matches) == nil
			if pre || post {
				c.Held(key, site, "a Track* call mentioning "+sp.kind+" "+map[bool]string{true: "dominates", false: "post-dominates"}[pre]+" the read")
				continue
			}
			// covered by callers: every static caller links the kind around its call of fn
			if ok, detail := coveredByCallers(c, fn, sp.kind, 2); ok {
				c.Held(key, site, "covered by the callers' link: "+detail)
				continue
			} else if detail != "" {
				c.Violated(key, site, "read of "+sp.kind+" is not tracked: no Track* call of that kind dominates or post-dominates it, and "+detail)
				continue
			}
			c.Violated(key, site, "read of "+sp.kind+" is not tracked on all paths (a path reads the object, e.g. fails to find it, and leaves without a link: its later creation or change does not dirty the reader)")
		}
	}
}

// c01ReuseTracked: a model object reused instead of reading the cluster
// (Userlists().Find hit) must still link the secret to the backend.
func c01ReuseTracked(c *core.Ctx) {
	fn := c.Env.Func("converters/ingress/annotations", "updater.buildBackendAuthHTTP")
	if fn == nil {
		c.MissingAnchor("updater.buildBackendAuthHTTP")
		return
	}
	c.Touch(fn)
	matches := func(in ssa.Instruction) bool {
		if !isTrackCall(in) {
			return false
		}
		k := trackKinds(c.Env, in)
		return k["Secret"] && k["HABackend"]
	}
	sts := fieldStores(fn, false, "haproxy/types.AuthHTTP", "UserlistName")
	if len(sts) == 0 {
		c.Violated("buildBackendAuthHTTP assigns the userlist", c.Pos(fn.Pos()), "no store to AuthHTTP.UserlistName")
		return
	}
	for _, st := range sts {
		// within one loop iteration: from the Find call to the store
		var find ssa.Instruction
		for _, s := range core.Calls(fn, false) {
			if strings.HasSuffix(core.CalleeName(s.Common()), "Userlists).Find") {
				find = s.Instr
			}
		}
		if find == nil {
			c.Held("buildBackendAuthHTTP userlist use is tracked", at(c, st), "no reuse of an existing userlist")
			continue
		}
		w := core.PathQuery{Fn: fn, Start: find, Target: func(in ssa.Instruction) bool { return in == ssa.Instruction(st) }, Barrier: matches}.Find()
		c.Check(w == nil, "buildBackendAuthHTTP userlist use is tracked", at(c, st), "every path from the userlist lookup to its use links Secret -> HABackend",
			"a backend can take a userlist (reused from the model) without linking the secret to the backend: when the secret or the Ingress that first loaded it goes away, this backend keeps naming a userlist that no longer exists; path "+w.Describe(c.Env))
	}
}

// coveredByCallers: every static caller of fn has a Track* call mentioning
// kind that dominates or post-dominates its call of fn (recursively to depth).
func coveredByCallers(c *core.Ctx, fn *ssa.Function, kind string, depth int) (bool, string) {
	n := 0
	var descs []string
	for _, caller := range c.SrcFuncs() {
		for _, s := range core.Calls(caller, false) {
			if s.Common().StaticCallee() != fn {
				continue
			}
			n++
			call := s.Instr
			if core.FuncName(caller) == "(*converters/configmap.tcpSvcConverter).Sync" {
				descs = append(descs, "configmap converter (re-run unconditionally on every sync)")
				continue
			}
			matches := func(in ssa.Instruction) bool { return isTrackCall(in) && trackKinds(c.Env, in)[kind] }
			pre := core.MustPrecede(caller, matches, func(x ssa.Instruction) bool { return x == call }) == nil
			post := core.MustFollow(caller, call, matches) == nil
			if pre || post {
				descs = append(descs, core.FuncName(caller))
				continue
			}
			if depth > 0 {
				if ok, d := coveredByCallers(c, caller, kind, depth-1); ok {
					descs = append(descs, core.FuncName(caller)+"<-("+d+")")
					continue
				}
			}
			return false, "caller " + core.FuncName(caller) + " does not link " + kind + " around its call"
		}
	}
	if n == 0 {
		return false, ""
	}
	sort.Strings(descs)
	return true, strings.Join(descs, ", ")
}

func c01CacheHonours(c *core.Ctx) {
	for _, x := range [][2]string{
		{"controller/services", "c.GetTLSSecretPath"}, {"controller/services", "c.GetCASecretPath"}, {"controller/services", "c.GetPasswdSecretContent"}, {"controller/services", "c.GetTerminatingPods"},
		{"controller/legacy", "k8scache.GetTLSSecretPath"}, {"controller/legacy", "k8scache.GetCASecretPath"}, {"controller/legacy", "k8scache.GetPasswdSecretContent"}, {"controller/legacy", "k8scache.GetTerminatingPods"},
	} {
		name := x[1]
		fn := c.Fn(x[0], name)
		if fn == nil {
			continue
		}
		key := x[0] + "." + name
		var tracks []ssa.Instruction
		for _, s := range core.Calls(fn, false) {
			if s.Common().IsInvoke() && s.Common().Method.Name() == "TrackRefName" {
				tracks = append(tracks, s.Instr)
			}
		}
		if len(tracks) == 0 {
			c.Violated(key, c.Pos(fn.Pos()), "the getter never calls TrackRefName: its `track` argument is ignored")
			continue
		}
		isTrack := func(in ssa.Instruction) bool {
			for _, t := range tracks {
				if t == in {
					return true
				}
			}
			return false
		}
		// the track argument passed is the getter's parameter
		for _, t := range tracks {
			a := t.(*ssa.Call).Call.Args[0]
			c.Check(core.Key(a) == "track", key+"#arg", at(c, t), "links the caller's refs", "TrackRefName receives `"+core.Key(a)+"` instead of the caller's track refs")
		}
		if strings.HasSuffix(name, ".GetTerminatingPods") {
			// every listed pod is tracked before the terminating filter
			ok := false
			for _, t := range tracks {
				if !guardedBy(t, has("isTerminatingPod("), true) {
					ok = true
				}
			}
			c.Check(ok, key, at(c, tracks[0]), "every selected pod is tracked, terminating or not", "pods are tracked only when already terminating: the transition into terminating does not dirty the backend")
			continue
		}
		// API reads: getCertificate / client.Get — must be preceded by the track on all paths
		n := 0
		for _, s := range core.Calls(fn, false) {
			cn := core.CalleeName(s.Common())
			isRead := strings.HasSuffix(cn, ".getCertificate") || strings.HasSuffix(cn, ").GetCertificate") || s.Common().IsInvoke() && (s.Common().Method.Name() == "Get" || s.Common().Method.Name() == "GetCertificate")
			if !isRead {
				continue
			}
			n++
			read := s.Instr
			w := core.MustPrecede(fn, isTrack, func(x ssa.Instruction) bool { return x == read })
			c.Check(w == nil, key, at(c, read), "TrackRefName precedes the API read on every path", "the API read can happen before the link is recorded: when the read fails (secret missing) the function returns without a link and the later creation of the secret does not dirty the reader")
		}
		if n == 0 {
			c.Undecided(key, c.Pos(fn.Pos()), "no API read found")
		}
		// every error return after name resolution has the link
		for _, ret := range core.Returns(fn) {
			res := core.Results(ret)
			errv := res[len(res)-1]
			if core.IsNilConst(errv) {
				continue
			}
			l := sliceLeaves(c.Env, errv, 0)
			if leavesContain(l, "getCertificate") || leavesContain(l, "GetCertificate") || leavesContain(l, ".Get#") || leavesContain(l, "Client).Get") || leavesContain(l, "Reader).Get") || leavesContain(l, "Lister).Get") {
				w := core.MustPrecede(fn, isTrack, func(x ssa.Instruction) bool { return x == ssa.Instruction(ret) })
				c.Check(w == nil, key+"#read-error-exit", at(c, ret), "the read-error exit is reached with the link recorded", "the error exit of the read is reachable without the link")
			}
		}
	}
}

type acquireSpec struct {
	calleeSuffix string
	kind         string
}

// acquireExempt: acquisitions that cannot create an object (one reason each).
var acquireExempt = map[string]string{
	"(*converters/ingress/annotations.updater).buildHostSSLPassthrough -> AcquireBackend": "re-acquires the backend the host's root path already references (hostBackend := rootPaths[0].Backend), created and linked by addBackend; used as a lookup",
}

func c01AcquireTracked(c *core.Ctx) { acquireTracked(c, true) }

// c01AcquireTrackedBase is the variant shared with C15/C17 (links of hosts, backends, tcp services, acme storages).
func c01AcquireTrackedBase(c *core.Ctx) { acquireTracked(c, false) }

func acquireTracked(c *core.Ctx, withAuth bool) {
	specs := []acquireSpec{
		{"haproxy/types.Hosts).AcquireHost", "HAHostname"},
		{"haproxy/types.Backends).AcquireBackend", "HABackend"},
		{"haproxy/types.TCPServices).AcquireTCPService", "HATCPService"},
		{"haproxy/types.AcmeStorages).Acquire", "AcmeData"},
	}
	if withAuth {
		specs = append(specs, acquireSpec{"haproxy/types.Backends).AcquireAuthBackend", "HABackend"})
	}
	for _, fn := range c.SrcFuncs() {
		if core.PkgOf(fn) != "converters/ingress" && !(withAuth && core.PkgOf(fn) == "converters/ingress/annotations") {
			continue
		}
		for _, s := range core.Calls(fn, false) {
			cn := core.CalleeName(s.Common())
			for _, sp := range specs {
				if !strings.HasSuffix(cn, sp.calleeSuffix) {
					continue
				}
				c.Touch(fn)
				c.Sites(1)
				key := core.FuncName(fn) + " -> " + cn[strings.LastIndex(cn, ".")+1:]
				call := s.Instr
				if why, listed := acquireExempt[key]; listed {
					c.Held(key, at(c, call), "reviewed exception: "+why)
					continue
				}
				matches := func(in ssa.Instruction) bool { return isTrackCall(in) && trackKinds(c.Env, in)[sp.kind] }
				pre := core.MustPrecede(fn, matches, func(x ssa.Instruction) bool { return x == call }) == nil
				w := core.MustFollow(fn, call, matches)
				c.Check(pre || w == nil, key, at(c, call), "the acquiring source is linked to the "+sp.kind+" on every path",
					"an exit is reachable after the acquisition without a Track* call of kind "+sp.kind+": the Ingress shares the object but a change of the other owner (or of this Ingress) does not re-sync it; path "+w.Describe(c.Env))
			}
		}
	}
	// TLS hosts: the host that receives a certificate in syncIngressHTTP must be linked to the Ingress:
	// it comes from a function that links on all paths (addHost), or a HAHostname Track* call lies on
	// every path from where the host was obtained to where its certificate is set.
	if fn := c.Fn("converters/ingress", "converter.syncIngressHTTP"); fn != nil {
		linksHost := func(in ssa.Instruction) bool { return isTrackCall(in) && trackKinds(c.Env, in)["HAHostname"] }
		summary := func(callee *ssa.Function) bool {
			if callee == nil || callee.Blocks == nil {
				return false
			}
			return core.MustPrecede(callee, linksHost, core.IsReturn) == nil
		}
		for _, st := range fieldStores(fn, false, "haproxy/types.TLSConfig", "TLSHash") {
			fa := st.Addr.(*ssa.FieldAddr)
			// host-producing calls the address derives from
			var srcs []*ssa.Call
			seen := map[ssa.Value]bool{}
			var walk func(v ssa.Value)
			walk = func(v ssa.Value) {
				if v == nil || seen[v] {
					return
				}
				seen[v] = true
				switch x := v.(type) {
				case *ssa.Call:
					if strings.HasSuffix(x.Type().String(), "haproxy/types.Host") {
						srcs = append(srcs, x)
					}
				case *ssa.Phi:
					for _, e := range x.Edges {
						walk(e)
					}
				case *ssa.FieldAddr:
					walk(x.X)
				case *ssa.UnOp:
					walk(x.X)
				}
			}
			walk(fa.X)
			if len(srcs) == 0 {
				c.Undecided("syncIngressHTTP tls host is linked", at(c, st), "cannot find where the host comes from")
				continue
			}
			ok := true
			detail := ""
			for _, src := range srcs {
				if summary(src.Call.StaticCallee()) {
					continue
				}
				if w := (core.PathQuery{Fn: fn, Start: src, Target: func(in ssa.Instruction) bool { return in == ssa.Instruction(st) }, Barrier: func(in ssa.Instruction) bool {
					if linksHost(in) {
						return true
					}
					if call, isCall := in.(*ssa.Call); isCall && summary(call.Call.StaticCallee()) {
						return true
					}
					return false
				}}).Find(); w != nil {
					ok = false
					detail = "host obtained by " + core.CalleeName(&src.Call) + " reaches the certificate assignment without a link: " + w.Describe(c.Env)
				}
			}
			c.Check(ok, "syncIngressHTTP tls host is linked", at(c, st), "the Ingress declaring a certificate is linked to the host on every path",
				"the Ingress that declares spec.tls for a host is not linked to the hostname on every path: a change of the secret (or of this Ingress) does not re-sync the host's certificate; "+detail)
		}
	}
}

func c01ConflictTracked(c *core.Ctx) {
	for _, x := range []struct{ fn, kind, what string }{
		{"converter.addTCPService", "HATCPService", "tcp service"},
		{"converter.addDefaultHostBackend", "HAHostname", "default host"},
	} {
		fn := c.Fn("converters/ingress", x.fn)
		if fn == nil {
			continue
		}
		matches := func(in ssa.Instruction) bool { return isTrackCall(in) && trackKinds(c.Env, in)[x.kind] }
		n := 0
		for _, ret := range core.Returns(fn) {
			res := core.Results(ret)
			errv := res[len(res)-1]
			if core.IsNilConst(errv) {
				continue
			}
			k := core.Key(errv)
			if !strings.Contains(k, "already") {
				continue
			}
			n++
			w := core.MustPrecede(fn, matches, func(in ssa.Instruction) bool { return in == ssa.Instruction(ret) })
			c.Check(w == nil, x.fn+" conflict exit", at(c, ret), "the skipped Ingress is linked to the "+x.what+" before the conflict is returned",
				"the `already assigned/defined` exit is reached without linking the Ingress to the "+x.what+": when the owner is deleted the partial sync leaves it unserved while a fresh controller gives it to this Ingress")
		}
		if n == 0 {
			c.Undecided(x.fn+" conflict exit", c.Pos(fn.Pos()), "no `already ...` error return found")
		}
	}
}

func c01KindsConsumed(c *core.Ctx) {
	// T: kinds mentioned by Track* calls as constants, plus the contexts carried by track arguments
	T := map[string]bool{}
	for _, fn := range c.SrcFuncs() {
		pkg := core.PkgOf(fn)
		if !(strings.HasPrefix(pkg, "converters/") || pkg == "controller/services") || strings.Contains(pkg, "helper_test") || pkg == "converters/tracker" {
			continue
		}
		for _, b := range fn.Blocks {
			for _, in := range b.Instrs {
				if isTrackCall(in) {
					for k := range trackKinds(c.Env, in) {
						T[k] = true
					}
				}
				// TrackingRef literals with constant context passed as track arguments
				if st, ok := in.(*ssa.Store); ok {
					if o, f := core.FieldOf(st.Addr); f == "Context" && strings.HasSuffix(o, "converters/types.TrackingRef") {
						if cst, ok := st.Val.(*ssa.Const); ok && cst.Value != nil {
							T[strings.Trim(cst.Value.ExactString(), "\"")] = true
						}
					}
				}
			}
		}
	}
	delete(T, "<source.Type>")
	// K: constant keys with which syncPartial indexes the QueryLinks result
	K := map[string]string{}
	fn := c.Fn("converters/ingress", "converter.syncPartial")
	if fn == nil {
		return
	}
	for _, b := range fn.Blocks {
		for _, in := range b.Instrs {
			if lk, ok := in.(*ssa.Lookup); ok && strings.Contains(core.Key(lk.X), "QueryLinks(") {
				if cst, ok := lk.Index.(*ssa.Const); ok && cst.Value != nil {
					kind := strings.Trim(cst.Value.ExactString(), "\"")
					// where does the value go?
					use := ""
					for _, r := range *lk.Referrers() {
						if call, ok := r.(*ssa.Call); ok {
							use = core.CalleeName(&call.Call)
						}
						if _, ok := r.(*ssa.Range); ok {
							use = "range"
						}
					}
					K[kind] = use
				}
			}
		}
	}
	wantRemove := map[string]string{
		"HATCPService": "TCPServices).RemoveAll", "HAHostname": "Hosts).RemoveAll", "HABackend": "Backends).RemoveAll",
		"HAUserlist": "Userlists).RemoveAll", "AcmeData": "AcmeStorages).RemoveAll",
	}
	for _, kind := range sortedKeys(wantRemove) {
		use, ok := K[kind]
		c.Check(ok && (strings.HasSuffix(use, wantRemove[kind]) || use != ""), "syncPartial consumes "+kind, c.Pos(fn.Pos()), "dirty "+kind+" objects are removed: "+use, "syncPartial does not read the dirty "+kind+" list out of QueryLinks: objects of that kind linked to a change are not re-created")
	}
	// removal calls really executed with those lists
	for kind, callee := range wantRemove {
		ok := false
		for _, s := range core.Calls(fn, false) {
			if strings.HasSuffix(core.CalleeName(s.Common()), callee) {
				args := core.CallArgs(s.Common())
				if len(args) > 0 && strings.Contains(core.Key(args[0]), `"`+kind+`"`) {
					ok = true
				}
			}
		}
		c.Check(ok, "syncPartial removes dirty "+kind, c.Pos(fn.Pos()), "", "no "+callee+"(dirty "+kind+") call: stale objects survive the partial sync")
	}
	// auth proxies bound to dirty backends are released
	okAuth := false
	for _, s := range core.Calls(fn, false) {
		if strings.HasSuffix(core.CalleeName(s.Common()), "Frontend).RemoveAuthBackendByTarget") && strings.Contains(core.Key(core.CallArgs(s.Common())[0]), `"HABackend"`) {
			okAuth = true
		}
	}
	c.Check(okAuth, "syncPartial releases auth proxies of dirty backends", c.Pos(fn.Pos()), "", "RemoveAuthBackendByTarget(dirty backends) missing")
	_, okIng := K["Ingress"]
	c.Check(okIng, "syncPartial consumes Ingress", c.Pos(fn.Pos()), "dirty ingresses are re-synced", "the dirty Ingress list is not read")
	// T \ K
	var extra []string
	inputs := map[string]bool{"IngressClass": true, "ConfigMap": true, "Service": true, "Endpoints": true, "Secret": true, "Pod": true, "Gateway": true}
	for k := range T {
		if _, ok := K[k]; ok {
			continue
		}
		if inputs[k] {
			continue
		}
		extra = append(extra, k)
	}
	sort.Strings(extra)
	c.Check(len(extra) == 0, "every tracked derived kind is consumed", c.Pos(fn.Pos()), fmt.Sprintf("tracked kinds %v; consumed %v", sortedKeys(boolKeys(T)), sortedKeys(K)), "kinds are tracked but never consumed by the partial sync: "+strings.Join(extra, ", "))
}

func boolKeys(m map[string]bool) map[string]string {
	o := map[string]string{}
	for k := range m {
		o[k] = ""
	}
	return o
}

func staticCallTo(fn *ssa.Function) func(ssa.Instruction) bool {
	return func(in ssa.Instruction) bool {
		call, ok := in.(*ssa.Call)
		return ok && fn != nil && call.Call.StaticCallee() == fn
	}
}

func callNamed(suffix string) func(ssa.Instruction) bool {
	return func(in ssa.Instruction) bool {
		call, ok := in.(*ssa.Call)
		if !ok {
			return false
		}
		n := core.CalleeName(&call.Call)
		if call.Call.IsInvoke() {
			n = call.Call.Value.Type().String() + "." + call.Call.Method.Name()
		}
		return strings.HasSuffix(n, suffix)
	}
}

func c01PartialOrder(c *core.Ctx) {
	order := func(fn *ssa.Function, label string, steps []struct {
		name string
		pred func(ssa.Instruction) bool
	}) {
		for i := 0; i+1 < len(steps); i++ {
			a, b := steps[i], steps[i+1]
			// both exist
			if core.Reaches(fn, nil, a.pred) == nil {
				c.Violated(label+": "+a.name, c.Pos(fn.Pos()), "step not found")
				continue
			}
			w := core.MustPrecede(fn, a.pred, b.pred)
			c.Check(w == nil, label+": "+a.name+" < "+b.name, c.Pos(fn.Pos()), "", b.name+" can run before "+a.name+": "+w.Describe(c.Env))
		}
		// the last steps run on all paths to a normal return... (early error returns are exempt)
	}
	type step = struct {
		name string
		pred func(ssa.Instruction) bool
	}
	if fn := c.Fn("converters/ingress", "converter.syncPartial"); fn != nil {
		f := func(n string) *ssa.Function { return c.Env.Func("converters/ingress", n) }
		order(fn, "syncPartial", []step{
			{"trackAddedIngress", staticCallTo(f("converter.trackAddedIngress"))},
			{"QueryLinks", callNamed("converters/types.Tracker.QueryLinks")},
			{"Hosts.RemoveAll", callNamed("Hosts).RemoveAll")},
			{"sortIngress", staticCallTo(f("sortIngress"))},
			{"syncIngress", staticCallTo(f("converter.syncIngress"))},
		})
		order(fn, "syncPartial", []step{
			{"Backends.RemoveAll", callNamed("Backends).RemoveAll")},
			{"syncIngress", staticCallTo(f("converter.syncIngress"))},
		})
		// annotations and endpoints after the loop, on all paths
		for _, n := range []string{"converter.partialSyncAnnotations", "converter.syncChangedEndpoints"} {
			w := core.MustPrecede(fn, staticCallTo(f(n)), core.IsReturn)
			c.Check(w == nil, "syncPartial: "+n+" on all paths", c.Pos(fn.Pos()), "", "a path leaves syncPartial without "+n)
			// and not before a syncIngress
			w2 := core.PathQuery{Fn: fn, Target: staticCallTo(f("converter.syncIngress"))}.Find()
			_ = w2
			for _, b := range fn.Blocks {
				for _, in := range b.Instrs {
					if staticCallTo(f(n))(in) {
						r := core.Reaches(fn, in, staticCallTo(f("converter.syncIngress")))
						c.Check(r == nil, "syncPartial: "+n+" after the sync loop", at(c, in), "", n+" runs before an Ingress is synced")
					}
				}
			}
		}
		// QueryLinks removes matches (second argument true) and receives changed.Links
		for _, s := range core.Calls(fn, false) {
			if s.Common().IsInvoke() && s.Common().Method.Name() == "QueryLinks" {
				a := s.Common().Args
				c.Check(strings.HasSuffix(core.Key(a[0]), "changed.Links") && core.IsConstBool(a[1], true), "syncPartial: QueryLinks(changed.Links, remove)", at(c, s.Instr), "", "QueryLinks is not called on the batch links with removal: stale links accumulate or the wrong set is dirtied")
			}
		}
		// the loop ranges over the sorted list
		for _, s := range core.Calls(fn, false) {
			if s.Common().StaticCallee() == f("converter.syncIngress") {
				l := sliceLeaves(c.Env, s.Common().Args[1], 0)
				_ = l
			}
		}
	}
	if fn := c.Fn("converters/ingress", "converter.syncFull"); fn != nil {
		f := func(n string) *ssa.Function { return c.Env.Func("converters/ingress", n) }
		order(fn, "syncFull", []step{
			{"GetIngressList", callNamed("converters/types.Cache.GetIngressList")},
			{"sortIngress", staticCallTo(f("sortIngress"))},
			{"syncIngress", staticCallTo(f("converter.syncIngress"))},
		})
		order(fn, "syncFull", []step{
			{"UpdateGlobalConfig", callNamed("annotations.Updater.UpdateGlobalConfig")},
			{"syncIngress", staticCallTo(f("converter.syncIngress"))},
		})
		for _, n := range []string{"converter.fullSyncAnnotations", "converter.syncEndpoints"} {
			for _, b := range fn.Blocks {
				for _, in := range b.Instrs {
					if staticCallTo(f(n))(in) {
						r := core.Reaches(fn, in, staticCallTo(f("converter.syncIngress")))
						c.Check(r == nil, "syncFull: "+n+" after the sync loop", at(c, in), "", n+" runs before an Ingress is synced")
					}
				}
			}
		}
	}
}

func c01Pretrack(c *core.Ctx) {
	fn := c.Fn("converters/ingress", "converter.trackAddedIngress")
	if fn == nil {
		return
	}
	// the ranged slice derives from both lists
	var ranged ssa.Value
	for _, b := range fn.Blocks {
		for _, in := range b.Instrs {
			if call, ok := in.(*ssa.Call); ok && core.CalleeName(&call.Call) == "builtin:len" {
				l := sliceLeaves(c.Env, call.Call.Args[0], 0)
				if leavesContain(l, "changed.Ingresses") {
					ranged = call.Call.Args[0]
				}
			}
		}
	}
	if ranged == nil {
		c.Violated("trackAddedIngress ranges over the changed ingresses", c.Pos(fn.Pos()), "no loop over changed.Ingresses* found")
		return
	}
	l := sliceLeaves(c.Env, ranged, 0)
	c.Check(leavesContain(l, "changed.IngressesAdd"), "trackAddedIngress covers IngressesAdd", c.Pos(fn.Pos()), "", "added ingresses are not pre-tracked")
	c.Check(leavesContain(l, "changed.IngressesUpd"), "trackAddedIngress covers IngressesUpd", c.Pos(fn.Pos()), "", "updated ingresses are not pre-tracked: an update that starts to reference an existing host or backend does not dirty it, and the shared object keeps the other owner's state")
	// links: host (or tcp service) per rule, backend per path and default backend
	kinds := map[string]int{}
	for _, b := range fn.Blocks {
		for _, in := range b.Instrs {
			if isTrackCall(in) {
				for k := range trackKinds(c.Env, in) {
					kinds[k]++
				}
				// the context variable (HAHostname | HATCPService phi) shows both
			}
		}
	}
	c.Check(kinds["HAHostname"] > 0 && kinds["HATCPService"] > 0, "trackAddedIngress links rule hosts / tcp services", c.Pos(fn.Pos()), "", "no Ingress -> HAHostname/HATCPService pre-link")
	c.Check(kinds["HABackend"] >= 2, "trackAddedIngress links path and default backends", c.Pos(fn.Pos()), "", fmt.Sprintf("%d Ingress -> HABackend pre-links, expected the default backend and the rule paths", kinds["HABackend"]))
}

func c01FullFallback(c *core.Ctx) {
	fn := c.Fn("converters", "converters.Sync")
	if fn == nil {
		return
	}
	t := core.ExtractTableRegion(fn, core.NearEntry(fn, 6))
	// the If on needFullSync: find the ClearLinks call and its block condition
	var clearLinks, clearModel ssa.Instruction
	for _, s := range core.Calls(fn, false) {
		if s.Common().IsInvoke() && s.Common().Method.Name() == "ClearLinks" {
			clearLinks = s.Instr
		}
		if s.Common().IsInvoke() && s.Common().Method.Name() == "Clear" && strings.HasSuffix(s.Common().Value.Type().String(), "haproxy.Config") {
			clearModel = s.Instr
		}
	}
	if clearLinks == nil || clearModel == nil {
		c.Violated("converters.Sync clears links and model on full sync", c.Pos(fn.Pos()), "ClearLinks / haproxy.Clear not found")
		return
	}
	m := matchers{
		"batch":   has("NeedFullSync", "~NeedFullSync()"),
		"gateway": has("gateway.Config", "NeedFullSync()"),
		"ingress": has("ingress.Config", "NeedFullSync()"),
	}
	m["batch"] = func(k string) bool { return strings.HasSuffix(k, ".NeedFullSync") && strings.Contains(k, "changed") }
	m["gateway"] = func(k string) bool {
		return strings.Contains(k, "NewGatewayConverter(") && strings.HasSuffix(k, ".NeedFullSync()")
	}
	m["ingress"] = func(k string) bool {
		return strings.Contains(k, "NewIngressConverter(") && strings.HasSuffix(k, ".NeedFullSync()") && !strings.Contains(k, "NewGatewayConverter(")
	}
	if t.Err != "" {
		c.Undecided("converters.Sync full-sync condition", c.Pos(fn.Pos()), t.Err)
	} else {
		cond, _ := t.InstrCond(clearLinks)
		bind := &core.Binding{Names: make([]string, len(t.Atoms))}
		bad := ""
		for i, a := range t.Atoms {
			if !cond.DependsOn(i) {
				continue
			}
			for nme, f := range m {
				if f(a) {
					bind.Names[i] = nme
				}
			}
			if bind.Names[i] == "" {
				bad = a
			}
		}
		found := map[string]bool{}
		for _, n := range bind.Names {
			found[n] = true
		}
		if bad != "" {
			c.Violated("converters.Sync full-sync condition", at(c, clearLinks), "depends on `"+bad+"`")
		} else if !found["batch"] || !found["gateway"] || !found["ingress"] {
			c.Violated("converters.Sync full-sync condition", at(c, clearLinks), fmt.Sprintf("the full-sync decision does not depend on all three sources (batch flag, gateway links, ingress globals/default crt): found %v; atoms: %s", found, strings.Join(t.Atoms, " ; ")))
		} else {
			ok, diff, _ := t.Compare(cond, bind, func(v map[string]bool) bool { return v["batch"] || v["gateway"] || v["ingress"] }, nil)
			c.Check(ok, "converters.Sync full-sync condition", at(c, clearLinks), "ClearLinks runs iff batch || gateway || ingress needs a full sync", diff)
		}
		c2, _ := t.InstrCond(clearModel)
		c1, _ := t.InstrCond(clearLinks)
		c.Check(c1.Eq(c2), "links and model are cleared together", at(c, clearModel), "", "tracker links and the model are cleared under different conditions")
	}
	// both clears precede every converter Sync
	isConvSync := func(in ssa.Instruction) bool {
		call, ok := in.(*ssa.Call)
		if !ok || !call.Call.IsInvoke() || call.Call.Method.Name() != "Sync" {
			return false
		}
		return true
	}
	// on the full path: no converter Sync before the clears
	for _, b := range fn.Blocks {
		for _, in := range b.Instrs {
			if isConvSync(in) {
				r := core.Reaches(fn, in, func(x ssa.Instruction) bool { return x == clearLinks || x == clearModel })
				c.Check(r == nil, "no converter runs before the clear", at(c, in), "", "a converter Sync can run before links/model are cleared")
			}
		}
	}
	// the same value goes to every converter
	var flag ssa.Value
	same := true
	n := 0
	for _, b := range fn.Blocks {
		for _, in := range b.Instrs {
			if !isConvSync(in) {
				continue
			}
			call := in.(*ssa.Call)
			if len(call.Call.Args) == 0 {
				continue // configmap converter
			}
			n++
			if flag == nil {
				flag = call.Call.Args[0]
			} else if call.Call.Args[0] != flag {
				same = false
			}
		}
	}
	okFlag := flag != nil && same
	if okFlag {
		// and that value is the one that guards the clears
		for _, e := range core.ControllingEdges(clearLinks.Block()) {
			if e.If.Cond == flag && e.Branch {
				okFlag = true
			}
		}
	}
	c.Check(okFlag && n >= 2, "the full-sync decision is passed to every converter", c.Pos(fn.Pos()), fmt.Sprintf("%d converter Sync calls receive the same value", n), "converters receive different full-sync flags (or a different value than the one that cleared the model): a converter runs partially on an empty model")
	// ingress.NeedFullSync
	if f := c.Fn("converters/ingress", "converter.NeedFullSync"); f != nil {
		tableRule(c, "ingress.NeedFullSync", f, 0, matchers{
			"crt":    has("defaultCrtNeedFullSync("),
			"global": has("globalConfigNeedFullSync("),
		}, func(v map[string]bool) bool { return v["crt"] || v["global"] })
	}
	if f := c.Fn("converters/ingress", "converter.globalConfigNeedFullSync"); f != nil {
		tableRule(c, "ingress.globalConfigNeedFullSync", f, 0, matchers{
			"hasNew": has("GlobalConfigMapDataNew != nil"),
			"equal":  has("reflect.DeepEqual(", "GlobalConfigMapDataCur", "GlobalConfigMapDataNew"),
		}, func(v map[string]bool) bool { return v["hasNew"] && !v["equal"] })
	}
	if f := c.Fn("converters/ingress", "converter.defaultCrtNeedFullSync"); f != nil {
		tableRule(c, "ingress.defaultCrtNeedFullSync", f, 0, matchers{
			"file": has("DefaultCrtFile != ", "defaultCrt.Filename"),
			"hash": has("DefaultCrtHash != ", "defaultCrt.SHA1Hash"),
		}, func(v map[string]bool) bool { return v["file"] || v["hash"] })
	}
}

func c01GatewayFull(c *core.Ctx) {
	if fn := c.Fn("converters/gateway", "converter.Sync"); fn != nil {
		// every call with effects is on the full edge
		ok := true
		n := 0
		for _, s := range core.Calls(fn, false) {
			if s.Common().StaticCallee() == nil {
				continue
			}
			n++
			if !guardedBy(s.Instr, func(k string) bool { return k == "full" }, true) {
				ok = false
			}
		}
		c.Check(ok && n > 0, "gateway.Sync acts only when full", c.Pos(fn.Pos()), "", "gateway.Sync does work on a partial sync: routes are synced over a model that still holds their previous hosts and backends")
	}
	if fn := c.Fn("converters/gateway", "converter.NeedFullSync"); fn != nil {
		t := core.ExtractTable(fn)
		b, err := t.Bind(matchers{"linked": has("QueryLinks(", `["Gateway"],ok#1`)})
		if err != nil || t.Err != "" {
			c.Undecided("gateway.NeedFullSync", c.Pos(fn.Pos()), fmt.Sprint(t.Err, err))
			return
		}
		res, _ := t.BoolResult(0)
		ok, diff, _ := t.Compare(res, b, func(v map[string]bool) bool { return v["linked"] }, nil)
		c.Check(ok, "gateway.NeedFullSync", c.Pos(fn.Pos()), "true iff Gateway is among the links of the changed objects", diff)
		// QueryLinks must not remove matches here
		for _, s := range core.Calls(fn, false) {
			if s.Common().IsInvoke() && s.Common().Method.Name() == "QueryLinks" {
				c.Check(core.IsConstBool(s.Common().Args[1], false) && strings.HasSuffix(core.Key(s.Common().Args[0]), "changed.Links"), "gateway.NeedFullSync only queries", at(c, s.Instr), "", "the gateway's query removes the links the ingress converter needs afterwards, or does not query the batch links")
			}
		}
	}
}
